(* C12 — Reverse proxy routes matching requests to a configured upstream, as documented.
   Statements only; proofs are in Net/ReverseFacts.v.  Model: Net/Reverse.v.

   Scope of every statement: the FIRST request of a client connection (state [init_state]);
   ReverseProxy is the only HttpWebServerBasePlugin and the static server is off (what
   --enable-reverse-proxy loads); plugins keep the default protocols(); handle_route is a function
   of the request; DEFAULT_DISABLE_HEADERS = [] (checked against /repo on every run).
   [re_match] is Python's re (oracle), the list [rs] the raw draws behind random.choice, the
   configured upstream URL is the already parsed [url] record.
   A second keep-alive request on the same connection replaces self.upstream (known defect owned
   by C04/C10) and is outside these theorems. *)
From PM Require Import Lib.Bytes Lib.PyStr Net.Reverse Net.ReverseFacts.
Open Scope N_scope.

(* One plugin (the documented configuration), any table, any request, any draw:
   if [r] is the first route of the table whose pattern matches the request path and [u] the
   upstream it designates (the URL random.choice picks from a static route's list for draw
   [hd 0 rs]; the Url a dynamic route's handle_route returns), then exactly one outbound connection
   is made, to (host u, port u or 80/443 by scheme), TLS is wrapped for that host iff the scheme is
   https, nothing is queued to the client, exactly one packet is queued to the upstream, and a
   reference HTTP/1.1 reader of that packet sees the client's method and version, the URL's path
   (or "/") as request-target, the client's header fields in order with the Host value replaced by
   the upstream authority iff --rewrite-host-header, and the client's body (see [forwarded]). *)
Theorem C12_routes :
  forall (pattern : Type) (re_match : pattern -> bytes -> bool)
         (cfg : config) (pl : plugin pattern) (req : request) (p : bytes) (rs : list nat)
         (r : route pattern) (u : url),
    r_path req = Some p -> truthy p = true -> utf8_valid p = true ->
    before_routing pl req = Some req ->
    first_match re_match p (p_routes pl) = Some r ->
    selects r req (hd O rs) u ->
    wf_url u = true -> wf_request req = true -> disable_headers cfg = [] ->
    exists h wire st',
      u_hostname u = Some h /\
      on_request_complete re_match cfg [pl] ConnOk (Ok tt) req rs init_state = (st', draws_after r rs, Ok false) /\
      connect_log st' = [(h, upstream_port u)] /\
      wrap_log st' = (if scheme_is u HTTPS_PROTO then [h] else []) /\
      upstream_ st' = Some (mkUp (h, upstream_port u) [wire] false true) /\
      client_queue st' = [] /\
      ref_parse wire = Some (forwarded cfg u req).
Proof. exact routes_single. Qed.
Print Assumptions C12_routes.

(* "defaulting by scheme", spelled out (an explicit port 0 counts as absent: `port or DEFAULT`) *)
Theorem C12_port_default : forall u,
  upstream_port u =
  match u_port u with
  | Some p => if p =? 0 then (if scheme_is u HTTP_PROTO then 80 else 443) else p
  | None => if scheme_is u HTTP_PROTO then 80 else 443
  end.
Proof. exact upstream_port_spec. Qed.
Print Assumptions C12_port_default.

(* random.choice: the designated upstream is one of the route's URLs, and every URL of the route
   is designated by some draw *)
Theorem C12_choice : forall (urls : list url),
  (forall d u, random_choice urls d = Ok u -> In u urls) /\
  (forall u, In u urls -> exists d, random_choice urls d = Ok u) /\
  (urls <> [] -> forall d, exists u, random_choice urls d = Ok u).
Proof.
  intros urls. split; [|split].
  - intros d u. exact (random_choice_in urls d u).
  - intros u. exact (random_choice_onto urls u).
  - intros H d. exact (random_choice_total urls d H).
Qed.
Print Assumptions C12_choice.

(* Without exception the header list is exactly the client's (Host apart) when the request has no
   body, and also when its Content-Length field already carries the canonical decimal length *)
Theorem C12_headers_preserved : forall cfg u req,
  (get_body_or_chunks (chunk_size cfg) req = None ->
   m_headers (forwarded cfg u req) = map (rewrite_host cfg u) (r_headers req)) /\
  (forall k,
     let hs := map (rewrite_host cfg u) (r_headers req) in
     let n := dec_of_N (len (opt_bytes (get_body_or_chunks (chunk_size cfg) req))) in
     find (fun kv => bytes_eqb (lower (fst kv)) (lower (bs "Content-Length"))) hs = Some (k, n) ->
     find (fun kv => bytes_eqb k (fst kv)) hs = Some (k, n) ->
     m_headers (forwarded cfg u req) = hs).
Proof.
  intros cfg u req. split.
  - intros H. unfold forwarded. cbn [m_headers]. rewrite H. apply fix_content_length_no_body.
  - intros k hs n H1 H2. unfold forwarded. cbn [m_headers]. apply (fix_content_length_canonical _ _ k H1 H2).
Qed.
Print Assumptions C12_headers_preserved.

(* Which route wins.  Inside one plugin's table: the first route, in table order, whose pattern
   matches. *)
Theorem C12_first_match :
  forall (pattern : Type) (re_match : pattern -> bytes -> bool) (p : bytes)
         (rts : list (route pattern)) (r : route pattern),
    first_match re_match p rts = Some r ->
    exists pre post, rts = pre ++ r :: post /\ re_match (route_pat r) p = true /\
                     forall r', In r' pre -> re_match (route_pat r') p = false.
Proof. exact first_match_spec. Qed.
Print Assumptions C12_first_match.

(* Across plugins the code does NOT stop at the first match: the `break` leaves only the inner
   loop, so the first matching route of EVERY plugin fires, in plugin order (a later plugin's URL
   overrides an earlier one's; literal answers of all of them are queued). *)
Theorem C12_every_plugin_fires :
  forall (pattern : Type) (re_match : pattern -> bytes -> bool) (ps : list (plugin pattern))
         (req : request) (p : bytes) (rs : list nat) (st : state) (needs : bool),
    r_path req = Some p -> utf8_valid p = true ->
    plugins_loop re_match ps req rs st needs = fire_all (fired re_match p ps) req rs st needs.
Proof. exact plugins_loop_fired. Qed.
Print Assumptions C12_every_plugin_fires.

(* Any number of plugins: a request matching some route, handled without exception, either got
   only literal answers (nothing connected) or caused exactly one connection, to host:port of an
   upstream offered by a route that fired, which was sent the client's request under the
   documented rewriting. *)
Theorem C12_routes_any_plugins :
  forall (pattern : Type) (re_match : pattern -> bytes -> bool)
         (cfg : config) (ps : list (plugin pattern)) (req : request) (p : bytes) (rs : list nat)
         (st' : state) (rs' : list nat) (td : bool),
    r_path req = Some p -> truthy p = true -> utf8_valid p = true ->
    (forall pl, In pl ps -> before_routing pl req = Some req) ->
    no_conn pattern (fired re_match p ps) req ->
    (forall r u, In r (fired re_match p ps) -> offers r req u -> wf_url u = true) ->
    wf_request req = true -> disable_headers cfg = [] ->
    existsb (fun pat => re_match pat p) (routes ps) = true ->
    on_request_complete re_match cfg ps ConnOk (Ok tt) req rs init_state = (st', rs', Ok td) ->
    td = false /\
    ((connect_log st' = [] /\ wrap_log st' = [] /\ upstream_ st' = None) \/
     exists r u h wire,
       In r (fired re_match p ps) /\ offers r req u /\ u_hostname u = Some h /\
       connect_log st' = [(h, upstream_port u)] /\
       wrap_log st' = (if scheme_is u HTTPS_PROTO then [h] else []) /\
       upstream_ st' = Some (mkUp (h, upstream_port u) [wire] false true) /\
       ref_parse wire = Some (forwarded cfg u req)).
Proof. exact routes_sound. Qed.
Print Assumptions C12_routes_any_plugins.

(* A dynamic route answering with literal bytes: they are queued to the client as they are,
   nothing is connected, the connection stays up. *)
Theorem C12_literal :
  forall (pattern : Type) (re_match : pattern -> bytes -> bool)
         (cfg : config) (pl : plugin pattern) (co : conn_outcome) (wo : result unit) (req : request)
         (p : bytes) (rs : list nat) (pat : pattern) (h : request -> result dyn) (b : bytes),
    r_path req = Some p -> truthy p = true -> utf8_valid p = true ->
    before_routing pl req = Some req ->
    first_match re_match p (p_routes pl) = Some (Dynamic pat h) ->
    h req = Ok (DBytes b) ->
    on_request_complete re_match cfg [pl] co wo req rs init_state
    = (client_queue_add (set_route init_state) b, rs, Ok false).
Proof. exact literal_single. Qed.
Print Assumptions C12_literal.

(* No route: the 404 packet is queued, teardown is requested, and nothing else happened
   (connect_log = [], no upstream object), for every table, request, connect outcome and draws. *)
Theorem C12_no_route :
  forall (pattern : Type) (re_match : pattern -> bytes -> bool)
         (cfg : config) (ps : list (plugin pattern)) (co : conn_outcome) (wo : result unit)
         (req : request) (rs : list nat),
    utf8_valid (or_slash (r_path req)) = true ->
    existsb (fun pat => re_match pat (or_slash (r_path req))) (routes ps) = false ->
    on_request_complete re_match cfg ps co wo req rs init_state
    = (mkState None None
         [bs "HTTP/1.1 404 NOT FOUND" ++ CRLF ++ bs "Server: " ++ server_agent cfg ++ CRLF
          ++ bs "Content-Length: 0" ++ CRLF ++ bs "Connection: close" ++ CRLF ++ CRLF]
         [] [] [] false, rs, Ok true).
Proof.
  intros pattern re_match cfg ps co wo req rs Hu Hn.
  rewrite (no_route pattern re_match cfg ps co wo req rs Hu Hn).
  unfold client_queue_add, init_state. cbn [choice upstream_ client_queue connect_log wrap_log orphans route_set app].
  rewrite (not_found_bytes (server_agent cfg)). reflexivity.
Qed.
Print Assumptions C12_no_route.

(* ... and even when the path does not decode, or whatever exception is raised: no route, no
   connection attempt, no TLS wrap, no upstream object. *)
Theorem C12_no_connect_without_route :
  forall (pattern : Type) (re_match : pattern -> bytes -> bool)
         (cfg : config) (ps : list (plugin pattern)) (co : conn_outcome) (wo : result unit)
         (req : request) (rs : list nat),
    (forall t, text_ (or_slash (r_path req)) = Ok t -> existsb (fun pat => re_match pat t) (routes ps) = false) ->
    let st' := fst (fst (on_request_complete re_match cfg ps co wo req rs init_state)) in
    connect_log st' = [] /\ upstream_ st' = None /\ wrap_log st' = [].
Proof. exact no_connect_without_route. Qed.
Print Assumptions C12_no_connect_without_route.

(* The upstream's answer: every received segment is queued to the client unmodified and in order,
   for every segmentation; the byte stream queued does not depend on the segmentation. *)
Theorem C12_response_relayed : forall segs st, upstream_ st <> None ->
  exists st', read_all (map RData segs) st = (st', Ok false) /\
              client_queue st' = client_queue st ++ segs /\
              connect_log st' = connect_log st /\ upstream_ st' = upstream_ st.
Proof. exact response_relayed. Qed.
Print Assumptions C12_response_relayed.

Theorem C12_response_segmentation_independent : forall segs1 segs2 st st1 st2 r1 r2,
  upstream_ st <> None -> concat segs1 = concat segs2 ->
  read_all (map RData segs1) st = (st1, r1) -> read_all (map RData segs2) st = (st2, r2) ->
  concat (client_queue st1) = concat (client_queue st) ++ concat segs1 /\
  concat (client_queue st2) = concat (client_queue st1).
Proof. exact response_segmentation_independent. Qed.
Print Assumptions C12_response_segmentation_independent.

(* ------------------------------------------------------------------ non-vacuity *)
Definition ex_match (i : N) (p : bytes) : bool :=
  ((i =? 0) && bytes_eqb p (bs "/other")) || ((i =? 1) && bytes_eqb p (bs "/get"))
  || ((i =? 2) && is_prefix (bs "/get") p) || ((i =? 3) && bytes_eqb p (bs "/lit")).
Definition ex_u1 := mkUrl (Some (bs "http")) (Some (bs "up1.example")) None None.
Definition ex_u2 := mkUrl (Some (bs "https")) (Some (bs "up2.example")) (Some 8443) (Some (bs "/base?x=1")).
Definition ex_u3 := mkUrl (Some (bs "http")) (Some (bs "[::1]")) (Some 81) (Some (bs "/dyn")).
Definition ex_plugin : plugin N :=
  mkPlugin (fun r => Some r)
    [Static 0 [ex_u1]; Static 1 [ex_u1; ex_u2]; Dynamic 2 (fun _ => Ok (DUrl ex_u3));
     Dynamic 3 (fun _ => Ok (DBytes (bs "HTTP/1.1 204 No Content")))].
Definition ex_req (path : bytes) : request :=
  mkRequest (bs "POST") (Some path) (bs "HTTP/1.1")
    [(bs "host", (bs "Host", bs "me.example")); (bs "x-a", (bs "X-A", bs "1"));
     (bs "content-length", (bs "content-length", bs "3"))] (Some (bs "abc")) false.
Definition ex_cfg (rw : bool) := mkConfig rw 131072 [] (bs "proxy.py v0").

(* the hypotheses of C12_routes hold for a table where several routes match (1 and 2 match /get,
   route 1 wins), for both upstreams of the winning route and both flag settings; and the outcome
   computed by the model is the documented one *)
Example C12_nonvacuous :
  first_match ex_match (bs "/get") (p_routes ex_plugin) = Some (Static 1 [ex_u1; ex_u2]) /\
  selects (Static 1 [ex_u1; ex_u2]) (ex_req (bs "/get")) 4 ex_u1 /\
  selects (Static 1 [ex_u1; ex_u2]) (ex_req (bs "/get")) 7 ex_u2 /\
  first_match ex_match (bs "/getx") (p_routes ex_plugin) = Some (Dynamic 2 (fun _ => Ok (DUrl ex_u3))) /\
  wf_url ex_u1 = true /\ wf_url ex_u2 = true /\ wf_url ex_u3 = true /\
  wf_request (ex_req (bs "/get")) = true /\ utf8_valid (bs "/get") = true /\
  (let '(st, _, r) := on_request_complete ex_match (ex_cfg true) [ex_plugin] ConnOk (Ok tt) (ex_req (bs "/get")) [7%nat] init_state in
   r = Ok false /\ connect_log st = [(bs "up2.example", 8443)] /\ wrap_log st = [bs "up2.example"] /\
   option_map up_buffer (upstream_ st) =
     Some [bs "POST /base?x=1 HTTP/1.1" ++ CRLF ++ bs "Host: up2.example:8443" ++ CRLF ++ bs "X-A: 1" ++ CRLF
           ++ bs "content-length: 3" ++ CRLF ++ CRLF ++ bs "abc"]) /\
  (let '(st, _, r) := on_request_complete ex_match (ex_cfg false) [ex_plugin] ConnOk (Ok tt) (ex_req (bs "/get")) [4%nat] init_state in
   r = Ok false /\ connect_log st = [(bs "up1.example", 80)] /\ wrap_log st = [] /\
   option_map up_buffer (upstream_ st) =
     Some [bs "POST / HTTP/1.1" ++ CRLF ++ bs "Host: me.example" ++ CRLF ++ bs "X-A: 1" ++ CRLF
           ++ bs "content-length: 3" ++ CRLF ++ CRLF ++ bs "abc"]) /\
  (let '(st, _, r) := on_request_complete ex_match (ex_cfg true) [ex_plugin] ConnOk (Ok tt) (ex_req (bs "/nope")) [] init_state in
   r = Ok true /\ connect_log st = [] /\ upstream_ st = None /\ length (client_queue st) = 1%nat).
Proof. vm_compute. repeat split; reflexivity. Qed.
