(* C14 — the proxy connects to exactly the host and port the request-target names.
   Statements only; proofs are in Http/UrlFacts.v (and Lib/PyStrFacts.v).
   Model: Http/Url.v (Url.from_bytes, Url._parse, HttpParser._set_line_attributes), Http/Upstream.v
   (connect_upstream, TcpServerConnection.connect, new_socket_connection); reference grammar: Http/UrlSpec.v. *)
From PM Require Import Lib.Bytes Lib.PyStr Lib.PyStrFacts Http.Url Http.UrlSpec Http.Upstream Http.UrlFacts
                       Http.Chunk Http.Parser.
From Coq Require Import ZArith.

(* Every well-formed target (origin-form, absolute-form with optional userinfo / port / path, authority-form;
   reg-names incl. UTF-8, IPv4, bracketed IPv6 with any number >= 2 of colons; ports as arbitrary digit
   strings, so also 0 and leading zeros; any bytes in the path) is derived to exactly the expected
   (host as written, port or 80 / 443-for-CONNECT, path).  No bound on any length (beyond CPython's own
   4300-digit limit on int(), which is part of wf_port). *)
Theorem C14_derive_roundtrip : forall is_connect t, wf_target t = true ->
  derive is_connect (render_target t) = Ok (expected is_connect t).
Proof. exact derive_roundtrip. Qed.
Print Assumptions C14_derive_roundtrip.

(* derive is what HttpParser computes from the request line "<method> SP <target> SP <version> CRLF" *)
Theorem C14_request_line : forall p m target ver rest,
  is_request (ty p) = true -> is_https_tunnel p = false ->
  ~ In SP m -> ~ In SP target -> ~ In CR (m ++ SP :: target ++ SP :: ver) ->
  match derive (bytes_eqb m CONNECT) target with
  | Ok (h, pt, pa) =>
      exists more p', process_line DEFAULT_ALLOWED_URL_SCHEMES p ((m ++ SP :: target ++ SP :: ver) ++ CRLF ++ rest)
                      = Ok (more, rest, p') /\ host p' = h /\ port p' = pt /\ path p' = pa
  | Err e => process_line DEFAULT_ALLOWED_URL_SCHEMES p ((m ++ SP :: target ++ SP :: ver) ++ CRLF ++ rest) = Err e
  end.
Proof. exact process_line_derive. Qed.
Print Assumptions C14_request_line.

(* The address handed to the socket layer.  For every oracle [ipv] (ipaddress.ip_address), every well-formed
   target naming (h, p) (h WITHOUT brackets): with 0 < p <= 65535 the one socket-level call made is the
   literal/name dispatch on exactly (h, p) — AF_INET / AF_INET6 connect for literals, create_connection for
   names —; with p = 0 or p > 65535 the request is rejected as a protocol error and nothing is connected
   (the resolver would reduce p modulo 65536).  Origin-form names no host: protocol error from the proxy
   plugin, nothing connected. *)
Theorem C14_connect_addr : forall ipv is_connect t,
  wf_target t = true ->
  match expected_addr is_connect t with
  | Some (h, p) =>
      (port_in_range p -> route ipv is_connect (render_target t) = Ok (dispatch ipv h p) /\
                          call_addr (dispatch ipv h p) = (h, p)) /\
      (~ port_in_range p -> exists k, route ipv is_connect (render_target t) = Err (HttpProtocolException k))
  | None => route ipv is_connect (render_target t) = Err (HttpProtocolException 3)
  end.
Proof. exact connect_addr. Qed.
Print Assumptions C14_connect_addr.

(* For EVERY input, well-formed or not: a socket call is only ever made for a non-empty derived host and a
   derived port in 1..65535, and it goes to exactly that host (one pair of enclosing brackets removed) and port. *)
Theorem C14_route_sound : forall ipv is_connect raw call,
  route ipv is_connect raw = Ok call ->
  exists h p pa, derive is_connect raw = Ok (Some h, Some p, pa) /\ h <> [] /\ port_in_range p /\
                 call = dispatch ipv (strip_brackets h) p /\ call_addr call = (strip_brackets h, p).
Proof. exact route_sound. Qed.
Print Assumptions C14_route_sound.

(* FULL STATEMENT (false of the code, see C14_lenient_refuted):
     forall raw, (exists t, wf_target t = true /\ render_target t = raw) \/ exists e, route ipv c raw = Err e
   i.e. everything outside the grammar is rejected.
   PROVED PART: for EVERY input, whatever is accepted is routed where it says — the derived host is literally
   the text before the last colon of the target's host[:port] text [ref_hostport_text: between "://" (or a
   leading "//") and the next "/", after the first "@"; the whole target when it has no scheme] and the port
   is the number after that colon (default when the text after the last colon is no number / there is no
   colon) — unless the text has the shape on which the "patch up invalid ipv6" leniency acts:
     lenient_ipv6_shape hp = two or more colons and (no leading '[' or exactly two colons followed by a number).
   Missing for the full statement: rejection of non-grammar targets that are accepted leniently (int() literals
   such as "+80", un-bracketed IPv6, "//host/path" in origin position, authority not ended by '?'/'#'). *)
Theorem C14_no_misroute_partial : forall is_connect raw h p pa hp,
  derive is_connect raw = Ok (Some h, Some p, pa) ->
  ref_hostport_text raw = Some hp -> lenient_ipv6_shape hp = false ->
  h = fst (ref_hostport hp) /\
  p = match snd (ref_hostport hp) with Some n => n | None => default_port is_connect end.
Proof. exact no_misroute. Qed.
Print Assumptions C14_no_misroute_partial.

(* Refutation of the full statement (finding C14-unbracketed-ipv6-misroute): "http://::1/x" is not a rendering
   of any well-formed target, has the lenient shape, and the proxy connects to [::]:1 — an address and a
   port the target does not name (the un-bracketed literal ::1 plainly means loopback on the default port). *)
Theorem C14_lenient_refuted : forall ipv,
  exists raw call,
    (forall t, wf_target t = true -> render_target t <> raw) /\
    route ipv false raw = Ok call /\
    call_addr call = (bytes_of_string "::", 1%Z) /\
    ref_hostport_text raw = Some (bytes_of_string "::1") /\
    lenient_ipv6_shape (bytes_of_string "::1") = true.
Proof. exact lenient_refuted. Qed.
Print Assumptions C14_lenient_refuted.

(* Also accepted although outside the grammar: "CONNECT :::443" -> ("::", 443).  This one is routed to what the
   text plainly means (un-bracketed literal + mandatory port), so it is a recorded leniency, not a finding; it
   still refutes "everything outside the grammar is rejected". *)
Theorem C14_lenient_connect_refuted : forall ipv,
  exists raw call,
    (forall t, wf_target t = true -> render_target t <> raw) /\
    route ipv true raw = Ok call /\ call_addr call = (bytes_of_string "::", 443%Z).
Proof. exact lenient_connect_refuted. Qed.
Print Assumptions C14_lenient_connect_refuted.

(* The guard is needed for bracketed texts too (finding C14-two-colon-trailing-colon): "http://[a:b]:80/" has
   host[:port] text "[a:b]:80" whose last-colon reading is ("[a:b]", 80), but the derived host is "[a:b]:" —
   and that (unresolvable) name is what is handed to the socket layer instead of the target being rejected. *)
Theorem C14_two_colon_refuted : forall ipv,
  exists raw hp h p pa,
    ref_hostport_text raw = Some hp /\ lenient_ipv6_shape hp = true /\
    derive false raw = Ok (Some h, Some p, pa) /\
    ref_hostport hp = (bytes_of_string "[a:b]", Some 80%Z) /\ h = bytes_of_string "[a:b]:" /\
    route ipv false raw = Ok (dispatch ipv h p).
Proof. exact two_colon_refuted. Qed.
Print Assumptions C14_two_colon_refuted.

(* numeric ports: str(n) for 0 <= n < 65536 is a well-formed port text with value n (finite sweep, bound stated) *)
Theorem C14_numeric_ports : forall n, n < 65536 ->
  wf_port (dec_of_N n) = true /\ port_value (dec_of_N n) = Z.of_N n.
Proof. exact dec_port. Qed.
Print Assumptions C14_numeric_ports.

(* ---- non-vacuity: the hypotheses are met by concrete targets of every form, and the conclusions compute ---- *)
Definition ex_targets : list (bool * target) :=
  [ (false, Absolute None (RegName (bs "example.com")) None (Some (bs "/a/b?x=1&y=/:@")));
    (false, Absolute None (IPv4 (bs "192.168.0.1")) (Some (bs "8080")) None);
    (false, Absolute (Some (bs "user", Some (bs "p:w"))) (IPv6 (bs "::1")) (Some (bs "8080")) (Some (bs "/")));
    (false, Absolute (Some (bs "u", None)) (IPv6 (bs "2001:db8::ff00:42:8329")) None (Some (bs "/x")));
    (true,  Authority (IPv6 (bs "::1")) (bs "8080"));
    (true,  Authority (RegName (bs "httpbin.org")) (bs "443"));
    (true,  Absolute None (RegName (bs "h")) None None);
    (false, Absolute None (RegName [195; 165; 46; 99; 111; 109]) (Some (bs "0080")) None);
    (false, Origin (bs "/index.html?q=//x")) ].

Example C14_nonvacuous :
  forallb (fun ct => wf_target (snd ct)) ex_targets = true /\
  map (fun ct => expected_addr (fst ct) (snd ct)) ex_targets =
  [ Some (bs "example.com", 80%Z); Some (bs "192.168.0.1", 8080%Z); Some (bs "::1", 8080%Z);
    Some (bs "2001:db8::ff00:42:8329", 80%Z); Some (bs "::1", 8080%Z); Some (bs "httpbin.org", 443%Z);
    Some (bs "h", 443%Z); Some ([195; 165; 46; 99; 111; 109], 80%Z); None ] /\
  render_target (snd (nth 2 ex_targets (false, Origin []))) = bs "http://user:p:w@[::1]:8080/" /\
  derive false (bs "http://user:p:w@[::1]:8080/") = Ok (Some (bs "[::1]"), Some 8080%Z, Some (bs "/")) /\
  (* the guard of C14_no_misroute_partial holds on ordinary and on bracketed-IPv6 texts *)
  lenient_ipv6_shape (bs "[::1]:8080") = false /\ lenient_ipv6_shape (bs "example.com:80") = false /\
  ref_hostport (bs "[::1]:8080") = (bs "[::1]", Some 8080%Z).
Proof. vm_compute. repeat split. Qed.

(* leniencies that route to what the target plainly means (recorded, not findings), and other edge behaviour *)
Example C14_leniencies :
  derive false (bs "http://h:+80/") = Ok (Some (bs "h"), Some 80%Z, Some (bs "/")) /\
  derive false (bs "http://h:8_0/") = Ok (Some (bs "h"), Some 80%Z, Some (bs "/")) /\
  derive false (bs "http://h:99999/") = Ok (Some (bs "h"), Some 99999%Z, Some (bs "/")) /\
  derive false (bs "http://h:-1/") = Ok (Some (bs "h"), Some (-1)%Z, Some (bs "/")) /\
  derive false (bs "//h/x") = Ok (Some (bs "h"), Some 80%Z, Some (bs "/x")) /\
  derive false (bs "http://::ffff:1.2.3.4/") = Ok (Some (bs "[::ffff:1.2.3.4]"), Some 80%Z, Some (bs "/")) /\
  derive false (bs "http://[a:b]:80/") = Ok (Some (bs "[a:b]:"), Some 80%Z, Some (bs "/")) /\
  derive false (bs "http://h:/") = Err ValueError /\
  derive false (bs "http://h:8x/") = Err ValueError /\
  derive false (bs "ftp://h/") = Err (HttpProtocolException 1) /\
  (forall ipv, route ipv false (bs "http://h:0/") = Err (HttpProtocolException 3)) /\
  (forall ipv, route ipv false (bs "http://h:65616/") = Err (HttpProtocolException 4)) /\
  (forall ipv, route ipv false (bs "http://h:-1/") = Err (HttpProtocolException 4)) /\
  (forall ipv, route ipv false (bs "http:///x") = Err (HttpProtocolException 3)) /\
  (forall ipv, route ipv false [104; 116; 116; 112; 58; 47; 47; 104; 255; 47] = Err UnicodeDecodeError).
Proof. vm_compute. repeat split. Qed.
