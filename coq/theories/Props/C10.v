(* C10 — every connection's resources are released exactly once, however it ends.
   Statements only.  Proofs: Exec/FdTableFacts.v (descriptor tables, hand-off, what shutdown() closes,
   executor bookkeeping), Exec/ThreadlessFacts.v (the invariant).  The executor model is the repaired
   loop of C05 (Exec/Threadless.v), generic in the work: "for every way a connection can unfold and end"
   is the quantification over all work behaviours and all schedules.

   Full statement of the property, for reference: once a connection is over (normal completion, client or
   upstream closing or resetting at any point, connect failure, protocol error, idle timeout) all sockets
   opened on its behalf are closed, nothing of it remains registered with the worker's event loop, the
   worker's bookkeeping is back to what it was before; repeating any such history any number of times does
   not grow the worker's set of open descriptors.
   Proved: everything the EXECUTOR does (bookkeeping, received handles) for all works/schedules; that
   HttpProtocolHandler.shutdown closes every socket the connection holds, for the handler fragment modelled
   in Exec/FdTable.v, when no plugin hook raises; descriptor tables do not grow under repetition.
   PARTIAL / residue: the kernel's own descriptor facts (close really releases, epoll forgets closed fds),
   which sockets a handler opens while serving (quantified over here, modelled by the Net/ development),
   hooks that raise (C10_release_needs_quiet_hooks), and one recorded violation
   (C10_reverse_replacement_refuted, known finding C10-reverse-upstream-replacement). *)
From PM Require Import Lib.Bytes Lib.ZDict Exec.Threadless Exec.ThreadlessCases Exec.ThreadlessFacts
  Exec.ThreadlessOldFacts Exec.FdTable Exec.FdTableFacts.
From Coq Require Import ZArith.

(* After the iteration step that cleans work i (_cleanup): i is not in works, not in
   registered_events_by_work_ids, no descriptor of i is in the selector map, in remote mode exactly one
   os.close(i) was issued (none if the work was already gone: _cleanup is idempotent); every other work,
   registration and selector key is unchanged, and so are the tasks, the tick, the counters. *)
Theorem C10_bookkeeping :
  forall (W IO : Type) (w_shutdown : W -> IO -> W * result unit) (wq : option fd)
         (e : event W IO) (i : work_id) (st : state W),
    inv W wq None st -> wq <> Some i ->
    let st' := cleanup W IO w_shutdown wq e i st in
    clean W i st' /\
    (forall j, j <> i -> zget j (works st') = zget j (works st) /\ zget j (registered st') = zget j (registered st)) /\
    (forall f m d, d <> i -> (zget f (sel st') = Some (m, d) <-> zget f (sel st) = Some (m, d))) /\
    unfinished st' = unfinished st /\ tick st' = tick st /\ total st' = total st /\
    oslog st' = (match zget i (works st), wq with Some _, Some _ => oslog st ++ [OsClose i] | _, _ => oslog st end) /\
    inv W wq None st'.
Proof. exact cleanup_bookkeeping. Qed.
Print Assumptions C10_bookkeeping.

(* In every reachable state (inv holds after every prefix of every run: C05_bookkeeping_invariant), a work
   that is no longer in works has left nothing behind. *)
Theorem C10_gone_is_clean :
  forall (W : Type) (wq : option fd) (i : work_id) (st : state W),
    inv W wq None st -> zmem i (works st) = false -> wq <> Some i -> clean W i st.
Proof. exact gone_is_clean. Qed.
Print Assumptions C10_gone_is_clean.

(* Every kind of ending removes the work within the same iteration. *)
(* handle_events returned True (normal completion, peer closed or reset, error response flushed) or raised *)
Theorem C10_ending_handle_events :
  forall (W IO : Type) (w_shutdown : W -> IO -> W * result unit) (wq : option fd)
         (e : event W IO) (i : work_id) (res : list (work_id * bool)) (st : state W),
    In (i, true) res -> zmem i (works (cleanup_finished W IO w_shutdown wq e st res)) = false.
Proof. exact finished_teardown_cleaned. Qed.
Print Assumptions C10_ending_handle_events.

(* idle timeout (is_inactive True) or is_inactive raising, at the periodic sweep *)
Theorem C10_ending_inactive :
  forall (W IO : Type) (w_shutdown : W -> IO -> W * result unit) (wq : option fd)
         (e : event W IO) (i : work_id) (l : list work_id) (st : state W),
    In i l -> zmem i (works (fold_left (fun st j => cleanup W IO w_shutdown wq e j st) l st)) = false.
Proof. exact inactive_cleaned. Qed.
Print Assumptions C10_ending_inactive.

(* get_events raising, or the selector refusing a descriptor the work has closed or replaced *)
Theorem C10_ending_failed_update :
  forall (W IO : Type) w_get_events (w_shutdown : W -> IO -> W * result unit) (wq : option fd)
         (e : event W IO) unf (i : work_id) (st st' : state W) x,
    zin i unf = false -> update_work_events W IO w_get_events e i st = (st', Err x) ->
    zmem i (works (update_selector_one W IO w_get_events w_shutdown wq e unf st i)) = false.
Proof. exact failed_update_cleaned. Qed.
Print Assumptions C10_ending_failed_update.

(* initialize raising *)
Theorem C10_ending_failed_init :
  forall (W IO : Type) w_initialize (w_shutdown : W -> IO -> W * result unit) (wq : option fd)
         (e : event W IO) (i : work_id) (w : W) (st : state W) x,
    snd (w_initialize w (ev_io e i)) = Err x ->
    zmem i (works (do_work W IO w_initialize w_shutdown wq e i w st)) = false.
Proof. exact failed_init_cleaned. Qed.
Print Assumptions C10_ending_failed_init.

(* Remote executor: along every run a received handle is open (dup'ed, not yet os.close'd) exactly while its
   work is live — it is closed exactly once, never twice; the local executor never touches descriptors. *)
Theorem C10_handles_closed_exactly_once :
  forall (W IO : Type) w_initialize w_get_events w_handle_events w_shutdown w_is_inactive
         (wq : option fd) (tick_limit : N) (evs : list (event W IO)) st s,
    sched_ok W IO w_initialize w_get_events w_handle_events w_shutdown w_is_inactive wq tick_limit evs (init_state W wq) ->
    run_forever W IO w_initialize w_get_events w_handle_events w_shutdown w_is_inactive wq tick_limit evs (init_state W wq) = (st, s) ->
    forall i, balance i (oslog st) =
              match wq with Some _ => if zmem i (works st) then 1%Z else 0%Z | None => 0%Z end.
Proof. exact handles_closed_exactly_once_run. Qed.
Print Assumptions C10_handles_closed_exactly_once.

(* Any history, repeated any number of times: whenever no work is live the executor's bookkeeping is that of
   a fresh executor and every received handle has been closed. *)
Theorem C10_no_growth :
  forall (W IO : Type) w_initialize w_get_events w_handle_events w_shutdown w_is_inactive
         (wq : option fd) (tick_limit : N) (n : nat) (evs : list (event W IO)) st s,
    sched_ok W IO w_initialize w_get_events w_handle_events w_shutdown w_is_inactive wq tick_limit
             (concat (repeat evs n)) (init_state W wq) ->
    run_forever W IO w_initialize w_get_events w_handle_events w_shutdown w_is_inactive wq tick_limit
                (concat (repeat evs n)) (init_state W wq) = (st, s) ->
    works st = [] ->
    registered st = [] /\ (forall f, zget f (sel st) = zget f (sel (init_state W wq))) /\
    (forall i, balance i (oslog st) = 0%Z).
Proof. exact no_growth_exec. Qed.
Print Assumptions C10_no_growth.

(* Descriptor tables: a history that gives back every descriptor it took restores the table (as a map),
   and so does the same history repeated n times; [restoresb] is the decision procedure evaluated on the
   real open/close traces by the harness. *)
Theorem C10_no_growth_table :
  forall t ops, restores t ops -> forall n, restores t (repeat_ops n ops).
Proof. exact no_growth. Qed.
Print Assumptions C10_no_growth_table.

Theorem C10_restoresb_sound : forall t ops, restoresb t ops = true -> restores t ops.
Proof. exact restoresb_sound. Qed.
Print Assumptions C10_restoresb_sound.

(* HttpProtocolHandler.shutdown (threadless: no flush; no plugin hook raises): every upstream socket the
   plugin holds open is closed, then the client socket; each once; nothing else.  And the client socket is
   closed whatever happens. *)
Theorem C10_release_closes_everything :
  forall env client p, r_flush env = None -> r_hook env = None ->
    fst (handler_shutdown env client p) = map FClose (open_upstreams p) ++ [FClose client].
Proof. exact release_closes_everything. Qed.
Print Assumptions C10_release_closes_everything.

Theorem C10_client_always_closed :
  forall env client p, exists pre, fst (handler_shutdown env client p) = pre ++ [FClose client].
Proof. exact client_always_closed. Qed.
Print Assumptions C10_client_always_closed.

(* The whole life of a connection in a worker — handle received and dup'ed (remote) or socket accepted
   (local), optionally an upstream socket opened, shutdown(), os.close of the handle — restores the
   worker's descriptor table, for every table and all (fresh) descriptor numbers; hence (C10_no_growth_table)
   repeated any number of times. *)
Theorem C10_conn_history_restores :
  forall remote h s cli env t (up : option (fd * ofd)) p,
    r_flush env = None -> r_hook env = None ->
    zmem h t = false -> zmem s t = false -> h <> s -> (0 <= h)%Z -> (0 <= s)%Z ->
    match up with
    | None => open_upstreams p = []
    | Some (f, c) => open_upstreams p = [f] /\ zmem f t = false /\ f <> h /\ f <> s /\ (0 <= f)%Z
    end ->
    restores t (conn_history remote h s cli (match up with Some (f, c) => [FOpen f c] | None => [] end) env p).
Proof. exact conn_history_restores. Qed.
Print Assumptions C10_conn_history_restores.

(* Premise of the two theorems above is needed: a hook that raises before the upstream is closed (or, in
   threaded mode, a flush failing with an OSError other than BrokenPipeError) leaves the upstream open. *)
Theorem C10_release_needs_quiet_hooks :
  forall env client f e, r_flush env = None -> r_hook env = Some e ->
    fst (handler_shutdown env client (PProxy (USock f false))) = [FClose client].
Proof. exact release_hook_raises_leaks. Qed.
Print Assumptions C10_release_needs_quiet_hooks.

(* KNOWN FINDING C10-reverse-upstream-replacement: as found, a second request through the reverse proxy
   on the same client connection replaces the upstream socket and forgets the first one. *)
Theorem C10_reverse_replacement_refuted :
  let '(u, opens) := reverse_requests UNone [Some 8%Z; Some 9%Z] 100 in
  let ops := conn_history false 0%Z 7%Z 50 opens {| r_flush := None; r_hook := None; r_client_shutdown := None; r_up_shutdown := None |}
                          (PWeb (Some u)) in
  exists t', apply_ops [] ops = Ok t' /\ zget 8%Z t' = Some 100 /\ ~ restores [] ops.
Proof. exact reverse_replacement_leaks. Qed.
Print Assumptions C10_reverse_replacement_refuted.

(* non-vacuity: a reachable state with two live works (the invariant holds there, so C10_bookkeeping applies) *)
Example C10_nonvacuous :
  exists st, NEW_RUN None 39 (firstn 2 sched_c) (init_state swork None) = (st, Running)
             /\ zmem 11%Z (works st) = true /\ zmem 12%Z (works st) = true
             /\ inv swork None None st.
Proof.
  eexists. split; [vm_compute; reflexivity|]. split; [reflexivity|]. split; [reflexivity|].
  eapply (reachable_inv swork unit sw_initialize sw_get_events sw_handle_events sw_shutdown sw_is_inactive None 39 (firstn 2 sched_c)).
  - vm_compute. repeat split; discriminate.
  - vm_compute. reflexivity.
Qed.
