(* C19 — Proxy listens where configured, reports its ports truthfully, shuts down cleanly.
   Statements only; proofs are in Boot/ListenFacts.v, the model in Boot/Listen.v (it describes the
   tree with fix 30e746b "primary port was reported from the wrong listener" applied).

   Every theorem quantifies over ALL configurations (any number of addresses and ports, with or
   without unix socket / port file / pid file, every execution mode) and over every behaviour of
   the oracle [os] allowed by [os_spec]:
     - a TCP bind that succeeds on a fixed port reports that port, on port 0 a non-zero port;
     - iterating a Python set yields each element once, in an arbitrary order.
   Start-up may fail (a bind raises, a path is already taken): the theorems speak about the
   start-ups that succeed, [proxy_setup os c w = Ok (p, w')].

   FULL PROPERTY (for the record): "after start-up every configured endpoint ACCEPTS connections,
   flags.port and the port file name exactly the bound TCP ports, primary first; after shutdown no
   endpoint accepts, NO CHILD PROCESS REMAINS, pid and port files are gone."
   PARTIAL: the model shows that a listening socket is bound and held open for every endpoint
   (not that acceptor processes accept on it), that shutdown closes every one of them (closing the
   last descriptor of a listening socket is what makes the kernel refuse), and that shutdown joins
   every child it started (that join() returns, i.e. that the children react to the shutdown
   flag, is runtime behaviour).  These residues are probed live on every run by harness/props/C19.py. *)
From PM Require Import Lib.Bytes Lib.PyStr Boot.Listen Boot.ListenFacts.

(* What the embedding API (flags.port, flags.ports) and the port file report is duplicate-free, is
   exactly the set of TCP ports that were bound (the second inclusion under the property's
   restriction: OS-assigned ports only together with a single listening address), the primary
   port - the one of the listener created for --port, which is pool[0] - comes first, and the port
   file holds exactly these ports, one per line, in that order. *)
Theorem C19_reports_truthfully : forall os, os_spec os -> forall c w p w',
  proxy_setup os c w = Ok (p, w') ->
  let r := reported (flags p) in
  NoDup r /\
  (forall q, In q r -> exists h p0, In (TcpL h p0 q) (listeners p)) /\
  (single_or_fixed c -> forall h p0 q, In (TcpL h p0 q) (listeners p) -> In q r) /\
  (unix_socket_path c = None -> exists h0, In h0 (hostname c :: hostnames c) /\
      nth_error (listeners p) 0 = Some (TcpL h0 (port c) (port (flags p)))) /\
  (forall f, port_file c = Some f -> fs w' f = Some (Regular (port_lines r))).
Proof. exact reports_truthfully. Qed.
Print Assumptions C19_reports_truthfully.

(* The port file determines the reported list: reading it line by line as decimal integers gives back
   exactly flags.port followed by flags.ports (so two different port lists never share a file content). *)
Theorem C19_port_file_readable : forall l, read_port_file (port_lines l) = l.
Proof. exact read_port_file_lines. Qed.
Print Assumptions C19_port_file_readable.

(* Every configured (address, port) pair has a listener bound to it (to exactly that port when it
   is fixed, to a non-zero port when it is 0), the unix socket exists when configured, nothing else
   is listened on, there is exactly one listener per endpoint, and all of them are open. *)
Theorem C19_every_endpoint_bound : forall os, os_spec os -> forall c w p w',
  proxy_setup os c w = Ok (p, w') ->
  (forall h r, In h (hostname c :: hostnames c) -> In r (tcp_ports c) ->
     exists q, In (TcpL h r q) (listeners p) /\ (r <> 0 -> q = r) /\ q <> 0) /\
  (forall u, unix_socket_path c = Some u -> In (UnixL u) (listeners p) /\ fs w' u = Some SocketFile) /\
  (forall h r q, In (TcpL h r q) (listeners p) -> In h (hostname c :: hostnames c) /\ In r (tcp_ports c)) /\
  (forall u, In (UnixL u) (listeners p) -> unix_socket_path c = Some u) /\
  length (listeners p) =
    ((match unix_socket_path c with Some _ => 1 | None => 0 end) +
     length (set_hosts os (hostname c :: hostnames c)) * length (tcp_ports c))%nat /\
  listening w' = listening w ++ listeners p.
Proof. exact every_endpoint_bound. Qed.
Print Assumptions C19_every_endpoint_bound.

(* Shutdown after a successful start-up never raises, leaves no listening socket open and no child
   un-joined, removes the pid file, the port file and the unix socket path, and touches no other file. *)
Theorem C19_shutdown_clears : forall os, os_spec os -> forall c w p w',
  proxy_setup os c w = Ok (p, w') ->
  listening w = [] -> children w = [] ->
  exists w2, proxy_shutdown p w' = Ok w2 /\ listening w2 = [] /\ children w2 = [] /\
    (forall f, pid_file c = Some f \/ port_file c = Some f \/ unix_socket_path c = Some f ->
       fs w2 f = None) /\
    (forall f, pid_file c <> Some f -> port_file c <> Some f -> unix_socket_path c <> Some f ->
       fs w2 f = fs w f).
Proof. exact shutdown_clears. Qed.
Print Assumptions C19_shutdown_clears.

(* ---- non-vacuity: the hypotheses are satisfiable and start-up succeeds on non-trivial states ---- *)
Definition w_empty : world := {| fs := fun _ => None; listening := []; children := [] |}.
Definition lo4 : addr := V4 2130706433.   (* 127.0.0.1 *)
Definition lo4b : addr := V4 2130706434.  (* 127.0.0.2 *)
Definition lo6 : addr := V6 1.            (* ::1 *)

(* --hostname 127.0.0.1 --hostnames 127.0.0.1 --port 0 --ports 0 9000 --port-file ports --pid-file pid,
   threadless with remote executors, 1 acceptor, 2 workers (the witness of the repaired defect) *)
Definition ex_cfg : config :=
  {| hostname := lo4; hostnames := [lo4]; port := 0; ports := [0; 9000]; unix_socket_path := None;
     port_file := Some (bs "ports"); pid_file := Some (bs "pid");
     threadless := true; local_executor := false; num_acceptors := 1; num_workers := 2 |}.

Example C19_nonvacuous :
  os_spec ex_os /\ single_or_fixed ex_cfg /\
  exists p w', proxy_setup ex_os ex_cfg w_empty = Ok (p, w') /\
    reported (flags p) = [40000; 40001; 9000] /\
    listeners p = [TcpL lo4 0 40000; TcpL lo4 0 40001; TcpL lo4 9000 9000] /\
    fs w' (bs "ports") = Some (Regular (bs "40000" ++ [LF] ++ bs "40001" ++ [LF] ++ bs "9000" ++ [LF])) /\
    fs w' (bs "pid") = Some (Regular (bs "4242")) /\
    length (children w') = 3%nat.
Proof.
  split; [exact ex_os_spec|]. split.
  - left. intros h [<-|[]]. reflexivity.
  - eexists. eexists. split; [vm_compute; reflexivity|]. vm_compute. repeat split.
Qed.

(* three addresses (IPv4, IPv4, IPv6), fixed ports, a unix socket: 1 + 3 * 2 listeners, all reported *)
Definition ex_cfg2 : config :=
  {| hostname := lo6; hostnames := [lo4; lo4b; lo4]; port := 8899; ports := [9000; 9001];
     unix_socket_path := Some (bs "sock"); port_file := Some (bs "ports"); pid_file := None;
     threadless := false; local_executor := true; num_acceptors := 2; num_workers := 1 |}.

Example C19_nonvacuous_unix :
  single_or_fixed ex_cfg2 /\
  exists p w', proxy_setup ex_os ex_cfg2 w_empty = Ok (p, w') /\
    reported (flags p) = [9000; 9001] /\ length (listeners p) = 7%nat /\
    fs w' (bs "sock") = Some SocketFile /\
    exists w2, proxy_shutdown p w' = Ok w2 /\ fs w2 (bs "sock") = None /\ fs w2 (bs "ports") = None.
Proof.
  split.
  - right. vm_compute. intros [H|[H|[]]]; discriminate.
  - eexists. eexists. split; [vm_compute; reflexivity|]. vm_compute. repeat split.
    eexists. repeat split.
Qed.

(* the restriction in the property's quantifier is needed: with two addresses and an OS-assigned
   port each address gets its own port, and only the first one can be reported *)
Example C19_restriction_needed :
  exists c p w', proxy_setup ex_os c w_empty = Ok (p, w') /\ ~ single_or_fixed c /\
    In (TcpL lo4b 0 40001) (listeners p) /\ ~ In 40001 (reported (flags p)).
Proof.
  exists {| hostname := lo4; hostnames := [lo4b]; port := 0; ports := []; unix_socket_path := None;
            port_file := None; pid_file := None; threadless := true; local_executor := true;
            num_acceptors := 1; num_workers := 1 |}.
  eexists. eexists. split; [vm_compute; reflexivity|]. split; [|split].
  - intros [H|H].
    + specialize (H lo4b (or_introl eq_refl)). discriminate.
    + apply H. vm_compute. now left.
  - vm_compute. right. now left.
  - vm_compute. intros [H|[]]. discriminate.
Qed.
