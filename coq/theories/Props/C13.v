(* C13 — the static file server never serves anything outside its directory.
   Statements only; proofs are in Net/StaticFacts.v.

   Vocabulary (Net/StaticSpec.v, written independently of the code model Net/Static.v):
     resolve p        the list of names from / down to what the absolute path string p names, by a
                      stack: "" and "." name nothing, ".." pops (the parent of / is /), a name pushes
     inside dir full  resolve dir is a prefix of resolve full AS A LIST OF NAMES
     fsmap / kopen    a file system without symbolic links (names below / -> file | directory) and
                      the kernel's walk of a path string through it, as open() performs it
   Model (Net/Static.v): try_static_or_404 dir mcl agent fs guess_type gz path is the packet
   HttpWebServerPlugin._try_static_or_404 queues for the client (Ok) or the exception that escapes
   with nothing queued (Err); fs / guess_type / gz stand for open(), mimetypes.guess_type and
   gzip.compress and are universally quantified.  gunz is any left inverse of gz. *)
From PM Require Import Lib.Bytes Lib.PyStr Net.Static Net.StaticSpec Net.StaticFacts.
From Coq Require Import ZArith.

(* Every reply is the 404 packet, or a 200 response whose body -- after undoing the content-encoding
   its headers advertise -- is byte-identical to the file the path names once the query is cut off,
   and that path, after resolving dot-segments, lies inside the static directory. *)
Theorem C13_confined :
  forall dir mcl agent fs guess_type gz gunz,
    (forall x, gunz (gz x) = x) ->
    startswith dir [SLASH] = true ->
    forall path reply,
      try_static_or_404 dir mcl agent fs guess_type gz path = Ok reply ->
      reply = NOT_FOUND_RESPONSE_PKT agent
      \/ exists content headers body,
           inside dir (dir ++ before_q path)
           /\ fs (dir ++ before_q path) = Some content
           /\ reply = build_http_response 200 (Some (bs "OK")) headers (Some body) true false
           /\ undo_encoding gunz headers body = content.
Proof. exact confined. Qed.
Print Assumptions C13_confined.

(* Every other path -- parent-directory traversal in any spelling, separators leading out, names that
   merely share the directory's prefix -- is answered 404. *)
Theorem C13_outside_is_404 :
  forall dir mcl agent fs guess_type gz,
    startswith dir [SLASH] = true ->
    forall path,
      utf8_valid path = true ->
      ~ inside dir (dir ++ before_q path) ->
      try_static_or_404 dir mcl agent fs guess_type gz path = Ok (NOT_FOUND_RESPONSE_PKT agent).
Proof. exact outside_is_404. Qed.
Print Assumptions C13_outside_is_404.

(* The two kinds of reply cannot be confused on the wire. *)
Theorem C13_ok_reply_is_not_404 :
  forall agent headers body,
    build_http_response 200 (Some (bs "OK")) headers (Some body) true false
    <> NOT_FOUND_RESPONSE_PKT agent.
Proof. exact ok_reply_is_not_404. Qed.
Print Assumptions C13_ok_reply_is_not_404.

(* ... and seen from the client peer, on the wire: when the reply is not the 404 packet it reads back
   (head up to the first empty line, cut into lines; rest = body) as status line "HTTP/1.1 200 OK",
   a Content-Length equal to the body length, and a body that -- gunzipped exactly when a header
   line "Content-Encoding: gzip" is present -- is the file's content, byte for byte.
   (mimetypes is assumed not to return a type containing a carriage return.) *)
Theorem C13_served_reads_back :
  forall dir mcl agent fs guess_type gz gunz,
    (forall x, gunz (gz x) = x) ->
    startswith dir [SLASH] = true ->
    (forall p t, guess_type p = Some t -> mem_byte CR t = false) ->
    forall path reply,
      try_static_or_404 dir mcl agent fs guess_type gz path = Ok reply ->
      reply <> NOT_FOUND_RESPONSE_PKT agent ->
      exists content hdrs body,
        inside dir (dir ++ before_q path)
        /\ fs (dir ++ before_q path) = Some content
        /\ read_reply reply = Some (bs "HTTP/1.1 200 OK" :: hdrs, body)
        /\ client_body gunz hdrs body = content
        /\ find_header (bs "Content-Length") hdrs = Some (dec_of_N (len body)).
Proof. exact served_reads_back. Qed.
Print Assumptions C13_served_reads_back.

(* the same through on_request_complete (no route matched, static server enabled), whose only
   addition is  path = self.request.path or b'/' *)
Theorem C13_request_confined :
  forall dir mcl agent fs guess_type gz gunz,
    (forall x, gunz (gz x) = x) ->
    startswith dir [SLASH] = true ->
    forall request_path reply,
      on_request_complete_static dir mcl agent fs guess_type gz request_path = Ok reply ->
      reply = NOT_FOUND_RESPONSE_PKT agent
      \/ exists p content headers body,
           p = before_q (if nonempty request_path then body_or_empty request_path else [SLASH])
           /\ inside dir (dir ++ p)
           /\ fs (dir ++ p) = Some content
           /\ reply = build_http_response 200 (Some (bs "OK")) headers (Some body) true false
           /\ undo_encoding gunz headers body = content.
Proof. exact request_confined. Qed.
Print Assumptions C13_request_confined.

(* With a symlink-free file system behind open(): whatever is served is the content of a file that
   sits at or below the static directory in the tree. *)
Theorem C13_served_from_subtree :
  forall dir mcl agent (look : fsmap) guess_type gz gunz path reply,
    (forall x, gunz (gz x) = x) ->
    startswith dir [SLASH] = true ->
    try_static_or_404 dir mcl agent (kopen look) guess_type gz path = Ok reply ->
    reply = NOT_FOUND_RESPONSE_PKT agent
    \/ exists below content headers body,
         look (resolve dir ++ below) = Some (EFile content)
         /\ reply = build_http_response 200 (Some (bs "OK")) headers (Some body) true false
         /\ undo_encoding gunz headers body = content.
Proof. exact served_from_subtree. Qed.
Print Assumptions C13_served_from_subtree.

(* The query string never influences the reply: two request paths that agree up to their first '?'
   get the same reply (both must be decodable, because text_() is applied to the whole path). *)
Theorem C13_query_irrelevant :
  forall dir mcl agent fs guess_type gz path path',
    utf8_valid path = true -> utf8_valid path' = true ->
    before_q path = before_q path' ->
    try_static_or_404 dir mcl agent fs guess_type gz path
    = try_static_or_404 dir mcl agent fs guess_type gz path'.
Proof. exact query_irrelevant. Qed.
Print Assumptions C13_query_irrelevant.

Theorem C13_query_irrelevant_app :
  forall dir mcl agent fs guess_type gz p q q',
    mem_byte QMARK p = false ->
    utf8_valid (p ++ QMARK :: q) = true -> utf8_valid (p ++ QMARK :: q') = true ->
    try_static_or_404 dir mcl agent fs guess_type gz (p ++ QMARK :: q)
    = try_static_or_404 dir mcl agent fs guess_type gz (p ++ QMARK :: q').
Proof. exact query_irrelevant_app. Qed.
Print Assumptions C13_query_irrelevant_app.

(* A reply is always produced for paths over the property's alphabet (UTF-8, no NUL); the only
   escapes are UnicodeDecodeError from text_() and ValueError from open() on an embedded NUL,
   and then nothing is sent at all. *)
Theorem C13_always_replies :
  forall dir mcl agent fs guess_type gz path,
    utf8_valid path = true -> mem_byte 0 (dir ++ before_q path) = false ->
    exists reply, try_static_or_404 dir mcl agent fs guess_type gz path = Ok reply.
Proof. exact always_replies. Qed.
Print Assumptions C13_always_replies.

Theorem C13_escapes :
  forall dir mcl agent fs guess_type gz path e,
    try_static_or_404 dir mcl agent fs guess_type gz path = Err e ->
    (e = UnicodeDecodeError /\ utf8_valid path = false)
    \/ (e = ValueError /\ mem_byte 0 (dir ++ before_q path) = true).
Proof. exact escapes. Qed.
Print Assumptions C13_escapes.

(* ---- what the code's os.path.normpath computes, against the reference resolution ---- *)
(* normpath of an absolute path = its leading "/" (or POSIX "//") + the resolved names joined by "/" *)
Theorem C13_normpath_is_resolution :
  forall p, startswith p [SLASH] = true ->
    normpath p = repeat SLASH (initial_slashes p) ++ join [SLASH] (resolve p).
Proof. exact normpath_abs. Qed.
Print Assumptions C13_normpath_is_resolution.

(* resolved names are proper: non-empty, no '/', neither "." nor ".." *)
Theorem C13_resolve_proper : forall p, Forall (fun c => proper_name c = true) (resolve p).
Proof. exact resolve_proper. Qed.
Print Assumptions C13_resolve_proper.

Theorem C13_normpath_idempotent :
  forall p, startswith p [SLASH] = true ->
    normpath (normpath p) = normpath p /\ resolve (normpath p) = resolve p.
Proof. intros p H. split; [exact (normpath_idem p H)|exact (resolve_normpath p H)]. Qed.
Print Assumptions C13_normpath_idempotent.

(* the code's string test decides exactly the reference notion of "inside" *)
Theorem C13_check_is_inside :
  forall dir path, startswith dir [SLASH] = true ->
    (confinement_check dir path = true <-> inside dir (dir ++ path)).
Proof. exact check_iff_inside. Qed.
Print Assumptions C13_check_is_inside.

(* where open() succeeds, the kernel's walk and the lexical resolution name the same file *)
Theorem C13_kopen_resolve :
  forall (look : fsmap) p c, kopen look p = Some c -> look (resolve p) = Some (EFile c).
Proof. exact kopen_resolve. Qed.
Print Assumptions C13_kopen_resolve.

(* ---- non-vacuity: a concrete tree with files inside and just outside the static directory ---- *)
Definition ex_tree : list (list bytes * entry) :=
  [ ([], EDir); ([bs "srv"], EDir);
    ([bs "srv"; bs "static"], EDir);
    ([bs "srv"; bs "static"; bs "a.txt"], EFile (bs "inside"));
    ([bs "srv"; bs "static"; bs "sub"], EDir);
    ([bs "srv"; bs "static"; bs "sub"; bs "page.html"], EFile (bs "a page that is long enough to be compressed"));
    ([bs "srv"; bs "secret.txt"], EFile (bs "TOP SECRET"));
    ([bs "srv"; bs "static_evil"], EDir);
    ([bs "srv"; bs "static_evil"; bs "e.txt"], EFile (bs "evil")) ].
Definition ex_try (path : bytes) : result bytes :=
  try_static_or_404 (bs "/srv/static") 20 (bs "proxy.py v0") (kopen (table_look ex_tree))
                    (fun _ => None) (@rev N) path.

Example C13_nonvacuous :
  (* the hypotheses of the theorems are met and both outcomes occur *)
  (forall x : bytes, rev (rev x) = x)
  /\ startswith (bs "/srv/static") [SLASH] = true
  (* a file inside is served as is; a longer one is served compressed and advertised so *)
  /\ ex_try (bs "/sub/../a.txt?q=/../secret.txt")
     = Ok (build_http_response 200 (Some (bs "OK"))
             [(bs "Content-Type", bs "text/plain"); (bs "Cache-Control", bs "max-age=86400")]
             (Some (bs "inside")) true false)
  /\ ex_try (bs "/sub/page.html")
     = Ok (build_http_response 200 (Some (bs "OK"))
             [(bs "Content-Type", bs "text/plain"); (bs "Cache-Control", bs "max-age=86400");
              (bs "Content-Encoding", bs "gzip")]
             (Some (rev (bs "a page that is long enough to be compressed"))) true false)
  (* files just outside exist and open() would read them, yet the reply is 404 *)
  /\ kopen (table_look ex_tree) (bs "/srv/static/../secret.txt") = Some (bs "TOP SECRET")
  /\ ex_try (bs "/../secret.txt") = Ok (NOT_FOUND_RESPONSE_PKT (bs "proxy.py v0"))
  /\ kopen (table_look ex_tree) (bs "/srv/static_evil/e.txt") = Some (bs "evil")
  /\ ex_try (bs "_evil/e.txt") = Ok (NOT_FOUND_RESPONSE_PKT (bs "proxy.py v0"))
  /\ ex_try (bs "/../static_evil/e.txt") = Ok (NOT_FOUND_RESPONSE_PKT (bs "proxy.py v0")).
Proof.
  split; [exact (@rev_involutive N)|].
  repeat split; vm_compute; reflexivity.
Qed.

(* the check is not over-strict: an existing file inside the directory is served *)
Theorem C13_inside_file_is_served :
  forall dir mcl agent fs guess_type gz path content,
    startswith dir [SLASH] = true ->
    utf8_valid path = true -> mem_byte 0 (dir ++ before_q path) = false ->
    inside dir (dir ++ before_q path) ->
    fs (dir ++ before_q path) = Some content ->
    try_static_or_404 dir mcl agent fs guess_type gz path
    = Ok (okResponse mcl gz content (static_headers guess_type (dir ++ before_q path)) true true).
Proof. exact inside_file_is_served. Qed.
Print Assumptions C13_inside_file_is_served.
