(* C20 — idle connections are reaped after the timeout and active ones never are.
   Statements only; proofs are in Net/HandlerFacts.v and Net/ReaperFacts.v.

   Time is carried by the events (integer clock units; the harness uses 1/1024 s).  [g_last_cio s] is a
   ghost: the time of the last send()/recv() actually attempted on the client socket (set in the model at
   the two call sites, BaseTcpServerHandler.handle_writables just before work.flush() — which is only
   reached when the client is writable AND has a buffer — and handle_readables just before work.recv()).
   Threadless reaping = Threadless._run_forever + _cleanup_inactive (Net/Reaper.v): the sweep runs when
   tick * (select timeout + wait timeout) >= cleanup timeout, a count of loop iterations, not a clock.
   Residue: delta, the longest time one loop iteration can take, is an assumption. *)
From PM Require Import Lib.Bytes Net.Conn Net.ConnFacts Net.Handler Net.HandlerFacts Net.Reaper Net.ReaperFacts.
From Coq Require Import ZArith.

(* last_activity is exactly the time of the last client I/O attempt, after every event list *)
Theorem C20_last_activity_is_last_client_io : forall c t0 evs s r,
  run c (init t0) evs = (s, r) -> last_activity s = g_last_cio s.
Proof. intros c t0 evs s r H. exact (la_inv_run c evs (init t0) s r eq_refl H). Qed.
Print Assumptions C20_last_activity_is_last_client_io.

(* ... and a call that neither flushes to the client nor reads from it (upstream-only activity, or
   nothing ready) leaves it untouched *)
Theorem C20_upstream_activity_does_not_count : forall c ev s s' r,
  c_w ev && has_buffer (work s) = false -> c_r ev = false ->
  handle_events c ev s = (s', r) ->
  last_activity s' = last_activity s /\ g_last_cio s' = g_last_cio s.
Proof. intros c ev s s' r A B E. destruct (no_client_io_step c ev s s' r A B E) as [X [Y _]]. auto. Qed.
Print Assumptions C20_upstream_activity_does_not_count.

(* safe, threadless: the reaper closes a connection in an iteration only if — after that iteration's own
   handle_events — no output is pending and the last client I/O is more than timeout ago *)
Theorem C20_safe : forall tc c st it st' sw t,
  r_fate st = Alive -> threadless_iter tc c st it = (st', sw) -> r_fate st' = Reaped t ->
  let h := r_h (run_once c st (it_ev it)) in
  t = it_t it /\ sw = true /\ r_fate (run_once c st (it_ev it)) = Alive /\
  pending_client h = [] /\ (timeout c < t - last_activity h)%Z.
Proof. exact threadless_reaper_safe. Qed.
Print Assumptions C20_safe.

(* safe, threaded *)
Theorem C20_safe_threaded : forall c sel st it t,
  r_fate st = Alive -> r_fate (threaded_iter c sel st it) = Reaped t ->
  t = it_t it /\ pending_client (r_h st) = [] /\ (timeout c < t - last_activity (r_h st))%Z.
Proof. exact threaded_reaper_safe. Qed.
Print Assumptions C20_safe_threaded.

(* never: with undelivered output, or with client I/O within the timeout, is_inactive() is False *)
Theorem C20_never_reaped_when_active : forall c h t,
  has_buffer (work h) = true \/ (t - last_activity h <= timeout c)%Z -> is_inactive c h t = false.
Proof.
  intros c h t [H|H]; unfold is_inactive.
  - now rewrite H.
  - assert ((timeout c <? t - last_activity h)%Z = false) as -> by (apply Z.ltb_ge; exact H). apply andb_false_r.
Qed.
Print Assumptions C20_never_reaped_when_active.

(* the sweep is due exactly every ceil(cleanup / (select timeout + wait timeout)) ticks *)
Theorem C20_sweep_schedule : forall tc tick,
  0 < period_us tc -> sweep_due tc tick = (sweep_period tc <=? tick).
Proof. exact sweep_due_iff. Qed.
Print Assumptions C20_sweep_schedule.

(* live, threadless: a connection with nothing pending that gets no further events — whatever OTHER works do,
   whether or not their tasks stay unfinished ([it_unfinished] is unconstrained) — is reaped at a time t with
       last_activity + timeout < t <= max(first iteration, last_activity + timeout + delta) + ceil(cleanup/period) * delta
   when consecutive loop iterations are at most delta apart (whatever the tick counter was), and it is
   not alive at any iteration later than that bound *)
Theorem C20_live : forall tc c delta h tick it0 its,
  0 < period_us tc -> (0 <= delta)%Z ->
  has_buffer (work h) = false ->
  Forall (fun it => it_ev it = None) (it0 :: its) -> chain delta (map it_t (it0 :: its)) ->
  let D := (last_activity h + timeout c)%Z in
  let B := (Z.max (it_t it0) (D + delta) + Z.of_N (sweep_period tc) * delta)%Z in
  match r_fate (reaper_run tc c (mkR h tick Alive) (it0 :: its)) with
  | Reaped t => (D < t <= B)%Z
  | Alive => forall it, In it (it0 :: its) -> (it_t it <= B)%Z
  | ClosedByHandler => False
  end.
Proof. exact threadless_reaper_live. Qed.
Print Assumptions C20_live.

(* tasks left unfinished by _run_once (another work whose handle_events is suspended on a slow future, ...)
   have no influence whatsoever on the tick counter, on whether the sweep runs, or on who is reaped:
   C20_live above quantifies over every [it_unfinished] pattern, and iteration by iteration: *)
Theorem C20_sweep_ignores_unfinished_tasks : forall tc c st e t b1 b2,
  threadless_iter tc c st (mkIter e t b1) = threadless_iter tc c st (mkIter e t b2).
Proof. reflexivity. Qed.
Print Assumptions C20_sweep_ignores_unfinished_tasks.

Theorem C20_reaping_ignores_unfinished_tasks : forall tc c its st (f g : loop_iter -> bool),
  reaper_run tc c st (map (fun it => mkIter (it_ev it) (it_t it) (f it)) its) =
  reaper_run tc c st (map (fun it => mkIter (it_ev it) (it_t it) (g it)) its).
Proof. exact reaper_run_unfinished_irrelevant. Qed.
Print Assumptions C20_reaping_ignores_unfinished_tasks.

(* a work whose OWN task is in flight gets no new handle_events (it_ev = None) but is still asked
   is_inactive() by every sweep; C20_safe applies to it unchanged: it is reaped under its suspended task
   only if it has no output pending and its last client I/O is more than timeout ago — the idle
   predicate of the property; a reply it might still be computing is not "undelivered output" yet. *)

(* live, threaded: is_inactive() is evaluated before every _run_once, so the bound is one iteration *)
Theorem C20_live_threaded : forall c sel delta its h tick it0,
  (0 <= delta)%Z ->
  has_buffer (work h) = false ->
  Forall (fun it => it_ev it = None) (it0 :: its) -> chain delta (map it_t (it0 :: its)) ->
  let D := (last_activity h + timeout c)%Z in
  let B := Z.max (it_t it0) (D + delta) in
  match r_fate (threaded_run c sel (mkR h tick Alive) (it0 :: its)) with
  | Reaped t => (D < t <= B)%Z
  | Alive => forall it, In it (it0 :: its) -> (it_t it <= D)%Z
  | ClosedByHandler => True
  end.
Proof. intros c sel delta its h tick it0 Hd. exact (threaded_reaper_live c sel delta Hd its h tick it0). Qed.
Print Assumptions C20_live_threaded.

(* ---- non-vacuity, with the repository's constants (25 ms + 1 ms, 1 s; timeout 10 s = 10240 units):
   sweep every 39 ticks; an idle connection observed every 26 units (~25 ms) is reaped at the first
   sweep after 10 s, well inside the bound; one with a byte still pending never is *)
Definition ex_tc : tcfg := mkTC 26000 1000000.
Definition ex_cfg : cfg := mkCfg 65536 [] 10240 true.
Fixpoint ex_iters (n : nat) (t : Z) : list loop_iter :=
  match n with O => [] | S n' => mkIter None t (Nat.even n') :: ex_iters n' (t + 26) end.
Example C20_nonvacuous :
  sweep_period ex_tc = 39 /\
  r_fate (reaper_run ex_tc ex_cfg (mkR (init 0) 0 Alive) (ex_iters 440 0)) = Reaped 11154 /\
  (11154 <= Z.max 0 (0 + 10240 + 26) + 39 * 26)%Z /\
  r_fate (reaper_run ex_tc ex_cfg (mkR (set_work (queue [1] new_conn) (init 0)) 0 Alive) (ex_iters 440 0)) = Alive.
Proof. vm_compute. repeat split; intros; discriminate. Qed.
