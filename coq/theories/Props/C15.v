(* C15 — placeholder, replaced as the proofs land. *)
From PM Require Import Lib.Bytes Lib.PyStr Http.Chunk Http.Parser Http.Builders Http.Grammar.
Theorem C15_placeholder : build_http_header [1] [2] = [1; 58; 32; 2].
Proof. reflexivity. Qed.
Print Assumptions C15_placeholder.
