(* C15 — HTTP message and chunked codecs round-trip and agree with a reference.
   Statements only; proofs are in Http/CodecFacts.v and Http/BuildersFacts.v.
   Models: Http/Builders.v (utils.py builders, HttpParser.build/build_response/update_body),
   Http/Chunk.v, Http/Parser.v.  Reference side (specifications): Http/Grammar.v. *)
From PM Require Import Lib.Bytes Lib.PyStr Lib.PyStrFacts2 Http.Url Http.Chunk Http.ChunkFacts Http.Parser
  Http.Builders Http.BuildersFacts Http.Grammar Http.CodecFacts.
From Coq Require Import ZArith.

(* ---------------------------------------------------------------------------------------------- *)
(* chunked codec                                                                                   *)

(* The chunked encoder and decoder are inverses for EVERY body (the empty one included) and EVERY
   chunk size, and the decoder stops exactly at the end of the encoding: what follows is handed back. *)
Theorem C15_chunks_roundtrip : forall body k t, 0 < k ->
  exists w, to_chunks body k = Ok w /\
            chunk_parse new_chunkp (w ++ t) =
            Ok (t, {| cst := CCOMPLETE; cbody := body; cchunk := []; csize := None |}).
Proof. exact chunks_roundtrip. Qed.
Print Assumptions C15_chunks_roundtrip.

(* ... and what the encoder emits is a chunked body of the RFC 7230 grammar that the REFERENCE decoder
   maps back to the body. *)
Theorem C15_to_chunks_valid : forall body k, 0 < k ->
  exists s, wf_chunked s = true /\ to_chunks body k = Ok (render_chunked s) /\ ref_dechunk s = body.
Proof. exact to_chunks_valid. Qed.
Print Assumptions C15_to_chunks_valid.

(* The decoder agrees with the reference decoder on every valid chunked stream: any chunk layout,
   chunk-size in hex of any case with leading zeros, chunk extensions, last-chunk with extensions,
   trailer fields; same body, same remainder.  [ref_dechunk] is defined by recursion on the abstract
   syntax of RFC 7230 section 4.1 (Http/Grammar.v). *)
Theorem C15_dechunk_agrees_ref : forall s t, wf_chunked s = true ->
  chunk_parse new_chunkp (render_chunked s ++ t) =
  Ok (t, {| cst := CCOMPLETE; cbody := ref_dechunk s; cchunk := []; csize := None |}).
Proof. exact dechunk_agrees_ref. Qed.
Print Assumptions C15_dechunk_agrees_ref.

(* The same on raw bytes, against the executable reference decoder (the one cross-validated with h11
   on every run): wherever it accepts, the model decoder returns the same body and remainder. *)
Theorem C15_dechunk_agrees_ref_bytes : forall raw body rest, ref_dechunk_bytes raw = Some (body, rest) ->
  chunk_parse new_chunkp raw =
  Ok (rest, {| cst := CCOMPLETE; cbody := body; cchunk := []; csize := None |}).
Proof. exact dechunk_agrees_ref_bytes. Qed.
Print Assumptions C15_dechunk_agrees_ref_bytes.

(* ---------------------------------------------------------------------------------------------- *)
(* update_body                                                                                     *)

(* After update_body the message is consistent.  gzip is a pair of functions with the single
   assumed law gunz (gz x) = x.  The stored body is the new data, compressed iff the message says
   "Content-Encoding: gzip" (then it decompresses to the data; any other Content-Encoding header is
   removed); Content-Type is set; a chunked message keeps no Content-Length (the body stays decoded,
   it is chunk-encoded once, by build: see C15_update_rebuild below), any other message announces
   exactly the stored length. *)
Theorem C15_update_body : forall (gz gunz : bytes -> bytes), (forall x, gunz (gz x) = x) ->
  forall p data ct, headers_wf p ->
  exists p', update_body gz p data ct = Ok p' /\
    body p' = Some (stored_body gz p data) /\
    (says_gzip p = true -> gunz (stored_body gz p data) = data) /\
    (says_gzip p = false -> stored_body gz p data = data /\ has_header p' L_CONTENT_ENCODING = false) /\
    header p' H_CONTENT_TYPE = Ok ct /\
    is_chunked_encoded p' = is_chunked_encoded p /\
    (if is_chunked_encoded p then has_header p' CONTENT_LENGTH = false
     else header p' CONTENT_LENGTH = Ok (dec_of_N (len (stored_body gz p data)))).
Proof. exact update_body_spec. Qed.
Print Assumptions C15_update_body.
