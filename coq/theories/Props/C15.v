(* C15 — HTTP message and chunked codecs round-trip and agree with a reference.
   Statements only; proofs are in Http/CodecFacts.v and Http/BuildersFacts.v.
   Models: Http/Builders.v (utils.py builders, HttpParser.build/build_response/update_body),
   Http/Chunk.v, Http/Parser.v.  Reference side (specifications): Http/Grammar.v. *)
From PM Require Import Lib.Bytes Lib.PyStr Lib.PyStrFacts2 Http.Url Http.Chunk Http.ChunkFacts Http.Parser Http.ParserFacts
  Http.Builders Http.BuildersFacts Http.Grammar Http.CodecFacts.
From Coq Require Import ZArith.

(* ---------------------------------------------------------------------------------------------- *)
(* chunked codec                                                                                   *)

(* The chunked encoder and decoder are inverses for EVERY body (the empty one included) and EVERY
   chunk size, and the decoder stops exactly at the end of the encoding: what follows is handed back. *)
Theorem C15_chunks_roundtrip : forall body k t, 0 < k ->
  exists w, to_chunks body k = Ok w /\
            chunk_parse new_chunkp (w ++ t) =
            Ok (t, {| cst := CCOMPLETE; cbody := body; cchunk := []; csize := None |}).
Proof. exact chunks_roundtrip. Qed.
Print Assumptions C15_chunks_roundtrip.

(* ... and what the encoder emits is a chunked body of the RFC 7230 grammar that the REFERENCE decoder
   maps back to the body. *)
Theorem C15_to_chunks_valid : forall body k, 0 < k ->
  exists s, wf_chunked s = true /\ to_chunks body k = Ok (render_chunked s) /\ ref_dechunk s = body.
Proof. exact to_chunks_valid. Qed.
Print Assumptions C15_to_chunks_valid.

(* The decoder agrees with the reference decoder on every valid chunked stream: any chunk layout,
   chunk-size in hex of any case with leading zeros, chunk extensions, last-chunk with extensions,
   trailer fields; same body, same remainder.  [ref_dechunk] is defined by recursion on the abstract
   syntax of RFC 7230 section 4.1 (Http/Grammar.v). *)
Theorem C15_dechunk_agrees_ref : forall s t, wf_chunked s = true ->
  chunk_parse new_chunkp (render_chunked s ++ t) =
  Ok (t, {| cst := CCOMPLETE; cbody := ref_dechunk s; cchunk := []; csize := None |}).
Proof. exact dechunk_agrees_ref. Qed.
Print Assumptions C15_dechunk_agrees_ref.

(* The same on raw bytes, against the executable reference decoder (the one cross-validated with h11
   on every run): wherever it accepts, the model decoder returns the same body and remainder. *)
Theorem C15_dechunk_agrees_ref_bytes : forall raw body rest, ref_dechunk_bytes raw = Some (body, rest) ->
  chunk_parse new_chunkp raw =
  Ok (rest, {| cst := CCOMPLETE; cbody := body; cchunk := []; csize := None |}).
Proof. exact dechunk_agrees_ref_bytes. Qed.
Print Assumptions C15_dechunk_agrees_ref_bytes.

(* ---------------------------------------------------------------------------------------------- *)
(* update_body                                                                                     *)

(* After update_body the message is consistent.  gzip is a pair of functions with the single
   assumed law gunz (gz x) = x.  The stored body is the new data, compressed iff the message says
   "Content-Encoding: gzip" (then it decompresses to the data; any other Content-Encoding header is
   removed); Content-Type is set; a chunked message keeps no Content-Length (the body stays decoded,
   it is chunk-encoded once, by build: see C15_update_rebuild below), any other message announces
   exactly the stored length. *)
Theorem C15_update_body : forall (gz gunz : bytes -> bytes), (forall x, gunz (gz x) = x) ->
  forall p data ct, headers_wf p ->
  exists p', update_body gz p data ct = Ok p' /\
    body p' = Some (stored_body gz p data) /\
    (says_gzip p = true -> gunz (stored_body gz p data) = data) /\
    (says_gzip p = false -> stored_body gz p data = data /\ has_header p' L_CONTENT_ENCODING = false) /\
    header p' H_CONTENT_TYPE = Ok ct /\
    is_chunked_encoded p' = is_chunked_encoded p /\
    (if is_chunked_encoded p then has_header p' CONTENT_LENGTH = false
     else header p' CONTENT_LENGTH = Ok (dec_of_N (len (stored_body gz p data)))).
Proof. exact update_body_spec. Qed.
Print Assumptions C15_update_body.

(* ---------------------------------------------------------------------------------------------- *)
(* builders: what goes on the wire                                                                 *)

(* build_http_request / build_http_response emit start line, one "name: value" line per header of
   the SPECIFICATION header map (Grammar.expected_*_headers: the caller's headers in their order, with
   Content-Type / Content-Length / User-Agent / Connection set case-insensitively in place or appended),
   a blank line, and the body. *)
Theorem C15_build_request_wire : forall ua a,
  build_request ua a =
  ra_method a ++ [SP] ++ ra_url a ++ [SP] ++ ra_version a ++ CRLF ++
  header_lines (expected_request_headers ua a) ++ CRLF ++ or_empty (ra_body a).
Proof. exact build_request_wire. Qed.
Print Assumptions C15_build_request_wire.

Theorem C15_build_response_wire : forall a,
  build_response_of a =
  sa_version a ++ [SP] ++ dec_of_Z (sa_status a) ++
  (if truthy (sa_reason a) then [SP] ++ or_empty (sa_reason a) else []) ++ CRLF ++
  header_lines (expected_response_headers a) ++ CRLF ++ or_empty (sa_body a).
Proof. exact build_response_wire. Qed.
Print Assumptions C15_build_response_wire.

(* ---------------------------------------------------------------------------------------------- *)
(* serialise, then parse: same start line, headers and body                                        *)

(* For all arguments in [wf_req_args] — method/target without SP, CR, LF; version without CR, LF;
   header names non-empty, without colon/CR/LF, not starting or ending with whitespace, pairwise
   different case-insensitively; values (and content_type, and the User-Agent value when it is added)
   without CR/LF and stripped; framing the parser can follow: Transfer-Encoding, if given, is "chunked"
   with a body that IS a chunked stream and no Content-Length, otherwise a body is announced by the
   builder's own Content-Length (length below CPython's int() digit limit) and an absent body by no
   or a zero Content-Length: exactly what the builder does not check — and any result [u] of
   Url.from_bytes on the target (treated as opaque), the built request parses in one piece to a
   COMPLETE message with nothing left over, the same method, target, version, exactly the specified
   header map in order, and the same (decoded) body. *)
Theorem C15_parse_build_request : forall ua a u,
  wf_req_args ua a = true -> from_bytes DEFAULT_ALLOWED_URL_SCHEMES (ra_url a) = Ok u ->
  exists p, parse (new_parser REQUEST_PARSER) (build_request ua a) = Ok p /\
    state p = COMPLETE /\ buffer p = None /\
    method p = Some (ra_method a) /\ version p = Some (ra_version a) /\ purl p = Some u /\
    is_https_tunnel p = bytes_eqb (ra_method a) CONNECT /\
    (host p, port p, path p) = line_attributes (bytes_eqb (ra_method a) CONNECT) u /\
    headers p = lift_headers (expected_request_headers ua a) /\
    bodyb p = Grammar.expected_body (expected_request_headers ua a) (ra_body a).
Proof. exact parse_build_request. Qed.
Print Assumptions C15_parse_build_request.

(* Same for responses (every status code incl. negative ones, reason absent / empty / with spaces,
   no_cl with a caller-supplied correct Content-Length, chunked bodies). *)
Theorem C15_parse_build_response : forall a,
  wf_resp_args a = true ->
  exists p, parse (new_parser RESPONSE_PARSER) (build_response_of a) = Ok p /\
    state p = COMPLETE /\ buffer p = None /\
    version p = Some (sa_version a) /\ code p = Some (dec_of_Z (sa_status a)) /\
    reason p = (if truthy (sa_reason a) then sa_reason a else None) /\
    headers p = lift_headers (expected_response_headers a) /\
    bodyb p = Grammar.expected_body (expected_response_headers a) (sa_body a).
Proof. exact parse_build_response. Qed.
Print Assumptions C15_parse_build_response.
