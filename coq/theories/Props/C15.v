(* C15 — HTTP message and chunked codecs round-trip and agree with a reference.
   Statements only; proofs are in Http/CodecFacts.v and Http/BuildersFacts.v.
   Models: Http/Builders.v (utils.py builders, HttpParser.build/build_response/update_body),
   Http/Chunk.v, Http/Parser.v.  Reference side (specifications): Http/Grammar.v. *)
From PM Require Import Lib.Bytes Lib.PyStr Lib.PyStrFacts2 Http.Url Http.Chunk Http.ChunkFacts Http.Parser Http.ParserFacts
  Http.Builders Http.BuildersFacts Http.Grammar Http.CodecFacts.
From Coq Require Import ZArith.

(* ---------------------------------------------------------------------------------------------- *)
(* chunked codec                                                                                   *)

(* The chunked encoder and decoder are inverses for EVERY body (the empty one included) and EVERY
   chunk size, and the decoder stops exactly at the end of the encoding: what follows is handed back. *)
Theorem C15_chunks_roundtrip : forall body k t, 0 < k ->
  exists w, to_chunks body k = Ok w /\
            chunk_parse new_chunkp (w ++ t) =
            Ok (t, {| cst := CCOMPLETE; cbody := body; cchunk := []; csize := None |}).
Proof. exact chunks_roundtrip. Qed.
Print Assumptions C15_chunks_roundtrip.

(* ... and what the encoder emits is a chunked body of the RFC 7230 grammar that the REFERENCE decoder
   maps back to the body. *)
Theorem C15_to_chunks_valid : forall body k, 0 < k ->
  exists s, wf_chunked s = true /\ to_chunks body k = Ok (render_chunked s) /\ ref_dechunk s = body.
Proof. exact to_chunks_valid. Qed.
Print Assumptions C15_to_chunks_valid.

(* The decoder agrees with the reference decoder on every valid chunked stream: any chunk layout,
   chunk-size in hex of any case with leading zeros, chunk extensions, last-chunk with extensions,
   trailer fields; same body, same remainder.  [ref_dechunk] is defined by recursion on the abstract
   syntax of RFC 7230 section 4.1 (Http/Grammar.v). *)
Theorem C15_dechunk_agrees_ref : forall s t, wf_chunked s = true ->
  chunk_parse new_chunkp (render_chunked s ++ t) =
  Ok (t, {| cst := CCOMPLETE; cbody := ref_dechunk s; cchunk := []; csize := None |}).
Proof. exact dechunk_agrees_ref. Qed.
Print Assumptions C15_dechunk_agrees_ref.

(* The same on raw bytes, against the executable reference decoder (the one cross-validated with h11
   on every run): wherever it accepts, the model decoder returns the same body and remainder. *)
Theorem C15_dechunk_agrees_ref_bytes : forall raw body rest, ref_dechunk_bytes raw = Some (body, rest) ->
  chunk_parse new_chunkp raw =
  Ok (rest, {| cst := CCOMPLETE; cbody := body; cchunk := []; csize := None |}).
Proof. exact dechunk_agrees_ref_bytes. Qed.
Print Assumptions C15_dechunk_agrees_ref_bytes.

(* ---------------------------------------------------------------------------------------------- *)
(* update_body                                                                                     *)

(* After update_body the message is consistent.  gzip is a pair of functions with the single
   assumed law gunz (gz x) = x.  The stored body is the new data, compressed iff the message says
   "Content-Encoding: gzip" (then it decompresses to the data; any other Content-Encoding header is
   removed); Content-Type is set; a chunked message keeps no Content-Length (the body stays decoded,
   it is chunk-encoded once, by build: see C15_update_rebuild below), any other message announces
   exactly the stored length. *)
Theorem C15_update_body : forall (gz gunz : bytes -> bytes), (forall x, gunz (gz x) = x) ->
  forall p data ct, headers_wf p ->
  exists p', update_body gz p data ct = Ok p' /\
    body p' = Some (stored_body gz p data) /\
    (says_gzip p = true -> gunz (stored_body gz p data) = data) /\
    (says_gzip p = false -> stored_body gz p data = data /\ has_header p' L_CONTENT_ENCODING = false) /\
    header p' H_CONTENT_TYPE = Ok ct /\
    is_chunked_encoded p' = is_chunked_encoded p /\
    (if is_chunked_encoded p then has_header p' CONTENT_LENGTH = false
     else header p' CONTENT_LENGTH = Ok (dec_of_N (len (stored_body gz p data)))).
Proof. exact update_body_spec. Qed.
Print Assumptions C15_update_body.

(* ---------------------------------------------------------------------------------------------- *)
(* builders: what goes on the wire                                                                 *)

(* build_http_request / build_http_response emit start line, one "name: value" line per header of
   the SPECIFICATION header map (Grammar.expected_*_headers: the caller's headers in their order, with
   Content-Type / Content-Length / User-Agent / Connection set case-insensitively in place or appended),
   a blank line, and the body. *)
Theorem C15_build_request_wire : forall ua a,
  build_request ua a =
  ra_method a ++ [SP] ++ ra_url a ++ [SP] ++ ra_version a ++ CRLF ++
  header_lines (expected_request_headers ua a) ++ CRLF ++ or_empty (ra_body a).
Proof. exact build_request_wire. Qed.
Print Assumptions C15_build_request_wire.

Theorem C15_build_response_wire : forall a,
  build_response_of a =
  sa_version a ++ [SP] ++ dec_of_Z (sa_status a) ++
  (if truthy (sa_reason a) then [SP] ++ or_empty (sa_reason a) else []) ++ CRLF ++
  header_lines (expected_response_headers a) ++ CRLF ++ or_empty (sa_body a).
Proof. exact build_response_wire. Qed.
Print Assumptions C15_build_response_wire.

(* ---------------------------------------------------------------------------------------------- *)
(* serialise, then parse: same start line, headers and body                                        *)

(* For all arguments in [wf_req_args] — method/target without SP, CR, LF; version without CR, LF;
   header names non-empty, without colon/CR/LF, not starting or ending with whitespace, pairwise
   different case-insensitively; values (and content_type, and the User-Agent value when it is added)
   without CR/LF and stripped; framing the parser can follow: Transfer-Encoding, if given, is "chunked"
   with a body that IS a chunked stream and no Content-Length, otherwise a body is announced by the
   builder's own Content-Length (length below CPython's int() digit limit) and an absent body by no
   or a zero Content-Length: exactly what the builder does not check — and any result [u] of
   Url.from_bytes on the target (treated as opaque), the built request parses in one piece to a
   COMPLETE message with nothing left over, the same method, target, version, exactly the specified
   header map in order, and the same (decoded) body. *)
Theorem C15_parse_build_request : forall ua a u,
  wf_req_args ua a = true -> from_bytes DEFAULT_ALLOWED_URL_SCHEMES (ra_url a) = Ok u ->
  exists p, parse (new_parser REQUEST_PARSER) (build_request ua a) = Ok p /\
    state p = COMPLETE /\ buffer p = None /\
    method p = Some (ra_method a) /\ version p = Some (ra_version a) /\ purl p = Some u /\
    is_https_tunnel p = bytes_eqb (ra_method a) CONNECT /\
    (host p, port p, path p) = line_attributes (bytes_eqb (ra_method a) CONNECT) u /\
    headers p = lift_headers (expected_request_headers ua a) /\
    bodyb p = Grammar.expected_body (expected_request_headers ua a) (ra_body a).
Proof. exact parse_build_request. Qed.
Print Assumptions C15_parse_build_request.

(* Same for responses (every status code incl. negative ones, reason absent / empty / with spaces,
   no_cl with a caller-supplied correct Content-Length, chunked bodies). *)
Theorem C15_parse_build_response : forall a,
  wf_resp_args a = true ->
  exists p, parse (new_parser RESPONSE_PARSER) (build_response_of a) = Ok p /\
    state p = COMPLETE /\ buffer p = None /\
    version p = Some (sa_version a) /\ code p = Some (dec_of_Z (sa_status a)) /\
    reason p = (if truthy (sa_reason a) then sa_reason a else None) /\
    headers p = lift_headers (expected_response_headers a) /\
    bodyb p = Grammar.expected_body (expected_response_headers a) (sa_body a).
Proof. exact parse_build_response. Qed.
Print Assumptions C15_parse_build_response.

(* ---------------------------------------------------------------------------------------------- *)
(* parse, re-serialise, parse again                                                                *)

(* Every well-formed request on the wire (abstract syntax [message] of Http/ParserFacts.v: any
   method/target/version, header names in any spelling and order, Content-Length framing or ANY
   chunk layout with hex sizes in any case, leading zeros, extensions and trailers — the empty
   chunked body included) parses to a COMPLETE message p; build() re-serialises p to bytes that parse
   to a COMPLETE message with the same method, version, path, header map (names as spelled, values,
   order), decoded body and framing flag, and nothing left over.
   Guards, all visible: header names pairwise different case-insensitively (a dict keeps one);
   method and version non-empty (build() asserts them); the path does not start with "//" (the
   rebuilt origin-form target would be read as a network-path reference) and has no SP/CR; a
   non-empty body is announced by the canonical decimal Content-Length (a parsed "05" is rebuilt
   as "5": same number, other spelling). *)
Theorem C15_rebuild_stable_request : forall ua msg m t v u,
  message_ok DEFAULT_ALLOWED_URL_SCHEMES msg -> m_start msg = ReqLine m t v u ->
  NoDup (lkeys (all_hdrs msg)) -> m <> [] -> v <> [] ->
  (u_remainder u = None \/ u_remainder u = Some [] \/
   exists r, u_remainder u = Some (SLASH :: r) /\ tok (SLASH :: r) /\ match r with x :: _ => x <> SLASH | [] => True end) ->
  canonical_length false msg ->
  exists p raw p',
    parse (new_parser REQUEST_PARSER) (render msg) = Ok p /\ state p = COMPLETE /\
    build ua p [] false None = Ok raw /\
    parse (new_parser REQUEST_PARSER) raw = Ok p' /\ state p' = COMPLETE /\ buffer p' = None /\
    method p' = method p /\ version p' = version p /\ path p' = Some (path0 p) /\
    headers p' = headers p /\ bodyb p' = bodyb p /\ is_chunked_encoded p' = is_chunked_encoded p.
Proof. exact rebuild_stable_request. Qed.
Print Assumptions C15_rebuild_stable_request.

(* The same for responses and build_response().  Extra guards: the status code is the canonical
   decimal of a number (build_response goes through int()), and an empty body announced by
   Content-Length is announced as "0". *)
Theorem C15_rebuild_stable_response : forall msg v c rs z,
  message_ok DEFAULT_ALLOWED_URL_SCHEMES msg -> m_start msg = StatusLine v c rs ->
  NoDup (lkeys (all_hdrs msg)) -> v <> [] -> c <> [] ->
  int10 c = Ok z -> dec_of_Z z = c ->
  canonical_length true msg ->
  exists p raw p',
    parse (new_parser RESPONSE_PARSER) (render msg) = Ok p /\ state p = COMPLETE /\
    build_response p = Ok raw /\
    parse (new_parser RESPONSE_PARSER) raw = Ok p' /\ state p' = COMPLETE /\ buffer p' = None /\
    version p' = version p /\ code p' = code p /\ or_empty (reason p') = or_empty (reason p) /\
    headers p' = headers p /\ bodyb p' = bodyb p /\ is_chunked_encoded p' = is_chunked_encoded p.
Proof. exact rebuild_stable_response. Qed.
Print Assumptions C15_rebuild_stable_response.

(* The same two facts for ANY parser state with these (decidable) properties, whatever input
   produced it — e.g. a state a plugin has edited with add_header / update_body. *)
Theorem C15_rebuild_stable_request_state : forall ua p m v hs,
  ty p = REQUEST_PARSER ->
  method p = Some m -> m <> [] -> tok m ->
  version p = Some v -> v <> [] -> ~ In CR v ->
  (truthy (path p) = false \/
   exists t, path p = Some (SLASH :: t) /\ tok (SLASH :: t) /\ match t with x :: _ => x <> SLASH | [] => True end) ->
  headers p = lift_headers hs -> wfhP hs -> framing_consistent p hs ->
  exists raw p', build ua p [] false None = Ok raw /\
    parse (new_parser REQUEST_PARSER) raw = Ok p' /\
    state p' = COMPLETE /\ buffer p' = None /\
    method p' = Some m /\ version p' = Some v /\ path p' = Some (path0 p) /\ host p' = None /\
    headers p' = headers p /\ bodyb p' = bodyb p /\ is_chunked_encoded p' = is_chunked_encoded p.
Proof. exact rebuild_stable_request_state. Qed.
Print Assumptions C15_rebuild_stable_request_state.

Theorem C15_rebuild_stable_response_state : forall p c z v hs,
  ty p = RESPONSE_PARSER ->
  code p = Some c -> c <> [] -> int10 c = Ok z -> dec_of_Z z = c ->
  version p = Some v -> v <> [] -> tok v ->
  ~ In CR (or_empty (reason p)) ->
  headers p = lift_headers hs -> wfhP hs -> framing_consistent_resp p hs ->
  exists raw p', build_response p = Ok raw /\
    parse (new_parser RESPONSE_PARSER) raw = Ok p' /\
    state p' = COMPLETE /\ buffer p' = None /\
    version p' = Some v /\ code p' = Some c /\ or_empty (reason p') = or_empty (reason p) /\
    headers p' = headers p /\ bodyb p' = bodyb p /\ is_chunked_encoded p' = is_chunked_encoded p.
Proof. exact rebuild_stable_response_state. Qed.
Print Assumptions C15_rebuild_stable_response_state.

(* ---------------------------------------------------------------------------------------------- *)
(* what the builders emit is well-formed for an independent, RFC 7230-level recogniser             *)

(* [wf_message] (Http/Grammar.v; cross-validated against h11 on every run): request-line / status-line
   grammar, header-field grammar (token ":" OWS value OWS, no obs-fold), Host exactly once in an
   HTTP/1.1 request, at most one Transfer-Encoding and then exactly "chunked" with a body that is a
   valid chunked stream, at most one decimal Content-Length equal to the body length, never both,
   no body after 1xx/204/304.  For all arguments in [rfc_req_args] / [rfc_resp_args] (tokens, visible
   characters, field bytes; header names unique case-insensitively; a caller-supplied chunked body
   is a chunked stream; a caller-supplied Content-Length for an absent body says 0; Host present for
   HTTP/1.1; status 100..999; no body for 1xx/204/304 — what the builders do not check) the built
   message is accepted. *)
Theorem C15_build_wellformed_request : forall ua a,
  rfc_req_args ua a = true -> wf_message REQUEST_PARSER (build_request ua a) = true.
Proof. exact build_wellformed_request. Qed.
Print Assumptions C15_build_wellformed_request.

Theorem C15_build_wellformed_response : forall a,
  rfc_resp_args a = true -> wf_message RESPONSE_PARSER (build_response_of a) = true.
Proof. exact build_wellformed_response. Qed.
Print Assumptions C15_build_wellformed_response.

(* ---------------------------------------------------------------------------------------------- *)
(* non-vacuity, and refutations of the unguarded / unrepaired forms                                *)

(* the domains are inhabited by non-trivial arguments (a caller-supplied, differently spelled and
   wrong Content-Length that the builder must overwrite; an already chunk-encoded response body with
   extension, leading zeros and a trailer) *)
Example C15_nonvacuous_request_args :
  wf_req_args ex_ua ex_req_args = true /\ rfc_req_args ex_ua ex_req_args = true /\
  exists u, from_bytes DEFAULT_ALLOWED_URL_SCHEMES (ra_url ex_req_args) = Ok u.
Proof. exact ex_req_args_ok. Qed.
Example C15_nonvacuous_response_args :
  wf_resp_args ex_resp_args = true /\ rfc_resp_args ex_resp_args = true.
Proof. exact ex_resp_args_ok. Qed.

(* the empty chunked body (the defect repaired in _get_body_or_chunks): rebuilt WITH its terminator,
   byte-identical to what was received, and parsed back to a complete message with an empty body *)
Example C15_rebuild_empty_chunked :
  exists p p', parse (new_parser REQUEST_PARSER) ex_empty_chunked = Ok p /\ state p = COMPLETE /\
    build ex_ua p [] false None = Ok ex_empty_chunked /\
    parse (new_parser REQUEST_PARSER) ex_empty_chunked = Ok p' /\ body p' = Some [] /\ state p' = COMPLETE.
Proof. exact ex_empty_chunked_rebuild. Qed.
Example C15_rebuild_hypotheses_inhabited :
  exists p hs, parse (new_parser REQUEST_PARSER) ex_empty_chunked = Ok p /\
    headers p = lift_headers hs /\ forallb ok_header hs = true /\ NoDup (lkeys hs) /\ framing_consistent p hs.
Proof. exact ex_rebuild_hypotheses. Qed.

(* update_body as it was (kept as update_body_old): the chunked encoding was stored in body and build()
   encoded it once more — the re-parsed body is "5 CRLF hello CRLF 0 CRLF CRLF", not "hello" *)
Theorem C15_update_body_old_refuted :
  exists p p1 raw p2,
    parse (new_parser REQUEST_PARSER) ex_chunked_post = Ok p /\ state p = COMPLETE /\
    update_body_old (fun x => x) p (bs "hello") (bs "text/plain") = Ok p1 /\
    build ex_ua p1 [] false None = Ok raw /\
    parse (new_parser REQUEST_PARSER) raw = Ok p2 /\ state p2 = COMPLETE /\
    body p2 = Some (bs "5" ++ CRLF ++ bs "hello" ++ CRLF ++ bs "0" ++ CRLF ++ CRLF).
Proof. exact update_body_old_refuted. Qed.
Print Assumptions C15_update_body_old_refuted.
Example C15_update_body_then_rebuild :
  exists p p1 raw p2,
    parse (new_parser REQUEST_PARSER) ex_chunked_post = Ok p /\ state p = COMPLETE /\
    update_body (fun x => x) p (bs "hello") (bs "text/plain") = Ok p1 /\
    build ex_ua p1 [] false None = Ok raw /\
    parse (new_parser REQUEST_PARSER) raw = Ok p2 /\ state p2 = COMPLETE /\ body p2 = Some (bs "hello").
Proof. exact update_body_new_ok. Qed.

(* the guards of C15_rebuild_stable_* cannot be dropped: each unguarded statement is false of the
   faithful model (and of the implementation: same inputs in corpus/C15/outside-domain.json) *)
Theorem C15_rebuild_double_slash_refuted :
  exists p raw p', parse (new_parser REQUEST_PARSER) ex_double_slash = Ok p /\ state p = COMPLETE /\
    path p = Some (bs "//x") /\
    build ex_ua p [] false None = Ok raw /\ parse (new_parser REQUEST_PARSER) raw = Ok p' /\
    host p' = Some (bs "x") /\ path p' = None.
Proof. exact rebuild_double_slash_refuted. Qed.
Print Assumptions C15_rebuild_double_slash_refuted.

Theorem C15_rebuild_noncanonical_length_refuted :
  exists p raw p', parse (new_parser REQUEST_PARSER) ex_cl05 = Ok p /\ state p = COMPLETE /\
    build ex_ua p [] false None = Ok raw /\ parse (new_parser REQUEST_PARSER) raw = Ok p' /\
    state p' = COMPLETE /\ body p' = body p /\ headers p' <> headers p /\
    header p' CONTENT_LENGTH = Ok (bs "5") /\ header p CONTENT_LENGTH = Ok (bs "05").
Proof. exact rebuild_noncanonical_length_refuted. Qed.
Print Assumptions C15_rebuild_noncanonical_length_refuted.

Theorem C15_rebuild_noncanonical_status_refuted :
  exists p raw p', parse (new_parser RESPONSE_PARSER) ex_status_plus = Ok p /\ state p = COMPLETE /\
    build_response p = Ok raw /\ parse (new_parser RESPONSE_PARSER) raw = Ok p' /\
    code p = Some (bs "+200") /\ code p' = Some (bs "200").
Proof. exact rebuild_noncanonical_status_refuted. Qed.
Print Assumptions C15_rebuild_noncanonical_status_refuted.

(* The rebuild theorems with DECIDABLE hypotheses: [rebuildable_req p] / [rebuildable_resp p] (Http/Grammar.v)
   are boolean functions of a parser state (request/response type, non-empty token method / version /
   canonical status code, path guard, header dict with lower-cased keys, names and values without CR
   and stripped, names unique, framing flags consistent with the headers and the body, canonical
   Content-Length).  They are evaluated, inside Coq, on the parser state of every well-formed wire
   message the harness generates (whatever its header spacing), so the theorem's domain is checked
   against real parser outputs on every run. *)
Theorem C15_rebuild_stable_request_bool : forall ua p, rebuildable_req p = true ->
  exists raw p', build ua p [] false None = Ok raw /\
    parse (new_parser REQUEST_PARSER) raw = Ok p' /\
    state p' = COMPLETE /\ buffer p' = None /\
    method p' = method p /\ version p' = version p /\ path p' = Some (path0 p) /\ host p' = None /\
    headers p' = headers p /\ bodyb p' = bodyb p /\ is_chunked_encoded p' = is_chunked_encoded p.
Proof. exact rebuild_stable_request_bool. Qed.
Print Assumptions C15_rebuild_stable_request_bool.

Theorem C15_rebuild_stable_response_bool : forall p, rebuildable_resp p = true ->
  exists raw p', build_response p = Ok raw /\
    parse (new_parser RESPONSE_PARSER) raw = Ok p' /\
    state p' = COMPLETE /\ buffer p' = None /\
    version p' = version p /\ code p' = code p /\ or_empty (reason p') = or_empty (reason p) /\
    headers p' = headers p /\ bodyb p' = bodyb p /\ is_chunked_encoded p' = is_chunked_encoded p.
Proof. exact rebuild_stable_response_bool. Qed.
Print Assumptions C15_rebuild_stable_response_bool.

(* ---------------------------------------------------------------------------------------------- *)
(* update_body, re-serialise, parse: content-encodings and transfer-encodings respected            *)

(* For every gzip with gunz (gz x) = x, every re-serialisable parsed request p (decidable domain
   above), every new body and content type (value without CR, stripped; stored length below the
   int() digit limit): update_body succeeds, build() re-serialises, and the result parses to a
   COMPLETE request with the same method/version and chunked flag, Content-Type = the new one, and
   body = the new data — gzip-compressed iff the message says Content-Encoding: gzip, in which case
   it decompresses to the data.  Chunked messages included (the body is chunk-encoded exactly once). *)
Theorem C15_update_body_rebuild_request : forall (gz gunz : bytes -> bytes) ua p data ct,
  (forall x, gunz (gz x) = x) ->
  rebuildable_req p = true -> ok_value ct = true -> len_ok (stored_body gz p data) = true ->
  exists p1 raw p',
    update_body gz p data ct = Ok p1 /\ build ua p1 [] false None = Ok raw /\
    parse (new_parser REQUEST_PARSER) raw = Ok p' /\ state p' = COMPLETE /\ buffer p' = None /\
    method p' = method p /\ version p' = version p /\
    bodyb p' = stored_body gz p data /\
    (says_gzip p = true -> gunz (bodyb p') = data) /\ (says_gzip p = false -> bodyb p' = data) /\
    header p' H_CONTENT_TYPE = Ok ct /\ is_chunked_encoded p' = is_chunked_encoded p.
Proof. exact update_body_rebuild_request. Qed.
Print Assumptions C15_update_body_rebuild_request.

Theorem C15_update_body_rebuild_response : forall (gz gunz : bytes -> bytes) p data ct,
  (forall x, gunz (gz x) = x) ->
  rebuildable_resp p = true -> ok_value ct = true -> len_ok (stored_body gz p data) = true ->
  exists p1 raw p',
    update_body gz p data ct = Ok p1 /\ build_response p1 = Ok raw /\
    parse (new_parser RESPONSE_PARSER) raw = Ok p' /\ state p' = COMPLETE /\ buffer p' = None /\
    version p' = version p /\ code p' = code p /\
    bodyb p' = stored_body gz p data /\
    (says_gzip p = true -> gunz (bodyb p') = data) /\ (says_gzip p = false -> bodyb p' = data) /\
    header p' H_CONTENT_TYPE = Ok ct /\ is_chunked_encoded p' = is_chunked_encoded p.
Proof. exact update_body_rebuild_response. Qed.
Print Assumptions C15_update_body_rebuild_response.

(* ============================================================================================== *)
(* the remaining arguments of HttpParser.build: disable_headers, for_proxy, host                  *)
(* (proofs in Http/BuildArgsFacts.v; the specification maps [minus_headers] = filter on the lower-cased name,
   [override_host] = map replacing the value of every header named Host, [rebuilt_hs D ho hs] =
   override_host ho (minus_headers D hs), [readded_D], [proxy_target], [tunnel_target] and the call sites are
   defined in Http/BuildArgs.v, independently of the dict model of Http/Builders.v; on every run the harness
   evaluates them in Coq against what the implementation's output parses back to: BBuildSpec)         *)
From PM Require Http.UrlSpec Http.UrlFacts.
From PM Require Import Http.BuildArgs Http.BuildArgsFacts.

(* Byte-exact output for ALL arguments and every parser state that passes build()'s assert: request line
   with the computed target; one line per header of the client's map minus the disabled names, Host value
   replaced, in the client's order and spelling, with the Content-Length build_http_request sets for a
   non-empty un-chunked body; blank line; the body (chunk-encoded iff the message is chunked).
   Only the target depends on for_proxy, only the header lines on disable_headers and host. *)
Theorem C15_build_args_bytes : forall ua p D fp ho m v hs bd tgt,
  ty p = REQUEST_PARSER -> method p = Some m -> m <> [] -> version p = Some v -> v <> [] ->
  headers p = lift_headers hs -> NoDup (lkeys hs) ->
  get_body_or_chunks p = Ok bd -> build_target p fp = Ok tgt ->
  build ua p D fp ho =
  Ok (m ++ SP :: tgt ++ SP :: v ++ CRLF ++ header_lines (with_length bd (rebuilt_hs D ho hs)) ++ CRLF ++ or_empty bd).
Proof. exact build_args_bytes. Qed.
Print Assumptions C15_build_args_bytes.

(* ---- disable_headers ---- *)
(* For every re-serialisable parsed request p (the decidable domain of C15_rebuild_stable_request_bool) and EVERY
   list D (no assumption on its entries): build(disable_headers=D) re-parses to a COMPLETE request with the same
   method, version, path, decoded body and chunked flag, and exactly the header map of p without the headers
   whose lower-cased name is an element of D — order, spelling and values of all others kept — plus, iff
   Content-Length itself was disabled on a message with a non-empty un-chunked body, the Content-Length that
   build_http_request writes again at the end ([readded_D]).
   Guard [te_guard]: Transfer-Encoding is not disabled on a chunked message (refuted without it, below). *)
Theorem C15_build_disable_headers : forall ua p D, rebuildable_req p = true -> te_guard p D ->
  exists raw p', build ua p D false None = Ok raw /\
    parse (new_parser REQUEST_PARSER) raw = Ok p' /\
    state p' = COMPLETE /\ buffer p' = None /\
    method p' = method p /\ version p' = version p /\ path p' = Some (path0 p) /\ host p' = None /\
    headers p' = lift_headers (minus_headers D (unlift (headers p)) ++ readded_D p D) /\
    bodyb p' = bodyb p /\ is_chunked_encoded p' = is_chunked_encoded p.
Proof. exact build_disable_headers. Qed.
Print Assumptions C15_build_disable_headers.

(* when neither framing header is named in D: exactly the header map minus D, nothing added *)
Theorem C15_build_disable_headers_exact : forall ua p D, rebuildable_req p = true ->
  mem_bytes TRANSFER_ENCODING D = false -> mem_bytes CONTENT_LENGTH D = false ->
  exists raw p', build ua p D false None = Ok raw /\
    parse (new_parser REQUEST_PARSER) raw = Ok p' /\
    state p' = COMPLETE /\ buffer p' = None /\
    method p' = method p /\ version p' = version p /\ path p' = Some (path0 p) /\ host p' = None /\
    headers p' = lift_headers (minus_headers D (unlift (headers p))) /\
    bodyb p' = bodyb p /\ is_chunked_encoded p' = is_chunked_encoded p.
Proof. exact build_disable_headers_exact. Qed.
Print Assumptions C15_build_disable_headers_exact.

(* what is removed and what is not: a header stays iff its lower-cased name is not in D (minus_headers is a
   filter: order kept); an entry of D that is not lower-case removes nothing (flag.py lower-cases the flag) *)
Theorem C15_minus_headers_spec : forall D hs kv,
  In kv (minus_headers D hs) <-> In kv hs /\ mem_bytes (lower (fst kv)) D = false.
Proof. exact minus_headers_In. Qed.
Print Assumptions C15_minus_headers_spec.
Theorem C15_disable_entry_not_lower_case : forall d D hs, lower d <> d ->
  minus_headers (d :: D) hs = minus_headers D hs.
Proof. exact upper_entry_inert. Qed.
Print Assumptions C15_disable_entry_not_lower_case.

(* ---- host= ---- *)
(* For every re-serialisable parsed request and every value hv the parser reads back unchanged (stripped, no CR):
   build(host=hv) re-parses to the same request with exactly [override_host (Some hv)] of its header map. *)
Theorem C15_build_host_override : forall ua p hv, rebuildable_req p = true -> value_ok hv ->
  exists raw p', build ua p [] false (Some hv) = Ok raw /\
    parse (new_parser REQUEST_PARSER) raw = Ok p' /\
    state p' = COMPLETE /\ buffer p' = None /\
    method p' = method p /\ version p' = version p /\ path p' = Some (path0 p) /\ host p' = None /\
    headers p' = lift_headers (override_host (Some hv) (unlift (headers p))) /\
    bodyb p' = bodyb p /\ is_chunked_encoded p' = is_chunked_encoded p.
Proof. exact build_host_override. Qed.
Print Assumptions C15_build_host_override.

(* ... and [override_host] changes exactly one entry: the value of the Host header, under the client's spelling
   of the name, at its position; a request without a Host header is left without one *)
Theorem C15_host_override_exact : forall hv hs old, NoDup (lkeys hs) -> get_ci L_HOST hs = Some old ->
  exists h1 hn h2, hs = h1 ++ (hn, old) :: h2 /\ lower hn = L_HOST /\
                   override_host (Some hv) hs = h1 ++ (hn, hv) :: h2.
Proof. exact override_host_split. Qed.
Print Assumptions C15_host_override_exact.
Theorem C15_host_override_absent : forall ho hs, get_ci L_HOST hs = None -> override_host ho hs = hs.
Proof. exact override_host_absent. Qed.
Print Assumptions C15_host_override_absent.

(* ---- both together (for_proxy=False), on the decidable domain and on the wire ---- *)
Theorem C15_build_disable_and_host : forall ua p D ho,
  rebuildable_req p = true -> te_guard p D -> match ho with Some hv => value_ok hv | None => True end ->
  exists raw p', build ua p D false ho = Ok raw /\
    parse (new_parser REQUEST_PARSER) raw = Ok p' /\
    state p' = COMPLETE /\ buffer p' = None /\
    method p' = method p /\ version p' = version p /\ path p' = Some (path0 p) /\ host p' = None /\
    headers p' = lift_headers (rebuilt_hs D ho (unlift (headers p)) ++ readded_D p D) /\
    bodyb p' = bodyb p /\ is_chunked_encoded p' = is_chunked_encoded p.
Proof. exact rebuild_origin_bool. Qed.
Print Assumptions C15_build_disable_and_host.

(* the same for every well-formed request ON THE WIRE (domain and guards of C15_rebuild_stable_request) *)
Theorem C15_build_disable_and_host_wire : forall ua D ho msg m t v u,
  message_ok DEFAULT_ALLOWED_URL_SCHEMES msg -> m_start msg = ReqLine m t v u ->
  NoDup (lkeys (all_hdrs msg)) -> m <> [] -> v <> [] ->
  (u_remainder u = None \/ u_remainder u = Some [] \/
   exists r, u_remainder u = Some (SLASH :: r) /\ tok (SLASH :: r) /\ match r with x :: _ => x <> SLASH | [] => True end) ->
  canonical_length false msg ->
  (mem_bytes TRANSFER_ENCODING D = true -> msg_chunked msg = false) ->
  match ho with Some hv => value_ok hv | None => True end ->
  exists p raw p',
    parse (new_parser REQUEST_PARSER) (render msg) = Ok p /\ state p = COMPLETE /\
    build ua p D false ho = Ok raw /\
    parse (new_parser REQUEST_PARSER) raw = Ok p' /\ state p' = COMPLETE /\ buffer p' = None /\
    method p' = method p /\ version p' = version p /\ path p' = Some (path0 p) /\
    headers p' = lift_headers (rebuilt_hs D ho (all_hdrs msg) ++ readded_D p D) /\
    bodyb p' = bodyb p /\ is_chunked_encoded p' = is_chunked_encoded p.
Proof. exact wire_rebuild_origin. Qed.
Print Assumptions C15_build_disable_and_host_wire.

(* ---- for_proxy=True ---- *)
(* bytes: build(for_proxy=True) differs from build() exactly in the request-target, which is
   scheme://host:port path (scheme "http" when the received target had none: fix 68a74df; path or "/"),
   and host:port for a CONNECT request *)
Theorem C15_build_for_proxy_bytes : forall ua p D ho m v hs h pt u,
  ty p = REQUEST_PARSER -> method p = Some m -> m <> [] -> version p = Some v -> v <> [] ->
  headers p = lift_headers hs -> NoDup (lkeys hs) ->
  host p = Some h -> h <> [] -> port p = Some pt -> pt <> 0%Z -> purl p = Some u ->
  exists rest,
    build ua p D false ho = Ok (m ++ SP :: path0 p ++ rest) /\
    build ua p D true ho =
      Ok (m ++ SP :: (if is_https_tunnel p then tunnel_target h pt else proxy_target (u_scheme u) h pt (path0 p)) ++ rest).
Proof. exact build_for_proxy_bytes. Qed.
Print Assumptions C15_build_for_proxy_bytes.

(* `assert self.host and self.port and self._url`: no host (origin-form), an empty host, no port, port 0 *)
Theorem C15_build_for_proxy_assert : forall p,
  truthy (host p) = false \/ port p = None \/ port p = Some 0%Z \/ purl p = None ->
  build_target p true = Err AssertionError.
Proof. exact build_target_proxy_assert. Qed.
Print Assumptions C15_build_for_proxy_assert.

(* round trip on the wire: every well-formed request whose target is a rendering of the C14 target grammar
   (Http/UrlSpec.v: absolute-form with optional userinfo / port / path, authority-form; reg-names, IPv4, bracketed
   IPv6; any port text with a non-zero value) parses to p; build(for_proxy=True, disable_headers=D, host=ho)
   parses back to a COMPLETE request naming the SAME host and port and — unless it is a CONNECT — the same path
   (path or "/"), with method, version, tunnel flag, header map (as for build()) and body unchanged. *)
Theorem C15_build_for_proxy : forall ua D ho msg m tg v u h,
  message_ok DEFAULT_ALLOWED_URL_SCHEMES msg -> m_start msg = ReqLine m (UrlSpec.render_target tg) v u ->
  UrlSpec.wf_target tg = true -> target_host tg = Some h -> 0 < target_port (bytes_eqb m CONNECT) tg ->
  NoDup (lkeys (all_hdrs msg)) -> m <> [] -> v <> [] ->
  canonical_length false msg ->
  (mem_bytes TRANSFER_ENCODING D = true -> msg_chunked msg = false) ->
  match ho with Some hv => value_ok hv | None => True end ->
  exists p raw p',
    parse (new_parser REQUEST_PARSER) (render msg) = Ok p /\ state p = COMPLETE /\
    host p = Some (UrlSpec.host_text h) /\ port p = Some (Z.of_N (target_port (bytes_eqb m CONNECT) tg)) /\
    path p = target_path tg /\
    build ua p D true ho = Ok raw /\
    parse (new_parser REQUEST_PARSER) raw = Ok p' /\ state p' = COMPLETE /\ buffer p' = None /\
    method p' = method p /\ version p' = version p /\ is_https_tunnel p' = is_https_tunnel p /\
    host p' = host p /\ port p' = port p /\
    path p' = (if bytes_eqb m CONNECT then None else Some (path0 p)) /\
    headers p' = lift_headers (rebuilt_hs D ho (all_hdrs msg) ++ readded_D p D) /\
    bodyb p' = bodyb p /\ is_chunked_encoded p' = is_chunked_encoded p.
Proof. exact wire_rebuild_proxy. Qed.
Print Assumptions C15_build_for_proxy.

(* the same for ANY parser state with these properties (scheme None / http / https; any path without SP/CR,
   "//x" included: in absolute-form it is not re-read as a network-path reference) *)
Theorem C15_build_for_proxy_state : forall ua p D ho m v hs h n u,
  ty p = REQUEST_PARSER ->
  method p = Some m -> m <> [] -> tok m ->
  version p = Some v -> v <> [] -> ~ In CR v ->
  is_https_tunnel p = bytes_eqb m CONNECT ->
  host p = Some (UrlSpec.host_text h) -> UrlSpec.wf_host h = true -> tok (UrlSpec.host_text h) ->
  port p = Some (Z.of_N n) -> 0 < n -> UrlSpec.wf_port (dec_of_N n) = true ->
  purl p = Some u -> scheme_ok (u_scheme u) ->
  path_tok p ->
  headers p = lift_headers hs -> wfhP hs -> framing_consistent p hs ->
  te_guard p D -> match ho with Some hv => value_ok hv | None => True end ->
  exists raw p', build ua p D true ho = Ok raw /\
    parse (new_parser REQUEST_PARSER) raw = Ok p' /\
    state p' = COMPLETE /\ buffer p' = None /\
    method p' = Some m /\ version p' = Some v /\ is_https_tunnel p' = is_https_tunnel p /\
    host p' = host p /\ port p' = port p /\
    path p' = (if is_https_tunnel p then None else Some (path0 p)) /\
    headers p' = lift_headers (rebuilt_hs D ho hs ++ readded_D p D) /\
    bodyb p' = bodyb p /\ is_chunked_encoded p' = is_chunked_encoded p.
Proof. exact rebuild_proxy_state. Qed.
Print Assumptions C15_build_for_proxy_state.

(* the most general form: whatever target build() computes, if Url.from_bytes (opaque) reads it as u' the rebuilt
   request parses to (method, u', version, the specified header map, the body) *)
Theorem C15_build_args_state : forall ua p D fp ho m v hs tgt u',
  ty p = REQUEST_PARSER ->
  method p = Some m -> m <> [] -> tok m ->
  version p = Some v -> v <> [] -> ~ In CR v ->
  build_target p fp = Ok tgt -> tok tgt -> from_bytes DEFAULT_ALLOWED_URL_SCHEMES tgt = Ok u' ->
  headers p = lift_headers hs -> wfhP hs ->
  match ho with Some hv => value_ok hv | None => True end ->
  framing_after p (rebuilt_hs D ho hs) ->
  exists raw p', build ua p D fp ho = Ok raw /\
    parse (new_parser REQUEST_PARSER) raw = Ok p' /\
    state p' = COMPLETE /\ buffer p' = None /\
    method p' = Some m /\ version p' = Some v /\ purl p' = Some u' /\
    is_https_tunnel p' = bytes_eqb m CONNECT /\
    (host p', port p', path p') = line_attributes (bytes_eqb m CONNECT) u' /\
    headers p' = lift_headers (rebuilt_hs D ho hs ++ readded p (rebuilt_hs D ho hs)) /\
    bodyb p' = bodyb p /\ is_chunked_encoded p' = is_chunked_encoded p.
Proof. exact rebuild_args_state. Qed.
Print Assumptions C15_build_args_state.

(* ---- the call sites ---- *)
(* forward proxy, server.py _queue_request_for_upstream: request.build(disable_headers=flags.disable_headers)
   on the request object r2 as mutated before the call *)
Theorem C15_forward_call_site : forall ua D r2, rebuildable_req r2 = true -> te_guard r2 D ->
  exists raw p', forward_call ua D r2 = Ok raw /\
    parse (new_parser REQUEST_PARSER) raw = Ok p' /\ state p' = COMPLETE /\ buffer p' = None /\
    method p' = method r2 /\ version p' = version r2 /\ path p' = Some (path0 r2) /\ host p' = None /\
    headers p' = lift_headers (minus_headers D (unlift (headers r2)) ++ readded_D r2 D) /\
    bodyb p' = bodyb r2 /\ is_chunked_encoded p' = is_chunked_encoded r2.
Proof. exact forward_call_site. Qed.
Print Assumptions C15_forward_call_site.

(* reverse proxy, reverse.py handle_request: request.build(host=hostname[:port] if rewrite_host_header else None) *)
Theorem C15_reverse_call_site : forall ua rw hostname port p, rebuildable_req p = true ->
  match reverse_host_arg rw hostname port with Some hv => value_ok hv | None => True end ->
  exists raw p', reverse_call ua rw hostname port p = Ok raw /\
    parse (new_parser REQUEST_PARSER) raw = Ok p' /\ state p' = COMPLETE /\ buffer p' = None /\
    method p' = method p /\ version p' = version p /\ path p' = Some (path0 p) /\ host p' = None /\
    headers p' = lift_headers (override_host (reverse_host_arg rw hostname port) (unlift (headers p))) /\
    bodyb p' = bodyb p /\ is_chunked_encoded p' = is_chunked_encoded p.
Proof. exact reverse_call_site. Qed.
Print Assumptions C15_reverse_call_site.
(* its hypothesis holds for every host name without CR that does not start with white space, with a port *)
Theorem C15_reverse_host_value_ok : forall hn n, hn <> [] -> ~ In CR hn -> is_ws (hd 0 hn) = false ->
  value_ok (hn ++ [COLON] ++ bytes_of_Z (Z.of_N n)).
Proof. exact value_ok_hostport. Qed.
Print Assumptions C15_reverse_host_value_ok.

(* proxy pool, proxy_pool.py: request.build(for_proxy=True): same origin, header map untouched *)
Theorem C15_proxy_pool_call_site : forall ua msg m tg v u h,
  message_ok DEFAULT_ALLOWED_URL_SCHEMES msg -> m_start msg = ReqLine m (UrlSpec.render_target tg) v u ->
  UrlSpec.wf_target tg = true -> target_host tg = Some h -> 0 < target_port (bytes_eqb m CONNECT) tg ->
  NoDup (lkeys (all_hdrs msg)) -> m <> [] -> v <> [] ->
  canonical_length false msg ->
  exists p raw p',
    parse (new_parser REQUEST_PARSER) (render msg) = Ok p /\ state p = COMPLETE /\
    host p = Some (UrlSpec.host_text h) /\ port p = Some (Z.of_N (target_port (bytes_eqb m CONNECT) tg)) /\
    path p = target_path tg /\
    proxy_pool_call ua p = Ok raw /\
    parse (new_parser REQUEST_PARSER) raw = Ok p' /\ state p' = COMPLETE /\ buffer p' = None /\
    method p' = method p /\ version p' = version p /\ is_https_tunnel p' = is_https_tunnel p /\
    host p' = host p /\ port p' = port p /\
    path p' = (if bytes_eqb m CONNECT then None else Some (path0 p)) /\
    headers p' = headers p /\ bodyb p' = bodyb p /\ is_chunked_encoded p' = is_chunked_encoded p.
Proof. exact proxy_pool_call_site. Qed.
Print Assumptions C15_proxy_pool_call_site.

(* ---- refutation of the unguarded statement, and non-vacuity ---- *)
(* FULL STATEMENT of C15_build_disable_headers without [te_guard] is FALSE of the faithful model and of the code
   (replayed: corpus/C15/buildargs.json): disabling transfer-encoding on a chunked request drops the header but
   still chunk-encodes the body and announces the ENCODED bytes by Content-Length; the recipient's body is
   "5 CRLF hello CRLF 0 CRLF CRLF", not "hello". *)
Theorem C15_build_disable_te_refuted :
  exists p raw p',
    parse (new_parser REQUEST_PARSER) ex_chunked_hello = Ok p /\ state p = COMPLETE /\
    rebuildable_req p = true /\ body p = Some (bs "hello") /\
    build ex_ua p [TRANSFER_ENCODING] false None = Ok raw /\
    raw = bs "POST /x HTTP/1.1" ++ CRLF ++ bs "Host: a" ++ CRLF ++ bs "Content-Length: 15" ++ CRLF ++ CRLF ++
          bs "5" ++ CRLF ++ bs "hello" ++ CRLF ++ bs "0" ++ CRLF ++ CRLF /\
    parse (new_parser REQUEST_PARSER) raw = Ok p' /\ state p' = COMPLETE /\
    is_chunked_encoded p' = false /\
    body p' = Some (bs "5" ++ CRLF ++ bs "hello" ++ CRLF ++ bs "0" ++ CRLF ++ CRLF).
Proof. exact build_disable_te_refuted. Qed.
Print Assumptions C15_build_disable_te_refuted.

(* "exactly the header map minus D" is false when D names Content-Length on a request with a body: the header is
   written again (that is what [readded_D] states) *)
Example C15_build_disable_cl_readded :
  exists p raw p',
    parse (new_parser REQUEST_PARSER) ex_post_cl = Ok p /\ rebuildable_req p = true /\
    te_guard p [CONTENT_LENGTH; bs "x-id"] /\
    build ex_ua p [CONTENT_LENGTH; bs "x-id"] false None = Ok raw /\
    raw = bs "POST /x HTTP/1.1" ++ CRLF ++ bs "Host: a" ++ CRLF ++ bs "Content-Length: 5" ++ CRLF ++ CRLF ++ bs "hello" /\
    parse (new_parser REQUEST_PARSER) raw = Ok p' /\
    headers p' = lift_headers [(bs "Host", bs "a"); (bs "Content-Length", bs "5")] /\
    minus_headers [CONTENT_LENGTH; bs "x-id"] (unlift (headers p)) = [(bs "Host", bs "a")] /\
    readded_D p [CONTENT_LENGTH; bs "x-id"] = [(bs "Content-Length", bs "5")].
Proof. exact build_disable_cl_readded. Qed.

Example C15_nonvacuous_disable_headers :
  exists p, parse (new_parser REQUEST_PARSER) ex_post_cl = Ok p /\ rebuildable_req p = true /\
    mem_bytes TRANSFER_ENCODING [bs "x-id"; bs "not-there"] = false /\
    mem_bytes CONTENT_LENGTH [bs "x-id"; bs "not-there"] = false /\
    minus_headers [bs "x-id"; bs "not-there"] (unlift (headers p)) = [(bs "content-length", bs "5"); (bs "Host", bs "a")] /\
    minus_headers [bs "X-Id"] (unlift (headers p)) = unlift (headers p) /\
    build ex_ua p [bs "x-id"; bs "not-there"] false None =
      Ok (bs "POST /x HTTP/1.1" ++ CRLF ++ bs "content-length: 5" ++ CRLF ++ bs "Host: a" ++ CRLF ++ CRLF ++ bs "hello") /\
    build ex_ua p [bs "X-Id"] false None = Ok ex_post_cl.
Proof. exact ex_disable_headers. Qed.

Example C15_nonvacuous_host_override :
  exists p q, parse (new_parser REQUEST_PARSER) ex_get_host = Ok p /\ rebuildable_req p = true /\
    value_ok (bs "backend.internal:8080") /\
    reverse_host_arg true (bs "backend.internal") (Some 8080%Z) = Some (bs "backend.internal:8080") /\
    build ex_ua p [] false (Some (bs "backend.internal:8080")) =
      Ok (bs "GET /p HTTP/1.1" ++ CRLF ++ bs "Accept: */*" ++ CRLF ++ bs "HOST: backend.internal:8080" ++ CRLF ++
          bs "X-Id: 7" ++ CRLF ++ CRLF) /\
    parse (new_parser REQUEST_PARSER) ex_get_nohost = Ok q /\ rebuildable_req q = true /\
    build ex_ua q [] false (Some (bs "backend.internal:8080")) = Ok ex_get_nohost.
Proof. exact ex_host_override. Qed.

(* the targets build(for_proxy=True) writes, computed by the model (same inputs replayed on the code) *)
Example C15_for_proxy_targets :
  fp_target (bs "GET http://user:pw@[::1]:8080/x?y HTTP/1.1" ++ CRLF ++ CRLF) = Ok (bs "http://[::1]:8080/x?y") /\
  fp_target (bs "GET http://example.com HTTP/1.1" ++ CRLF ++ CRLF) = Ok (bs "http://example.com:80/") /\
  fp_target (bs "GET example.com:8080 HTTP/1.1" ++ CRLF ++ CRLF) = Ok (bs "http://example.com:8080/") /\
  fp_target (bs "CONNECT example.com:443 HTTP/1.1" ++ CRLF ++ CRLF) = Ok (bs "example.com:443") /\
  fp_target (bs "GET https://example.com/a HTTP/1.1" ++ CRLF ++ CRLF) = Ok (bs "https://example.com:80/a") /\
  fp_target (bs "GET http://h//x HTTP/1.1" ++ CRLF ++ CRLF) = Ok (bs "http://h:80//x") /\
  fp_target (bs "GET /x HTTP/1.1" ++ CRLF ++ bs "Host: h" ++ CRLF ++ CRLF) = Err AssertionError /\
  fp_target (bs "GET http://h:0/ HTTP/1.1" ++ CRLF ++ CRLF) = Err AssertionError.
Proof. exact ex_for_proxy_targets. Qed.

Example C15_nonvacuous_for_proxy :
  message_ok DEFAULT_ALLOWED_URL_SCHEMES ex_abs_msg /\ UrlSpec.wf_target ex_abs_target = true /\
  target_host ex_abs_target = Some (UrlSpec.IPv6 (bs "::1")) /\ 0 < target_port false ex_abs_target /\
  NoDup (lkeys (all_hdrs ex_abs_msg)) /\ canonical_length false ex_abs_msg /\
  render ex_abs_msg = bs "POST http://user:pw@[::1]:8080/x?y HTTP/1.1" ++ CRLF ++ bs "Host: [::1]:8080" ++ CRLF ++
                      bs "content-length: 5" ++ CRLF ++ bs "Proxy-Connection: keep-alive" ++ CRLF ++ CRLF ++ bs "hello" /\
  exists p, parse (new_parser REQUEST_PARSER) (render ex_abs_msg) = Ok p /\
    build ex_ua p [] true None =
      Ok (bs "POST http://[::1]:8080/x?y HTTP/1.1" ++ CRLF ++ bs "Host: [::1]:8080" ++ CRLF ++
          bs "content-length: 5" ++ CRLF ++ bs "Proxy-Connection: keep-alive" ++ CRLF ++ CRLF ++ bs "hello").
Proof. exact ex_for_proxy_hypotheses. Qed.
