(* C01 — relayed byte streams arrive exactly once, in order, unmodified.
   Statements only; proofs are in Net/ConnFacts.v, Net/HandlerFacts.v, Net/TunnelFacts.v.

   Vocabulary (Net/Handler.v): one [event] = one handle_events(readables, writables) call of the real
   handler: it names the ready descriptors and the outcome of every recv()/send() made in that call
   (data piece | EOF | reset | timeout | OS error;  Accept k = the kernel takes at most k bytes |
   would-block | broken pipe | OS error).  An event LIST therefore is a segmentation of both byte
   streams x an interleaving of arrival/readiness/drain events x a short-write pattern.  All theorems
   quantify over every event list, every max_sendbuf_size, every upstream byte string.
   [g_up_rcvd s] / [g_cl_rcvd s] are ghost histories: every byte upstream.recv() (resp. the client recv()
   after the exchange was established) has returned, in order (C01_histories_are_recv_results).
   [delivered_client s] = bytes the client socket has accepted, [pending_client s] = still buffered. *)
From PM Require Import Lib.Bytes Net.Conn Net.ConnFacts Net.Handler Net.HandlerFacts Net.Tunnel Net.TunnelFacts.
From Coq Require Import ZArith.

(* flush never loses, duplicates or reorders: what the socket has taken followed by what is still
   buffered is the same byte string before and after flush, under EVERY send outcome (full write,
   short write of any length, would-block, broken pipe, other OS error) and every max_send_size;
   queue appends exactly the queued bytes at the end. *)
Theorem C01_flush_conservation : forall max o c c' r mv,
  (flush max o c = (c', r) -> sent c' ++ pending c' = sent c ++ pending c) /\
  sent (queue mv c) ++ pending (queue mv c) = (sent c ++ pending c) ++ mv.
Proof. intros; split; [apply flush_conservation|apply queue_conservation]. Qed.
Print Assumptions C01_flush_conservation.

(* upstream -> client.  After ANY event list, once the exchange is established (HTTP request forwarded
   or CONNECT acknowledged; the state may even be the one in which teardown was just decided):
   bytes the client received ++ bytes still buffered for it = ack ++ every byte the upstream sent,
   where ack = the '200 Connection established' packet for tunnels and nothing otherwise.
   Hence each upstream byte is delivered at most once, in order, unmodified, and the only injected
   bytes are the acknowledgement ahead of tunnel data. *)
Theorem C01_relay_invariant_client : forall c t0 evs s r,
  run c (init t0) evs = (s, r) -> established s ->
  delivered_client s ++ pending_client s = ack_of c s ++ g_up_rcvd s.
Proof. exact relay_invariant_client. Qed.
Print Assumptions C01_relay_invariant_client.

(* client -> upstream, for tunnels *)
Theorem C01_relay_invariant_upstream : forall c t0 evs s r,
  run c (init t0) evs = (s, r) -> established s -> is_tunnel s = true ->
  delivered_upstream s ++ pending_upstream s = g_cl_rcvd s.
Proof. exact relay_invariant_upstream. Qed.
Print Assumptions C01_relay_invariant_upstream.

(* the ghost histories are exactly the recv() results of the calls: in one handle_events call the upstream
   history either stays or grows by the data piece that call's upstream.recv() returned; the client history
   stays, or grows by the whole piece the client recv() returned, or — only in the call that completes the
   first request (e222aa4) — by [req_rem (req ev)], the part of that piece that follows the end of the
   request (that this is a SUFFIX of the piece is the parser's contract, C03; the harness checks it on
   every case against the raw client bytes). *)
Theorem C01_histories_are_recv_results : forall c ev s s' r,
  handle_events c ev s = (s', r) ->
  (g_up_rcvd s' = g_up_rcvd s \/ (u_r ev = true /\ g_up_rcvd s' = g_up_rcvd s ++ recv_data (u_recv ev))) /\
  (g_cl_rcvd s' = g_cl_rcvd s \/
   (c_r ev = true /\ (g_cl_rcvd s' = g_cl_rcvd s ++ recv_data (c_recv ev) \/
                      g_cl_rcvd s' = g_cl_rcvd s ++ req_rem (req ev)))).
Proof. exact ghost_handle_events. Qed.
Print Assumptions C01_histories_are_recv_results.

(* which of the two: at the handle_data boundary, the whole piece once the first request is complete, only
   the remainder in the call that completes it; never both, never twice *)
Theorem C01_histories_at_handle_data : forall c ev s data s' r,
  handle_data c ev s data = (s', r) ->
  g_up_rcvd s' = g_up_rcvd s /\
  (g_cl_rcvd s' = g_cl_rcvd s \/
   (req_complete s = true /\ g_cl_rcvd s' = g_cl_rcvd s ++ data) \/
   (req_complete s = false /\ g_cl_rcvd s' = g_cl_rcvd s ++ req_rem (req ev))).
Proof. exact ghost_handle_data. Qed.
Print Assumptions C01_histories_at_handle_data.

(* CONNECT and tunnel payload in ONE segment: the call that establishes the tunnel queues the acknowledgement
   for the client and the bytes behind the request for the upstream — all of them, once, nothing sent yet;
   from then on C01_relay_invariant_upstream (whose g_cl_rcvd now starts with these bytes) takes over *)
Theorem C01_connect_with_payload : forall c ev s data rebuilt rem,
  req_complete s = false -> req ev = RProxy true rebuilt rem ->
  exists s', handle_data c ev s data = (s', Some false) /\
    established s' /\ is_tunnel s' = true /\
    delivered_upstream s' = [] /\ pending_upstream s' = rem /\
    g_cl_rcvd s' = g_cl_rcvd s ++ rem /\
    pending (work s') = pending (work s) ++ ack c.
Proof. exact connect_with_payload. Qed.
Print Assumptions C01_connect_with_payload.

(* progress: a call in which the client socket is reported writable and accepts k > 0 bytes while a
   non-empty piece is at the head of the buffer delivers at least one more byte *)
Theorem C01_progress : forall c ev s s' r mv rest k,
  c_w ev = true -> buffer (work s) = mv :: rest -> mv <> [] -> c_send ev = Accept k -> 0 < k ->
  step c s ev = (s', r) ->
  (length (delivered_client s) < length (delivered_client s'))%nat.
Proof. exact step_progress. Qed.
Print Assumptions C01_progress.

(* drain: any continuation made of client-writable events on which the kernel accepts k > 0 bytes
   (nothing else arriving), at least "bytes + pieces pending" many, empties the buffer without an
   exception, and the client has then received everything that was pending, in order *)
Theorem C01_drains : forall c evs s,
  Forall drain_ev evs -> (backlog (work s) <= length evs)%nat ->
  exists s' r, run c s evs = (s', r) /\ r <> Raised /\
               pending_client s' = [] /\ delivered_client s' = delivered_client s ++ pending_client s.
Proof.
  intros c evs s H1 H2. destruct (drains c evs s H1 H2) as [s' [r [A [B [C D]]]]].
  exists s', r. repeat split; auto. unfold pending_client, pending. rewrite C. reflexivity.
Qed.
Print Assumptions C01_drains.

(* the same at the level of one TcpConnection (either peer): enough effective flushes drain it *)
Theorem C01_conn_drains : forall max os c,
  forallb effective os = true -> (backlog c <= length os)%nat ->
  exists c', flush_many max os c = (c', Flushed 0) /\ buffer c' = [] /\ sent c' = sent c ++ pending c.
Proof. exact flush_many_drains. Qed.
Print Assumptions C01_conn_drains.

(* BaseTcpTunnelHandler (tcp_tunnel.py): both directions, every event list *)
Theorem C01_tunnel_handler_invariant : forall c t0 evs s r u,
  tunnel_run c (init t0) evs = (s, r) -> upstream s = Some u ->
  sent (work s) ++ pending (work s) = ack c ++ g_up_rcvd s /\
  sent u ++ pending u = g_cl_rcvd s.
Proof. exact tunnel_relay_invariant. Qed.
Print Assumptions C01_tunnel_handler_invariant.

(* ---- non-vacuity: a CONNECT with two payload bytes in the same segment, acknowledgement and upstream data
   crossing max_send = 3 with short writes and a would-block; the hypotheses are met by a concrete run *)
Definition ex_cfg : cfg := mkCfg 3 (bs "HTTP/1.1 200 Connection established") 10240 true.
Definition ex_ev (cr cw ur uw : bool) (cs : outcome) (crv urv : recv_res) (rq : req_outcome) : event :=
  mkEvent 5 cr cw ur uw cs (Accept 100) crv urv rq DNothing.
Definition ex_events : list event :=
  [ ex_ev true false false false (Accept 100) (RData (bs "CONNECT h:443 HTTP/1.1" ++ [22; 3])) ROsErr (RProxy true [] [22; 3]);
    ex_ev false true true false (Accept 2) ROsErr (RData [0; 255; 13; 10; 7]) RIncomplete;
    ex_ev true true true true WouldBlock (RData [1; 2; 3; 4]) (RData [9]) RIncomplete;
    ex_ev false true false true (Accept 100) ROsErr ROsErr RIncomplete ].
Example C01_nonvacuous :
  let '(s, r) := run ex_cfg (init 0) ex_events in
  r = Continue /\ established s /\ is_tunnel s = true /\
  g_up_rcvd s = [0; 255; 13; 10; 7; 9] /\ g_cl_rcvd s = [22; 3; 1; 2; 3; 4] /\
  delivered_client s = bs "HTTP/" /\ delivered_upstream s = [22; 3; 1; 2; 3] /\ pending_upstream s = [4] /\
  has_buffer (work s) = true.
Proof.
  vm_compute. repeat split; try reflexivity. eexists; reflexivity.
Qed.
