(* C01 — relayed byte streams arrive exactly once, in order, unmodified.
   Statements only; proofs are in Net/ConnFacts.v and Net/HandlerFacts.v. *)
From PM Require Import Lib.Bytes Net.Conn Net.ConnFacts.

(* flush never loses, duplicates or reorders: what the socket has taken followed by what is still
   buffered is the same byte string before and after flush, under EVERY send outcome (full write,
   short write of any length, would-block, broken pipe, other OS error) and every max_send_size;
   queue appends exactly the queued bytes at the end. *)
Theorem C01_flush_conservation : forall max o c c' r mv,
  (flush max o c = (c', r) -> sent c' ++ pending c' = sent c ++ pending c) /\
  sent (queue mv c) ++ pending (queue mv c) = (sent c ++ pending c) ++ mv.
Proof. intros; split; [apply flush_conservation|apply queue_conservation]. Qed.
Print Assumptions C01_flush_conservation.
