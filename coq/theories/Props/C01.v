(* C01 — relayed byte streams arrive exactly once, in order, unmodified.
   Statements only; proofs are in Net/ConnFacts.v, Net/HandlerFacts.v, Net/TunnelFacts.v, Net/CauseFacts.v.

   Vocabulary (Net/Handler.v): one [event] = one handle_events(readables, writables) call of the real
   handler: it names the ready descriptors and the outcome of every recv()/send() made in that call
   (data piece | EOF | reset | timeout | OS error;  Accept k = the kernel takes at most k bytes |
   would-block | broken pipe | OS error).  An event LIST therefore is a segmentation of both byte
   streams x an interleaving of arrival/readiness/drain events x a short-write pattern.  All theorems
   quantify over every event list, every max_sendbuf_size, every upstream byte string.
   [g_up_rcvd s] / [g_cl_rcvd s] are ghost histories: every byte upstream.recv() (resp. the client recv()
   after the exchange was established) has returned, in order (C01_histories_are_recv_results).
   [delivered_client s] = bytes the client socket has accepted, [pending_client s] = still buffered. *)
From PM Require Import Lib.Bytes Net.Conn Net.ConnFacts Net.Handler Net.HandlerFacts Net.Tunnel Net.TunnelFacts.
From PM Require Import Net.Cause Net.CauseFacts.
From Coq Require Import ZArith.

(* flush never loses, duplicates or reorders: what the socket has taken followed by what is still
   buffered is the same byte string before and after flush, under EVERY send outcome (full write,
   short write of any length, would-block, broken pipe, other OS error) and every max_send_size;
   queue appends exactly the queued bytes at the end. *)
Theorem C01_flush_conservation : forall max o c c' r mv,
  (flush max o c = (c', r) -> sent c' ++ pending c' = sent c ++ pending c) /\
  sent (queue mv c) ++ pending (queue mv c) = (sent c ++ pending c) ++ mv.
Proof. intros; split; [apply flush_conservation|apply queue_conservation]. Qed.
Print Assumptions C01_flush_conservation.

(* upstream -> client.  After ANY event list, once the exchange is established (HTTP request forwarded
   or CONNECT acknowledged; the state may even be the one in which teardown was just decided):
   bytes the client received ++ bytes still buffered for it = ack ++ every byte the upstream sent,
   where ack = the '200 Connection established' packet for tunnels and nothing otherwise.
   Hence each upstream byte is delivered at most once, in order, unmodified, and the only injected
   bytes are the acknowledgement ahead of tunnel data. *)
Theorem C01_relay_invariant_client : forall c t0 evs s r,
  run c (init t0) evs = (s, r) -> established s ->
  delivered_client s ++ pending_client s = ack_of c s ++ g_up_rcvd s.
Proof. exact relay_invariant_client. Qed.
Print Assumptions C01_relay_invariant_client.

(* client -> upstream, for tunnels *)
Theorem C01_relay_invariant_upstream : forall c t0 evs s r,
  run c (init t0) evs = (s, r) -> established s -> is_tunnel s = true ->
  delivered_upstream s ++ pending_upstream s = g_cl_rcvd s.
Proof. exact relay_invariant_upstream. Qed.
Print Assumptions C01_relay_invariant_upstream.

(* the ghost histories are exactly the recv() results of the calls: in one handle_events call the upstream
   history either stays or grows by the data piece that call's upstream.recv() returned; the client history
   stays, or grows by the whole piece the client recv() returned, or — only in the call that completes the
   first request (e222aa4) — by [req_rem (req ev)], the part of that piece that follows the end of the
   request (that this is a SUFFIX of the piece is the parser's contract, C03; the harness checks it on
   every case against the raw client bytes). *)
Theorem C01_histories_are_recv_results : forall c ev s s' r,
  handle_events c ev s = (s', r) ->
  (g_up_rcvd s' = g_up_rcvd s \/ (u_r ev = true /\ g_up_rcvd s' = g_up_rcvd s ++ recv_data (u_recv ev))) /\
  (g_cl_rcvd s' = g_cl_rcvd s \/
   (c_r ev = true /\ (g_cl_rcvd s' = g_cl_rcvd s ++ recv_data (c_recv ev) \/
                      g_cl_rcvd s' = g_cl_rcvd s ++ req_rem (req ev)))).
Proof. exact ghost_handle_events. Qed.
Print Assumptions C01_histories_are_recv_results.

(* which of the two: at the handle_data boundary, the whole piece once the first request is complete, only
   the remainder in the call that completes it; never both, never twice *)
Theorem C01_histories_at_handle_data : forall c ev s data s' r,
  handle_data c ev s data = (s', r) ->
  g_up_rcvd s' = g_up_rcvd s /\
  (g_cl_rcvd s' = g_cl_rcvd s \/
   (req_complete s = true /\ g_cl_rcvd s' = g_cl_rcvd s ++ data) \/
   (req_complete s = false /\ g_cl_rcvd s' = g_cl_rcvd s ++ req_rem (req ev))).
Proof. exact ghost_handle_data. Qed.
Print Assumptions C01_histories_at_handle_data.

(* CONNECT and tunnel payload in ONE segment: the call that establishes the tunnel queues the acknowledgement
   for the client and the bytes behind the request for the upstream — all of them, once, nothing sent yet;
   from then on C01_relay_invariant_upstream (whose g_cl_rcvd now starts with these bytes) takes over *)
Theorem C01_connect_with_payload : forall c ev s data rebuilt rem,
  req_complete s = false -> req ev = RProxy true rebuilt rem ->
  exists s', handle_data c ev s data = (s', Some false) /\
    established s' /\ is_tunnel s' = true /\
    delivered_upstream s' = [] /\ pending_upstream s' = rem /\
    g_cl_rcvd s' = g_cl_rcvd s ++ rem /\
    pending (work s') = pending (work s) ++ ack c.
Proof. exact connect_with_payload. Qed.
Print Assumptions C01_connect_with_payload.

(* progress: a call in which the client socket is reported writable and accepts k > 0 bytes while a
   non-empty piece is at the head of the buffer delivers at least one more byte *)
Theorem C01_progress : forall c ev s s' r mv rest k,
  c_w ev = true -> buffer (work s) = mv :: rest -> mv <> [] -> c_send ev = Accept k -> 0 < k ->
  step c s ev = (s', r) ->
  (length (delivered_client s) < length (delivered_client s'))%nat.
Proof. exact step_progress. Qed.
Print Assumptions C01_progress.

(* drain: any continuation made of client-writable events on which the kernel accepts k > 0 bytes
   (nothing else arriving), at least "bytes + pieces pending" many, empties the buffer without an
   exception, and the client has then received everything that was pending, in order *)
Theorem C01_drains : forall c evs s,
  Forall drain_ev evs -> (backlog (work s) <= length evs)%nat ->
  exists s' r, run c s evs = (s', r) /\ r <> Raised /\
               pending_client s' = [] /\ delivered_client s' = delivered_client s ++ pending_client s.
Proof.
  intros c evs s H1 H2. destruct (drains c evs s H1 H2) as [s' [r [A [B [C D]]]]].
  exists s', r. repeat split; auto. unfold pending_client, pending. rewrite C. reflexivity.
Qed.
Print Assumptions C01_drains.

(* the same at the level of one TcpConnection (either peer): enough effective flushes drain it *)
Theorem C01_conn_drains : forall max os c,
  forallb effective os = true -> (backlog c <= length os)%nat ->
  exists c', flush_many max os c = (c', Flushed 0) /\ buffer c' = [] /\ sent c' = sent c ++ pending c.
Proof. exact flush_many_drains. Qed.
Print Assumptions C01_conn_drains.

(* BaseTcpTunnelHandler (tcp_tunnel.py): both directions, every event list *)
Theorem C01_tunnel_handler_invariant : forall c t0 evs s r u,
  tunnel_run c (init t0) evs = (s, r) -> upstream s = Some u ->
  sent (work s) ++ pending (work s) = ack c ++ g_up_rcvd s /\
  sent u ++ pending u = g_cl_rcvd s.
Proof. exact tunnel_relay_invariant. Qed.
Print Assumptions C01_tunnel_handler_invariant.

(* ---- non-vacuity: a CONNECT with two payload bytes in the same segment, acknowledgement and upstream data
   crossing max_send = 3 with short writes and a would-block; the hypotheses are met by a concrete run *)
Definition ex_cfg : cfg := mkCfg 3 (bs "HTTP/1.1 200 Connection established") 10240 true.
Definition ex_ev (cr cw ur uw : bool) (cs : outcome) (crv urv : recv_res) (rq : req_outcome) : event :=
  mkEvent 5 cr cw ur uw cs (Accept 100) crv urv rq DNothing.
Definition ex_events : list event :=
  [ ex_ev true false false false (Accept 100) (RData (bs "CONNECT h:443 HTTP/1.1" ++ [22; 3])) ROsErr (RProxy true [] [22; 3]);
    ex_ev false true true false (Accept 2) ROsErr (RData [0; 255; 13; 10; 7]) RIncomplete;
    ex_ev true true true true WouldBlock (RData [1; 2; 3; 4]) (RData [9]) RIncomplete;
    ex_ev false true false true (Accept 100) ROsErr ROsErr RIncomplete ].
Example C01_nonvacuous :
  let '(s, r) := run ex_cfg (init 0) ex_events in
  r = Continue /\ established s /\ is_tunnel s = true /\
  g_up_rcvd s = [0; 255; 13; 10; 7; 9] /\ g_cl_rcvd s = [22; 3; 1; 2; 3; 4] /\
  delivered_client s = bs "HTTP/" /\ delivered_upstream s = [22; 3; 1; 2; 3] /\ pending_upstream s = [4] /\
  has_buffer (work s) = true.
Proof.
  vm_compute. repeat split; try reflexivity. eexists; reflexivity.
Qed.


(* ==========================================================================================================
   A TEARDOWN NEEDS A CAUSE (vocabulary: Net/Cause.v; proofs: Net/CauseFacts.v).
   The proxy never ends an exchange on its own.  [carries ev k] = the event (one handle_events call with the
   outcome of every recv()/send() and request-oracle call in it) reports cause k, k one of
     ClientSendFailed      client fd writable and send() raised BrokenPipeError / another OSError
     UpstreamSendFailed    upstream fd writable and send() raised BrokenPipeError / another OSError
     ClientRecvEnded       client fd readable and recv() returned b''/None, reset, timed out, other OSError
     UpstreamRecvEnded     upstream fd readable and recv() returned b''/None, reset, ETIMEDOUT, other OSError
     FirstRequestRejected  client data while the first request is incomplete and the request oracle rejects it
                           (queues an error response / HttpProtocolException: bad request, auth, connect failure ...)
     LaterRequestRejected  client data and plugin.on_client_data raised HttpProtocolException (pipelined request)
   [applies s k] = the state in which that report can matter (buffer non-empty for the send failures, request
   incomplete for the first, complete + not a tunnel / upgraded connection for the later rejection).
   [armed s] = must_flush_before_shutdown or writes_teared or reads_teared is already set: an EARLIER call decided
   the teardown and it only waits for the client buffer to drain (C07).
   Bytes the upstream sends are in no cause: whatever the (bookkeeping) response parser makes of them — complete
   response, interim 1xx, unparsable — handle_events does not return True because of them.  Seeded change
   C01-r3-2 (teardown when the response parser of a non-keep-alive request reports completion) contradicts
   C01_teardown_has_cause and shows up as a result mismatch in the correspondence.
   ========================================================================================================== *)

(* every state, every event: a True from handle_events has a cause in this call or was armed before it *)
Theorem C01_teardown_has_cause : forall c ev s s',
  handle_events c ev s = (s', Teardown) ->
  armed s = true \/ exists k, carries ev k = true /\ applies s k.
Proof. exact teardown_has_cause. Qed.
Print Assumptions C01_teardown_has_cause.

(* ... and so has every arming: the three flags are only ever set by a cause (whatever the call returns) *)
Theorem C01_arming_has_cause : forall c ev s s' r,
  handle_events c ev s = (s', r) -> armed s' = true ->
  armed s = true \/ exists k, carries ev k = true /\ applies s k.
Proof. exact armed_has_cause. Qed.
Print Assumptions C01_arming_has_cause.

(* an ESTABLISHED exchange (request forwarded / CONNECT acknowledged) on which nothing is armed: the list shrinks
   to five causes — a first-request rejection is impossible — and to four for tunnels and upgraded connections,
   whose client bytes are relayed without being looked at *)
Theorem C01_teardown_has_cause_established : forall c ev s s',
  established s -> req_complete s = true -> armed s = false ->
  handle_events c ev s = (s', Teardown) ->
  exists k, carries ev k = true /\ applies s k /\ k <> FirstRequestRejected /\
            (k = LaterRequestRejected -> is_tunnel s = false /\ pipeline_upgrade s = false).
Proof. exact teardown_has_cause_established. Qed.
Print Assumptions C01_teardown_has_cause_established.

(* (the second hypothesis holds in every established state reached from a fresh connection) *)
Theorem C01_established_request_complete : forall c t0 evs s r,
  run c (init t0) evs = (s, r) -> established s -> req_complete s = true.
Proof. exact established_request_complete. Qed.
Print Assumptions C01_established_request_complete.

(* an exception escapes handle_events (Threadless: teardown WITHOUT flush) only if the event says that a request
   oracle raised something unexpected, or upstream.recv() raised TimeoutError with errno != ETIMEDOUT (`raise e`) *)
Theorem C01_exception_has_cause : forall c ev s s',
  handle_events c ev s = (s', Raised) ->
  (c_r ev && recv_has_data (c_recv ev) && (is_rraise (req ev) || is_draise (cdata ev))) ||
  (u_r ev && is_timeout_other (u_recv ev)) = true.
Proof. exact raise_has_cause. Qed.
Print Assumptions C01_exception_has_cause.

(* event lists: from a fresh connection, if no event reports a cause the exchange is never torn down, no teardown
   is armed, and every byte the upstream handed over is at the client or buffered for it, in order (and for
   tunnels every client byte is at the upstream or buffered for it) *)
Theorem C01_no_cause_no_teardown : forall c t0 evs s r,
  (forall ev k, In ev evs -> carries ev k = false) ->
  run c (init t0) evs = (s, r) ->
  r <> Teardown /\ armed s = false /\
  (established s -> delivered_client s ++ pending_client s = ack_of c s ++ g_up_rcvd s) /\
  (established s -> is_tunnel s = true -> delivered_upstream s ++ pending_upstream s = g_cl_rcvd s).
Proof. exact no_cause_no_teardown_list. Qed.
Print Assumptions C01_no_cause_no_teardown.

(* ... and if moreover no event lets an exception escape, the loop simply goes on *)
Theorem C01_no_cause_goes_on : forall c t0 evs s r,
  (forall ev k, In ev evs -> carries ev k = false) -> (forall ev, In ev evs -> raises ev = false) ->
  run c (init t0) evs = (s, r) ->
  r = Continue /\ armed s = false /\
  (established s -> delivered_client s ++ pending_client s = ack_of c s ++ g_up_rcvd s).
Proof. exact no_cause_goes_on_list. Qed.
Print Assumptions C01_no_cause_goes_on.

(* meanwhile the proxy keeps reading: on an established exchange with nothing armed, a call without a cause in which
   the upstream is reported readable and recv() returns a piece takes that piece (it enters g_up_rcvd, hence by
   C01_relay_invariant_client the client's stream) and continues — unless an exception escapes BEFORE the upstream
   is read (C01_exception_has_cause), in which case the piece stays in the kernel *)
Theorem C01_no_cause_keeps_reading : forall c ev s s' r x raw,
  established s -> req_complete s = true -> armed s = false ->
  (forall k, carries ev k = false) ->
  u_r ev = true -> u_recv ev = RData (x :: raw) ->
  step c s ev = (s', r) -> r <> Raised ->
  r = Continue /\ g_up_rcvd s' = g_up_rcvd s ++ x :: raw.
Proof.
  intros c ev s s' r x raw He Hrc Ha Hq. apply quiet_step_reads_upstream; auto. now apply quiet_spec.
Qed.
Print Assumptions C01_no_cause_keeps_reading.

(* the list is as small as the model allows: for each of the six causes there is a life of a connection (Net/Cause.v:
   witness) that ends in a teardown although that cause is the only one any of its events reports; for the five
   causes other than the first-request rejection the exchange is established when it happens *)
Theorem C01_every_cause_needed : forall k, exists s,
  run w_cfg (init 0) (witness k) = (s, Teardown) /\
  (k <> FirstRequestRejected -> established s) /\
  (forall ev k', In ev (witness k) -> carries ev k' = true -> k' = k).
Proof. exact every_cause_needed. Qed.
Print Assumptions C01_every_cause_needed.

(* ---- non-vacuity, the scenario of seeded change C01-r3-2: an HTTP/1.0 (non-keep-alive) request is forwarded, the
   upstream answers with an interim "100 Continue" in its own segment, the client drains it, then the final response
   arrives.  No event reports a cause or an exception; the exchange is still running, nothing is armed, and the
   client's stream is interim ++ final. *)
Definition cause_ex_events : list event :=
  [ mkEvent 1 true false false false WouldBlock WouldBlock (RData (bs "POST http://h/u HTTP/1.0")) (RData [])
            (RProxy false (bs "POST /u HTTP/1.0") []) DNothing;
    mkEvent 2 false false false true WouldBlock (Accept 100) (RData []) (RData []) RIncomplete DNothing;
    mkEvent 3 false false true false WouldBlock WouldBlock (RData []) (RData (bs "HTTP/1.1 100 Continue")) RIncomplete DNothing;
    mkEvent 4 false true false false (Accept 100) WouldBlock (RData []) (RData []) RIncomplete DNothing;
    mkEvent 5 false true true false (Accept 2) WouldBlock (RData []) (RData (bs "HTTP/1.1 201 Created")) RIncomplete DNothing ].
Example C01_cause_nonvacuous :
  (forall ev k, In ev cause_ex_events -> carries ev k = false) /\
  (forall ev, In ev cause_ex_events -> raises ev = false) /\
  let '(s, r) := run ex_cfg (init 0) cause_ex_events in
  r = Continue /\ established s /\ req_complete s = true /\ armed s = false /\
  g_up_rcvd s = bs "HTTP/1.1 100 Continue" ++ bs "HTTP/1.1 201 Created" /\
  delivered_client s ++ pending_client s = g_up_rcvd s /\
  has_buffer (work s) = true.
Proof.
  split; [|split].
  - intros ev k Hin. cbn [cause_ex_events In] in Hin.
    repeat (destruct Hin as [<-|Hin]; [destruct k; reflexivity|]). contradiction.
  - intros ev Hin. cbn [cause_ex_events In] in Hin.
    repeat (destruct Hin as [<-|Hin]; [reflexivity|]). contradiction.
  - vm_compute. repeat split; try reflexivity. eexists; reflexivity.
Qed.
