(* C02 — placeholder, statements follow *)
From PM Require Import Lib.Bytes Net.Forward Net.ForwardFacts.
