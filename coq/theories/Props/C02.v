(* C02 — the forwarded HTTP request is semantically identical to the client's.
   Statements only; the proofs are in Net/ForwardFacts.v.
   Model: Net/Forward.v (HttpProtocolHandler.handle_data/_parse_first_request, HttpProxyPlugin.on_request_complete/
   on_client_data/_queue_request_for_upstream, HttpParser.add_headers/del_headers) over Http/Parser.v (HttpParser),
   Http/Builders.v (build, builders), Http/Upstream.v (connect_upstream), Net/Auth.v (AuthPlugin decision).
   Reference side (specifications, Net/Forward.v): abstract syntax [request] of a well-formed proxy request with
   its rendering, [wf_request], the forwarded request demanded [expected_fwd], and the reference request parser
   [ref_parse_request] assembled from the RFC 7230 recognisers of Http/Grammar.v. *)
From PM Require Import Lib.Bytes Lib.PyStr Lib.PyStrFacts Http.Url Http.Chunk Http.Parser Http.ParserFacts Http.Builders
  Http.Grammar Http.UrlSpec Net.Forward Net.ForwardFacts.
From Coq Require Import ZArith.

(* ===================================================================================== *)
(* 1. what _queue_request_for_upstream emits, for EVERY parser state                        *)

(* For every request-parser state p with a method and a version (not only those produced by the grammar) whose
   header dictionary satisfies the invariant of HttpParser.headers (keys = lower-cased stored names, pairwise
   different: see C02_headers_invariant_reachable), the bytes queued for the upstream server are exactly
     method SP (path or "/") SP version CRLF  fields  CRLF  body
   where fields = the (name as received, value) pairs of p in dictionary order,
     minus proxy-authorization and proxy-connection,
     with Via set (unless the FIRST request of the connection was a tunnel): an existing Via field (any case) keeps
       its place and gets the name "Via" and the value  old ", " 1.1 <agent>;  otherwise "Via: 1.1 <agent>" is appended,
     minus every name whose lower-case form is in --disable-headers,
     with Content-Length set to the decimal body length iff the body is non-empty and no Transfer-Encoding field
       is left (existing spelling and place kept, else appended),
   and body = p.body, chunk-encoded anew with the default chunk size when p is chunked (_get_body_or_chunks).
   The request object afterwards differs from p only in its header dictionary. *)
Theorem C02_forward_of_parsed : forall cfg first_is_tunnel p,
  is_request (ty p) = true -> truthy (method p) = true -> truthy (version p) = true -> hdr_inv (headers p) ->
  exists p', queue_request_for_upstream cfg first_is_tunnel p = Ok (p', forward_of_parsed cfg first_is_tunnel p) /\
             same_rest p p' /\ hdr_inv (headers p') /\
             fields_of_parser p' =
               (if first_is_tunnel then drop_hop (fields_of_parser p) else with_via cfg (drop_hop (fields_of_parser p))).
Proof. exact forward_of_parsed_gen. Qed.
Print Assumptions C02_forward_of_parsed.

(* the hypothesis hdr_inv holds of a new parser and is kept by every parse call, whatever bytes are fed *)
Theorem C02_headers_invariant_reachable :
  (forall t, hdr_inv (headers (new_parser t))) /\
  (forall al p raw p', parser_inv p -> hdr_inv (headers p) -> parse_with al p raw = Ok p' -> hdr_inv (headers p')).
Proof. exact (conj hdr_inv_new parse_hdr_inv). Qed.
Print Assumptions C02_headers_invariant_reachable.

(* ===================================================================================== *)
(* 2. a well-formed request, received in one piece as the first request of a connection     *)

(* For every abstract well-formed request r (wf_request: token method other than CONNECT; absolute-form http
   target of the UrlSpec grammar — reg-name / IPv4 / bracketed IPv6 host, optional userinfo, port, path and
   query — made of visible characters, port 1..65535; HTTP/1.1 or HTTP/1.0; header fields with token names,
   unique case-insensitively, any optional whitespace (SP / HTAB) around the values, values without CR / LF / NUL
   and without outer whitespace; framing = none | Content-Length 1*DIGIT (leading zeros allowed) with exactly that
   many body bytes | Transfer-Encoding: chunked (any case) with ANY chunk layout of the RFC 7230 grammar: sizes in
   hex of any case with leading zeros, chunk extensions, last-chunk with extensions, trailer fields, no chunk at
   all; no other Content-Length / Transfer-Encoding field) and every configuration in wf_cfg (the tree after the
   fix: commits; Via entry a proper field value; framing fields not operator-disabled) with the request
   authorised (auth_passes: --basic-auth off, or valid credentials present):
   exactly one byte string w is handed to the upstream connection, and the REFERENCE parser reads from w exactly
   [expected_fwd cfg r]: same method, origin-form of the target (path and query, "/" when absent), same version,
   the client's fields in order with names and values intact — minus proxy-authorization / proxy-connection /
   operator-disabled names, plus Via (appended to a client Via), the Content-Length of a non-empty body spelled
   canonically — and a body whose decoded content is byte-identical. *)
Theorem C02_forward_wellformed_and_equivalent : forall cfg r,
  wf_request r = true -> wf_cfg cfg = true -> auth_passes cfg r = true ->
  exists w, forward cfg [render_request r] = Some [w] /\
            ref_parse_request w = Some (expected_fwd cfg r).
Proof.
  intros cfg r Wr Wc Wa.
  assert (Np : nonempty_pieces [render_request r]).
  { constructor; [|constructor]. unfold render_request. intros E. apply app_eq_nil in E as [E _].
    apply wf_request_parts in Wr. destruct (token_facts _ (wp_method r Wr)) as [N _]. contradiction. }
  destruct (first_request cfg r [render_request r] Wr Wc Wa Np (app_nil_r _)) as (w & st' & F & Q & P & _).
  exists w. unfold forward. rewrite F, Q. split; [reflexivity|exact P].
Qed.
Print Assumptions C02_forward_wellformed_and_equivalent.

(* ===================================================================================== *)
(* 3. however the request bytes were segmented on arrival                                   *)

(* Same conclusion for EVERY segmentation of the request bytes into non-empty pieces (recv() never delivers an
   empty piece: b'' means the peer closed), one handle_data call per piece; moreover the bytes forwarded are the
   same as for the unsegmented request.  Nothing is forwarded before the last byte arrived (the queue holds
   exactly one entry, produced by the call that completes the request).  Obtained from (2), C03's two-piece law
   and "a COMPLETE parser only accumulates" (Http/ParserFacts.v: two_piece, parse_with_complete_absorbs). *)
Theorem C02_forward_preserves : forall cfg r segs,
  wf_request r = true -> wf_cfg cfg = true -> auth_passes cfg r = true ->
  nonempty_pieces segs -> concat segs = render_request r ->
  exists w, forward cfg segs = Some [w] /\
            ref_parse_request w = Some (expected_fwd cfg r) /\
            forward cfg [render_request r] = Some [w].
Proof.
  intros cfg r segs Wr Wc Wa Np E.
  destruct (first_request cfg r segs Wr Wc Wa Np E) as (w & st' & F & Q & P & _ & _ & Hw).
  assert (Np1 : nonempty_pieces [render_request r]).
  { constructor; [|constructor]. unfold render_request. intros X. apply app_eq_nil in X as [X _].
    apply wf_request_parts in Wr. destruct (token_facts _ (wp_method r Wr)) as [N _]. contradiction. }
  destruct (first_request cfg r [render_request r] Wr Wc Wa Np1 (app_nil_r _)) as (w1 & st1 & F1 & Q1 & _ & _ & _ & Hw1).
  destruct (parse_request r Wr) as (p & Hp & _).
  exists w. unfold forward. rewrite F, Q, F1, Q1. rewrite (Hw p Hp), (Hw1 p Hp). repeat split. rewrite <- (Hw p Hp). exact P.
Qed.
Print Assumptions C02_forward_preserves.

(* ===================================================================================== *)
(* 4. every position of the request on its connection                                       *)

(* A later request: the connection is in a state where the first request is complete and was not a tunnel, the
   proxy plugin is in place, the upstream connection exists and is open, and no pipelined request is in progress
   (conn_ready st, pipeline_request is None: this is the state after the previous request was forwarded, unless
   that one was a protocol upgrade).  Then the request, in any non-empty pieces, adds exactly one entry to the
   upstream queue, read by the reference parser as [expected_fwd cfg r] (credentials are not asked for again);
   the connection is ready again, with no pipelined request pending unless r itself is an upgrade request. *)
Theorem C02_later_requests : forall cfg r segs st,
  wf_request r = true -> wf_cfg cfg = true -> conn_ready st -> h_pipeline st = None ->
  nonempty_pieces segs -> concat segs = render_request r ->
  exists w st', feed cfg true st segs = Done false st' /\ upstream_queue st' = upstream_queue st ++ [w] /\
                ref_parse_request w = Some (expected_fwd cfg r) /\
                conn_ready st' /\ (is_upgrade_request r = false -> h_pipeline st' = None).
Proof.
  intros cfg r segs st Wr Wc R Hn Np E.
  destruct (later_request cfg r segs st Wr Wc R Hn Np E) as (w & st' & A & B & C & D & F & _).
  exists w, st'. exact (conj A (conj B (conj C (conj D F)))).
Qed.
Print Assumptions C02_later_requests.

(* Whole connections: any number of requests, each in any non-empty pieces (a piece never spans two requests:
   packing several requests into one segment is C04), none but possibly the last an upgrade request, the first
   one authorised: the upstream connection is handed exactly one byte string per request, in order, each read by
   the reference parser as the forwarded form of its request. *)
Theorem C02_connection : forall cfg first rest,
  wf_cfg cfg = true -> auth_passes cfg (fst first) = true ->
  Forall request_pieces (first :: rest) ->
  Forall (fun rs => is_upgrade_request (fst rs) = false) (removelast (first :: rest)) ->
  exists ws, forward cfg (concat (map snd (first :: rest))) = Some ws /\
             Forall2 (forwarded_as cfg) ws (first :: rest).
Proof. exact connection. Qed.
Print Assumptions C02_connection.

(* Data arriving from the upstream server (HttpProxyPlugin.read_from_descriptors: relayed to the client, fed to the
   bookkeeping parsers self.response / self.pipeline_response via handle_pipeline_response) never touches the
   forwarding state (request, plugin, upstream connection and its queue, pipeline_request): however such data is
   interleaved with the pieces received from the client — e.g. the response to request k completing while request
   k+1 or k+2 is only partly received — the forwarding side goes through exactly the states of the run without any
   upstream data. *)
Theorem C02_upstream_data_irrelevant :
  (forall cs raw, c_fwd (read_from_upstream cs raw) = c_fwd cs) /\
  (forall cfg ok evs cs,
     forwarding_outcome (run_events cfg ok cs evs) = feed cfg ok (c_fwd cs) (client_pieces evs)).
Proof. exact (conj read_from_upstream_fwd interleaving_irrelevant). Qed.
Print Assumptions C02_upstream_data_irrelevant.

(* so C02_connection holds for every interleaving of the client's pieces with data from the upstream server *)
Theorem C02_connection_interleaved : forall cfg first rest evs,
  wf_cfg cfg = true -> auth_passes cfg (fst first) = true ->
  Forall request_pieces (first :: rest) ->
  Forall (fun rs => is_upgrade_request (fst rs) = false) (removelast (first :: rest)) ->
  client_pieces evs = concat (map snd (first :: rest)) ->
  exists cs ws, run_events cfg true init_cstate evs = CDone false cs /\ upstream_queue (c_fwd cs) = ws /\
                Forall2 (forwarded_as cfg) ws (first :: rest).
Proof. exact connection_interleaved. Qed.
Print Assumptions C02_connection_interleaved.

(* The remainder loop of on_client_data (`while remainder is not None`) is modelled with fuel
   1 + |carried buffer| + |data|.  No result depends on that amount: whatever the loop returns other than
   OutOfFuel, it returns with any larger fuel.  (Theorems 2-4 exhibit the results explicitly: one round, no
   remainder.  That OutOfFuel is unreachable altogether — every round returning a remainder has consumed a byte —
   is not proved here; it was never observed by the correspondence.) *)
Theorem C02_client_data_fuel_independent : forall cfg f st raw o,
  on_client_data_loop f cfg st raw = o -> (forall st', o <> Raised OutOfFuel st') ->
  forall k, on_client_data_loop (f + k) cfg st raw = o.
Proof. exact client_loop_fuel_mono. Qed.
Print Assumptions C02_client_data_fuel_independent.

(* ===================================================================================== *)
(* non-vacuity and refutations                                                             *)

(* the witnesses (cfg_plain, cfg_auth, ex_cl, ex_chunked, ex_empty_chunked, ex_upgrade, via24) are defined at the end
   of Net/Forward.v; the evaluations are done once, in Net/ForwardFacts.v *)
(* the hypotheses of the theorems are satisfiable, and the conclusions compute: every example is inside the
   domain, is forwarded as expected_fwd says — also when it arrives one byte per piece — and the expectation is
   the intended one (spelled out for the first two) *)
Example C02_nonvacuous :
  forallb (fun cr => wf_request (snd cr) && wf_cfg (fst cr) && auth_passes (fst cr) (snd cr))
          [(cfg_auth, ex_cl); (cfg_plain, ex_chunked); (cfg_plain, ex_empty_chunked); (cfg_plain, ex_upgrade)] = true /\
  forallb (fun cr =>
             match forward (fst cr) [render_request (snd cr)],
                   forward (fst cr) (map (fun x => [x]) (render_request (snd cr))) with
             | Some [w], Some [w'] => bytes_eqb w w' && option_eqb fwd_eqb (ref_parse_request w) (Some (expected_fwd (fst cr) (snd cr)))
             | _, _ => false
             end)
          [(cfg_auth, ex_cl); (cfg_plain, ex_chunked); (cfg_plain, ex_empty_chunked); (cfg_plain, ex_upgrade)] = true /\
  expected_fwd cfg_auth ex_cl =
    {| f_method := bs "POST"; f_target := bs "/a/b?x=1"; f_version := bs "HTTP/1.1";
       f_headers := [(bs "hOsT", bs "example.com:8080"); (bs "Via", bs "1.0 fred, 1.1 proxy.py v2.4");
                     (bs "content-LENGTH", bs "5"); (bs "Accept", bs "*/*")];
       f_body := bs "hello" |} /\
  expected_fwd cfg_plain ex_chunked =
    {| f_method := bs "PUT"; f_target := bs "/up"; f_version := bs "HTTP/1.1";
       f_headers := [(bs "Host", bs "[::1]"); (bs "Transfer-Encoding", bs "Chunked"); (bs "Expect", bs "100-continue");
                     (bs "Via", via24)];
       f_body := bs "hello0123456789 chunked!!!" |} /\
  (* two requests on one connection, the second one an upgrade request cut after its Upgrade line *)
  (let raw2 := render_request ex_upgrade in
   match forward cfg_plain [render_request ex_empty_chunked; firstn 70 raw2; skipn 70 raw2] with
   | Some [w1; w2] => option_eqb fwd_eqb (ref_parse_request w2) (Some (expected_fwd cfg_plain ex_upgrade))
   | _ => false
   end = true).
Proof. exact nonvacuous. Qed.
Print Assumptions C02_nonvacuous.

(* ---- the code as found violated the property in two ways (both repaired by fix: commits) ---- *)

(* (a) before fix C02-via-append: a Via field sent by the client was REPLACED: the origin is sent a request whose
   Via value no longer contains the client's "1.0 fred" *)
Theorem C02_via_overwrite_refuted :
  exists cfg r w e, wf_request r = true /\ auth_passes cfg r = true /\
    forward (as_found_via cfg) [render_request r] = Some [w] /\ ref_parse_request w = Some e /\
    fwd_eqb e (expected_fwd cfg r) = false /\
    get_ci L_VIA (f_headers e) = Some via24 /\
    get_ci L_VIA (f_headers (expected_fwd cfg r)) = Some (bs "1.0 fred, " ++ via24).
Proof. exact via_overwrite_refuted. Qed.
Print Assumptions C02_via_overwrite_refuted.

(* (b) before fix C02-upgrade-request-in-progress: a later request carrying Connection and Upgrade fields that
   arrives in two pieces (cut after both field lines) is not forwarded; the rest of its own bytes is queued raw *)
Theorem C02_upgrade_in_progress_refuted :
  exists cfg r1 r2 a b w1 w2,
    wf_request r1 = true /\ wf_request r2 = true /\ is_upgrade_request r1 = false /\
    a ++ b = render_request r2 /\ a <> [] /\ b <> [] /\
    forward (as_found_upgrade cfg) [render_request r1; a; b] = Some [w1; w2] /\
    w2 = b /\ ref_parse_request w2 = None /\
    (* while unsegmented it is forwarded properly by the same code *)
    (exists w2', forward (as_found_upgrade cfg) [render_request r1; render_request r2] = Some [w1; w2'] /\
                 ref_parse_request w2' = Some (expected_fwd cfg r2)).
Proof. exact upgrade_in_progress_refuted. Qed.
Print Assumptions C02_upgrade_in_progress_refuted.

(* ---- known finding C02-te-list-not-chunked (current code): the guard "Transfer-Encoding value is exactly
   chunked" in wf_framing is needed.  A request whose Transfer-Encoding is a coding LIST ending in chunked
   ("gzip, chunked", legal per RFC 7230 section 3.3.1) is taken to have no body: the header section is forwarded
   at once — still announcing the chunked coding — and the body bytes are never forwarded: they are handed to
   on_client_data as if they were a further request, which ends the connection. *)
Theorem C02_te_list_refuted :
  exists w st, feed cfg_plain true init_state [te_list_raw] = Done true st /\ upstream_queue st = [w] /\
    w = bs "POST / HTTP/1.1" ++ CRLF ++ bs "Host: h.example" ++ CRLF ++ bs "Transfer-Encoding: gzip, chunked" ++ CRLF ++
        bs "Via: " ++ via24 ++ CRLF ++ CRLF /\
    ref_parse_request w = None /\
    (* the body bytes were taken for a further request: "Invalid request line", connection torn down *)
    h_pipeline st = Some (new_parser REQUEST_PARSER).
Proof. exact te_list_refuted. Qed.
Print Assumptions C02_te_list_refuted.
