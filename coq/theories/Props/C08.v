(* C08 — with basic proxy authentication configured, a first proxy request without exactly the
   configured credentials gets a 407 and reaches nothing; credentials are never forwarded.
   Statements only; proofs are in Net/AuthFacts.v and Net/PluginChainFacts.v.

   The request is the abstract parsed record (Net/Auth.v).  That the handler invokes the hooks only
   once the first request is complete, and that the record does not depend on how the client's bytes
   were segmented, is C03's statement about the parser, not repeated here. *)
From PM Require Import Lib.Bytes Lib.PyStr Ws.Sha1 Net.Auth Net.AuthFacts Net.PluginChain Net.PluginChainFacts.
From Coq Require Import ZArith.

(* What the credential check accepts, exactly: a proxy-authorization entry in the header dict whose
   value splits on runs of ASCII whitespace (space, \t, \n, \v, \f, \r) into exactly two tokens, the
   first equal to "basic" ignoring ASCII case, the second equal to the configured code byte for byte. *)
Theorem C08_decision_exact : forall code hs,
  auth_ok code hs = true <->
  exists name v s, dict_get PROXY_AUTHORIZATION hs = Some (name, v) /\ split_ws v = [s; code] /\ lower s = BASIC.
Proof. exact auth_ok_exact. Qed.
Print Assumptions C08_decision_exact.

(* ... so an accepted value consists of the scheme, the configured code and whitespace, nothing else
   (no parameters, no trailing garbage, no other token) ... *)
Theorem C08_decision_value_shape : forall code hs, auth_ok code hs = true ->
  exists name v s, dict_get PROXY_AUTHORIZATION hs = Some (name, v) /\ lower s = BASIC
                   /\ filter (fun x => negb (is_ws x)) v = s ++ code /\ no_ws code /\ code <> [].
Proof. exact auth_ok_value_shape. Qed.
Print Assumptions C08_decision_value_shape.

(* ... and it is lax in exactly one respect: any ASCII-whitespace padding before, between and after
   the two tokens (tabs, several blanks) is accepted. *)
Theorem C08_decision_padding : forall w0 s w1 c w2,
  all_ws w0 -> all_ws w1 -> all_ws w2 -> w1 <> [] -> no_ws s -> no_ws c -> s <> [] -> c <> [] ->
  split_ws (w0 ++ s ++ w1 ++ c ++ w2) = [s; c].
Proof. exact split_ws_two. Qed.
Print Assumptions C08_decision_padding.

(* Header name matched case-insensitively, duplicated lines: the dict entry consulted is the LAST
   received line whose name equals proxy-authorization ignoring case (earlier duplicates are
   overwritten), name and value stripped of surrounding whitespace. *)
Theorem C08_duplicate_last_wins : forall ls,
  dict_get PROXY_AUTHORIZATION (headers_of_lines ls) =
  match find (fun raw => bytes_eqb PROXY_AUTHORIZATION (lower (line_name raw))) (rev ls) with
  | Some raw => Some (line_name raw, line_value raw)
  | None => None
  end.
Proof. exact (headers_of_lines_get PROXY_AUTHORIZATION). Qed.
Print Assumptions C08_duplicate_last_wins.

(* Load order: whenever basic auth is configured the auth plugin is the first plugin of the chain,
   whatever plugins the user requests, in whatever order and multiplicity — provided no default plugin
   is an HttpProxyBasePlugin (true of the shipped defaults, checked on every run) and no other
   requested class carries the auth plugin's name() (see C09_name_collision). *)
Theorem C08_load_order : forall abc defaults basic_auth auth is_default requested,
  truthy basic_auth = true -> In PROXY_BASE abc -> k_base auth = PROXY_BASE ->
  (forall d, In d defaults -> k_base d <> PROXY_BASE) ->
  (forall k, In k requested -> same_klass k auth = false -> pname (k_plugin k) <> pname (k_plugin auth)) ->
  exists others, proxy_plugins (initialize_plugins abc defaults basic_auth auth is_default requested) = k_plugin auth :: others.
Proof. exact auth_first_in_chain. Qed.
Print Assumptions C08_load_order.

(* Reaches nothing: for every request (any method incl. CONNECT, any target) whose headers fail the
   check, every list of later plugins with arbitrary hooks, every connect outcome and every
   continuation of the history: the log is the auth plugin's own hook, the 407, the teardown, and then
   only what shutdown adds (lifecycle callbacks, default access log, socket closes).  No connect
   attempt, nothing queued for upstream, no request-handling hook of any later plugin. *)
Theorem C08_reaches_nothing : forall cf agent code users r c rest c0,
  truthy (Some code) = true -> auth_ok code (rq_headers r) = false ->
  let l := run_conn cf (auth_plugin agent (Some code) :: users) c0 (SFirst r c :: rest) in
  (exists d, l = [Call AUTH_PID BUC (ARequest r); QueueClient (PROXY_AUTH_FAILED_RESPONSE_PKT agent); Teardown] ++ d
             /\ forallb q_post d = true)
  /\ connect_log l = []
  /\ upstream_queue l = []
  /\ client_queue l = [QueueClient (PROXY_AUTH_FAILED_RESPONSE_PKT agent)]
  /\ filter is_request_hook l = [Call AUTH_PID BUC (ARequest r)].
Proof. exact auth_fail_reaches_nothing. Qed.
Print Assumptions C08_reaches_nothing.

(* Credentials never forwarded: over every history (first and later requests, any plugins that keep
   the header dict a dict keyed by lower-cased names), every request rebuilt and queued for the
   upstream server is a packet none of whose header names is proxy-authorization or proxy-connection
   in any casing.  (Holds of the code after fix e1d01d6; before it, later requests were rebuilt
   unscrubbed.)  Bytes relayed verbatim (CONNECT tunnel, after an upgrade) are opaque to the proxy. *)
Theorem C08_creds_not_forwarded : forall cf ps c0 steps,
  Forall plugin_wf ps -> Forall step_wf steps ->
  forall b, In (QueueUpstream QRequest b) (run_conn cf ps c0 steps) -> clean_pkt b.
Proof. exact creds_not_forwarded. Qed.
Print Assumptions C08_creds_not_forwarded.

(* ------------------------------------------------------------------ non-vacuity and recorded examples *)
Definition ex_code : bytes := bs "dXNlcjpwYXNz".     (* base64("user:pass") *)

Example C08_auth_code_example : auth_code_of (Some (bs "user:pass")) = Some ex_code.
Proof. vm_compute. reflexivity. Qed.

Definition ex_lines (v : string) : list bytes := [bs "Host: h.example"; bytes_of_string v; bs "User-Agent: x"].
Definition ex_ok (v : string) : bool := auth_ok ex_code (headers_of_lines (ex_lines v)).

(* accepted: exact, other casing of scheme and header name, tabs / several blanks *)
Example C08_accepts :
  map ex_ok ["Proxy-Authorization: Basic dXNlcjpwYXNz"; "proxy-authorization:bAsIc dXNlcjpwYXNz";
             "PROXY-AUTHORIZATION:   BASIC     dXNlcjpwYXNz   "]%string = [true; true; true]
  /\ auth_ok ex_code (headers_of_lines [bs "Proxy-Authorization: Basic" ++ [9; 9] ++ ex_code ++ [9]]) = true.
Proof. vm_compute. split; reflexivity. Qed.

(* rejected: absent, other scheme, truncated / extended / re-cased / re-padded token, parameters,
   trailing garbage, scheme glued to the token, quoted token *)
Example C08_rejects :
  map ex_ok ["X-Other: 1"; "Proxy-Authorization: Bearer dXNlcjpwYXNz"; "Proxy-Authorization: Basic dXNlcjpwYXN";
             "Proxy-Authorization: Basic dXNlcjpwYXNzx"; "Proxy-Authorization: Basic DXNlcjpwYXNz";
             "Proxy-Authorization: Basic dXNlcjpwYXNz="; "Proxy-Authorization: Basic dXNlcjpwYXNz realm=x";
             "Proxy-Authorization: Basic dXNlcjpwYXNz, Basic dXNlcjpwYXNz"; "Proxy-Authorization: BasicdXNlcjpwYXNz";
             "Proxy-Authorization: Basic ""dXNlcjpwYXNz"""; "Proxy-Authorization: dXNlcjpwYXNz";
             "Proxy-Authorization: Basic"; "Proxy-Authorization:"; "Authorization: Basic dXNlcjpwYXNz"]%string
  = [false; false; false; false; false; false; false; false; false; false; false; false; false; false].
Proof. vm_compute. reflexivity. Qed.

(* duplicated lines: only the last one counts, in both directions *)
Example C08_duplicates :
  auth_ok ex_code (headers_of_lines [bs "Proxy-Authorization: Basic dXNlcjpwYXNz"; bs "proxy-authorization: Basic nope"]) = false
  /\ auth_ok ex_code (headers_of_lines [bs "Proxy-Authorization: Basic nope"; bs "PROXY-authorization: basic dXNlcjpwYXNz"]) = true.
Proof. vm_compute. split; reflexivity. Qed.

(* the hypotheses of C08_reaches_nothing and C08_creds_not_forwarded are satisfiable, and a concrete
   connection shows the scrubbing on the first and on a later request *)
Definition ex_req (path : string) (extra : list bytes) : request :=
  mkRequest (bs "GET") (Some (bs "h.example")) (Some 80%Z) (Some (bytes_of_string path)) HTTP_1_1
            (headers_of_lines ([bs "Host: h.example"] ++ extra)) None false [].
Definition ex_cf : config := mkConfig (bs "proxy.py v0") [] false.
Definition ex_creds : list bytes := [bs "Proxy-Authorization: Basic dXNlcjpwYXNz"; bs "Proxy-Connection: keep-alive"].

Example C08_nonvacuous_fail :
  truthy (Some ex_code) = true /\ auth_ok ex_code (rq_headers (ex_req "/" [bs "Proxy-Authorization: Basic eA=="])) = false.
Proof. vm_compute. split; reflexivity. Qed.

Example C08_nonvacuous_wf :
  Forall plugin_wf [auth_plugin (bs "proxy.py v0") (Some ex_code); base_plugin 1 (bs "P")]
  /\ Forall step_wf [SFirst (ex_req "/" ex_creds) true; SClient [] [PComplete (ex_req "/2" ex_creds) []]].
Proof.
  split.
  - constructor; [apply auth_plugin_wf|]. constructor; [|constructor].
    split; intros seen r r' Hr H; inversion H; now subst.
  - constructor; [apply wf_headers_of_lines|]. constructor; [|constructor].
    constructor; [apply wf_headers_of_lines|constructor].
Qed.

Example C08_scrubbed_first_and_later :
  upstream_queue (run_conn ex_cf [auth_plugin (bs "proxy.py v0") (Some ex_code); base_plugin 1 (bs "P")] []
                    [SFirst (ex_req "/" ex_creds) true; SClient [] [PComplete (ex_req "/2" ex_creds) []]])
  = [QueueUpstream QRequest (bs "GET / HTTP/1.1" ++ CRLF ++ bs "Host: h.example" ++ CRLF ++ bs "Via: 1.1 proxy.py v0" ++ CRLF ++ CRLF);
     QueueUpstream QRequest (bs "GET /2 HTTP/1.1" ++ CRLF ++ bs "Host: h.example" ++ CRLF ++ bs "Via: 1.1 proxy.py v0" ++ CRLF ++ CRLF)].
Proof. vm_compute. reflexivity. Qed.

(* recorded limitation of C08_load_order (see C09_name_collision): a requested plugin class whose
   name() equals the auth plugin's takes the auth plugin's place in the chain — authentication is
   then silently off although --basic-auth is given *)
Example C08_name_collision_displaces_auth :
  let auth := mkKlass 1001 PROXY_BASE (auth_plugin (bs "a") (Some ex_code)) in
  let impostor := mkKlass 7 PROXY_BASE (base_plugin 7 (bs "AuthPlugin")) in
  map pid (proxy_plugins (initialize_plugins [1; PROXY_BASE] [] (Some (bs "user:pass")) auth true [impostor])) = [7].
Proof. vm_compute. reflexivity. Qed.
