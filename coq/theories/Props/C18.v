(* C18 — Event bus delivers each event to every current subscriber exactly once, in order.
   Statements only; proofs are in Event/DispatcherFacts.v.  The model (Event/Dispatcher.v) is
   dispatcher.py with proposed_fixes/C18-oserror-stops-dispatcher.diff applied (cfg_fixed); the tree
   before that fix is cfg_orig and is refuted below.

   Vocabulary (all in Event/Dispatcher.v):
     exec h          state after handle_event has been called for every element of history h, from the
                     empty dispatcher; a history interleaves Subscribe a c / Unsubscribe a / Publish e
                     with Break c k (the peer of channel c goes away: its send raises exception kind k)
     rcvd w c        everything successfully sent on channel object c, oldest first
     no_other h      no channel raises an exception that is neither an OSError nor an EOFError
     untouched c h   c is not handed to the dispatcher and not broken in h
     quiet a c h     h leaves subscriber (a, c) subscribed: nobody else uses id a or channel c, a does not
                     unsubscribe, c does not break; ANYTHING else may happen (other subscribers come, go,
                     break at any position; repeated and unknown ids; a re-subscribing with the same c)
     owed a c h      the events published in h, in order (and one fresh acknowledgement for every
                     repeated Subscribe a c)
   There is no bound on the number of subscribers or on the length of h1, h2, h3. *)
From PM Require Import Lib.Bytes Event.Dispatcher Event.DispatcherFacts.

(* Between its subscription acknowledgement and now, a subscriber has received every event published
   since, exactly once and in publication order, and nothing else; it is still in the table. *)
Theorem C18_exactly_once_in_order : forall a c h1 h2,
  no_other (h1 ++ Subscribe a c :: h2) = true -> untouched c h1 = true -> quiet a c h2 = true ->
  let w := exec (h1 ++ Subscribe a c :: h2) in
  rcvd w c = MSubscribed :: owed a c h2 /\ dget a (subscribers w) = Some c.
Proof. exact (exactly_once_in_order cfg_fixed cfg_fixed_tolerant). Qed.
Print Assumptions C18_exactly_once_in_order.

(* When it unsubscribes it gets the acknowledgement and then never anything again, whatever follows
   (h3 is arbitrary: more publishes, the same id or even the same channel object subscribing again). *)
Theorem C18_unsubscribed_then_nothing : forall a c h1 h2 h3,
  no_other (h1 ++ Subscribe a c :: h2 ++ Unsubscribe a :: h3) = true ->
  untouched c h1 = true -> quiet a c h2 = true ->
  rcvd (exec (h1 ++ Subscribe a c :: h2 ++ Unsubscribe a :: h3)) c
  = MSubscribed :: owed a c h2 ++ [MUnsubscribed].
Proof. exact (unsubscribed_then_nothing cfg_fixed cfg_fixed_tolerant). Qed.
Print Assumptions C18_unsubscribed_then_nothing.

(* When its channel breaks (at any position) it keeps exactly what was delivered before, and gets
   nothing more, whatever follows. *)
Theorem C18_broken_then_nothing : forall a c k h1 h2 h3,
  no_other (h1 ++ Subscribe a c :: h2 ++ Break c k :: h3) = true ->
  untouched c h1 = true -> quiet a c h2 = true ->
  rcvd (exec (h1 ++ Subscribe a c :: h2 ++ Break c k :: h3)) c = MSubscribed :: owed a c h2.
Proof. exact (broken_then_nothing cfg_fixed cfg_fixed_tolerant). Qed.
Print Assumptions C18_broken_then_nothing.

(* A broken subscriber is dropped: after any publish, every subscriber left in the table has a
   healthy channel. *)
Theorem C18_broken_dropped : forall h e, no_other h = true ->
  let w := exec (h ++ [Publish e]) in
  forall b x, In (b, x) (subscribers w) -> good (chans w x) = true.
Proof. exact (broken_dropped cfg_fixed cfg_fixed_tolerant). Qed.
Print Assumptions C18_broken_dropped.

(* Isolation: erase every operation of one subscriber (a, c) — its subscriptions, unsubscriptions and
   the breakage of its channel, wherever they occur — and every other channel ends in exactly the same
   state (messages received, order, close() calls), and the rest of the table is the same, in the same
   order.  Nothing is lost, duplicated or reordered for the others. *)
Theorem C18_isolation : forall a c h, no_other h = true -> owns a c h = true ->
  (forall x, x <> c -> chans (exec h) x = chans (exec (erase a c h)) x)
  /\ subscribers (exec (erase a c h)) = filter (negkey a) (subscribers (exec h)).
Proof. exact (isolation cfg_fixed cfg_fixed_tolerant). Qed.
Print Assumptions C18_isolation.

(* The complete characterisation, for EVERY history (shared channels, ids moving between channels,
   re-subscription with a closed channel ... no side condition except no_other): the final state of every
   channel object — messages received in order, close() calls — is what the per-channel reference `view`
   computes from the history alone, and the ids the table maps to c are exactly the reference's ids. *)
Theorem C18_view : forall c h, no_other h = true ->
  chans (exec h) c = snd (view c h)
  /\ forall b, In b (fst (view c h)) <-> dget b (subscribers (exec h)) = Some c.
Proof. exact (view_correct cfg_fixed cfg_fixed_tolerant). Qed.
Print Assumptions C18_view.

(* The dispatcher never stops: for every history and every breakage pattern every handle_event call
   returns, and the run() loop consumes the whole queue (so exec h IS the state run() reaches). *)
Theorem C18_total : forall h, no_other h = true ->
  Forall (fun r => r = Ret tt) (outcomes cfg_fixed init h)
  /\ run_loop cfg_fixed init h 0 = (exec h, Ret tt, N.of_nat (length h)).
Proof.
  intros h Hno. split.
  - exact (outcomes_ret cfg_fixed cfg_fixed_tolerant h init init_wf init_tame Hno).
  - exact (run_loop_total cfg_fixed cfg_fixed_tolerant h init 0 init_wf init_tame Hno).
Qed.
Print Assumptions C18_total.

(* The tree BEFORE the proposed fix violates "without stopping the dispatcher": a subscriber whose
   connection raises an OSError other than BrokenPipeError (ConnectionResetError from a socket-backed
   multiprocessing connection whose peer died) ends the run() loop; the healthy subscriber 1 does not
   get event 7 and event 8 is never dispatched.  The fixed tree delivers both and drops subscriber 0. *)
Theorem C18_original_refuted :
  no_other orig_witness = true /\
  (exists w e, run_loop cfg_orig init orig_witness 0 = (w, Raise e, 4) /\ rcvd w 1 = [MSubscribed]) /\
  (exists w, run_loop cfg_fixed init orig_witness 0 = (w, Ret tt, 5)
             /\ rcvd w 1 = [MSubscribed; MEv 7; MEv 8] /\ subscribers w = [(1, 1)]).
Proof. exact orig_stops_dispatcher. Qed.
Print Assumptions C18_original_refuted.

(* Why no_other is a premise: in the faithful model of the fixed tree an exception that is neither an
   OSError nor an EOFError (ValueError, PicklingError ...) still leaves _broadcast. *)
Theorem C18_other_escapes :
  outcomes cfg_fixed init other_witness = [Ret tt; Ret tt; Ret tt; Raise (ExChan OtherErr)]
  /\ rcvd (exec other_witness) 1 = [MSubscribed].
Proof. exact other_escapes. Qed.
Print Assumptions C18_other_escapes.

(* KNOWN FINDING C18-dead-subscriber-unpickle (recorded, not repaired): run() survives queue.Empty only.
   If queue.get() itself raises — a SUBSCRIBE put by a process that died before the dispatcher dequeued
   it cannot be unpickled (ConnectionRefusedError from multiprocessing's resource sharer) — the loop
   ends: the healthy subscriber 1 receives DISPATCHER_SHUTDOWN and event 7 is never dispatched.
   The theorems above are about histories whose items were all received (run_loop_q_items). *)
Theorem C18_queue_failure_refuted :
  exists w, run_q cfg_fixed init queue_witness = (w, Ret tt, 2)
            /\ rcvd w 1 = [MSubscribed; MShutdown].
Proof. exact queue_failure_stops_dispatcher. Qed.
Print Assumptions C18_queue_failure_refuted.

Theorem C18_run_q_agrees : forall cfg q w n, run_loop_q cfg w (map Item q) n = run_loop cfg w q n.
Proof. exact run_loop_q_items. Qed.
Print Assumptions C18_run_q_agrees.

(* non-vacuity: three subscribers, a repeated subscription, unknown and repeated unsubscriptions, two
   channels breaking mid-history; all premises hold and the conclusions are the concrete lists *)
Example C18_nonvacuous :
  no_other (ex_h1 ++ Subscribe 1 1 :: ex_h2 ++ Unsubscribe 1 :: ex_h3) = true
  /\ untouched 1 ex_h1 = true /\ quiet 1 1 ex_h2 = true
  /\ owns 0 0 (ex_h1 ++ Subscribe 1 1 :: ex_h2 ++ Unsubscribe 1 :: ex_h3) = true
  /\ rcvd (exec (ex_h1 ++ Subscribe 1 1 :: ex_h2 ++ Unsubscribe 1 :: ex_h3)) 1
     = [MSubscribed; MEv 2; MEv 3; MEv 4; MSubscribed; MEv 5; MUnsubscribed]
  /\ rcvd (exec (ex_h1 ++ Subscribe 1 1 :: ex_h2 ++ Unsubscribe 1 :: ex_h3)) 0
     = [MSubscribed; MEv 1; MEv 2; MEv 3].
Proof. exact example_hyps. Qed.
