(* C06 — any input yields service, a well-formed error response, or a clean close.
   Statements only; proofs are in Net/FirstRequestFacts.v and Net/ResponsesFacts.v.

   Model: Net/FirstRequest.v (HttpProtocolHandler.handle_data, _parse_first_request,
   _discover_plugin_klass, handle_readables / handle_writables / handle_events, get_events, and
   what the executor does with handle_events' value or exception) over the result-typed parser
   model Http/Parser.v; Net/Responses.v (build_http_response, build_http_pkt, canned packets,
   okResponse, redirects, response() of the exception classes) and the RFC 7230 recogniser
   [recognise] / [wf_response].  The plugin hooks on_request_complete / on_client_data are
   universally quantified functions: every theorem holds for every plugin behaviour.
   An event is one handle_events call: the client socket may be writable (send accepts at most k
   bytes) and/or readable (recv yields data, EOF or an error); lists of events cover every
   segmentation of every byte string, interleaved with every pattern of short writes. *)
From PM Require Import Lib.Bytes Lib.PyStr Http.Url Http.Chunk Http.Parser
  Net.Responses Net.ResponsesFacts Net.FirstRequest Net.FirstRequestFacts.
From Coq Require Import ZArith.

(* ------------------------------------------------------------------ the handler *)

(* After every event list exactly one of: waiting (request incomplete, nothing queued or sent,
   connection open), serving (request complete, plugin created, on_request_complete ran exactly
   once -- possibly followed, in the same handle_data call, by the one on_client_data call that
   hands over the bytes received behind the request (fix e222aa4) -- nothing of the handler's
   own queued), rejected (exactly one response of the handler's
   making queued, teardown requested), closed without response (non-protocol exception after
   parsing, or a protocol exception whose response() is None: nothing of the handler's making),
   client closed (EOF / recv error before the request was complete).  Total over `exn`: every
   Python exception of the parser model and of the plugin hooks is a value here. *)
Theorem C06_trichotomy : forall cfg orc ocd evs,
  count_true (outcomes (run cfg orc ocd evs)) = 1%nat.
Proof. exact trichotomy. Qed.
Print Assumptions C06_trichotomy.

(* the same after each piece of any segmentation of any byte string *)
Theorem C06_trichotomy_pieces : forall cfg orc ocd pieces k,
  count_true (outcomes (run cfg orc ocd (recv_events (firstn k pieces)))) = 1%nat.
Proof. intros. apply trichotomy. Qed.
Print Assumptions C06_trichotomy_pieces.

(* Once rejected, always rejected; no later piece is parsed, handed to a plugin, or answered:
   request, plugin, the queued packets (handler's and plugin's), the numbers of parse /
   on_request_complete calls and the data given to on_client_data never change again. *)
Theorem C06_reject_is_final : forall cfg orc ocd evs more,
  rejected (run cfg orc ocd evs) = true ->
  rejected (run cfg orc ocd (evs ++ more)) = true /\
  logical (run cfg orc ocd (evs ++ more)) = logical (run cfg orc ocd evs).
Proof. exact reject_is_final. Qed.
Print Assumptions C06_reject_is_final.

(* The response of a rejection is the canned 400 (every parse failure, unknown protocol, no
   matching plugin) or the response chosen by the HttpProtocolException the plugin raised; it is
   well-formed whenever the exception is a library class with arguments in the builders' domain. *)
Theorem C06_rejected_wf : forall cfg orc ocd evs connect, wf_agent (agent cfg) = true ->
  let h := run cfg orc ocd evs in
  rejected h = true ->
  exists r site, hq h = [(r, site)] /\
    match site with
    | None => r = BAD_REQUEST_RESPONSE_PKT (agent cfg) /\ wf_response connect r = true
    | Some e => exn_response (agent cfg) e = Some r /\
                (wf_proto_exn connect (agent cfg) e = true -> wf_response connect r = true)
    end.
Proof. exact rejected_wf. Qed.
Print Assumptions C06_rejected_wf.

(* Never two responses, never a partial one: everything the client has received plus everything
   still pending is what the plugin queued followed by at most one packet of the handler's own. *)
Theorem C06_output_accounted : forall cfg orc ocd evs, let h := run cfg orc ocd evs in
  sent h ++ concat (buffer h) = concat (pq h) ++ concat (map fst (hq h)) /\
  (length (hq h) <= 1)%nat /\ Forall (site_ok cfg) (hq h).
Proof. exact output_accounted. Qed.
Print Assumptions C06_output_accounted.

(* A rejected connection is closed only after the whole response was delivered. *)
Theorem C06_rejected_delivered_whole : forall cfg orc ocd evs r site, let h := run cfg orc ocd evs in
  rejected h = true -> hq h = [(r, site)] -> torn h = true ->
  sent h = concat (pq h) ++ r /\ buffer h = [].
Proof. exact rejected_delivered_whole. Qed.
Print Assumptions C06_rejected_delivered_whole.

(* ... and it IS closed: after at most [pending] client-writable events that each accept at least
   one byte (pending = bytes still buffered + number of buffered packets), whatever else the
   client sends meanwhile.  The connection is never kept open after the decision to reject. *)
Theorem C06_rejected_closes : forall cfg orc ocd evs ws,
  rejected (run cfg orc ocd evs) = true -> 1 <= max_send cfg ->
  Forall accepts ws -> (pending (run cfg orc ocd evs) <= length ws)%nat ->
  torn (run cfg orc ocd (evs ++ ws)) = true.
Proof. exact rejected_closes. Qed.
Print Assumptions C06_rejected_closes.

(* Waiting, bare close, client gone: nothing of the handler's own making is ever emitted. *)
Theorem C06_bare_close_clean : forall cfg orc ocd evs, let h := run cfg orc ocd evs in
  hq h = [] -> sent h ++ concat (buffer h) = concat (pq h).
Proof. exact nothing_of_its_own. Qed.
Print Assumptions C06_bare_close_clean.

(* Once the first request is complete (as seen after the handle_data call that completed it, i.e.
   with request.buffer already handed over and cleared) it is never parsed or touched again, no
   second plugin is created and on_request_complete is not invoked again (later pieces go to
   plugin.on_client_data). *)
Theorem C06_complete_is_frozen : forall cfg orc ocd evs more,
  is_complete (request (run cfg orc ocd evs)) = true ->
  frozen (run cfg orc ocd (evs ++ more)) = frozen (run cfg orc ocd evs).
Proof. exact complete_is_frozen. Qed.
Print Assumptions C06_complete_is_frozen.

Theorem C06_on_request_complete_at_most_once : forall cfg orc ocd evs, let h := run cfg orc ocd evs in
  orc_calls h <= 1 /\ (orc_calls h = 1 <-> plugin h <> None).
Proof. exact orc_at_most_once. Qed.
Print Assumptions C06_on_request_complete_at_most_once.

(* No rejection in the model is an artefact of the fuel of the parser model: on every reachable
   state the request parser satisfies the invariant under which Http/ParserFacts.v (C03) proves
   that parse never returns Err OutOfFuel. *)
Theorem C06_parse_never_out_of_fuel : forall cfg orc ocd evs d,
  parse (request (run cfg orc ocd evs)) d <> Err OutOfFuel.
Proof. exact parse_never_out_of_fuel_on_runs. Qed.
Print Assumptions C06_parse_never_out_of_fuel.

(* ------------------------------------------------------------------ the builders *)

(* For all arguments in the domain wf_args, build_http_response emits exactly one complete
   response in the sense of RFC 7230: the recogniser reads back the status, the header fields
   (OWS-stripped), the body, and the framing is consistent (Content-Length = body length; or no
   body for 204 / 304 / 2xx-to-CONNECT; or close-delimited with Connection: close). *)
Theorem C06_builders_wf : forall connect a, wf_args connect a = true ->
  wf_response connect (build_http_response a) = true /\
  exists v, recognise false connect (build_http_response a) = Some v /\ framing_ok v = true /\
    rv_version v = a_version a /\ rv_status v = Z.to_N (a_status a) /\
    rv_reason v = (if truthy (a_reason a) then a_reason a else None) /\
    rv_headers v = map norm_header (final_headers a) /\
    rv_body v = intended_body a /\
    rv_framing v = (if status_no_body connect (a_status a) then NoBody
                    else if a_no_cl a then UntilClose else Counted (len (intended_body a))).
Proof.
  intros connect a H. split; [now apply build_http_response_wf|now apply build_http_response_recognised].
Qed.
Print Assumptions C06_builders_wf.

(* with a reason phrase the status line also satisfies the strict RFC 7230 grammar *)
Theorem C06_builders_wf_strict : forall connect a, wf_args connect a = true ->
  truthy (a_reason a) = true -> wf_response_strict connect (build_http_response a) = true.
Proof. exact build_http_response_wf_strict. Qed.
Print Assumptions C06_builders_wf_strict.

(* every canned packet, for every version string that is a legal field value *)
Theorem C06_canned_packets_wf : forall agent, wf_agent agent = true ->
  (forall connect, wf_response connect (BAD_REQUEST_RESPONSE_PKT agent) = true) /\
  (forall connect, wf_response connect (NOT_FOUND_RESPONSE_PKT agent) = true) /\
  (forall connect, wf_response connect (NOT_IMPLEMENTED_RESPONSE_PKT agent) = true) /\
  (forall connect, wf_response connect (PROXY_AUTH_FAILED_RESPONSE_PKT agent) = true) /\
  (forall connect, wf_response connect (BAD_GATEWAY_RESPONSE_PKT agent) = true) /\
  (forall connect, wf_response connect PROXY_TUNNEL_UNSUPPORTED_SCHEME = true) /\
  wf_response true PROXY_TUNNEL_ESTABLISHED_RESPONSE_PKT = true.
Proof. exact canned_packets_wf. Qed.
Print Assumptions C06_canned_packets_wf.

(* okResponse, compressed or not: every content, every gzip function, every threshold *)
Theorem C06_okResponse_wf : forall gz content headers compress min_len conn_close,
  wf_user_headers headers = true ->
  wf_response false (okResponse gz content headers compress min_len conn_close false) = true.
Proof. exact okResponse_wf. Qed.
Print Assumptions C06_okResponse_wf.

Theorem C06_okResponse_body : forall gz content headers compress min_len conn_close,
  wf_user_headers headers = true ->
  exists v, recognise false false (okResponse gz content headers compress min_len conn_close false) = Some v /\
    framing_ok v = true /\ rv_status v = 200 /\
    rv_framing v = Counted (len (rv_body v)) /\
    rv_body v = (if compress && truthy content && (min_len <? Z.of_nat (length (bytes_or_empty content)))%Z
                 then (if truthy (Some (gz (bytes_or_empty content))) then gz (bytes_or_empty content) else [])
                 else (if truthy content then bytes_or_empty content else [])).
Proof. exact okResponse_body. Qed.
Print Assumptions C06_okResponse_body.

Theorem C06_redirect_wf : forall location, forallb is_field_char location = true ->
  wf_response false (permanentRedirectResponse location) = true /\
  wf_response false (seeOthersResponse location) = true.
Proof. exact redirect_wf. Qed.
Print Assumptions C06_redirect_wf.

(* response() of HttpRequestRejected(status, reason, headers, body), ProxyAuthenticationFailed,
   ProxyConnectionFailed *)
Theorem C06_exn_response_wf : forall connect agent e r,
  wf_proto_exn connect agent e = true -> exn_response agent e = Some r -> wf_response connect r = true.
Proof. exact exn_response_wf. Qed.
Print Assumptions C06_exn_response_wf.

(* the builder model of this property is the shared one of Http/Builders.v *)
Theorem C06_builder_model_is_shared : forall a,
  build_http_response a =
  PM.Http.Builders.build_http_response (a_status a) (a_version a) (a_reason a) (a_headers a)
    (a_body a) (a_conn_close a) (a_no_cl a).
Proof. exact build_http_response_is_Builders. Qed.
Print Assumptions C06_builder_model_is_shared.

(* ------------------------------------------------------------------ non-vacuity *)
Definition ex_cfg : config :=
  {| agent := bytes_of_string "proxy.py v2.4.4"; plugin_klasses := Some [[HTTP_PROXY]]; max_send := 65536 |}.
Definition ex_orc (o : orc_outcome) : N -> parser -> list bytes * orc_outcome := fun _ _ => ([], o).
Definition ex_ocd : N -> parser -> list bytes -> bytes -> list bytes * ocd_outcome := fun _ _ _ _ => ([], OcdReturn).
Definition ex_run o evs := run ex_cfg (ex_orc o) ex_ocd evs.
Definition writable : event := {| ev_w := Some 65536; ev_r := None |}.
Definition eof : event := {| ev_w := None; ev_r := Some Eof |}.

Example C06_ex_waiting :
  outcomes (ex_run (RetBool false) (recv_events [bytes_of_string "GET http://a/ HT"])) = [true; false; false; false; false].
Proof. vm_compute. reflexivity. Qed.

Example C06_ex_serving :
  let h := ex_run (RetBool false) (recv_events [bytes_of_string "GET http://a/ HT"; bytes_of_string "TP/1.1" ++ CRLF; CRLF; bytes_of_string "tail"]) in
  outcomes h = [false; true; false; false; false] /\ orc_calls h = 1 /\ ocd h = [bytes_of_string "tail"] /\ sent h = [].
Proof. vm_compute. repeat split. Qed.

(* bytes behind the first request in the same segment are handed to the plugin once, in the same
   call, and request.buffer is cleared (fix e222aa4); an exception of that call is answered like any other *)
Example C06_ex_remainder_handed_over :
  let seg := bytes_of_string "GET http://a/ HTTP/1.1" ++ CRLF ++ CRLF ++ bytes_of_string "GET http://b/ HTTP/1.1" ++ CRLF ++ CRLF in
  let h := ex_run (RetBool false) (recv_events [seg]) in
  let h' := run ex_cfg (ex_orc (RetBool false)) (fun _ _ _ _ => ([], OcdRaise (Proto ConnFailed))) (recv_events [seg]) in
  outcomes h = [false; true; false; false; false] /\ orc_calls h = 1 /\
  ocd h = [bytes_of_string "GET http://b/ HTTP/1.1" ++ CRLF ++ CRLF] /\ Parser.buffer (request h) = None /\
  outcomes h' = [false; false; true; false; false] /\ map fst (hq h') = [BAD_GATEWAY_RESPONSE_PKT (agent ex_cfg)].
Proof. vm_compute. repeat split. Qed.

(* malformed request line: 400, flushed, closed; the later piece is never parsed *)
Example C06_ex_rejected :
  let evs := recv_events [bytes_of_string "XX" ++ CRLF; bytes_of_string "GET / HTTP/1.1" ++ CRLF ++ CRLF] in
  let h := ex_run (RetBool false) evs in
  let h' := ex_run (RetBool false) (evs ++ [writable]) in
  outcomes h = [false; false; true; false; false] /\ must_flush h = true /\ parse_calls h = 1 /\
  map fst (hq h) = [BAD_REQUEST_RESPONSE_PKT (agent ex_cfg)] /\
  outcomes h' = [false; false; true; false; false] /\ torn h' = true /\
  sent h' = BAD_REQUEST_RESPONSE_PKT (agent ex_cfg) /\
  wf_response false (sent h') = true.
Proof. vm_compute. repeat split. Qed.

(* the plugin rejects: the exception's response and nothing else *)
Example C06_ex_rejected_by_plugin :
  let h := ex_run (OrcRaise (Proto AuthFailed))
             (recv_events [bytes_of_string "GET http://a/ HTTP/1.1" ++ CRLF ++ CRLF] ++ [writable]) in
  outcomes h = [false; false; true; false; false] /\ torn h = true /\
  sent h = PROXY_AUTH_FAILED_RESPONSE_PKT (agent ex_cfg) /\ wf_response false (sent h) = true.
Proof. vm_compute. repeat split. Qed.

(* a non-protocol exception after parsing: bare close, nothing sent *)
Example C06_ex_bare_close :
  let h := ex_run (OrcRaise (Other ValueError)) (recv_events [bytes_of_string "GET http://a/ HTTP/1.1" ++ CRLF ++ CRLF]) in
  outcomes h = [false; false; false; true; false] /\ torn h = true /\ sent h = [] /\ buffer h = [].
Proof. vm_compute. repeat split. Qed.

Example C06_ex_client_closed :
  let h := ex_run (RetBool false) (recv_events [bytes_of_string "GET http://a/ HT"] ++ [eof]) in
  outcomes h = [false; false; false; false; true] /\ torn h = true /\ sent h = [].
Proof. vm_compute. repeat split. Qed.

(* the domain of the builders is inhabited by what the code really passes *)
Example C06_ex_builders :
  wf_args false (BAD_REQUEST_ARGS (agent ex_cfg)) = true /\
  wf_args false (request_rejected_args 403 (Some (bytes_of_string "Forbidden"))
                   (Some [(bytes_of_string "X-Reason", bytes_of_string "blocked")]) (Some (bytes_of_string "no"))) = true /\
  wf_user_headers (Some [(bytes_of_string "Content-Type", bytes_of_string "text/plain")]) = true.
Proof. vm_compute. repeat split. Qed.

(* Known deviation, recorded: without a reason phrase (HttpRequestRejected(status_code=403))
   the status line is "HTTP/1.1 403" + CRLF, which lacks the SP that RFC 7230 section 3.1.2 requires
   after the status code.  h11 and RFC 9112 recipients accept it, and so does [wf_response]; the
   strict recogniser does not. *)
Example C06_no_reason_not_strict :
  let r := build_http_response (request_rejected_args 403 None None None) in
  wf_response false r = true /\ wf_response_strict false r = false.
Proof. vm_compute. split; reflexivity. Qed.
