(* placeholder, being written *)
