(* C09 — proxy plugins run in configured order with the documented chaining semantics; lifecycle
   callbacks fire exactly once for every connection whose first request completed.
   Statements only; proofs are in Net/PluginChainFacts.v.

   All statements quantify over arbitrary plugin lists of any length whose hooks are arbitrary
   functions of (everything logged on the connection so far, the argument) returning
   Pass x | Drop | Reject response | Raise exception, over all requests and all histories. *)
From PM Require Import Lib.Bytes Lib.PyStr Net.Auth Net.AuthFacts Net.PluginChain Net.PluginChainFacts.
From Coq Require Import ZArith.

(* Every hook chain the handler runs (before_upstream_connection, handle_client_request — first and
   later requests —, handle_client_data, handle_upstream_chunk, on_access_log: all are [chain] in
   Net/PluginChain.v) is the left fold over the configured plugin list: each plugin receives what the
   previous one returned and the log of everything before it; the first plugin that does not return a
   value freezes the result. *)
Theorem C09_chain_is_fold : forall (A : Type) hk (inj : A -> arg) call ps (x : A) l,
  chain hk inj call ps x l = fold_left (chain_step hk inj call) ps (l, Done x).
Proof. exact @chain_is_fold. Qed.
Print Assumptions C09_chain_is_fold.

(* The invocations a chain makes are one call per plugin of a PREFIX of the configured list, in
   configured order; the whole list when every plugin returned a value. *)
Theorem C09_chain_order : forall (A : Type) hk (inj : A -> arg) call ps (x : A) l,
  exists n d, fst (chain hk inj call ps x l) = l ++ d /\ map event_pid d = map pid (firstn n ps)
              /\ forallb (is_call_of hk) d = true
              /\ (forall y, snd (chain hk inj call ps x l) = Done y -> n = length ps).
Proof. exact @chain_calls_prefix. Qed.
Print Assumptions C09_chain_order.

(* Configured order: the HttpProxyBasePlugin bucket after flag.py / Plugins.load is the auth plugin
   (when basic auth is given or a custom auth plugin is named) followed by the requested classes in
   the order given, each class once (first occurrence); with pairwise distinct name()s the
   instantiated chain is exactly that list. *)
Theorem C09_load_order : forall abc defaults basic_auth auth is_default requested,
  In PROXY_BASE abc -> k_base auth = PROXY_BASE -> (forall d, In d defaults -> k_base d <> PROXY_BASE) ->
  bucket PROXY_BASE (initialize_plugins abc defaults basic_auth auth is_default requested) =
  fold_left (fun ks k => if PROXY_BASE =? k_base k then add_klass k ks else ks) requested
            (if truthy basic_auth || negb is_default then [auth] else []).
Proof. exact load_bucket_general. Qed.
Print Assumptions C09_load_order.

Theorem C09_distinct_names_keep_order : forall ks,
  NoDup (map (fun k => pname (k_plugin k)) ks) -> plugin_values (instantiate ks) = map k_plugin ks.
Proof. exact instantiate_distinct. Qed.
Print Assumptions C09_distinct_names_keep_order.

(* Recorded limitation of "all plugin lists": plugins are keyed by name(); a later class with the
   name of an earlier one replaces it AT THE EARLIER POSITION and the earlier plugin never runs. *)
Theorem C09_name_collision : forall a c,
  pname (k_plugin c) = pname (k_plugin a) -> plugin_values (instantiate [a; c]) = [k_plugin c].
Proof. exact instantiate_collision. Qed.
Print Assumptions C09_name_collision.

(* A plugin returning None ends its chain: no later plugin of that chain is invoked ... *)
Theorem C09_drop_ends_chain : forall (A : Type) hk (inj : A -> arg) call p1 p p2 (x : A) l l1 y,
  chain hk inj call p1 x l = (l1, Done y) -> call p l1 y = Drop ->
  chain hk inj call (p1 ++ p :: p2) x l = (l1 ++ [Call (pid p) hk (inj y)], Dropped y).
Proof. exact @chain_drop_stops. Qed.
Print Assumptions C09_drop_ends_chain.

(* ... in before_upstream_connection it suppresses the upstream connection: no connect attempt, nothing
   queued for upstream or client by the handler, self.upstream stays None (the
   handle_client_request chain still runs, as the code has it) ... *)
Theorem C09_drop_suppresses_connect : forall cf ps r c l l1 rx,
  chain BUC ARequest before_upstream_connection ps r l = (l1, Dropped rx) ->
  let res := on_request_complete cf ps r c l in
  res = after_connect cf ps false rx l1
  /\ connect_log (fst res) = connect_log l
  /\ upstream_queue (fst res) = upstream_queue l
  /\ client_queue (fst res) = client_queue l
  /\ st_upstream (end_state (snd res)) = false.
Proof. exact drop_before_connect. Qed.
Print Assumptions C09_drop_suppresses_connect.

(* ... in handle_client_request it suppresses the forwarding of that request: on the first request
   (nothing more is logged: no upstream queue entry, no tunnel response) and on later requests. *)
Theorem C09_drop_suppresses_forwarding :
  (forall cf ps connected r1 l2 l3 rx,
     chain HCR ARequest handle_client_request ps r1 l2 = (l3, Dropped rx) ->
     after_connect cf ps connected r1 l2 = (l3, Continue (mkState rx connected None)))
  /\ (forall cf ps st pr l l1 rx,
     chain HCR ARequest handle_client_request ps pr l = (l1, Dropped rx) ->
     run_later cf ps st pr l = (l1, Continue (mkState (st_request st) true (Some rx)), None)
     /\ upstream_queue l1 = upstream_queue l).
Proof. exact (conj drop_first_request drop_later_request). Qed.
Print Assumptions C09_drop_suppresses_forwarding.

(* A plugin rejecting in before_upstream_connection: the log is the calls up to that plugin, then
   exactly its response (if it chose one), then the teardown; no connect attempt, nothing queued for
   upstream, and nothing that follows in the history has any effect before shutdown. *)
Theorem C09_reject_exact :
  (forall cf ps r c rest l l1 rx resp,
     chain BUC ARequest before_upstream_connection ps r l = (l1, Rejected rx resp) ->
     run_steps cf ps None false (SFirst r c :: rest) l = (handle_data_end (FReject resp) l1, Some (mkState rx false None))
     /\ connect_log l1 = connect_log l /\ upstream_queue l1 = upstream_queue l /\ client_queue l1 = client_queue l)
  /\ (forall b l, b <> [] -> handle_data_end (FReject (Some b)) l = l ++ [QueueClient b; Teardown]).
Proof. exact (conj reject_before_connect handle_data_end_reject). Qed.
Print Assumptions C09_reject_exact.

(* Rejecting in handle_client_request: same response and teardown, no request byte is queued for
   upstream — but on the first request the upstream connection has already been opened (the code
   connects between the two chains); on later requests the connection exists anyway. *)
Theorem C09_reject_exact_hcr :
  (forall cf ps connected r1 l2 l3 rx resp,
     chain HCR ARequest handle_client_request ps r1 l2 = (l3, Rejected rx resp) ->
     after_connect cf ps connected r1 l2 = (l3, Failed (mkState rx connected None) (FReject resp))
     /\ upstream_queue l3 = upstream_queue l2 /\ client_queue l3 = client_queue l2)
  /\ (forall cf ps st pr l l1 rx resp,
     chain HCR ARequest handle_client_request ps pr l = (l1, Rejected rx resp) ->
     run_later cf ps st pr l = (l1, Failed (mkState (st_request st) true (Some rx)) (FReject resp), None)
     /\ upstream_queue l1 = upstream_queue l /\ client_queue l1 = client_queue l).
Proof. exact (conj reject_first_request reject_later_request). Qed.
Print Assumptions C09_reject_exact_hcr.

(* Lifecycle, over every history (any steps, ended by anything): if the first request completed,
   every plugin's on_upstream_connection_close runs exactly once in configured order, the
   on_access_log chain runs exactly once (a prefix of the plugins, the default log line at most once
   and only after all plugins were asked), the client socket is closed once; otherwise no callback
   runs.  This holds in threaded mode too, where shutdown() first flushes pending output ([cf_final_flush]; every
   OSError of that flush is tolerated since fix faabfc0); the callbacks precede conn.shutdown(SHUT_WR) on the client socket, whose outcome (ENOTCONN after a
   peer reset, any OSError) therefore cannot affect them.  Premises: lifecycle hooks do not raise and keep the keys the default log line formats; the
   executor calls shutdown() exactly once (C05/C10). *)
Theorem C09_lifecycle_once : forall cf ps c0 steps,
  lifecycle_total ps -> keeps_keys ps -> (forall t, ctx_ok t c0) ->
  let l := run_conn cf ps c0 steps in
  if existsb is_first steps then
    filter (is_call_of OUCC) l = map (fun p => Call (pid p) OUCC AUnit) ps
    /\ (exists n, map event_pid (filter (is_call_of OAL) l) = map pid (firstn n ps)
                  /\ (length (filter is_access_log l) <= 1)%nat
                  /\ (length (filter is_access_log l) = 1%nat -> n = length ps))
    /\ length (filter is_client_close l) = 1%nat
  else
    l = (if cf_final_flush cf then [ClientFlush] else []) ++ [ClientShutdown; ClientClose].
Proof. exact lifecycle_once. Qed.
Print Assumptions C09_lifecycle_once.

(* the exact tail of every such log *)
Theorem C09_lifecycle_shape : forall cf ps c0 steps,
  lifecycle_total ps -> keeps_keys ps -> (forall t, ctx_ok t c0) ->
  existsb is_first steps = true ->
  exists l0 st dOAL e,
    delta_ok q_pre [] l0
    /\ (exists lr, run_steps cf ps None false steps [] = (lr, Some st)
                  /\ l0 = if cf_final_flush cf then lr ++ [ClientFlush] else lr)
    /\ chain OAL ACtx on_access_log ps c0 l0 = (l0 ++ dOAL, e)
    /\ run_conn cf ps c0 steps =
         l0 ++ dOAL
         ++ match e with Done c => [AccessLog c] | _ => [] end
         ++ map (fun p => Call (pid p) OUCC AUnit) ps
         ++ (if st_upstream st then [UpstreamClose] else [])
         ++ [ClientShutdown; ClientClose].
Proof. exact lifecycle_shape. Qed.
Print Assumptions C09_lifecycle_shape.

(* nothing before shutdown is a lifecycle callback *)
Theorem C09_no_lifecycle_before_shutdown : forall cf ps st dr steps l,
  delta_ok q_pre l (fst (run_steps cf ps st dr steps l)).
Proof. exact run_steps_pre. Qed.
Print Assumptions C09_no_lifecycle_before_shutdown.

(* The two ways reading can end under handle_data are distinguished as the Python does.
   A hook raising OSError (ConnectionResetError, BrokenPipeError, TimeoutError, plain OSError) inside
   handle_data — first request or later client data — is caught by HttpProtocolHandler.handle_readables
   (`except socket.error: return True`): reads_teared, NOT must_flush_before_shutdown.  The log gets Teardown and
   nothing that follows in the history (client bytes, upstream chunks) has any effect before shutdown: no
   request-handling hook is invoked any more and nothing is queued, whatever the rest of the history is. *)
Theorem C09_hook_oserror_tears_reads : forall cf ps n,
  (forall r c rest l l1 st1, on_request_complete cf ps r c l = (l1, Failed st1 (FRaise (OSError n))) ->
     run_steps cf ps None false (SFirst r c :: rest) l = (l1 ++ [Teardown], Some st1))
  /\ (forall st0 raw parses rest l l1 st1, on_client_data cf ps st0 raw parses l = (l1, Failed st1 (FRaise (OSError n))) ->
     run_steps cf ps (Some st0) false (SClient raw parses :: rest) l = (l1 ++ [Teardown], Some st1)).
Proof. exact hook_oserror_tears_reads. Qed.
Print Assumptions C09_hook_oserror_tears_reads.

(* ... whereas after a REJECTION of later client data (handle_data returns True, must_flush_before_shutdown) a chunk
   arriving from upstream still runs through the handle_upstream_chunk chain in configured order and is relayed *)
Theorem C09_rejection_still_relays : forall cf ps st0 raw parses up rest l l1 st1 resp,
  on_client_data cf ps st0 raw parses l = (l1, Failed st1 (FReject resp)) -> st_upstream st1 = true ->
  run_steps cf ps (Some st0) false (SClient raw parses :: SUpstream up :: rest) l =
  match on_upstream_data ps st1 up (handle_data_end (FReject resp) l1) with
  | (l2, Continue st2) => run_steps cf ps (Some st2) true rest l2
  | (l2, Failed st2 f) => (upstream_data_end f l2, Some st2)
  end.
Proof. exact rejection_still_relays. Qed.
Print Assumptions C09_rejection_still_relays.

(* every failure under handle_data falls in exactly one of the three classes *)
Theorem C09_read_end_cases : forall cf ps,
  (forall r c rest l l1 st1 f, on_request_complete cf ps r c l = (l1, Failed st1 f) ->
     run_steps cf ps None false (SFirst r c :: rest) l =
     match read_end_of f with
     | MustFlush => run_steps cf ps (Some st1) true rest (handle_data_end f l1)
     | ReadsTeared | EscapesLoop => (handle_data_end f l1, Some st1)
     end)
  /\ (forall st0 raw parses rest l l1 st1 f, on_client_data cf ps st0 raw parses l = (l1, Failed st1 f) ->
     run_steps cf ps (Some st0) false (SClient raw parses :: rest) l =
     match read_end_of f with
     | MustFlush => run_steps cf ps (Some st1) true rest (handle_data_end f l1)
     | ReadsTeared | EscapesLoop => (handle_data_end f l1, Some st1)
     end).
Proof. exact (fun cf ps => conj (run_steps_first_fail cf ps) (run_steps_client_fail cf ps)). Qed.
Print Assumptions C09_read_end_cases.

(* ------------------------------------------------------------------ non-vacuity and recorded examples *)
Definition ex_cf : config := mkConfig (bs "proxy.py v0") [] false.
Definition ex_req : request :=
  mkRequest (bs "GET") (Some (bs "h.example")) (Some 80%Z) (Some (bs "/")) HTTP_1_1
            (headers_of_lines [bs "Host: h.example"]) None false [].
Definition ex_c0 : ctx := map (fun k => (k, @nil N)) (required_keys false).

(* three plugins: the first marks the request, the second rewrites and later drops upstream data,
   the third takes over the access log *)
Definition ex_p1 : plugin :=
  mkPlugin 1 (bs "P1") (fun _ r => Pass (set_headers r (add_header (bs "X-1") (bs "1") (rq_headers r))))
           (fun _ _ _ => Some (None, None)) (fun _ r => Pass r) (fun _ b => Pass b) (fun _ b => Pass (b ++ bs "!")) (fun _ c => Pass c) (fun _ => None).
Definition ex_p2 : plugin :=
  mkPlugin 2 (bs "P2") (fun _ r => Pass r) (fun _ _ _ => Some (None, None))
           (fun _ r => Pass (set_headers r (add_header (bs "X-2") (bs "2") (rq_headers r))))
           (fun _ b => Pass b) (fun seen b => if (1 <? N.of_nat (length (filter (is_call_of HUC) seen))) then Drop else Pass b)
           (fun _ c => Pass c) (fun _ => None).
Definition ex_p3 : plugin :=
  mkPlugin 3 (bs "P3") (fun _ r => Pass r) (fun _ _ _ => Some (None, None)) (fun _ r => Pass r)
           (fun _ b => Pass b) (fun _ b => Pass b) (fun _ c => Drop) (fun _ => None).

Example C09_nonvacuous_premises :
  lifecycle_total [ex_p1; ex_p2; ex_p3] /\ keeps_keys [ex_p1; ex_p2; ex_p3] /\ (forall t, ctx_ok t ex_c0).
Proof.
  split; [|split].
  - split.
    + intros p seen c [<-|[<-|[<-|[]]]]; exact I.
    + intros p seen [<-|[<-|[<-|[]]]]; reflexivity.
  - intros t p seen a b [<-|[<-|[<-|[]]]] Ha H; cbn in H; inversion H; subst; try exact Ha.
  - intros [|]; vm_compute; reflexivity.
Qed.

Example C09_example_run :
  run_conn ex_cf [ex_p1; ex_p2; ex_p3] ex_c0 [SFirst ex_req true; SUpstream (bs "a"); SUpstream (bs "b")]
  = [Call 1 BUC (ARequest ex_req);
     Call 2 BUC (ARequest (set_headers ex_req (add_header (bs "X-1") (bs "1") (rq_headers ex_req))));
     Call 3 BUC (ARequest (set_headers ex_req (add_header (bs "X-1") (bs "1") (rq_headers ex_req))));
     Call 1 DNS (AHostPort (bs "h.example") 80); Call 2 DNS (AHostPort (bs "h.example") 80); Call 3 DNS (AHostPort (bs "h.example") 80);
     Connect (bs "h.example") 80 None;
     Call 1 HCR (ARequest (set_headers ex_req (add_header (bs "X-1") (bs "1") (rq_headers ex_req))));
     Call 2 HCR (ARequest (set_headers ex_req (add_header (bs "X-1") (bs "1") (rq_headers ex_req))));
     Call 3 HCR (ARequest (set_headers ex_req (add_header (bs "X-2") (bs "2") (add_header (bs "X-1") (bs "1") (rq_headers ex_req)))));
     QueueUpstream QRequest (bs "GET / HTTP/1.1" ++ CRLF ++ bs "Host: h.example" ++ CRLF ++ bs "X-1: 1" ++ CRLF ++ bs "X-2: 2" ++ CRLF
                             ++ bs "Via: 1.1 proxy.py v0" ++ CRLF ++ CRLF);
     Call 1 HUC (ABytes (bs "a")); Call 2 HUC (ABytes (bs "a!")); Call 3 HUC (ABytes (bs "a!")); QueueClient (bs "a!");
     Call 1 HUC (ABytes (bs "b")); Call 2 HUC (ABytes (bs "b!"));
     Call 1 OAL (ACtx ex_c0); Call 2 OAL (ACtx ex_c0); Call 3 OAL (ACtx ex_c0);
     Call 1 OUCC AUnit; Call 2 OUCC AUnit; Call 3 OUCC AUnit; UpstreamClose; ClientShutdown; ClientClose].
Proof. vm_compute. reflexivity. Qed.

(* the premise "lifecycle hooks do not raise" of C09_lifecycle_once is necessary: a plugin whose
   on_access_log raises keeps every later callback from running, including every plugin's
   on_upstream_connection_close and the close of the upstream socket *)
Definition ex_bad : plugin :=
  mkPlugin 1 (bs "Bad") (fun _ r => Pass r) (fun _ _ _ => Some (None, None)) (fun _ r => Pass r)
           (fun _ b => Pass b) (fun _ b => Pass b) (fun _ c => Raise ValueError) (fun _ => None).
Example C09_lifecycle_raise_skips :
  let l := run_conn ex_cf [ex_bad; ex_p2] ex_c0 [SFirst ex_req true] in
  filter (is_call_of OUCC) l = [] /\ filter (fun e => match e with UpstreamClose => true | _ => false end) l = []
  /\ filter is_client_close l = [ClientClose] /\ In (Escaped 1) l.
Proof. vm_compute. repeat split; try reflexivity. right. repeat (try (left; reflexivity); right). Qed.

(* a rejection in handle_client_request of the first request happens after the connect *)
Definition ex_rej : plugin :=
  mkPlugin 1 (bs "Rej") (fun _ r => Pass r) (fun _ _ _ => Some (None, None))
           (fun _ r => Reject (HttpRequestRejected_response (Some 403) (Some (bs "No")) [] None))
           (fun _ b => Pass b) (fun _ b => Pass b) (fun _ c => Pass c) (fun _ => None).
Example C09_reject_in_hcr_after_connect :
  let l := run_conn ex_cf [ex_rej] ex_c0 [SFirst ex_req true] in
  connect_log l = [Connect (bs "h.example") 80 None] /\ upstream_queue l = []
  /\ client_queue l = [QueueClient (bs "HTTP/1.1 403 No" ++ CRLF ++ bs "Content-Length: 0" ++ CRLF ++ bs "Connection: close" ++ CRLF ++ CRLF)].
Proof. vm_compute. repeat split; reflexivity. Qed.


(* a hook raising OSError on the second request while the response chunk "ok" is pending: reads are torn, the chunk
   "MORE" the upstream sends afterwards reaches no hook and is not relayed (corpus/C09/oserror-drain.json, replayed on
   /repo); the same history with a REJECTION instead still relays "MORE" *)
Definition ex_boom (o : outcome request) : plugin :=
  mkPlugin 1 (bs "Boom") (fun _ r => Pass r) (fun _ _ _ => Some (None, None))
           (fun seen r => if existsb (is_call_of HCR) seen then o else Pass r)
           (fun _ b => Pass b) (fun _ b => Pass b) (fun _ c => Pass c) (fun _ => None).
Definition ex_boom_steps : list step :=
  [SFirst ex_req true; SUpstream (bs "ok"); SClient (bs "GET2") [PComplete ex_req []]; SUpstream (bs "MORE")].
Example C09_oserror_vs_rejection_drain :
  let lo := run_conn ex_cf [ex_boom (Raise (OSError 104))] ex_c0 ex_boom_steps in
  let lr := run_conn ex_cf [ex_boom (Reject None)] ex_c0 ex_boom_steps in
  client_queue lo = [QueueClient (bs "ok")] /\ length (filter (is_call_of HUC) lo) = 1%nat /\ In Teardown lo
  /\ client_queue lr = [QueueClient (bs "ok"); QueueClient (bs "MORE")] /\ length (filter (is_call_of HUC) lr) = 2%nat /\ In Teardown lr.
Proof. vm_compute. repeat split; try reflexivity; repeat (try (left; reflexivity); right). Qed.
