(* Correspondence relations for C16: each case carries an input and what the implementation
   returned for it; check_case evaluates the model on the input and compares. *)
From PM Require Import Lib.Bytes Ws.Frame Ws.Sha1.

Inductive obs (A : Type) := OkObs (a : A) | ErrObs (code : N).
Arguments OkObs {A} a.
Arguments ErrObs {A} code.

Definition obs_eqb {A} (eqb : A -> A -> bool) (r : result A) (o : obs A) : bool :=
  match r, o with
  | Ok a, OkObs c => eqb a c
  | Err e, ErrObs code => exn_code e =? code
  | _, _ => false
  end.

Inductive case :=
| CBuild (rnd : bytes) (f : frame) (expected : obs (bytes * N))
| CParse (self : frame) (raw : bytes) (expected : obs (frame * bytes))
| CAccept (key : bytes) (expected : bytes).

Definition check_case (c : case) : bool :=
  match c with
  | CBuild rnd f e =>
      obs_eqb (fun x y => bytes_eqb (fst x) (fst y) && (snd x =? snd y)) (build rnd f) e
  | CParse self raw e =>
      obs_eqb (fun x y => frame_eqb (fst x) (fst y) && bytes_eqb (snd x) (snd y)) (parse self raw) e
  | CAccept key e => bytes_eqb (key_to_accept key) e
  end.
