(* Executable reference for SHA-1 (FIPS 180-4) and base64 (RFC 4648), used as the
   specification side of the websocket accept token (RFC 6455 section 4.2.2). *)
From PM Require Import Lib.Bytes.

Definition mask32 (x : N) : N := x mod 4294967296.
Definition add32 (a c : N) : N := mask32 (a + c).
Definition rotl (n x : N) : N := N.lor (mask32 (N.shiftl x n)) (N.shiftr x (32 - n)).
Definition not32 (x : N) : N := N.lxor x 4294967295.

Fixpoint words (l : bytes) : list N :=
  match l with
  | a :: c :: d :: e :: t => (((a * 256 + c) * 256 + d) * 256 + e) :: words t
  | _ => []
  end.

(* message schedule, most recent word first *)
Fixpoint extend (n : nat) (rw : list N) : list N :=
  match n with
  | O => rw
  | S n' =>
      let x := rotl 1 (N.lxor (N.lxor (N.lxor (nth 2 rw 0) (nth 7 rw 0)) (nth 13 rw 0)) (nth 15 rw 0)) in
      extend n' (x :: rw)
  end.

Definition st5 := (N * N * N * N * N)%type.

Definition round (t : nat) (s : st5) (w : N) : st5 :=
  let '(a, c, d, e, g) := s in
  let '(f, k) :=
    if (t <? 20)%nat then (N.lor (N.land c d) (N.land (not32 c) e), 1518500249)
    else if (t <? 40)%nat then (N.lxor (N.lxor c d) e, 1859775393)
    else if (t <? 60)%nat then (N.lor (N.lor (N.land c d) (N.land c e)) (N.land d e), 2400959708)
    else (N.lxor (N.lxor c d) e, 3395469782) in
  let temp := add32 (add32 (add32 (add32 (rotl 5 a) f) g) k) w in
  (temp, a, rotl 30 c, d, e).

Fixpoint rounds (t : nat) (ws : list N) (s : st5) : st5 :=
  match ws with
  | [] => s
  | w :: ws' => rounds (S t) ws' (round t s w)
  end.

Definition block (s : st5) (blk : bytes) : st5 :=
  let w := rev (extend 64 (rev (words blk))) in
  let '(a, c, d, e, g) := s in
  let '(a', c', d', e', g') := rounds 0 w s in
  (add32 a a', add32 c c', add32 d d', add32 e e', add32 g g').

Fixpoint blocks (fuel : nat) (s : st5) (l : bytes) : st5 :=
  match fuel with
  | O => s
  | S f => match l with
           | [] => s
           | _ => blocks f (block s (firstn 64 l)) (skipn 64 l)
           end
  end.

Fixpoint be_bytes (k : nat) (n : N) : bytes :=
  match k with O => [] | S k' => be_bytes k' (n / 256) ++ [n mod 256] end.

Definition sha1_pad (m : bytes) : bytes :=
  let l := length m in
  let z := ((64 - (l + 9) mod 64) mod 64)%nat in
  m ++ [128] ++ repeat 0 z ++ be_bytes 8 (8 * N.of_nat l).

Definition sha1 (m : bytes) : bytes :=
  let p := sha1_pad m in
  let '(a, c, d, e, g) :=
    blocks (S (length p / 64)) (1732584193, 4023233417, 2562383102, 271733878, 3285377520) p in
  be_bytes 4 a ++ be_bytes 4 c ++ be_bytes 4 d ++ be_bytes 4 e ++ be_bytes 4 g.

(* ---- base64 ---- *)
Definition b64_alphabet : bytes :=
  bytes_of_string "ABCDEFGHIJKLMNOPQRSTUVWXYZabcdefghijklmnopqrstuvwxyz0123456789+/".
Definition b64c (i : N) : N := nth (N.to_nat i) b64_alphabet 0.

Fixpoint b64encode (l : bytes) : bytes :=
  match l with
  | [] => []
  | [a] => [b64c (a / 4); b64c ((a mod 4) * 16); 61; 61]
  | [a; c] => [b64c (a / 4); b64c ((a mod 4) * 16 + c / 16); b64c ((c mod 16) * 4); 61]
  | a :: c :: d :: t =>
      b64c (a / 4) :: b64c ((a mod 4) * 16 + c / 16) :: b64c ((c mod 16) * 4 + d / 64) :: b64c (d mod 64)
      :: b64encode t
  end.

Definition GUID : bytes := bytes_of_string "258EAFA5-E914-47DA-95CA-C5AB0DC85B11".

(* RFC 6455 4.2.2: base64-encoded SHA-1 of the key concatenated with the GUID;
   this is also the model of WebsocketFrame.key_to_accept, which calls hashlib and base64 *)
Definition key_to_accept (key : bytes) : bytes := b64encode (sha1 (key ++ GUID)).

(* FIPS 180 test vectors and the RFC 6455 example *)
Example sha1_abc : sha1 (bytes_of_string "abc") =
  [169;153;62;54;71;6;129;106;186;62;37;113;120;80;194;108;156;208;216;157].
Proof. vm_compute. reflexivity. Qed.
Example sha1_empty : sha1 [] =
  [218;57;163;238;94;107;75;13;50;85;191;239;149;96;24;144;175;216;7;9].
Proof. vm_compute. reflexivity. Qed.
Example accept_rfc_example :
  key_to_accept (bytes_of_string "dGhlIHNhbXBsZSBub25jZQ==") = bytes_of_string "s3pPLMBiTxaQ9kYGzzhZRbK+xOo=".
Proof. vm_compute. reflexivity. Qed.
