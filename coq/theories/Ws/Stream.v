(* Model of the code that USES the websocket codec, written after the Python function by function:
     proxy/http/websocket/frame.py   WebsocketFrame.reset
     proxy/http/server/web.py        HttpWebServerPlugin.on_client_data (websocket branch: the while loop),
                                     HttpWebServerPlugin.switch_to_websocket
     proxy/http/handler.py           HttpProtocolHandler.handle_data, as far as it wraps plugin.on_client_data
                                     (which exceptions it catches), one call per received segment
     proxy/common/utils.py           build_websocket_handshake_response, build_websocket_handshake_request
                                     (on top of the builders of Http/Builders.v - no copy)
     proxy/http/websocket/client.py  WebsocketClient.upgrade (the accept check), run_once (read branch)
   Definitions only; lemmas are in StreamFacts.v. *)
From PM Require Import Lib.Bytes Ws.Frame Ws.Sha1.
From PM Require Http.Parser Http.Builders.
From Coq Require Import ZArith.

Module HB := PM.Http.Builders.

(* websocketOpcodes.CONNECTION_CLOSE *)
Definition CONNECTION_CLOSE : N := 8.

(* WebsocketFrame.reset: every one of the nine fields is put back to its __init__ value *)
Definition reset (self : frame) : frame :=
  {| fin := false; rsv1 := false; rsv2 := false; rsv3 := false; opcode := 0; masked := false;
     payload_length := None; mask := None; data := None |}.

(* `remaining != b''` *)
Definition nonempty (l : bytes) : bool := match l with [] => false | _ :: _ => true end.

(* how the while loop of on_client_data is left *)
Inductive ws_end :=
| WsReturned                                   (* remaining == b'': the loop ends, on_client_data returns *)
| WsCloseRaised (f : frame) (unparsed : bytes) (* HttpProtocolException('Client sent connection close packet');
                                                  f = the close frame, unparsed = what parse returned: never looked at *)
| WsRaised (e : exn)                           (* frame.parse raised (IndexError / struct.error), or `assert self.route` *)
| WsOutOfFuel.                                 (* never: StreamFacts.ws_loop_terminates *)

(*   frame = WebsocketFrame()
     while remaining != b'':
         remaining = frame.parse(remaining)
         if frame.opcode == websocketOpcodes.CONNECTION_CLOSE: raise HttpProtocolException(...)
         else: assert self.route; self.route.on_websocket_message(frame)
         frame.reset()
   The first component is the list of frames handed to route.on_websocket_message, each as the route
   sees it at the time of the call (the object is reset and reused afterwards). *)
Fixpoint ws_loop (fuel : nat) (has_route : bool) (frame : frame) (remaining : bytes) : list Frame.frame * ws_end :=
  match fuel with
  | O => ([], WsOutOfFuel)
  | S fuel' =>
      if negb (nonempty remaining) then ([], WsReturned) else
      match parse frame remaining with
      | Err e => ([], WsRaised e)
      | Ok (frame1, remaining1) =>
          if opcode frame1 =? CONNECTION_CLOSE then ([], WsCloseRaised frame1 remaining1)
          else if negb has_route then ([], WsRaised AssertionError)
          else let '(ds, e) := ws_loop fuel' has_route (reset frame1) remaining1 in (frame1 :: ds, e)
      end
  end.

(* enough for every input: each iteration that continues consumes at least two bytes *)
Definition ws_fuel (raw : bytes) : nat := S (length raw).

(* HttpWebServerPlugin.on_client_data(raw).
   has_route      = `self.route` is set
   route_passes   = self.route.on_client_data(self.request, raw) returned something else than None
                    (HttpWebServerBasePlugin returns raw)
   switched_ws    = self.switched_protocol == httpProtocolTypes.WEBSOCKET *)
Inductive ocd_result :=
| OcdRouteConsumed                                   (* the route returned None: nothing else happens *)
| OcdWebsocket (delivered : list frame) (e : ws_end)
| OcdHttpPipeline.                                   (* the keep-alive pipelining branch: Net/Conversation.v (C04) *)

Definition on_client_data (has_route route_passes switched_ws : bool) (raw : bytes) : ocd_result :=
  if has_route && negb route_passes then OcdRouteConsumed
  else if switched_ws then
    let '(ds, e) := ws_loop (ws_fuel raw) has_route new_frame raw in OcdWebsocket ds e
  else OcdHttpPipeline.

(* HttpProtocolHandler.handle_data for a segment received after the upgrade: plugin.on_client_data inside
   `try: ... except HttpProtocolException as e: response = e.response(self.request); if response: queue; return True`.
   The plain HttpProtocolException has response() = None: nothing is queued.  Any other exception is NOT caught
   here nor in handle_readables / handle_events: it leaves the handler. *)
Inductive conn_end :=
| ConnOpen                 (* handle_data returned False for every segment *)
| ConnTeardown             (* handle_data returned True *)
| ConnEscaped (e : exn).   (* an exception left handle_events; the executor drops the work (fix a526c79) *)

(* the websocket phase of one client connection: one handle_data call per received segment, the route
   installed and the protocol switched; delivered frames accumulate in call order *)
Fixpoint ws_conn (segs : list bytes) : list frame * conn_end :=
  match segs with
  | [] => ([], ConnOpen)
  | s :: rest =>
      match on_client_data true true true s with
      | OcdWebsocket ds WsReturned => let '(ds', e) := ws_conn rest in (ds ++ ds', e)
      | OcdWebsocket ds (WsCloseRaised _ _) => (ds, ConnTeardown)
      | OcdWebsocket ds (WsRaised e) => (ds, ConnEscaped e)
      | OcdWebsocket ds WsOutOfFuel => (ds, ConnEscaped OutOfFuel)
      | OcdRouteConsumed | OcdHttpPipeline => ws_conn rest
      end
  end.

(* ---------------------------------------------------------------- handshake *)
Definition K_UPGRADE := bytes_of_string "Upgrade".
Definition V_WEBSOCKET := bytes_of_string "websocket".
Definition K_CONNECTION := bytes_of_string "Connection".
Definition V_UPGRADE := bytes_of_string "Upgrade".
Definition V_upgrade := bytes_of_string "upgrade".
Definition K_ACCEPT := bytes_of_string "Sec-WebSocket-Accept".
Definition K_KEY := bytes_of_string "Sec-WebSocket-Key".
Definition K_VERSION := bytes_of_string "Sec-WebSocket-Version".
Definition K_HOST := bytes_of_string "Host".
Definition SWITCHING_PROTOCOLS := bytes_of_string "Switching Protocols".

(* build_websocket_handshake_response(accept): build_http_response(101, reason=..., headers={...}) with the
   keyword defaults protocol_version=HTTP_1_1, body=None, conn_close=False, no_cl=False *)
Definition build_websocket_handshake_response (accept : bytes) : bytes :=
  HB.build_http_response 101 PM.Http.Parser.HTTP_1_1 (Some SWITCHING_PROTOCOLS)
    (Some [(K_UPGRADE, V_WEBSOCKET); (K_CONNECTION, V_UPGRADE); (K_ACCEPT, accept)])
    None false false.

(* build_websocket_handshake_request(key, method=b'GET', url=b'/', host=b'localhost');
   ua = PROXY_AGENT_HEADER_VALUE *)
Definition build_websocket_handshake_request (ua key method url host : bytes) : bytes :=
  HB.build_http_request ua method url PM.Http.Parser.HTTP_1_1 None
    (Some [(K_HOST, host); (K_CONNECTION, V_upgrade); (K_UPGRADE, V_WEBSOCKET); (K_KEY, key);
           (K_VERSION, bytes_of_string "13")])
    None false false.

(* HttpWebServerPlugin.switch_to_websocket: what is queued for the client.
   key_header = self.request.header(b'Sec-WebSocket-Key'), None when the request has no such header
   (HttpParser.header raises KeyError, which nobody catches). *)
Definition switch_to_websocket (key_header : option bytes) : result bytes :=
  match key_header with
  | None => Err KeyError
  | Some key => Ok (build_websocket_handshake_response (key_to_accept key))
  end.

(* ---------------------------------------------------------------- WebsocketClient *)
(* upgrade(): `assert WebsocketFrame.key_to_accept(key) == accept`, accept = the response's header value *)
Definition client_upgrade_check (key accept : bytes) : result unit :=
  if bytes_eqb (key_to_accept key) accept then Ok tt else Err AssertionError.

(* run_once, read branch: frame = WebsocketFrame(); frame.parse(raw.tobytes()); self.on_message(frame).
   The value returned by parse (the bytes after the first frame) is dropped. *)
Definition client_on_read (raw : bytes) : result frame :=
  do '(f, _) <- parse new_frame raw; Ok f.
