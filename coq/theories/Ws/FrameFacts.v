From PM Require Import Lib.Bytes Lib.BytesFacts Ws.Frame Ws.FrameSpec.

(* ---------- finite sweeps lifted to all N below a bound ---------- *)
Lemma N_below_forall (P : N -> bool) (n : nat) :
  forallb P (map N.of_nat (seq 0 n)) = true -> forall x, x < N.of_nat n -> P x = true.
Proof.
  intros H x Hx. rewrite forallb_forall in H. apply H. apply in_map_iff.
  exists (N.to_nat x). split; [apply N2Nat.id|apply in_seq; lia].
Qed.

(* ---------- big-endian integers ---------- *)
Lemma be_encode_length k n : length (be_encode k n) = k.
Proof. revert n; induction k as [|k IH]; intros n; cbn; [reflexivity|]. rewrite app_length, IH. cbn. lia. Qed.

Lemma be_decode_app l x : be_decode (l ++ [x]) = be_decode l * 256 + x.
Proof. unfold be_decode. rewrite fold_left_app. reflexivity. Qed.

Lemma be_decode_encode k n : be_decode (be_encode k n) = n mod 256 ^ N.of_nat k.
Proof.
  revert n; induction k as [|k IH]; intros n.
  - cbn. now rewrite N.mod_1_r.
  - cbn [be_encode]. rewrite be_decode_app, IH.
    rewrite Nat2N.inj_succ, N.pow_succ_r'.
    rewrite N.mod_mul_r by (try apply N.pow_nonzero; lia). lia.
Qed.

Lemma be_encode_wf k n : wf_bytes (be_encode k n) = true.
Proof.
  revert n; induction k as [|k IH]; intros n; cbn; [reflexivity|].
  rewrite wf_bytes_app, IH. cbn. rewrite andb_true_r. apply N.ltb_lt. apply N.mod_lt. lia.
Qed.

Lemma be_spec_encode k n : be_spec k n = be_encode k n.
Proof.
  revert n; induction k as [|k IH]; intros n; [reflexivity|].
  cbn [be_encode]. rewrite <- IH. unfold be_spec.
  rewrite seq_S, map_app. cbn [map]. f_equal.
  - apply map_ext_in. intros i Hi. apply in_seq in Hi.
    replace (S k - 1 - i)%nat with (S (k - 1 - i)) by lia.
    rewrite Nat2N.inj_succ, N.pow_succ_r', N.div_div by (try apply N.pow_nonzero; lia).
    reflexivity.
  - replace (S k - 1 - (0 + k))%nat with 0%nat by lia. cbn. now rewrite N.div_1_r.
Qed.

(* ---------- masking ---------- *)
Lemma apply_mask_from_spec i d key :
  length key = 4%nat ->
  apply_mask_from (N.of_nat i) d key = Ok (xor_key_from i key d).
Proof.
  intros Hk. revert i; induction d as [|x t IH]; intros i; cbn [apply_mask_from xor_key_from]; [reflexivity|].
  assert (Hi : N.to_nat (N.of_nat i mod 4) = (i mod 4)%nat).
  { change 4 with (N.of_nat 4). rewrite <- Nat2N.inj_mod. apply Nat2N.id. }
  rewrite Hi.
  assert (Hlt : (i mod 4 < length key)%nat) by (rewrite Hk; apply Nat.mod_upper_bound; lia).
  destruct (nth_error key (i mod 4)) as [kx|] eqn:E.
  - rewrite (nth_error_nth _ _ 0 E).
    replace (N.of_nat i + 1) with (N.of_nat (S i)) by lia. rewrite IH. reflexivity.
  - apply nth_error_None in E. lia.
Qed.

Lemma apply_mask_spec d key : length key = 4%nat -> apply_mask d key = Ok (xor_key key d).
Proof. intros. apply (apply_mask_from_spec 0); assumption. Qed.

Lemma xor_key_from_length i key d : length (xor_key_from i key d) = length d.
Proof. revert i; induction d as [|x t IH]; intros i; cbn; [reflexivity|]. now rewrite IH. Qed.

Lemma xor_key_from_involutive i key d : xor_key_from i key (xor_key_from i key d) = d.
Proof.
  revert i; induction d as [|x t IH]; intros i; cbn; [reflexivity|].
  rewrite IH, N.lxor_assoc, N.lxor_nilpotent, N.lxor_0_r. reflexivity.
Qed.

Lemma xor_key_involutive key d : xor_key key (xor_key key d) = d.
Proof. apply xor_key_from_involutive. Qed.

Lemma xor_key_length key d : length (xor_key key d) = length d.
Proof. apply xor_key_from_length. Qed.

Lemma apply_mask_involutive d key :
  length key = 4%nat ->
  exists d', apply_mask d key = Ok d' /\ apply_mask d' key = Ok d.
Proof.
  intros Hk. exists (xor_key key d). rewrite !apply_mask_spec by assumption.
  now rewrite xor_key_involutive.
Qed.

(* ---------- header bytes ---------- *)
Definition hdr0 (f1 f2 f3 f4 : bool) (op : N) : N :=
  b2n f1 * 128 + b2n f2 * 64 + b2n f3 * 32 + b2n f4 * 16 + op.

Definition hdr0_ok (f1 f2 f3 f4 : bool) (op : N) : bool :=
  let x := hdr0 f1 f2 f3 f4 op in
  Bool.eqb (testbit_mask x 128) f1 && Bool.eqb (testbit_mask x 64) f2 &&
  Bool.eqb (testbit_mask x 32) f3 && Bool.eqb (testbit_mask x 16) f4 &&
  (N.land x 15 =? op) && (x <? 256) &&
  (N.lor (N.lor (N.lor (N.lor (bit f1 128) (bit f2 64)) (bit f3 32)) (bit f4 16)) op =? x).

Lemma hdr0_sweep f1 f2 f3 f4 op : op < 16 -> hdr0_ok f1 f2 f3 f4 op = true.
Proof.
  intros H. change 16 with (N.of_nat 16) in H. revert op H.
  destruct f1, f2, f3, f4; apply N_below_forall; vm_compute; reflexivity.
Qed.

Definition hdr1_ok (m : bool) (n : N) : bool :=
  let x := b2n m * 128 + n in
  Bool.eqb (testbit_mask x 128) m && (N.land x 127 =? n) && (x <? 256) &&
  (N.lor (bit m 128) n =? x).

Lemma hdr1_sweep m n : n < 128 -> hdr1_ok m n = true.
Proof.
  intros H. change 128 with (N.of_nat 128) in H. revert n H.
  destruct m; apply N_below_forall; vm_compute; reflexivity.
Qed.

(* ---------- connecting implementation frames and abstract frames ---------- *)
Definition abs (rnd : bytes) (f : frame) : aframe :=
  {| a_fin := fin f; a_rsv1 := rsv1 f; a_rsv2 := rsv2 f; a_rsv3 := rsv3 f;
     a_opcode := opcode f;
     a_key := if masked f then Some (match mask f with Some m => m | None => rnd end) else None;
     a_payload := data_or_empty (data f) |}.

Definition wf_frame (rnd : bytes) (f : frame) : Prop :=
  wf_aframe (abs rnd f) /\
  (payload_length f = None \/ payload_length f = Some (len (data_or_empty (data f)))).

(* what parse leaves in self after reading the encoding of [a] *)
Definition canon (self : frame) (a : aframe) : frame :=
  {| fin := a_fin a; rsv1 := a_rsv1 a; rsv2 := a_rsv2 a; rsv3 := a_rsv3 a;
     opcode := a_opcode a;
     masked := match a_key a with Some _ => true | None => false end;
     payload_length := Some (len (a_payload a));
     mask := match a_key a with Some k => Some k | None => mask self end;
     data := Some (a_payload a) |}.

Lemma truthy_len d : truthy d = false -> len (data_or_empty d) = 0.
Proof. destruct d as [[|x t]|]; cbn; try reflexivity; discriminate. Qed.

Lemma truthy_false_empty d : truthy d = false -> data_or_empty d = [].
Proof. destruct d as [[|x t]|]; cbn; try reflexivity; discriminate. Qed.

Lemma build_is_rfc rnd f :
  wf_frame rnd f ->
  build rnd f = Ok (rfc_encode (abs rnd f), len (data_or_empty (data f))).
Proof.
  intros [[Hop [Hwf [Hlen Hkey]]] Hpl]. cbn [abs a_opcode a_payload a_key] in Hop, Hwf, Hlen, Hkey.
  unfold build.
  set (n := len (data_or_empty (data f))) in *.
  assert (Hn : match payload_length f with
               | Some n0 => n0
               | None => if truthy (data f) then n else 0
               end = n).
  { destruct Hpl as [-> | ->]; [|reflexivity].
    destruct (truthy (data f)) eqn:T; [reflexivity|]. symmetry. now apply truthy_len. }
  rewrite Hn. clear Hn Hpl.
  pose proof (hdr0_sweep (fin f) (rsv1 f) (rsv2 f) (rsv3 f) (opcode f) Hop) as H0.
  unfold hdr0_ok in H0. repeat (apply andb_true_iff in H0 as [H0 ?]).
  match goal with H : (N.lor _ _ =? _) = true |- _ => apply N.eqb_eq in H; rename H into Hb0 end.
  match goal with H : (_ <? 256) = true |- _ => rename H into Hb0lt end.
  unfold byte0, pack_B at 1. rewrite Hb0, Hb0lt. cbn [bind].
  unfold rfc_encode. cbn [a_fin a_rsv1 a_rsv2 a_rsv3 a_opcode a_payload a_key abs].
  fold n. unfold hdr0.
  (* body *)
  set (m := match mask f with Some m => m | None => rnd end) in *.
  assert (Hbody :
    (if masked f
     then if truthy (data f) then (do x <- apply_mask (data_or_empty (data f)) m; Ok (m ++ x)) else Ok m
     else if truthy (data f) then Ok (data_or_empty (data f)) else Ok [])
    = Ok (match (if masked f then Some m else None) with
          | Some key => key ++ xor_key key (data_or_empty (data f))
          | None => data_or_empty (data f)
          end)).
  { destruct (masked f).
    - destruct Hkey as [Hk4 _].
      destruct (truthy (data f)) eqn:T.
      + rewrite apply_mask_spec by assumption. reflexivity.
      + rewrite (truthy_false_empty _ T). cbn. now rewrite app_nil_r.
    - destruct (truthy (data f)) eqn:T; [reflexivity|]. now rewrite (truthy_false_empty _ T). }
  rewrite Hbody. clear Hbody.
  assert (Hmb : (match (if masked f then Some m else None) with
                 | Some _ => 1 | None => 0 end) = b2n (masked f)) by (destruct (masked f); reflexivity).
  rewrite Hmb.
  destruct (n <? 126) eqn:E1.
  - apply N.ltb_lt in E1.
    pose proof (hdr1_sweep (masked f) n ltac:(lia)) as H1. unfold hdr1_ok in H1.
    repeat (apply andb_true_iff in H1 as [H1 ?]).
    match goal with H : (N.lor _ _ =? _) = true |- _ => apply N.eqb_eq in H; rewrite H end.
    unfold pack_B. match goal with H : (_ <? 256) = true |- _ => rewrite H end. reflexivity.
  - destruct (n <? 65536) eqn:E2.
    + pose proof (hdr1_sweep (masked f) 126 ltac:(lia)) as H1. unfold hdr1_ok in H1.
      repeat (apply andb_true_iff in H1 as [H1 ?]).
      match goal with H : (N.lor _ _ =? _) = true |- _ => apply N.eqb_eq in H; rewrite H end.
      unfold pack_B, pack_H. match goal with H : (_ <? 256) = true |- _ => rewrite H end.
      rewrite E2. cbn [bind]. rewrite be_spec_encode. reflexivity.
    + apply N.ltb_lt in Hlen. rewrite Hlen.
      pose proof (hdr1_sweep (masked f) 127 ltac:(lia)) as H1. unfold hdr1_ok in H1.
      repeat (apply andb_true_iff in H1 as [H1 ?]).
      match goal with H : (N.lor _ _ =? _) = true |- _ => apply N.eqb_eq in H; rewrite H end.
      unfold pack_B, pack_Q. match goal with H : (_ <? 256) = true |- _ => rewrite H end.
      rewrite Hlen. cbn [bind]. rewrite be_spec_encode. reflexivity.
Qed.

Lemma take_app_len (x y : bytes) n : n = len x -> take n (x ++ y) = x.
Proof. intros ->. apply take_app_exact. Qed.
Lemma drop_app_len (x y : bytes) n : n = len x -> drop n (x ++ y) = y.
Proof. intros ->. apply drop_app_exact. Qed.

Lemma parse_tail self a t b0 b1 pl rest :
  wf_aframe a ->
  testbit_mask b1 128 = match a_key a with Some _ => true | None => false end ->
  pl = len (a_payload a) ->
  rest = match a_key a with Some key => key ++ xor_key key (a_payload a) | None => a_payload a end ++ t ->
  (let msk := testbit_mask b1 128 in
   let '(mk, raw4) := if msk then (Some (take 4 rest), drop 4 rest) else (mask self, rest) in
   let d := take pl raw4 in
   let rest' := drop pl raw4 in
   do d' <- (if msk then apply_mask d (data_or_empty mk) else Ok d);
   Ok ({| fin := testbit_mask b0 128; rsv1 := testbit_mask b0 64;
          rsv2 := testbit_mask b0 32; rsv3 := testbit_mask b0 16;
          opcode := N.land b0 15; masked := msk;
          payload_length := Some pl; mask := mk; data := Some d' |}, rest'))
  = Ok ({| fin := testbit_mask b0 128; rsv1 := testbit_mask b0 64;
          rsv2 := testbit_mask b0 32; rsv3 := testbit_mask b0 16;
          opcode := N.land b0 15; masked := match a_key a with Some _ => true | None => false end;
          payload_length := Some (len (a_payload a));
          mask := match a_key a with Some k => Some k | None => mask self end;
          data := Some (a_payload a) |}, t).
Proof.
  intros [_ [_ [_ Hkey]]] Hm -> ->. cbv zeta. rewrite Hm.
  destruct (a_key a) as [key|].
  - destruct Hkey as [Hk4 _].
    rewrite <- !app_assoc.
    rewrite (take_app_len key) by (unfold len; rewrite Hk4; reflexivity).
    rewrite (drop_app_len key) by (unfold len; rewrite Hk4; reflexivity).
    rewrite take_app_len by (unfold len; now rewrite xor_key_length).
    rewrite drop_app_len by (unfold len; now rewrite xor_key_length).
    cbn [data_or_empty]. rewrite apply_mask_spec by assumption.
    rewrite xor_key_involutive. reflexivity.
  - rewrite take_app_exact, drop_app_exact. reflexivity.
Qed.

Lemma parse_rfc self a t :
  wf_aframe a -> parse self (rfc_encode a ++ t) = Ok (canon self a, t).
Proof.
  intros Hwf. pose proof Hwf as [Hop [Hwfp [Hlen Hkey]]].
  unfold rfc_encode, canon.
  set (n := len (a_payload a)) in *.
  set (mbit := match a_key a with Some _ => 1 | None => 0 end).
  set (mb := match a_key a with Some _ => true | None => false end).
  assert (Hmbit : mbit = b2n mb) by (unfold mbit, mb; destruct (a_key a); reflexivity).
  pose proof (hdr0_sweep (a_fin a) (a_rsv1 a) (a_rsv2 a) (a_rsv3 a) (a_opcode a) Hop) as H0.
  unfold hdr0_ok, hdr0 in H0. repeat (apply andb_true_iff in H0 as [H0 ?]).
  repeat match goal with H : Bool.eqb _ _ = true |- _ => apply Bool.eqb_prop in H end.
  match goal with H : (N.land _ 15 =? _) = true |- _ => apply N.eqb_eq in H; rename H into Hop15 end.
  set (b0 := b2n (a_fin a) * 128 + b2n (a_rsv1 a) * 64 + b2n (a_rsv2 a) * 32 + b2n (a_rsv3 a) * 16 + a_opcode a) in *.
  assert (Hflags : forall pl mk d,
    {| fin := testbit_mask b0 128; rsv1 := testbit_mask b0 64; rsv2 := testbit_mask b0 32;
       rsv3 := testbit_mask b0 16; opcode := N.land b0 15; masked := mb;
       payload_length := pl; mask := mk; data := d |} =
    {| fin := a_fin a; rsv1 := a_rsv1 a; rsv2 := a_rsv2 a; rsv3 := a_rsv3 a; opcode := a_opcode a;
       masked := mb; payload_length := pl; mask := mk; data := d |}) by (intros; congruence).
  rewrite <- Hflags.
  destruct (n <? 126) eqn:E1.
  - apply N.ltb_lt in E1.
    pose proof (hdr1_sweep mb n ltac:(lia)) as Hh1. unfold hdr1_ok in Hh1.
    repeat (apply andb_true_iff in Hh1 as [Hh1 ?]).
    match goal with H : (N.land _ 127 =? _) = true |- _ => apply N.eqb_eq in H; rename H into H127 end.
    apply Bool.eqb_prop in Hh1.
    cbn [app parse]. rewrite Hmbit, H127.
    assert ((n =? 126) = false) as -> by (apply N.eqb_neq; lia).
    assert ((n =? 127) = false) as -> by (apply N.eqb_neq; lia).
    cbn [bind].
    apply (parse_tail self a t b0 (b2n mb * 128 + n)); auto.
  - apply N.ltb_ge in E1. destruct (n <? 65536) eqn:E2.
    + apply N.ltb_lt in E2.
      pose proof (hdr1_sweep mb 126 ltac:(lia)) as Hh1. unfold hdr1_ok in Hh1.
      repeat (apply andb_true_iff in Hh1 as [Hh1 ?]).
      match goal with H : (N.land _ 127 =? _) = true |- _ => apply N.eqb_eq in H; rename H into H127 end.
      apply Bool.eqb_prop in Hh1.
      cbn [app parse]. rewrite Hmbit, H127. cbn [N.eqb Pos.eqb].
      rewrite be_spec_encode, <- app_assoc.
      rewrite take_app_len by (unfold len; now rewrite be_encode_length).
      rewrite drop_app_len by (unfold len; now rewrite be_encode_length).
      unfold unpack. rewrite be_encode_length, Nat.eqb_refl, be_decode_encode.
      rewrite N.mod_small by (cbn; lia). cbn [bind].
      apply (parse_tail self a t b0 (b2n mb * 128 + 126)); auto.
    + apply N.ltb_ge in E2.
      pose proof (hdr1_sweep mb 127 ltac:(lia)) as Hh1. unfold hdr1_ok in Hh1.
      repeat (apply andb_true_iff in Hh1 as [Hh1 ?]).
      match goal with H : (N.land _ 127 =? _) = true |- _ => apply N.eqb_eq in H; rename H into H127 end.
      apply Bool.eqb_prop in Hh1.
      cbn [app parse]. rewrite Hmbit, H127. cbn [N.eqb Pos.eqb].
      rewrite be_spec_encode, <- app_assoc.
      rewrite take_app_len by (unfold len; now rewrite be_encode_length).
      rewrite drop_app_len by (unfold len; now rewrite be_encode_length).
      unfold unpack. rewrite be_encode_length, Nat.eqb_refl, be_decode_encode.
      rewrite N.mod_small by (cbn; lia). cbn [bind].
      apply (parse_tail self a t b0 (b2n mb * 128 + 127)); auto.
Qed.

Lemma roundtrip rnd f t :
  wf_frame rnd f ->
  exists raw, build rnd f = Ok (raw, len (data_or_empty (data f))) /\
              parse new_frame (raw ++ t) = Ok (canon new_frame (abs rnd f), t).
Proof.
  intros Hwf. exists (rfc_encode (abs rnd f)). split.
  - now apply build_is_rfc.
  - apply parse_rfc. apply Hwf.
Qed.

(* the encoding is prefix-free in the sense needed for streams: one frame is consumed exactly *)
Lemma rfc_encode_length_header a :
  (2 <= length (rfc_encode a))%nat.
Proof. unfold rfc_encode. rewrite app_length. cbn [length]. destruct (_ <? 126); [|destruct (_ <? 65536)]; cbn; lia. Qed.
