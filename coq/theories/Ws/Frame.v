(* Model of proxy/http/websocket/frame.py (WebsocketFrame), written after the Python
   function by function.  Definitions only. *)
From PM Require Import Lib.Bytes.

(* ---- struct.pack / struct.unpack for the formats the code uses ---- *)
Fixpoint be_encode (k : nat) (n : N) : bytes :=
  match k with
  | O => []
  | S k' => be_encode k' (n / 256) ++ [n mod 256]
  end.
Definition be_decode (l : bytes) : N := fold_left (fun acc x => acc * 256 + x) l 0.

Definition pack_B (v : N) : result bytes := if v <? 256 then Ok [v] else Err StructError.
Definition pack_H (v : N) : result bytes := if v <? 65536 then Ok (be_encode 2 v) else Err StructError.
Definition pack_Q (v : N) : result bytes := if v <? 2 ^ 64 then Ok (be_encode 8 v) else Err StructError.
Definition unpack (k : nat) (d : bytes) : result N :=
  if Nat.eqb (length d) k then Ok (be_decode d) else Err StructError.

Record frame := {
  fin : bool; rsv1 : bool; rsv2 : bool; rsv3 : bool;
  opcode : N; masked : bool;
  payload_length : option N; mask : option bytes; data : option bytes }.

Definition new_frame : frame :=
  {| fin := false; rsv1 := false; rsv2 := false; rsv3 := false; opcode := 0; masked := false;
     payload_length := None; mask := None; data := None |}.

(* Python truthiness of Optional[bytes] *)
Definition truthy (d : option bytes) : bool :=
  match d with Some (_ :: _) => true | _ => false end.
Definition data_or_empty (d : option bytes) : bytes :=
  match d with Some x => x | None => [] end.

(* raw[i] ^ mask[i % 4]  for i in range(len(raw)); IndexError when mask is too short *)
Fixpoint apply_mask_from (i : N) (d m : bytes) : result bytes :=
  match d with
  | [] => Ok []
  | x :: t =>
      match nth_error m (N.to_nat (i mod 4)) with
      | None => Err IndexError
      | Some k => do r <- apply_mask_from (i + 1) t m; Ok (N.lxor x k :: r)
      end
  end.
Definition apply_mask (d m : bytes) : result bytes := apply_mask_from 0 d m.

Definition bit (c : bool) (v : N) : N := if c then v else 0.

Definition byte0 (f : frame) : N :=
  N.lor (N.lor (N.lor (N.lor (bit (fin f) 128) (bit (rsv1 f) 64)) (bit (rsv2 f) 32)) (bit (rsv3 f) 16)) (opcode f).

(* WebsocketFrame.build; [rnd] stands for secrets.token_bytes(4).
   Returns the bytes and the payload_length left in self. *)
Definition build (rnd : bytes) (f : frame) : result (bytes * N) :=
  let pl := match payload_length f with
            | Some n => n
            | None => if truthy (data f) then len (data_or_empty (data f)) else 0
            end in
  do h0 <- pack_B (byte0 f);
  let mbit := bit (masked f) 128 in
  do h1 <-
    (if pl <? 126 then pack_B (N.lor mbit pl)
     else if pl <? 65536 then
       (do x <- pack_B (N.lor mbit 126); do y <- pack_H pl; Ok (x ++ y))
     else if pl <? 2 ^ 64 then
       (do x <- pack_B (N.lor mbit 127); do y <- pack_Q pl; Ok (x ++ y))
     else Err ValueError);
  do body <-
    (if masked f then
       let m := match mask f with None => rnd | Some m => m end in
       if truthy (data f) then
         (do x <- apply_mask (data_or_empty (data f)) m; Ok (m ++ x))
       else Ok m
     else if truthy (data f) then Ok (data_or_empty (data f)) else Ok []);
  Ok (h0 ++ h1 ++ body, pl).

Definition testbit_mask (byte v : N) : bool := negb (N.land byte v =? 0).

(* WebsocketFrame.parse on [self]; returns the updated self and raw[cur:] *)
Definition parse (self : frame) (raw : bytes) : result (frame * bytes) :=
  match raw with
  | [] => Err IndexError
  | b0 :: raw1 =>
      match raw1 with
      | [] => Err IndexError
      | b1 :: raw2 =>
          let msk := testbit_mask b1 128 in
          let pl7 := N.land b1 127 in
          do '(pl, raw3) <-
            (if pl7 =? 126 then
               (do n <- unpack 2 (take 2 raw2); Ok (n, drop 2 raw2))
             else if pl7 =? 127 then
               (do n <- unpack 8 (take 8 raw2); Ok (n, drop 8 raw2))
             else Ok (pl7, raw2));
          let '(mk, raw4) := if msk then (Some (take 4 raw3), drop 4 raw3) else (mask self, raw3) in
          let d := take pl raw4 in
          let rest := drop pl raw4 in
          do d' <- (if msk then apply_mask d (data_or_empty mk) else Ok d);
          Ok ({| fin := testbit_mask b0 128; rsv1 := testbit_mask b0 64;
                 rsv2 := testbit_mask b0 32; rsv3 := testbit_mask b0 16;
                 opcode := N.land b0 15; masked := msk;
                 payload_length := Some pl; mask := mk; data := Some d' |}, rest)
      end
  end.

(* observable equality of frames for the correspondence check *)
Definition frame_eqb (x y : frame) : bool :=
  Bool.eqb (fin x) (fin y) && Bool.eqb (rsv1 x) (rsv1 y) && Bool.eqb (rsv2 x) (rsv2 y) &&
  Bool.eqb (rsv3 x) (rsv3 y) && N.eqb (opcode x) (opcode y) && Bool.eqb (masked x) (masked y) &&
  option_eqb N.eqb (payload_length x) (payload_length y) &&
  option_eqb bytes_eqb (mask x) (mask y) && option_eqb bytes_eqb (data x) (data y).
