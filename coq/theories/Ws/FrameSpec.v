(* RFC 6455 section 5.2 base framing protocol, written as a specification (arithmetic, no
   bit operations, no cursor), independent of the shape of the implementation model. *)
From PM Require Import Lib.Bytes.

Record aframe := {
  a_fin : bool; a_rsv1 : bool; a_rsv2 : bool; a_rsv3 : bool;
  a_opcode : N;                 (* 4 bits *)
  a_key : option bytes;         (* masking key, 4 octets, present iff MASK = 1 *)
  a_payload : bytes }.

Definition b2n (c : bool) : N := if c then 1 else 0.

(* network byte order, k octets: octet i (from the left) is floor(n / 256^(k-1-i)) mod 256 *)
Definition be_spec (k : nat) (n : N) : bytes :=
  map (fun i => (n / 256 ^ N.of_nat (k - 1 - i)) mod 256) (seq 0 k).

(* "Octet i of the transformed data is the XOR of octet i of the original data with octet
   at index i modulo 4 of the masking key" *)
Fixpoint xor_key_from (i : nat) (key d : bytes) : bytes :=
  match d with
  | [] => []
  | x :: t => N.lxor x (nth (i mod 4) key 0) :: xor_key_from (S i) key t
  end.
Definition xor_key (key d : bytes) : bytes := xor_key_from 0 key d.

Definition rfc_encode (a : aframe) : bytes :=
  let n := len (a_payload a) in
  let mbit := match a_key a with Some _ => 1 | None => 0 end in
  [ b2n (a_fin a) * 128 + b2n (a_rsv1 a) * 64 + b2n (a_rsv2 a) * 32 + b2n (a_rsv3 a) * 16 + a_opcode a ]
  ++ (if n <? 126 then [mbit * 128 + n]
      else if n <? 65536 then (mbit * 128 + 126) :: be_spec 2 n
      else (mbit * 128 + 127) :: be_spec 8 n)
  ++ match a_key a with
     | Some key => key ++ xor_key key (a_payload a)
     | None => a_payload a
     end.

Definition wf_aframe (a : aframe) : Prop :=
  a_opcode a < 16 /\ wf_bytes (a_payload a) = true /\ len (a_payload a) < 2 ^ 64 /\
  match a_key a with Some k => length k = 4%nat /\ wf_bytes k = true | None => True end.
