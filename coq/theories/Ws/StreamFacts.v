(* Lemmas about Ws/Stream.v: the websocket receive loop of the web server (progress, termination,
   decoding of a stream of frames, close frames, truncated input) and the handshake response. *)
From PM Require Import Lib.Bytes Lib.BytesFacts Lib.PyStr Ws.Frame Ws.FrameSpec Ws.FrameFacts Ws.Sha1 Ws.Stream.
From PM Require Net.Responses Net.ResponsesFacts.
From Coq Require Import ZArith.

Module R := PM.Net.Responses.
Module RF := PM.Net.ResponsesFacts.

(* ================================================================== take / drop *)
Lemma drop_le n l : (length (drop n l) <= length l)%nat.
Proof. rewrite drop_skipn, skipn_length. lia. Qed.

Lemma take_length n l : length (take n l) = Nat.min (N.to_nat n) (length l).
Proof. rewrite take_firstn. apply firstn_length. Qed.

Lemma drop_all n l : (length l <= N.to_nat n)%nat -> drop n l = [].
Proof. intros H. rewrite drop_skipn. now apply skipn_all2. Qed.

Lemma take_nil n : take n [] = [].
Proof. rewrite take_firstn. apply firstn_nil. Qed.

(* ================================================================== one frame.parse call *)
(* fewer than two bytes: raw[0] / raw[1] raises IndexError *)
Lemma parse_short self raw : (length raw < 2)%nat -> parse self raw = Err IndexError.
Proof.
  destruct raw as [|b0 [|b1 raw2]]; cbn [length]; intros H; [reflexivity|reflexivity|lia].
Qed.

(* the body of parse after the two header bytes, as a function of the decoded length *)
Lemma parse_after_len self b0 b1 pl raw3 :
  exists f,
    (let msk := testbit_mask b1 128 in
     let '(mk, raw4) := if msk then (Some (take 4 raw3), drop 4 raw3) else (mask self, raw3) in
     let d := take pl raw4 in
     let rest := drop pl raw4 in
     do d' <- (if msk then apply_mask d (data_or_empty mk) else Ok d);
     Ok ({| fin := testbit_mask b0 128; rsv1 := testbit_mask b0 64;
            rsv2 := testbit_mask b0 32; rsv3 := testbit_mask b0 16;
            opcode := N.land b0 15; masked := msk;
            payload_length := Some pl; mask := mk; data := Some d' |}, rest))
    = Ok (f, drop pl (if testbit_mask b1 128 then drop 4 raw3 else raw3)).
Proof.
  cbv zeta. destruct (testbit_mask b1 128).
  - cbn [data_or_empty].
    destruct (Nat.le_gt_cases 4 (length raw3)) as [Hl|Hl].
    + rewrite apply_mask_spec by (rewrite take_length; change (N.to_nat 4) with 4%nat; lia).
      cbn [bind]. eexists. reflexivity.
    + rewrite (drop_all 4 raw3) by (change (N.to_nat 4) with 4%nat; lia).
      rewrite take_nil. cbn [apply_mask apply_mask_from bind]. eexists. reflexivity.
  - cbn [bind]. eexists. reflexivity.
Qed.

(* the extended payload length is cut short: struct.unpack raises *)
Definition ext_len_missing (raw : bytes) : bool :=
  match raw with
  | _ :: b1 :: raw2 =>
      ((N.land b1 127 =? 126) && (length raw2 <? 2)%nat) ||
      ((N.land b1 127 =? 127) && (length raw2 <? 8)%nat)
  | _ => false
  end.

(* where the payload (or the masking key) starts *)
Definition body_of (raw : bytes) : bytes :=
  match raw with
  | _ :: b1 :: raw2 =>
      let raw3 := if N.land b1 127 =? 126 then drop 2 raw2
                  else if N.land b1 127 =? 127 then drop 8 raw2 else raw2 in
      if testbit_mask b1 128 then drop 4 raw3 else raw3
  | _ => []
  end.

(* EVERY input of at least two bytes: parse either raises struct.error (exactly when the extended
   length field is incomplete) or returns; what it returns is a suffix of the bytes after the header *)
Lemma parse_outcomes self raw :
  (2 <= length raw)%nat ->
  if ext_len_missing raw then parse self raw = Err StructError
  else exists f pl, parse self raw = Ok (f, drop pl (body_of raw)).
Proof.
  destruct raw as [|b0 [|b1 raw2]]; cbn [length]; intros H; [lia|lia|]. clear H.
  cbn [ext_len_missing body_of parse].
  destruct (N.land b1 127 =? 126) eqn:E6.
  - cbn [andb orb]. assert (E7 : (N.land b1 127 =? 127) = false).
    { apply N.eqb_eq in E6. rewrite E6. reflexivity. }
    rewrite E7. cbn [andb orb]. unfold unpack. rewrite take_length. change (N.to_nat 2) with 2%nat.
    destruct (length raw2 <? 2)%nat eqn:L.
    + apply Nat.ltb_lt in L. replace (Nat.min 2 (length raw2) =? 2)%nat with false
        by (symmetry; apply Nat.eqb_neq; lia). reflexivity.
    + apply Nat.ltb_ge in L. replace (Nat.min 2 (length raw2) =? 2)%nat with true
        by (symmetry; apply Nat.eqb_eq; lia). cbn [bind].
      destruct (parse_after_len self b0 b1 (be_decode (take 2 raw2)) (drop 2 raw2)) as [f Hf].
      exists f, (be_decode (take 2 raw2)). exact Hf.
  - cbn [andb orb]. destruct (N.land b1 127 =? 127) eqn:E7.
    + cbn [andb]. unfold unpack. rewrite take_length. change (N.to_nat 8) with 8%nat.
      destruct (length raw2 <? 8)%nat eqn:L.
      * apply Nat.ltb_lt in L. replace (Nat.min 8 (length raw2) =? 8)%nat with false
          by (symmetry; apply Nat.eqb_neq; lia). reflexivity.
      * apply Nat.ltb_ge in L. replace (Nat.min 8 (length raw2) =? 8)%nat with true
          by (symmetry; apply Nat.eqb_eq; lia). cbn [bind].
        destruct (parse_after_len self b0 b1 (be_decode (take 8 raw2)) (drop 8 raw2)) as [f Hf].
        exists f, (be_decode (take 8 raw2)). exact Hf.
    + cbn [andb bind].
      destruct (parse_after_len self b0 b1 (N.land b1 127) raw2) as [f Hf].
      exists f, (N.land b1 127). exact Hf.
Qed.

Lemma body_of_le raw : (length (body_of raw) + 2 <= length raw)%nat \/ (length raw < 2)%nat.
Proof.
  destruct raw as [|b0 [|b1 raw2]]; cbn [length]; [right; lia|right; lia|left].
  cbn [body_of].
  set (raw3 := if N.land b1 127 =? 126 then drop 2 raw2
               else if N.land b1 127 =? 127 then drop 8 raw2 else raw2).
  assert (H3 : (length raw3 <= length raw2)%nat).
  { unfold raw3. destruct (N.land b1 127 =? 126); [apply drop_le|].
    destruct (N.land b1 127 =? 127); [apply drop_le|lia]. }
  destruct (testbit_mask b1 128).
  - pose proof (drop_le 4 raw3). lia.
  - lia.
Qed.

(* a frame header is two bytes at least: whenever parse returns, at least two bytes were consumed *)
Lemma parse_progress self raw f rest :
  parse self raw = Ok (f, rest) -> (length rest + 2 <= length raw)%nat.
Proof.
  intros H.
  destruct (Nat.le_gt_cases 2 (length raw)) as [L|L].
  - pose proof (parse_outcomes self raw L) as Ho.
    destruct (ext_len_missing raw).
    + rewrite Ho in H. discriminate H.
    + destruct Ho as (f' & pl & Ho). rewrite Ho in H. injection H as _ <-.
      pose proof (drop_le pl (body_of raw)). destruct (body_of_le raw); lia.
  - rewrite parse_short in H by exact L. discriminate H.
Qed.

(* the only exceptions frame.parse can raise *)
Lemma parse_errors self raw e :
  parse self raw = Err e ->
  (e = IndexError /\ (length raw < 2)%nat) \/
  (e = StructError /\ (2 <= length raw)%nat /\ ext_len_missing raw = true).
Proof.
  intros H. destruct (Nat.le_gt_cases 2 (length raw)) as [L|L].
  - pose proof (parse_outcomes self raw L) as Ho.
    destruct (ext_len_missing raw) eqn:E.
    + rewrite Ho in H. injection H as <-. right. repeat split; assumption.
    + destruct Ho as (f' & pl & Ho). rewrite Ho in H. discriminate H.
  - rewrite parse_short in H by exact L. injection H as <-. left. split; [reflexivity|exact L].
Qed.

(* ================================================================== the loop: fuel and termination *)
Lemma ws_loop_S fuel hr f raw :
  ws_loop (S fuel) hr f raw =
  if negb (nonempty raw) then ([], WsReturned) else
  match parse f raw with
  | Err e => ([], WsRaised e)
  | Ok (frame1, remaining1) =>
      if opcode frame1 =? CONNECTION_CLOSE then ([], WsCloseRaised frame1 remaining1)
      else if negb hr then ([], WsRaised AssertionError)
      else let '(ds, e) := ws_loop fuel hr (reset frame1) remaining1 in (frame1 :: ds, e)
  end.
Proof. reflexivity. Qed.

(* fuel irrelevance: any fuel above the number of remaining bytes gives the same run *)
Lemma ws_loop_fuel hr : forall fuel1 fuel2 f raw,
  (length raw < fuel1)%nat -> (length raw < fuel2)%nat ->
  ws_loop fuel1 hr f raw = ws_loop fuel2 hr f raw.
Proof.
  induction fuel1 as [|fuel1 IH]; intros fuel2 f raw H1 H2; [lia|].
  destruct fuel2 as [|fuel2]; [lia|].
  rewrite !ws_loop_S.
  destruct (negb (nonempty raw)); [reflexivity|].
  destruct (parse f raw) as [[f1 r1]|e] eqn:P; [|reflexivity].
  destruct (opcode f1 =? CONNECTION_CLOSE); [reflexivity|].
  destruct (negb hr); [reflexivity|].
  pose proof (parse_progress _ _ _ _ P).
  rewrite (IH fuel2 (reset f1) r1) by lia. reflexivity.
Qed.

(* the loop never runs out of fuel: it terminates on EVERY input *)
Lemma ws_loop_terminates_gen hr : forall fuel f raw,
  (length raw < fuel)%nat -> snd (ws_loop fuel hr f raw) <> WsOutOfFuel.
Proof.
  induction fuel as [|fuel IH]; intros f raw H; [lia|].
  rewrite ws_loop_S.
  destruct (negb (nonempty raw)); [cbn [snd]; discriminate|].
  destruct (parse f raw) as [[f1 r1]|e] eqn:P; [|cbn [snd]; discriminate].
  destruct (opcode f1 =? CONNECTION_CLOSE); [cbn [snd]; discriminate|].
  destruct (negb hr); [cbn [snd]; discriminate|].
  pose proof (parse_progress _ _ _ _ P).
  specialize (IH (reset f1) r1 ltac:(lia)).
  destruct (ws_loop fuel hr (reset f1) r1) as [ds e]. cbn [snd] in *. exact IH.
Qed.

Lemma ws_loop_terminates hr f raw : snd (ws_loop (ws_fuel raw) hr f raw) <> WsOutOfFuel.
Proof. apply ws_loop_terminates_gen. unfold ws_fuel. lia. Qed.

(* the loop with the fuel on_client_data gives it, and its one-step unfolding *)
Definition ws_run (hr : bool) (f : frame) (raw : bytes) : list frame * ws_end :=
  ws_loop (ws_fuel raw) hr f raw.

Lemma ws_run_unfold hr f raw :
  ws_run hr f raw =
  if negb (nonempty raw) then ([], WsReturned) else
  match parse f raw with
  | Err e => ([], WsRaised e)
  | Ok (frame1, remaining1) =>
      if opcode frame1 =? CONNECTION_CLOSE then ([], WsCloseRaised frame1 remaining1)
      else if negb hr then ([], WsRaised AssertionError)
      else let '(ds, e) := ws_run hr (reset frame1) remaining1 in (frame1 :: ds, e)
  end.
Proof.
  unfold ws_run at 1. unfold ws_fuel. rewrite ws_loop_S.
  destruct (negb (nonempty raw)); [reflexivity|].
  destruct (parse f raw) as [[f1 r1]|e] eqn:P; [|reflexivity].
  destruct (opcode f1 =? CONNECTION_CLOSE); [reflexivity|].
  destruct (negb hr); [reflexivity|].
  pose proof (parse_progress _ _ _ _ P).
  unfold ws_run, ws_fuel.
  rewrite (ws_loop_fuel hr (length raw) (S (length r1))) by lia. reflexivity.
Qed.

(* ================================================================== a stream of well-formed frames *)
Definition not_close (a : aframe) : Prop := a_opcode a <> CONNECTION_CLOSE.
Definition enc_all (fs : list aframe) : bytes := concat (map rfc_encode fs).
(* what the route sees for the frame encoded from [a] *)
Definition seen (a : aframe) : frame := canon new_frame a.

Lemma nonempty_rfc a t : nonempty (rfc_encode a ++ t) = true.
Proof.
  pose proof (rfc_encode_length_header a) as H.
  destruct (rfc_encode a) as [|x l]; [cbn [length] in H; lia|reflexivity].
Qed.

Lemma ws_run_cons a t :
  wf_aframe a -> not_close a ->
  ws_run true new_frame (rfc_encode a ++ t) =
  (seen a :: fst (ws_run true new_frame t), snd (ws_run true new_frame t)).
Proof.
  intros Hwf Hnc. rewrite ws_run_unfold, nonempty_rfc. cbn [negb].
  rewrite (parse_rfc new_frame a t Hwf).
  change (opcode (canon new_frame a)) with (a_opcode a).
  destruct (a_opcode a =? CONNECTION_CLOSE) eqn:E; [apply N.eqb_eq in E; contradiction|].
  cbn [negb]. change (reset (canon new_frame a)) with new_frame.
  destruct (ws_run true new_frame t) as [ds e]. reflexivity.
Qed.

(* the frames of a stream are delivered in order, whatever follows them is treated next *)
Lemma ws_run_frames fs t :
  Forall wf_aframe fs -> Forall not_close fs ->
  ws_run true new_frame (enc_all fs ++ t) =
  (map seen fs ++ fst (ws_run true new_frame t), snd (ws_run true new_frame t)).
Proof.
  induction fs as [|a fs IH]; intros Hwf Hnc.
  - cbn [enc_all map concat app]. destruct (ws_run true new_frame t); reflexivity.
  - inversion Hwf as [|? ? Ha Hfs]; subst. inversion Hnc as [|? ? Ca Cfs]; subst.
    unfold enc_all. cbn [map concat]. rewrite <- app_assoc.
    rewrite (ws_run_cons a _ Ha Ca). fold (enc_all fs). rewrite (IH Hfs Cfs). reflexivity.
Qed.

Lemma ws_run_nil hr f : ws_run hr f [] = ([], WsReturned).
Proof. reflexivity. Qed.

(* stream decode: everything is delivered, everything is consumed, the loop ends normally *)
Lemma ws_run_stream fs :
  Forall wf_aframe fs -> Forall not_close fs ->
  ws_run true new_frame (enc_all fs) = (map seen fs, WsReturned).
Proof.
  intros Hwf Hnc. rewrite <- (app_nil_r (enc_all fs)), (ws_run_frames fs [] Hwf Hnc), ws_run_nil.
  cbn [fst snd]. now rewrite app_nil_r.
Qed.

(* a close frame: the frames before it are delivered, the close frame is not, whatever follows it
   in the segment is never parsed *)
Lemma ws_run_close fs c rest :
  Forall wf_aframe fs -> Forall not_close fs -> wf_aframe c -> a_opcode c = CONNECTION_CLOSE ->
  ws_run true new_frame (enc_all fs ++ rfc_encode c ++ rest) = (map seen fs, WsCloseRaised (seen c) rest).
Proof.
  intros Hwf Hnc Hc Hop. rewrite (ws_run_frames fs _ Hwf Hnc).
  rewrite ws_run_unfold, nonempty_rfc. cbn [negb]. rewrite (parse_rfc new_frame c rest Hc).
  change (opcode (canon new_frame c)) with (a_opcode c). rewrite Hop.
  cbn [N.eqb CONNECTION_CLOSE Pos.eqb fst snd]. now rewrite app_nil_r.
Qed.

(* ---- on_client_data and the per-segment handler *)
Lemma on_client_data_ws raw :
  on_client_data true true true raw =
  OcdWebsocket (fst (ws_run true new_frame raw)) (snd (ws_run true new_frame raw)).
Proof.
  unfold on_client_data. cbn [andb negb]. fold (ws_run true new_frame raw).
  destruct (ws_run true new_frame raw); reflexivity.
Qed.

Lemma on_client_data_stream fs :
  Forall wf_aframe fs -> Forall not_close fs ->
  on_client_data true true true (enc_all fs) = OcdWebsocket (map seen fs) WsReturned.
Proof. intros Hwf Hnc. rewrite on_client_data_ws, (ws_run_stream fs Hwf Hnc). reflexivity. Qed.

Lemma ws_conn_cons_stream fs segs :
  Forall wf_aframe fs -> Forall not_close fs ->
  ws_conn (enc_all fs :: segs) = (map seen fs ++ fst (ws_conn segs), snd (ws_conn segs)).
Proof.
  intros Hwf Hnc. cbn [ws_conn]. rewrite (on_client_data_stream fs Hwf Hnc).
  destruct (ws_conn segs); reflexivity.
Qed.

(* several segments, each holding whole frames (any number, also none): all frames are delivered in
   order and the connection stays open *)
Lemma ws_conn_streams fss :
  Forall (Forall wf_aframe) fss -> Forall (Forall not_close) fss ->
  ws_conn (map enc_all fss) = (map seen (concat fss), ConnOpen).
Proof.
  induction fss as [|fs fss IH]; intros Hwf Hnc; [reflexivity|].
  inversion Hwf as [|? ? Ha Hr]; subst. inversion Hnc as [|? ? Ca Cr]; subst.
  cbn [map concat]. rewrite (ws_conn_cons_stream fs _ Ha Ca), (IH Hr Cr).
  cbn [fst snd]. now rewrite map_app.
Qed.

(* a close frame in some segment: frames of earlier segments and the frames before it are delivered,
   the connection is torn down, nothing after it (same segment or later segments) is delivered *)
Lemma ws_conn_close fss fs c rest later :
  Forall (Forall wf_aframe) fss -> Forall (Forall not_close) fss ->
  Forall wf_aframe fs -> Forall not_close fs -> wf_aframe c -> a_opcode c = CONNECTION_CLOSE ->
  ws_conn (map enc_all fss ++ (enc_all fs ++ rfc_encode c ++ rest) :: later) =
  (map seen (concat fss ++ fs), ConnTeardown).
Proof.
  intros Hwf Hnc Hf Cf Hc Hop.
  induction fss as [|g fss IH].
  - cbn [map app concat ws_conn]. rewrite on_client_data_ws, (ws_run_close fs c rest Hf Cf Hc Hop).
    reflexivity.
  - inversion Hwf as [|? ? Ha Hr]; subst. inversion Hnc as [|? ? Ca Cr]; subst.
    cbn [map app concat]. rewrite (ws_conn_cons_stream g _ Ha Ca), (IH Hr Cr).
    cbn [fst snd]. now rewrite <- app_assoc, <- map_app.
Qed.

(* ================================================================== the accept token *)
Lemma be_bytes_length k n : length (be_bytes k n) = k.
Proof. revert n; induction k as [|k IH]; intros n; cbn [be_bytes]; [reflexivity|]. rewrite app_length, IH. cbn. lia. Qed.

Lemma be_bytes_wf k n : wf_bytes (be_bytes k n) = true.
Proof.
  revert n; induction k as [|k IH]; intros n; cbn [be_bytes]; [reflexivity|].
  rewrite wf_bytes_app, IH. cbn. rewrite andb_true_r. apply N.ltb_lt. apply N.mod_lt. lia.
Qed.

(* a SHA-1 digest is 20 octets *)
Lemma sha1_shape m : length (sha1 m) = 20%nat /\ wf_bytes (sha1 m) = true.
Proof.
  unfold sha1.
  destruct (blocks _ _ _) as [[[[a c] d] e] g].
  split.
  - rewrite !app_length, !be_bytes_length. reflexivity.
  - rewrite !wf_bytes_app, !be_bytes_wf. reflexivity.
Qed.

(* the base64 alphabet and the padding character *)
Definition b64_chars : bytes := b64_alphabet ++ [61].
Definition is_b64 (x : N) : bool := existsb (N.eqb x) b64_chars.

Lemma b64c_ok i : i < 64 -> is_b64 (b64c i) = true.
Proof.
  intros H. change 64 with (N.of_nat 64) in H. revert i H.
  apply N_below_forall. vm_compute. reflexivity.
Qed.

Lemma is_b64_pad : is_b64 61 = true.
Proof. vm_compute. reflexivity. Qed.

Lemma b64encode_chars_gen : forall n l, (length l <= n)%nat -> wf_bytes l = true ->
  forallb is_b64 (b64encode l) = true.
Proof.
  induction n as [|n IH]; intros l Hl Hwf.
  - destruct l; [reflexivity|cbn [length] in Hl; lia].
  - destruct l as [|a [|c [|d t]]]; [reflexivity| | |].
    + cbn [wf_bytes forallb] in Hwf. apply andb_true_iff in Hwf as [Ha _]. apply N.ltb_lt in Ha.
      cbn [b64encode forallb]. rewrite is_b64_pad.
      assert (Hm : a mod 4 < 4) by (apply N.mod_lt; lia).
      rewrite !b64c_ok; [reflexivity| lia | apply N.div_lt_upper_bound; lia].
    + cbn [wf_bytes forallb] in Hwf. apply andb_true_iff in Hwf as [Ha Hwf].
      apply andb_true_iff in Hwf as [Hc _]. apply N.ltb_lt in Ha. apply N.ltb_lt in Hc.
      cbn [b64encode forallb]. rewrite is_b64_pad.
      assert (Hm : a mod 4 < 4) by (apply N.mod_lt; lia).
      assert (Hm2 : c mod 16 < 16) by (apply N.mod_lt; lia).
      assert (Hd : c / 16 < 16) by (apply N.div_lt_upper_bound; lia).
      rewrite !b64c_ok; [reflexivity| lia | lia | apply N.div_lt_upper_bound; lia].
    + cbn [wf_bytes forallb] in Hwf. apply andb_true_iff in Hwf as [Ha Hwf].
      apply andb_true_iff in Hwf as [Hc Hwf]. apply andb_true_iff in Hwf as [Hd Hwf].
      apply N.ltb_lt in Ha. apply N.ltb_lt in Hc. apply N.ltb_lt in Hd.
      cbn [b64encode forallb].
      assert (Hm : a mod 4 < 4) by (apply N.mod_lt; lia).
      assert (Hm2 : c mod 16 < 16) by (apply N.mod_lt; lia).
      assert (Hd2 : c / 16 < 16) by (apply N.div_lt_upper_bound; lia).
      assert (Hd3 : d / 64 < 4) by (apply N.div_lt_upper_bound; lia).
      assert (Hm3 : d mod 64 < 64) by (apply N.mod_lt; lia).
      rewrite !b64c_ok; [| lia | lia | lia | apply N.div_lt_upper_bound; lia].
      cbn [andb]. apply (IH t); [cbn [length] in Hl; lia|exact Hwf].
Qed.

Lemma b64encode_chars l : wf_bytes l = true -> forallb is_b64 (b64encode l) = true.
Proof. apply (b64encode_chars_gen (length l)). lia. Qed.

Lemma b64encode_length_20 l : length l = 20%nat -> length (b64encode l) = 28%nat.
Proof.
  intros H. do 20 (destruct l as [|? l]; [discriminate H|]).
  destruct l; [reflexivity|discriminate H].
Qed.

(* base64(sha1(..)) is 28 characters of the base64 alphabet, for EVERY key *)
Lemma key_to_accept_shape key :
  length (key_to_accept key) = 28%nat /\ forallb is_b64 (key_to_accept key) = true.
Proof.
  unfold key_to_accept. destruct (sha1_shape (key ++ GUID)) as [Hl Hw]. split.
  - now apply b64encode_length_20.
  - now apply b64encode_chars.
Qed.

Lemma is_b64_field x : is_b64 x = true -> R.is_field_char x = true /\ negb (R.is_ows x) = true.
Proof.
  intros H. unfold is_b64 in H. apply existsb_exists in H as (y & Hy & E).
  apply N.eqb_eq in E. subst y.
  assert (A : forallb (fun c => R.is_field_char c && negb (R.is_ows c)) b64_chars = true)
    by (vm_compute; reflexivity).
  rewrite forallb_forall in A. specialize (A x Hy). now apply andb_true_iff in A.
Qed.

Lemma b64_field_chars l : forallb is_b64 l = true ->
  forallb R.is_field_char l = true /\ forallb (fun x => negb (R.is_ows x)) l = true.
Proof.
  induction l as [|x l IH]; intros H; [split; reflexivity|].
  cbn [forallb] in H. apply andb_true_iff in H as [Hx Hl].
  destruct (is_b64_field x Hx) as [A C]. destruct (IH Hl) as [D E].
  cbn [forallb]. rewrite A, C, D, E. split; reflexivity.
Qed.

(* ================================================================== the handshake response *)
Definition handshake_args (accept : bytes) : R.bargs :=
  R.mk_args 101 (Some SWITCHING_PROTOCOLS)
    (Some [(K_UPGRADE, V_WEBSOCKET); (K_CONNECTION, V_UPGRADE); (K_ACCEPT, accept)]) None false false.

(* the header fields of the handshake response, in wire order *)
Definition handshake_fields (accept : bytes) : list (bytes * bytes) :=
  [(K_UPGRADE, V_WEBSOCKET); (K_CONNECTION, V_UPGRADE); (K_ACCEPT, accept); (R.K_CONTENT_LENGTH, [48])].

Lemma handshake_is_Responses accept :
  build_websocket_handshake_response accept = R.build_http_response (handshake_args accept).
Proof. rewrite RF.build_http_response_is_Builders. reflexivity. Qed.

(* the exact bytes *)
Lemma handshake_exact accept :
  build_websocket_handshake_response accept =
  bytes_of_string "HTTP/1.1 101 Switching Protocols" ++ CRLF ++
  bytes_of_string "Upgrade: websocket" ++ CRLF ++
  bytes_of_string "Connection: Upgrade" ++ CRLF ++
  bytes_of_string "Sec-WebSocket-Accept: " ++ accept ++ CRLF ++
  bytes_of_string "Content-Length: 0" ++ CRLF ++ CRLF.
Proof.
  vm_compute. repeat (apply f_equal).
  induction accept as [|x l IH]; [reflexivity|]. cbv beta iota. f_equal. exact IH.
Qed.

Lemma handshake_final_headers accept :
  R.final_headers (handshake_args accept) = handshake_fields accept.
Proof. vm_compute. reflexivity. Qed.

Lemma handshake_status_line accept :
  RF.status_line (handshake_args accept) =
  R.HTTP11 ++ [SP] ++ bytes_of_string "101" ++ [SP] ++ SWITCHING_PROTOCOLS.
Proof. vm_compute. reflexivity. Qed.

(* the response is a syntactically valid RFC 7230 message: status line, four header fields, end of
   header section, and nothing after it *)
Lemma handshake_recognised accept :
  forallb is_b64 accept = true ->
  exists line rest,
    split_once CRLF (build_websocket_handshake_response accept) = Some (line, rest) /\
    R.parse_status_line true line = Some (R.HTTP11, 101, Some SWITCHING_PROTOCOLS) /\
    R.parse_header_fields (S (length rest)) rest = Some (handshake_fields accept, []).
Proof.
  intros Hb. destruct (b64_field_chars _ Hb) as [Hfc Hno].
  rewrite handshake_is_Responses, RF.build_shape, handshake_final_headers, handshake_status_line.
  set (line := R.HTTP11 ++ [SP] ++ bytes_of_string "101" ++ [SP] ++ SWITCHING_PROTOCOLS).
  set (rest := concat (map RF.render (handshake_fields accept)) ++ CRLF ++
               R.intended_body (handshake_args accept)).
  exists line, rest. split; [|split].
  - apply RF.split_once_CRLF. vm_compute. reflexivity.
  - unfold line.
    apply (RF.parse_status_line_built true R.HTTP11 (bytes_of_string "101") (Some SWITCHING_PROTOCOLS));
      vm_compute; reflexivity.
  - assert (Hok : forallb RF.hdr_ok (handshake_fields accept) = true).
    { unfold handshake_fields. cbn [forallb]. unfold RF.hdr_ok at 3. cbn [fst snd]. rewrite Hfc.
      vm_compute. reflexivity. }
    unfold rest. change (R.intended_body (handshake_args accept)) with (@nil N).
    rewrite (RF.parse_header_fields_built (handshake_fields accept) _ [] Hok).
    + f_equal. f_equal. unfold handshake_fields. cbn [map]. unfold R.norm_header. cbn [fst snd].
      rewrite (RF.strip_ows_id accept Hno). vm_compute. reflexivity.
    + rewrite app_length. pose proof (RF.concat_render_length (handshake_fields accept)). lia.
Qed.

(* a client running WebsocketClient.upgrade accepts exactly this token *)
Lemma client_upgrade_check_ok key : client_upgrade_check key (key_to_accept key) = Ok tt.
Proof. unfold client_upgrade_check. now rewrite bytes_eqb_refl. Qed.

Lemma client_upgrade_check_only key accept :
  client_upgrade_check key accept = Ok tt -> accept = key_to_accept key.
Proof.
  unfold client_upgrade_check. destruct (bytes_eqb (key_to_accept key) accept) eqn:E; [|discriminate].
  intros _. symmetry. now apply bytes_eqb_eq.
Qed.

(* WebsocketClient.run_once hands the first frame of a segment to on_message and drops the rest *)
Lemma client_on_read_first a t : wf_aframe a -> client_on_read (rfc_encode a ++ t) = Ok (seen a).
Proof. intros Hwf. unfold client_on_read. rewrite (parse_rfc new_frame a t Hwf). reflexivity. Qed.

(* ================================================================== a segment that ends inside a frame *)
(* the encoding of a frame = header bytes, then (masking key ++) payload as sent *)
Definition hdr_bytes (a : aframe) : bytes :=
  let n := len (a_payload a) in
  let mbit := match a_key a with Some _ => 1 | None => 0 end in
  [ b2n (a_fin a) * 128 + b2n (a_rsv1 a) * 64 + b2n (a_rsv2 a) * 32 + b2n (a_rsv3 a) * 16 + a_opcode a ]
  ++ (if n <? 126 then [mbit * 128 + n]
      else if n <? 65536 then (mbit * 128 + 126) :: be_spec 2 n
      else (mbit * 128 + 127) :: be_spec 8 n).
Definition keyed (a : aframe) (body : bytes) : bytes :=
  match a_key a with Some key => key ++ body | None => body end.
(* masking and unmasking are the same transformation *)
Definition unmask (a : aframe) (d : bytes) : bytes :=
  match a_key a with Some key => xor_key key d | None => d end.

Lemma rfc_encode_split a t :
  rfc_encode a ++ t = hdr_bytes a ++ keyed a (unmask a (a_payload a) ++ t).
Proof.
  unfold rfc_encode, hdr_bytes, keyed, unmask. cbv zeta.
  destruct (a_key a); rewrite <- !app_assoc; reflexivity.
Qed.

(* what parse leaves in self when the header of [a] is followed by [body], whatever body is *)
Definition parsed_with (self : frame) (a : aframe) (body : bytes) : frame :=
  {| fin := a_fin a; rsv1 := a_rsv1 a; rsv2 := a_rsv2 a; rsv3 := a_rsv3 a;
     opcode := a_opcode a;
     masked := match a_key a with Some _ => true | None => false end;
     payload_length := Some (len (a_payload a));
     mask := match a_key a with Some k => Some k | None => mask self end;
     data := Some (unmask a (take (len (a_payload a)) body)) |}.

Lemma parse_tail_body self a body b0 b1 pl :
  wf_aframe a ->
  testbit_mask b1 128 = match a_key a with Some _ => true | None => false end ->
  (let msk := testbit_mask b1 128 in
   let '(mk, raw4) := if msk then (Some (take 4 (keyed a body)), drop 4 (keyed a body))
                      else (mask self, keyed a body) in
   let d := take pl raw4 in
   let rest' := drop pl raw4 in
   do d' <- (if msk then apply_mask d (data_or_empty mk) else Ok d);
   Ok ({| fin := testbit_mask b0 128; rsv1 := testbit_mask b0 64;
          rsv2 := testbit_mask b0 32; rsv3 := testbit_mask b0 16;
          opcode := N.land b0 15; masked := msk;
          payload_length := Some pl; mask := mk; data := Some d' |}, rest'))
  = Ok ({| fin := testbit_mask b0 128; rsv1 := testbit_mask b0 64;
          rsv2 := testbit_mask b0 32; rsv3 := testbit_mask b0 16;
          opcode := N.land b0 15; masked := match a_key a with Some _ => true | None => false end;
          payload_length := Some pl;
          mask := match a_key a with Some k => Some k | None => mask self end;
          data := Some (unmask a (take pl body)) |}, drop pl body).
Proof.
  intros [_ [_ [_ Hkey]]] Hm. cbv zeta. rewrite Hm. unfold keyed, unmask.
  destruct (a_key a) as [key|].
  - destruct Hkey as [Hk4 _].
    rewrite (take_app_len key) by (unfold len; rewrite Hk4; reflexivity).
    rewrite (drop_app_len key) by (unfold len; rewrite Hk4; reflexivity).
    cbn [data_or_empty]. rewrite apply_mask_spec by assumption. reflexivity.
  - reflexivity.
Qed.

Lemma parse_hdr_body self a body :
  wf_aframe a ->
  parse self (hdr_bytes a ++ keyed a body) = Ok (parsed_with self a body, drop (len (a_payload a)) body).
Proof.
  intros Hwf. pose proof Hwf as [Hop [Hwfp [Hlen Hkey]]].
  unfold hdr_bytes, parsed_with. cbv zeta.
  set (n := len (a_payload a)) in *.
  set (mbit := match a_key a with Some _ => 1 | None => 0 end).
  set (mb := match a_key a with Some _ => true | None => false end).
  assert (Hmbit : mbit = b2n mb) by (unfold mbit, mb; destruct (a_key a); reflexivity).
  pose proof (hdr0_sweep (a_fin a) (a_rsv1 a) (a_rsv2 a) (a_rsv3 a) (a_opcode a) Hop) as H0.
  unfold hdr0_ok, hdr0 in H0. repeat (apply andb_true_iff in H0 as [H0 ?]).
  repeat match goal with H : Bool.eqb _ _ = true |- _ => apply Bool.eqb_prop in H end.
  match goal with H : (N.land _ 15 =? _) = true |- _ => apply N.eqb_eq in H; rename H into Hop15 end.
  set (b0 := b2n (a_fin a) * 128 + b2n (a_rsv1 a) * 64 + b2n (a_rsv2 a) * 32 + b2n (a_rsv3 a) * 16 + a_opcode a) in *.
  assert (Hflags : forall pl mk d,
    {| fin := testbit_mask b0 128; rsv1 := testbit_mask b0 64; rsv2 := testbit_mask b0 32;
       rsv3 := testbit_mask b0 16; opcode := N.land b0 15; masked := mb;
       payload_length := pl; mask := mk; data := d |} =
    {| fin := a_fin a; rsv1 := a_rsv1 a; rsv2 := a_rsv2 a; rsv3 := a_rsv3 a; opcode := a_opcode a;
       masked := mb; payload_length := pl; mask := mk; data := d |}) by (intros; congruence).
  rewrite <- Hflags.
  destruct (n <? 126) eqn:E1.
  - apply N.ltb_lt in E1.
    pose proof (hdr1_sweep mb n ltac:(lia)) as Hh1. unfold hdr1_ok in Hh1.
    repeat (apply andb_true_iff in Hh1 as [Hh1 ?]).
    match goal with H : (N.land _ 127 =? _) = true |- _ => apply N.eqb_eq in H; rename H into H127 end.
    apply Bool.eqb_prop in Hh1.
    cbn [app parse]. rewrite Hmbit, H127.
    assert ((n =? 126) = false) as -> by (apply N.eqb_neq; lia).
    assert ((n =? 127) = false) as -> by (apply N.eqb_neq; lia).
    cbn [bind].
    apply (parse_tail_body self a body b0 (b2n mb * 128 + n)); auto.
  - apply N.ltb_ge in E1. destruct (n <? 65536) eqn:E2.
    + apply N.ltb_lt in E2.
      pose proof (hdr1_sweep mb 126 ltac:(lia)) as Hh1. unfold hdr1_ok in Hh1.
      repeat (apply andb_true_iff in Hh1 as [Hh1 ?]).
      match goal with H : (N.land _ 127 =? _) = true |- _ => apply N.eqb_eq in H; rename H into H127 end.
      apply Bool.eqb_prop in Hh1.
      cbn [app parse]. rewrite Hmbit, H127. cbn [N.eqb Pos.eqb].
      rewrite be_spec_encode.
      rewrite take_app_len by (unfold len; now rewrite be_encode_length).
      rewrite drop_app_len by (unfold len; now rewrite be_encode_length).
      unfold unpack. rewrite be_encode_length, Nat.eqb_refl, be_decode_encode.
      rewrite N.mod_small by (cbn; lia). cbn [bind].
      apply (parse_tail_body self a body b0 (b2n mb * 128 + 126)); auto.
    + apply N.ltb_ge in E2.
      pose proof (hdr1_sweep mb 127 ltac:(lia)) as Hh1. unfold hdr1_ok in Hh1.
      repeat (apply andb_true_iff in Hh1 as [Hh1 ?]).
      match goal with H : (N.land _ 127 =? _) = true |- _ => apply N.eqb_eq in H; rename H into H127 end.
      apply Bool.eqb_prop in Hh1.
      cbn [app parse]. rewrite Hmbit, H127. cbn [N.eqb Pos.eqb].
      rewrite be_spec_encode.
      rewrite take_app_len by (unfold len; now rewrite be_encode_length).
      rewrite drop_app_len by (unfold len; now rewrite be_encode_length).
      unfold unpack. rewrite be_encode_length, Nat.eqb_refl, be_decode_encode.
      rewrite N.mod_small by (cbn; lia). cbn [bind].
      apply (parse_tail_body self a body b0 (b2n mb * 128 + 127)); auto.
Qed.

Lemma xor_key_from_firstn key : forall d i k,
  xor_key_from i key (firstn k d) = firstn k (xor_key_from i key d).
Proof.
  induction d as [|x d IH]; intros i k.
  - cbn [xor_key_from]. rewrite !firstn_nil. reflexivity.
  - destruct k as [|k]; [reflexivity|]. cbn [firstn xor_key_from]. now rewrite IH.
Qed.

Lemma unmask_firstn a k d : unmask a (firstn k d) = firstn k (unmask a d).
Proof. unfold unmask. destruct (a_key a); [apply xor_key_from_firstn|reflexivity]. Qed.

Lemma unmask_involutive a d : unmask a (unmask a d) = d.
Proof. unfold unmask. destruct (a_key a); [apply xor_key_involutive|reflexivity]. Qed.

Lemma unmask_length a d : length (unmask a d) = length d.
Proof. unfold unmask. destruct (a_key a); [apply xor_key_length|reflexivity]. Qed.

(* the frame the route is handed when the segment ends after k payload bytes of [a]: the header
   fields of [a], payload_length as announced, but only the first k payload bytes *)
Definition cut_frame (a : aframe) (k : nat) : frame :=
  {| fin := a_fin a; rsv1 := a_rsv1 a; rsv2 := a_rsv2 a; rsv3 := a_rsv3 a;
     opcode := a_opcode a;
     masked := match a_key a with Some _ => true | None => false end;
     payload_length := Some (len (a_payload a));
     mask := a_key a;
     data := Some (firstn k (a_payload a)) |}.

(* the bytes of [a] up to and including its first k payload bytes *)
Definition cut_encoding (a : aframe) (k : nat) : bytes :=
  hdr_bytes a ++ keyed a (firstn k (unmask a (a_payload a))).

Lemma cut_encoding_prefix a k :
  rfc_encode a = cut_encoding a k ++ skipn k (unmask a (a_payload a)).
Proof.
  rewrite <- (app_nil_r (rfc_encode a)), rfc_encode_split, app_nil_r.
  unfold cut_encoding, keyed. destruct (a_key a); rewrite <- !app_assoc, firstn_skipn; reflexivity.
Qed.

Lemma parse_cut a k :
  wf_aframe a -> (k < length (a_payload a))%nat ->
  parse new_frame (cut_encoding a k) = Ok (cut_frame a k, []).
Proof.
  intros Hwf Hk. unfold cut_encoding. rewrite (parse_hdr_body new_frame a _ Hwf).
  assert (Hl : (length (firstn k (unmask a (a_payload a))) <= N.to_nat (len (a_payload a)))%nat).
  { rewrite firstn_length, unmask_length. unfold len. rewrite Nat2N.id. lia. }
  rewrite (drop_all _ _ Hl). f_equal. f_equal.
  unfold parsed_with, cut_frame. f_equal.
  - destruct (a_key a); reflexivity.
  - f_equal. rewrite take_firstn, firstn_all2 by exact Hl.
    rewrite unmask_firstn, unmask_involutive. reflexivity.
Qed.

(* a segment ending inside the payload of its last frame: the route is handed a SHORT message
   (payload_length says n, data holds k < n bytes), no exception, no teardown *)
Lemma ws_run_cut fs a k :
  Forall wf_aframe fs -> Forall not_close fs -> wf_aframe a -> not_close a ->
  (k < length (a_payload a))%nat ->
  ws_run true new_frame (enc_all fs ++ cut_encoding a k) = (map seen fs ++ [cut_frame a k], WsReturned).
Proof.
  intros Hwf Hnc Ha Ca Hk. rewrite (ws_run_frames fs _ Hwf Hnc).
  rewrite ws_run_unfold.
  assert (Hne : nonempty (cut_encoding a k) = true).
  { unfold cut_encoding, hdr_bytes. cbv zeta. reflexivity. }
  rewrite Hne. cbn [negb]. rewrite (parse_cut a k Ha Hk).
  change (opcode (cut_frame a k)) with (a_opcode a).
  destruct (a_opcode a =? CONNECTION_CLOSE) eqn:E; [apply N.eqb_eq in E; contradiction|].
  cbn [negb]. rewrite ws_run_nil. reflexivity.
Qed.

(* a segment ending one byte into a frame: frame.parse raises IndexError, which nobody catches *)
Lemma ws_run_one_byte fs x :
  Forall wf_aframe fs -> Forall not_close fs ->
  ws_run true new_frame (enc_all fs ++ [x]) = (map seen fs, WsRaised IndexError).
Proof.
  intros Hwf Hnc. rewrite (ws_run_frames fs _ Hwf Hnc). cbn [fst snd]. now rewrite app_nil_r.
Qed.

(* ---- the same at the level of the connection: the frame object is created anew for every segment and
   nothing is carried over, so the rest of a cut frame is parsed as if a new frame started there *)
Lemma ws_conn_cut fs a k segs :
  Forall wf_aframe fs -> Forall not_close fs -> wf_aframe a -> not_close a ->
  (k < length (a_payload a))%nat ->
  ws_conn ((enc_all fs ++ cut_encoding a k) :: segs) =
  (map seen fs ++ cut_frame a k :: fst (ws_conn segs), snd (ws_conn segs)).
Proof.
  intros Hwf Hnc Ha Ca Hk. cbn [ws_conn].
  rewrite on_client_data_ws, (ws_run_cut fs a k Hwf Hnc Ha Ca Hk). cbn [fst snd].
  destruct (ws_conn segs) as [ds e]. cbn [fst snd]. now rewrite <- app_assoc.
Qed.

Lemma ws_conn_one_byte fs x later :
  Forall wf_aframe fs -> Forall not_close fs ->
  ws_conn ((enc_all fs ++ [x]) :: later) = (map seen fs, ConnEscaped IndexError).
Proof.
  intros Hwf Hnc. cbn [ws_conn]. rewrite on_client_data_ws, (ws_run_one_byte fs x Hwf Hnc). reflexivity.
Qed.

(* ---- concrete witnesses (replayed against the real handler: corpus/C16/ws-findings.json) *)
Definition text_frame (s : bytes) : aframe :=
  {| a_fin := true; a_rsv1 := false; a_rsv2 := false; a_rsv3 := false; a_opcode := 1;
     a_key := None; a_payload := s |}.
Definition masked_frame (op : N) (key s : bytes) : aframe :=
  {| a_fin := true; a_rsv1 := false; a_rsv2 := false; a_rsv3 := false; a_opcode := op;
     a_key := Some key; a_payload := s |}.
Definition close_frame : aframe :=
  {| a_fin := true; a_rsv1 := false; a_rsv2 := false; a_rsv3 := false; a_opcode := 8;
     a_key := Some [1; 2; 3; 4]; a_payload := [3; 232] |}.

Definition ex_hello := text_frame (bytes_of_string "hello").
Definition ex_masked := masked_frame 2 [1; 2; 3; 255] (bpat [0; 7; 200] 130).
Definition ex_stream : list aframe := [ex_hello; ex_masked; text_frame []; masked_frame 9 [9; 8; 7; 6] []].

Ltac wf_closed := repeat split; vm_compute; reflexivity.

Lemma ex_stream_wf : Forall wf_aframe ex_stream /\ Forall not_close ex_stream.
Proof.
  split; repeat constructor; try (intro H; vm_compute in H; discriminate H); vm_compute; reflexivity.
Qed.

Lemma close_frame_wf : wf_aframe close_frame /\ a_opcode close_frame = CONNECTION_CLOSE.
Proof. split; [wf_closed|reflexivity]. Qed.

(* one text frame "hello" (7 bytes on the wire) delivered as 4 + 3 bytes: the route is handed a message
   "he" that claims 5 bytes and then a second message made of the bytes "llo" read as a header *)
Lemma split_witness :
  ws_conn [firstn 4 (enc_all [ex_hello]); skipn 4 (enc_all [ex_hello])] =
  ([cut_frame ex_hello 2;
    {| fin := false; rsv1 := true; rsv2 := true; rsv3 := false; opcode := 12; masked := false;
       payload_length := Some 108; mask := None; data := Some [111] |}], ConnOpen).
Proof. vm_compute. reflexivity. Qed.

Lemma split_refuted :
  exists fs seg1 seg2,
    Forall wf_aframe fs /\ Forall not_close fs /\ seg1 ++ seg2 = enc_all fs /\
    ws_conn [enc_all fs] = (map seen fs, ConnOpen) /\
    ws_conn [seg1; seg2] <> (map seen fs, ConnOpen).
Proof.
  exists [ex_hello], (firstn 4 (enc_all [ex_hello])), (skipn 4 (enc_all [ex_hello])).
  split; [repeat constructor; vm_compute; reflexivity|].
  split; [repeat constructor; intro H; vm_compute in H; discriminate H|].
  split; [apply firstn_skipn|].
  split; [vm_compute; reflexivity|].
  rewrite split_witness. intro H. vm_compute in H. discriminate H.
Qed.

(* a segment that ends inside the 16-bit length field: struct.error leaves the handler *)
Lemma struct_error_witness : ws_conn [[129; 126; 0]] = ([], ConnEscaped StructError).
Proof. vm_compute. reflexivity. Qed.

(* ================================================================== statements used by Props/C16.v *)
Lemma stream_terminates has_route f raw :
  snd (ws_loop (ws_fuel raw) has_route f raw) <> WsOutOfFuel /\
  forall fuel, (length raw < fuel)%nat -> ws_loop fuel has_route f raw = ws_loop (ws_fuel raw) has_route f raw.
Proof.
  split; [apply ws_loop_terminates|].
  intros fuel H. apply ws_loop_fuel; [exact H|unfold ws_fuel; lia].
Qed.

Lemma stream_cut_payload fs a k segs :
  Forall wf_aframe fs -> Forall not_close fs -> wf_aframe a -> not_close a ->
  (k < length (a_payload a))%nat ->
  rfc_encode a = cut_encoding a k ++ skipn k (unmask a (a_payload a)) /\
  ws_conn ((enc_all fs ++ cut_encoding a k) :: segs) =
  (map seen fs ++ cut_frame a k :: fst (ws_conn segs), snd (ws_conn segs)).
Proof.
  intros Hwf Hnc Ha Ca Hk. split; [apply cut_encoding_prefix|now apply ws_conn_cut].
Qed.

Lemma accept_token_shape key :
  key_to_accept key = b64encode (sha1 (key ++ GUID)) /\
  length (key_to_accept key) = 28%nat /\ forallb is_b64 (key_to_accept key) = true.
Proof. split; [reflexivity|apply key_to_accept_shape]. Qed.

Lemma handshake_bytes key :
  switch_to_websocket (Some key) = Ok (
    bytes_of_string "HTTP/1.1 101 Switching Protocols" ++ CRLF ++
    bytes_of_string "Upgrade: websocket" ++ CRLF ++
    bytes_of_string "Connection: Upgrade" ++ CRLF ++
    bytes_of_string "Sec-WebSocket-Accept: " ++ b64encode (sha1 (key ++ GUID)) ++ CRLF ++
    bytes_of_string "Content-Length: 0" ++ CRLF ++ CRLF).
Proof. cbn [switch_to_websocket]. f_equal. apply handshake_exact. Qed.

Lemma handshake_wellformed key :
  exists line rest,
    split_once CRLF (build_websocket_handshake_response (key_to_accept key)) = Some (line, rest) /\
    R.parse_status_line true line = Some (R.HTTP11, 101, Some SWITCHING_PROTOCOLS) /\
    R.parse_header_fields (S (length rest)) rest =
      Some ([(K_UPGRADE, V_WEBSOCKET); (K_CONNECTION, V_UPGRADE);
             (K_ACCEPT, b64encode (sha1 (key ++ GUID))); (R.K_CONTENT_LENGTH, [48])], []).
Proof. apply handshake_recognised. apply key_to_accept_shape. Qed.

Lemma client_facts key accept a t :
  (client_upgrade_check key accept = Ok tt <-> accept = key_to_accept key) /\
  (wf_aframe a -> client_on_read (rfc_encode a ++ t) = Ok (seen a)).
Proof.
  split; [split|].
  - apply client_upgrade_check_only.
  - intros ->. apply client_upgrade_check_ok.
  - apply client_on_read_first.
Qed.

Lemma handshake_missing_key : switch_to_websocket None = Err KeyError.
Proof. reflexivity. Qed.
