(* Correspondence relations for the stream / handshake part of C16: each case carries an input and what
   the real code did with it (HttpProtocolHandler + HttpWebServerPlugin + a recording websocket route
   driven through fake sockets; build_websocket_handshake_*; WebsocketClient); check_scase evaluates
   the model of Ws/Stream.v on the input and compares.  The single-frame cases of FrameCases.v are
   embedded unchanged. *)
From PM Require Import Lib.Bytes Ws.Frame Ws.Sha1 Ws.FrameCases Ws.Stream.

Fixpoint frames_eqb (x y : list frame) : bool :=
  match x, y with
  | [], [] => true
  | a :: x', c :: y' => frame_eqb a c && frames_eqb x' y'
  | _, _ => false
  end.

(* 0 = connection still open, 1 = torn down by the handler, 1000 + code = exception left handle_events *)
Definition conn_end_code (e : conn_end) : N :=
  match e with
  | ConnOpen => 0
  | ConnTeardown => 1
  | ConnEscaped x => 1000 + exn_code x
  end.

Inductive scase :=
| SFrame (c : case)
  (* the websocket phase of one connection: the segments handed to handle_data after the upgrade, the
     frames the route's on_websocket_message saw (snapshots), the bytes queued for the client during
     this phase, how it ended *)
| SConn (segs : list bytes) (delivered : list frame) (sent : bytes) (end_code : N)
  (* switch_to_websocket: the value of the Sec-WebSocket-Key header (None = absent) and what was
     queued for the client, or the exception *)
| SHandshake (key : option bytes) (expected : obs bytes)
| SHandshakeRequest (ua key method url host expected : bytes)
  (* WebsocketClient.run_once, read branch: the frame handed to on_message *)
| SClientRead (raw : bytes) (expected : obs frame)
| SClientUpgrade (key accept : bytes) (accepted : bool).

Definition check_scase (c : scase) : bool :=
  match c with
  | SFrame c0 => check_case c0
  | SConn segs delivered sent end_code =>
      let '(ds, e) := ws_conn segs in
      frames_eqb ds delivered && bytes_eqb sent [] && (conn_end_code e =? end_code)
  | SHandshake key e => obs_eqb bytes_eqb (switch_to_websocket key) e
  | SHandshakeRequest ua key method url host e =>
      bytes_eqb (build_websocket_handshake_request ua key method url host) e
  | SClientRead raw e => obs_eqb frame_eqb (client_on_read raw) e
  | SClientUpgrade key accept accepted =>
      Bool.eqb (match client_upgrade_check key accept with Ok _ => true | Err _ => false end) accepted
  end.
