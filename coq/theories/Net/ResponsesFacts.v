(* Lemmas about Net/Responses.v: build_http_response produces a response the RFC 7230
   recogniser accepts, with the intended version/status/reason/headers/body/framing. *)
From PM Require Import Lib.Bytes Lib.BytesFacts Lib.PyStr Net.Responses.
From Coq Require Import ZArith.

(* ------------------------------------------------------------------ decimal rendering *)
Lemma dec_val_app ds c : dec_val (ds ++ [c]) = dec_val ds * 10 + (c - 48).
Proof. unfold dec_val. rewrite fold_left_app. reflexivity. Qed.

Lemma is_digit_digit_char m : m < 10 -> is_digit (digit_char m) = true /\ digit_char m - 48 = m.
Proof.
  intros Hm. unfold digit_char, is_digit.
  assert (E : (m <? 10) = true) by (apply N.ltb_lt; exact Hm). rewrite E.
  split; [|lia].
  apply andb_true_iff; split; apply N.leb_le; lia.
Qed.

Lemma to_base_aux_S f b n acc :
  to_base_aux (S f) b n acc =
  if n <? b then digit_char n :: acc else to_base_aux f b (n / b) (digit_char (n mod b) :: acc).
Proof. reflexivity. Qed.

Lemma to_base_aux_10 f : forall n acc, n < 2 ^ N.of_nat (S f) ->
  exists ds, to_base_aux (S f) 10 n acc = ds ++ acc /\ ds <> [] /\
             forallb is_digit ds = true /\ dec_val ds = n.
Proof.
  induction f as [|f IH]; intros n acc Hn.
  - assert (Hlt : n < 10).
    { change (N.of_nat 1) with 1 in Hn. rewrite N.pow_1_r in Hn. lia. }
    rewrite to_base_aux_S. assert (E : (n <? 10) = true) by (apply N.ltb_lt; exact Hlt). rewrite E.
    destruct (is_digit_digit_char n Hlt) as [D1 D2].
    exists [digit_char n]. split; [reflexivity|]. split; [discriminate|]. split.
    + cbn [forallb]. rewrite D1. reflexivity.
    + unfold dec_val. cbn [fold_left]. lia.
  - rewrite to_base_aux_S. destruct (n <? 10) eqn:E.
    + apply N.ltb_lt in E. destruct (is_digit_digit_char n E) as [D1 D2].
      exists [digit_char n]. split; [reflexivity|]. split; [discriminate|]. split.
      * cbn [forallb]. rewrite D1. reflexivity.
      * unfold dec_val. cbn [fold_left]. lia.
    + apply N.ltb_ge in E.
      assert (Hm : n mod 10 < 10) by (apply N.mod_lt; lia).
      assert (Hd : n = 10 * (n / 10) + n mod 10) by (apply N.div_mod'; lia).
      assert (Hq : n / 10 < 2 ^ N.of_nat (S f)).
      { rewrite (Nat2N.inj_succ (S f)) in Hn. rewrite N.pow_succ_r' in Hn.
        generalize dependent (2 ^ N.of_nat (S f)). generalize dependent (n / 10).
        generalize dependent (n mod 10). intros; lia. }
      destruct (IH (n / 10) (digit_char (n mod 10) :: acc) Hq) as (ds & E1 & E2 & E3 & E4).
      destruct (is_digit_digit_char _ Hm) as [D1 D2].
      exists (ds ++ [digit_char (n mod 10)]). split.
      { rewrite <- app_assoc. exact E1. }
      split. { destruct ds; discriminate. }
      split. { rewrite forallb_app, E3. cbn [forallb]. rewrite D1. reflexivity. }
      rewrite dec_val_app, E4, D2. 
      generalize dependent (n / 10). generalize dependent (n mod 10). intros; lia.
Qed.

Lemma dec_of_N_digits n :
  dec_of_N n <> [] /\ forallb is_digit (dec_of_N n) = true /\ dec_val (dec_of_N n) = n.
Proof.
  unfold dec_of_N, to_base.
  assert (Hn : n < 2 ^ N.of_nat (S (N.to_nat (N.log2 n)))).
  { rewrite Nat2N.inj_succ, N2Nat.id.
    destruct (N.eq_dec n 0) as [->|Hz].
    - vm_compute. reflexivity.
    - apply N.log2_spec. lia. }
  destruct (to_base_aux_10 _ n [] Hn) as (ds & E1 & E2 & E3 & E4).
  rewrite app_nil_r in E1. rewrite E1. auto.
Qed.

(* ------------------------------------------------------------------ generic list facts *)
Lemma forallb_impl {A} (p q : A -> bool) l :
  (forall x, p x = true -> q x = true) -> forallb p l = true -> forallb q l = true.
Proof.
  intros Hpq Hp. apply forallb_forall. intros x Hx.
  apply Hpq. revert x Hx. apply forallb_forall. exact Hp.
Qed.

Lemma forallb_rev {A} (p : A -> bool) l : forallb p l = true -> forallb p (rev l) = true.
Proof.
  intros Hp. apply forallb_forall. intros x Hx. apply in_rev in Hx.
  revert x Hx. apply forallb_forall. exact Hp.
Qed.

Lemma existsb_false_forallb {A} (p : A -> bool) l :
  existsb p l = false -> forallb (fun x => negb (p x)) l = true.
Proof.
  induction l as [|x l IH]; cbn [existsb forallb]; [reflexivity|].
  intros H. apply orb_false_iff in H as [H1 H2]. rewrite H1, (IH H2). reflexivity.
Qed.

Lemma filter_none {A} (p : A -> bool) l :
  forallb (fun x => negb (p x)) l = true -> filter p l = [].
Proof.
  induction l as [|x l IH]; cbn [filter forallb]; [reflexivity|].
  intros H. apply andb_true_iff in H as [H1 H2]. apply negb_true_iff in H1.
  rewrite H1. apply IH, H2.
Qed.

Lemma fold_left_concat {A} (f : A -> bytes) l : forall p,
  fold_left (fun pkt kv => pkt ++ f kv) l p = p ++ concat (map f l).
Proof.
  induction l as [|x l IH]; intros p; cbn [fold_left map concat].
  - symmetry. apply app_nil_r.
  - rewrite IH. rewrite <- app_assoc. reflexivity.
Qed.

(* ------------------------------------------------------------------ split_once *)
Definition nob (c : N) (l : bytes) : bool := forallb (fun x => negb (x =? c)) l.

Lemma nob_app c x y : nob c (x ++ y) = nob c x && nob c y.
Proof. apply forallb_app. Qed.

Lemma split_once_unfold sep l :
  split_once sep l =
  if is_prefix sep l then Some ([], skipn (length sep) l) else
  match l with
  | [] => None
  | x :: t => match split_once sep t with Some (a, c) => Some (x :: a, c) | None => None end
  end.
Proof. destruct l; reflexivity. Qed.

Lemma split_once_first c s a r :
  nob c a = true -> split_once (c :: s) (a ++ (c :: s) ++ r) = Some (a, r).
Proof.
  unfold nob. induction a as [|x a IH]; intros Ha.
  - cbn [app]. rewrite split_once_unfold.
    change (c :: s ++ r) with ((c :: s) ++ r). rewrite is_prefix_self_app.
    rewrite skipn_app, Nat.sub_diag, skipn_all. reflexivity.
  - cbn [forallb] in Ha. apply andb_true_iff in Ha as [Hx Ha].
    apply negb_true_iff in Hx. rewrite split_once_unfold.
    change ((x :: a) ++ (c :: s) ++ r) with (x :: (a ++ (c :: s) ++ r)).
    cbn [is_prefix]. rewrite N.eqb_sym in Hx. rewrite Hx. cbn [andb].
    rewrite (IH Ha). reflexivity.
Qed.

Lemma split_once_CRLF a r : nob 13 a = true -> split_once CRLF (a ++ CRLF ++ r) = Some (a, r).
Proof. apply split_once_first. Qed.
Lemma split_once_SP a r : nob 32 a = true -> split_once [SP] (a ++ [SP] ++ r) = Some (a, r).
Proof. apply split_once_first. Qed.
Lemma split_once_COLON a r : nob 58 a = true -> split_once [COLON] (a ++ [COLON] ++ r) = Some (a, r).
Proof. apply split_once_first. Qed.

(* ------------------------------------------------------------------ byte classes *)
Ltac excl H :=
  match goal with
  | |- negb (?x =? ?c) = true =>
      let E := fresh "E" in
      destruct (x =? c) eqn:E; [apply N.eqb_eq in E; subst x; vm_compute in H; discriminate H | reflexivity]
  end.

Lemma tchar_not_colon x : is_tchar x = true -> negb (x =? 58) = true.
Proof. intros H. excl H. Qed.
Lemma tchar_not_cr x : is_tchar x = true -> negb (x =? 13) = true.
Proof. intros H. excl H. Qed.
Lemma tchar_not_sp x : is_tchar x = true -> negb (x =? 32) = true.
Proof. intros H. excl H. Qed.
Lemma field_char_not_cr x : is_field_char x = true -> negb (x =? 13) = true.
Proof. intros H. excl H. Qed.
Lemma digit_not_cr x : is_digit x = true -> negb (x =? 13) = true.
Proof. intros H. excl H. Qed.
Lemma digit_not_sp x : is_digit x = true -> negb (x =? 32) = true.
Proof. intros H. excl H. Qed.
Lemma digit_not_ows x : is_digit x = true -> negb (is_ows x) = true.
Proof.
  intros H. unfold is_ows. rewrite negb_orb.
  assert (H1 : negb (x =? 32) = true) by excl H.
  assert (H2 : negb (x =? 9) = true) by excl H.
  rewrite H1, H2. reflexivity.
Qed.
Lemma digit_field_char x : is_digit x = true -> is_field_char x = true.
Proof.
  unfold is_digit, is_field_char, is_field_vchar. intros H.
  apply andb_true_iff in H as [H1 H2]. apply N.leb_le in H1. apply N.leb_le in H2.
  apply orb_true_iff; left. apply orb_true_iff; left.
  apply andb_true_iff; split; apply N.leb_le; lia.
Qed.

Lemma token_nob_colon k : forallb is_tchar k = true -> nob 58 k = true.
Proof. apply forallb_impl, tchar_not_colon. Qed.
Lemma token_nob_cr k : forallb is_tchar k = true -> nob 13 k = true.
Proof. apply forallb_impl, tchar_not_cr. Qed.
Lemma field_nob_cr v : forallb is_field_char v = true -> nob 13 v = true.
Proof. apply forallb_impl, field_char_not_cr. Qed.
Lemma digits_nob_cr v : forallb is_digit v = true -> nob 13 v = true.
Proof. apply forallb_impl, digit_not_cr. Qed.
Lemma digits_nob_sp v : forallb is_digit v = true -> nob 32 v = true.
Proof. apply forallb_impl, digit_not_sp. Qed.
Lemma digits_field v : forallb is_digit v = true -> forallb is_field_char v = true.
Proof. apply forallb_impl, digit_field_char. Qed.

(* ------------------------------------------------------------------ strip_ows *)
Lemma lstrip_ows_id l : forallb (fun x => negb (is_ows x)) l = true -> lstrip_ows l = l.
Proof.
  destruct l as [|x l]; [reflexivity|]. cbn [forallb lstrip_ows]. intros H.
  apply andb_true_iff in H as [H _]. apply negb_true_iff in H. rewrite H. reflexivity.
Qed.

Lemma strip_ows_id l : forallb (fun x => negb (is_ows x)) l = true -> strip_ows l = l.
Proof.
  intros H. unfold strip_ows. rewrite (lstrip_ows_id l H).
  rewrite (lstrip_ows_id (rev l)) by (apply forallb_rev, H). apply rev_involutive.
Qed.

Lemma strip_ows_digits l : forallb is_digit l = true -> strip_ows l = l.
Proof. intros H. apply strip_ows_id. revert H. apply forallb_impl, digit_not_ows. Qed.

Lemma strip_ows_sp v : strip_ows (32 :: v) = strip_ows v.
Proof. reflexivity. Qed.

(* ------------------------------------------------------------------ HTTP version *)
Lemma http_version_shape v : is_http_version v = true ->
  exists d1 d2, v = bytes_of_string "HTTP/" ++ [d1; 46; d2] /\ is_digit d1 = true /\ is_digit d2 = true.
Proof.
  unfold is_http_version. intros H. apply andb_true_iff in H as [Hp Hs].
  apply is_prefix_skipn in Hp.
  set (p := bytes_of_string "HTTP/") in *.
  change (length p) with 5%nat in Hp.
  destruct (skipn 5 v) as [|d1 [|dot [|d2 [|e t]]]]; try discriminate Hs.
  apply andb_true_iff in Hs as [Hs H2]. apply andb_true_iff in Hs as [H1 Hd].
  apply N.eqb_eq in Hd. subst dot. exists d1, d2. auto.
Qed.

Lemma http_version_nob v : is_http_version v = true -> nob 32 v = true /\ nob 13 v = true.
Proof.
  intros H. destruct (http_version_shape v H) as (d1 & d2 & -> & H1 & H2).
  rewrite !nob_app. unfold nob at 2 4. cbn [forallb].
  rewrite (digit_not_sp _ H1), (digit_not_sp _ H2), (digit_not_cr _ H1), (digit_not_cr _ H2).
  split; vm_compute; reflexivity.
Qed.

(* ------------------------------------------------------------------ status code *)
Definition code_ok (z : Z) : bool :=
  let c := dec_of_Z z in
  Nat.eqb (length c) 3 && forallb is_digit c && (dec_val c =? Z.to_N z).

Lemma code_sweep :
  forallb code_ok (map (fun k => (200 + Z.of_nat k)%Z) (seq 0 800)) = true.
Proof. vm_compute. reflexivity. Qed.

Lemma status_code_ok z : (200 <= z)%Z -> (z <= 999)%Z ->
  length (dec_of_Z z) = 3%nat /\ forallb is_digit (dec_of_Z z) = true /\
  dec_val (dec_of_Z z) = Z.to_N z.
Proof.
  intros Hlo Hhi.
  assert (Hin : In z (map (fun k => (200 + Z.of_nat k)%Z) (seq 0 800))).
  { apply in_map_iff. exists (Z.to_nat (z - 200)). split; [lia|].
    apply in_seq. lia. }
  pose proof (proj1 (forallb_forall _ _) code_sweep z Hin) as H.
  unfold code_ok in H. apply andb_true_iff in H as [H H3]. apply andb_true_iff in H as [H1 H2].
  apply Nat.eqb_eq in H1. apply N.eqb_eq in H3. auto.
Qed.

Lemma status_no_body_N connect z : (200 <= z)%Z ->
  status_no_body connect z =
  ((Z.to_N z =? 204) || (Z.to_N z =? 304) || (connect && (Z.to_N z <? 300))).
Proof.
  intros Hz. unfold status_no_body.
  assert (E1 : (z =? 204)%Z = (Z.to_N z =? 204)).
  { destruct (Z.eqb_spec z 204), (N.eqb_spec (Z.to_N z) 204); try reflexivity; lia. }
  assert (E2 : (z =? 304)%Z = (Z.to_N z =? 304)).
  { destruct (Z.eqb_spec z 304), (N.eqb_spec (Z.to_N z) 304); try reflexivity; lia. }
  assert (E3 : (z <? 300)%Z = (Z.to_N z <? 300)).
  { destruct (Z.ltb_spec z 300), (N.ltb_spec (Z.to_N z) 300); try reflexivity; lia. }
  rewrite E1, E2, E3. reflexivity.
Qed.

(* ------------------------------------------------------------------ status line *)
Definition status_line (a : bargs) : bytes :=
  join [SP] ([a_version a; dec_of_Z (a_status a)] ++
             (if truthy (a_reason a) then [bytes_or_empty (a_reason a)] else [])).

Lemma firstn_app_exact {A} (x y : list A) n : length x = n -> firstn n (x ++ y) = x.
Proof. intros <-. rewrite firstn_app, Nat.sub_diag, firstn_all. cbn. apply app_nil_r. Qed.
Lemma skipn_app_exact {A} (x y : list A) n : length x = n -> skipn n (x ++ y) = y.
Proof. intros <-. rewrite skipn_app, Nat.sub_diag, skipn_all. reflexivity. Qed.

Lemma parse_status_line_built strict ver code (reason : option bytes) :
  is_http_version ver = true -> length code = 3%nat -> forallb is_digit code = true ->
  match reason with Some r => forallb is_field_char r = true | None => strict = false end ->
  parse_status_line strict
    (ver ++ [SP] ++ code ++ match reason with Some r => [SP] ++ r | None => [] end)
  = Some (ver, dec_val code, reason).
Proof.
  intros Hv Hl Hd Hr. unfold parse_status_line.
  rewrite split_once_SP by (apply http_version_nob, Hv).
  rewrite Hv. cbn [negb].
  rewrite (firstn_app_exact _ _ 3 Hl), (skipn_app_exact _ _ 3 Hl).
  rewrite Hl, Hd. cbn [Nat.eqb andb negb].
  destruct reason as [r|].
  - cbn [app]. rewrite Hr. unfold SP. rewrite N.eqb_refl. reflexivity.
  - rewrite Hr. reflexivity.
Qed.

(* ------------------------------------------------------------------ header section *)
Definition render (kv : bytes * bytes) : bytes := build_http_header (fst kv) (snd kv) ++ CRLF.
Definition hdr_ok (kv : bytes * bytes) : bool := is_token (fst kv) && forallb is_field_char (snd kv).

Lemma render_length kv : (1 <= length (render kv))%nat.
Proof.
  unfold render, build_http_header. rewrite !app_length. cbn [length]. lia.
Qed.

Lemma concat_render_length H : (length H <= length (concat (map render H)))%nat.
Proof.
  induction H as [|kv H IH]; cbn [map concat length]; [lia|].
  rewrite app_length. pose proof (render_length kv). lia.
Qed.

Lemma parse_header_fields_built H : forall fuel body,
  forallb hdr_ok H = true -> (length H < fuel)%nat ->
  parse_header_fields fuel (concat (map render H) ++ CRLF ++ body) =
  Some (map norm_header H, body).
Proof.
  induction H as [|[k v] H IH]; intros fuel body Hok Hf.
  - destruct fuel as [|f]; [cbn [length] in Hf; lia|].
    cbn [map concat parse_header_fields].
    rewrite (split_once_CRLF [] body) by reflexivity. reflexivity.
  - destruct fuel as [|f]; [cbn [length] in Hf; lia|].
    cbn [forallb] in Hok. apply andb_true_iff in Hok as [Hkv Hok].
    unfold hdr_ok in Hkv. cbn [fst snd] in Hkv. apply andb_true_iff in Hkv as [Hk Hv].
    unfold is_token in Hk. apply andb_true_iff in Hk as [Hne Hk].
    cbn [map concat]. unfold render at 1. unfold build_http_header. cbn [fst snd].
    set (rest := concat (map render H) ++ CRLF ++ body).
    replace ((((k ++ [COLON] ++ [SP] ++ v) ++ CRLF) ++ concat (map render H)) ++ CRLF ++ body)
      with ((k ++ [COLON] ++ [SP] ++ v) ++ CRLF ++ rest)
      by (unfold rest; rewrite <- !app_assoc; reflexivity).
    cbn [parse_header_fields].
    rewrite (split_once_CRLF (k ++ [COLON] ++ [SP] ++ v) rest).
    2:{ rewrite !nob_app. rewrite (token_nob_cr _ Hk), (field_nob_cr _ Hv). reflexivity. }
    destruct k as [|k0 k]; [discriminate Hne|].
    cbn [app is_nil].
    change (k0 :: k ++ COLON :: SP :: v) with ((k0 :: k) ++ [COLON] ++ (SP :: v)).
    rewrite split_once_COLON by (apply token_nob_colon, Hk).
    unfold is_token. cbn [is_nil negb]. rewrite Hk.
    assert (Hv' : forallb is_field_char (SP :: v) = true).
    { cbn [forallb]. rewrite Hv. reflexivity. }
    rewrite Hv'. cbn [andb].
    unfold rest. rewrite (IH f body Hok) by (cbn [length] in Hf; lia).
    unfold norm_header at 2. cbn [fst snd]. unfold SP. rewrite strip_ows_sp. reflexivity.
Qed.

Lemma header_values_norm L H :
  header_values L (map norm_header H) = map strip_ows (header_values L H).
Proof.
  unfold header_values. induction H as [|[k v] H IH]; [reflexivity|].
  cbn [map filter norm_header fst snd].
  destruct (bytes_eqb (lower k) L); cbn [map snd]; rewrite IH; reflexivity.
Qed.

(* ------------------------------------------------------------------ dict_set *)
Lemma dict_set_forallb (p : bytes * bytes -> bool) k v h :
  p (k, v) = true -> forallb p h = true -> forallb p (dict_set k v h) = true.
Proof.
  intros Hp. induction h as [|[k' v'] h IH]; cbn [dict_set forallb].
  - intros _. rewrite Hp. reflexivity.
  - intros H. apply andb_true_iff in H as [H1 H2].
    destruct (bytes_eqb k k'); cbn [forallb].
    + rewrite Hp, H2. reflexivity.
    + rewrite H1, (IH H2). reflexivity.
Qed.

Lemma dict_set_In k (v : bytes) h : In (k, v) (dict_set k v h).
Proof.
  induction h as [|[k' v'] h IH]; cbn [dict_set]; [left; reflexivity|].
  destruct (bytes_eqb k k'); [left; reflexivity|right; exact IH].
Qed.

(* setting a key the (key-only) filter rejects does not change the filter *)
Lemma filter_dict_set_other (q : bytes -> bool) k (v : bytes) h :
  q k = false ->
  filter (fun kv => q (fst kv)) (dict_set k v h) = filter (fun kv => q (fst kv)) h.
Proof.
  intros Hq. induction h as [|[k' v'] h IH]; cbn [dict_set filter fst].
  - rewrite Hq. reflexivity.
  - destruct (bytes_eqb k k') eqn:E.
    + apply bytes_eqb_eq in E. subst k'. cbn [filter fst]. rewrite Hq. reflexivity.
    + cbn [filter fst]. rewrite IH. reflexivity.
Qed.

(* keys matching q are all equal to K, K matches q, keys distinct: setting K leaves one match *)
Lemma filter_absent (q : bytes -> bool) K (h : hdrs) :
  dict_has K h = false ->
  forallb (fun kv => if q (fst kv) then bytes_eqb (fst kv) K else true) h = true ->
  filter (fun kv => q (fst kv)) h = [].
Proof.
  induction h as [|[k' v'] h IH]; [reflexivity|].
  unfold dict_has. cbn [dict_get forallb filter fst].
  intros Hh Hall. apply andb_true_iff in Hall as [H1 H2].
  destruct (bytes_eqb K k') eqn:E; [discriminate Hh|].
  destruct (q k') eqn:Eq.
  - apply bytes_eqb_eq in H1. subst k'. rewrite bytes_eqb_refl in E. discriminate E.
  - apply IH; assumption.
Qed.

Lemma filter_dict_set_unique (q : bytes -> bool) K (v : bytes) (h : hdrs) :
  q K = true -> nodup_keys h = true ->
  forallb (fun kv => if q (fst kv) then bytes_eqb (fst kv) K else true) h = true ->
  filter (fun kv => q (fst kv)) (dict_set K v h) = [(K, v)].
Proof.
  intros HK. induction h as [|[k' v'] h IH]; cbn [dict_set nodup_keys forallb fst].
  - intros _ _. cbn [filter fst]. rewrite HK. reflexivity.
  - intros Hnd Hall. apply andb_true_iff in Hnd as [Hnd1 Hnd2].
    apply andb_true_iff in Hall as [H1 H2]. apply negb_true_iff in Hnd1.
    destruct (bytes_eqb K k') eqn:E.
    + apply bytes_eqb_eq in E. subst k'. cbn [filter fst]. rewrite HK.
      rewrite (filter_absent q K h Hnd1 H2). reflexivity.
    + cbn [filter fst]. destruct (q k') eqn:Eq.
      * apply bytes_eqb_eq in H1. subst k'. rewrite bytes_eqb_refl in E. discriminate E.
      * apply IH; assumption.
Qed.

(* ------------------------------------------------------------------ header_key *)
Lemma header_key_lower hs name : lower (header_key hs name) = lower name.
Proof.
  induction hs as [|[k v] hs IH]; cbn [header_key]; [reflexivity|].
  destruct (bytes_eqb (lower k) (lower name)) eqn:E; [|exact IH].
  apply bytes_eqb_eq in E. exact E.
Qed.

Lemma header_key_token hs name :
  forallb hdr_ok hs = true -> is_token name = true -> is_token (header_key hs name) = true.
Proof.
  intros Hok Hn. induction hs as [|[k v] hs IH]; cbn [header_key]; [exact Hn|].
  cbn [forallb] in Hok. apply andb_true_iff in Hok as [Hkv Hok].
  destruct (bytes_eqb (lower k) (lower name)); [|exact (IH Hok)].
  unfold hdr_ok in Hkv. cbn [fst] in Hkv. apply andb_true_iff in Hkv as [Hk _]. exact Hk.
Qed.

(* ------------------------------------------------------------------ shape of the packet *)
Lemma fold_render l p :
  fold_left (fun pkt kv => pkt ++ build_http_header (fst kv) (snd kv) ++ CRLF) l p =
  p ++ concat (map render l).
Proof. apply (fold_left_concat render). Qed.

Lemma build_http_pkt_shape line h body cc :
  build_http_pkt line (Some h) body cc =
  join [SP] line ++ CRLF ++
  concat (map render (if cc then dict_set (header_key h K_CONNECTION) V_CLOSE h else h)) ++ CRLF ++
  (if truthy body then bytes_or_empty body else []).
Proof.
  unfold build_http_pkt. cbv zeta. cbn [hdrs_or_empty]. rewrite fold_render.
  destruct (truthy body); rewrite <- !app_assoc; [reflexivity|].
  rewrite app_nil_r. reflexivity.
Qed.

Lemma build_shape a :
  build_http_response a =
  status_line a ++ CRLF ++ concat (map render (final_headers a)) ++ CRLF ++ intended_body a.
Proof.
  unfold build_http_response. cbv zeta. rewrite build_http_pkt_shape. reflexivity.
Qed.

(* ------------------------------------------------------------------ wf_args unpacked *)
Definition cl_value (a : bargs) : bytes :=
  if truthy (a_body a) then dec_of_N (len (bytes_or_empty (a_body a))) else [48].

Lemma wf_args_unpack connect a : wf_args connect a = true ->
  let hs := hdrs_or_empty (a_headers a) in
  is_http_version (a_version a) = true /\
  (200 <= a_status a)%Z /\ (a_status a <= 999)%Z /\
  match a_reason a with Some r => forallb is_field_char r | None => true end = true /\
  nodup_keys hs = true /\
  forallb hdr_ok hs = true /\
  has_te hs = false /\
  forallb (fun kv => if bytes_eqb (lower (fst kv)) L_CONTENT_LENGTH
                     then negb (a_no_cl a) && bytes_eqb (fst kv) (header_key hs K_CONTENT_LENGTH)
                     else true) hs = true /\
  (if status_no_body connect (a_status a) then negb (truthy (a_body a)) else true) = true /\
  (if a_no_cl a && negb (status_no_body connect (a_status a)) then a_conn_close a else true) = true.
Proof.
  intros H. unfold wf_args in H. cbv zeta in H. repeat rewrite andb_true_iff in H.
  destruct H as (((((((((H1 & H2) & H3) & H4) & H5) & H6) & H7) & H8) & H9) & H10).
  cbv zeta. apply Z.leb_le in H2. apply Z.leb_le in H3. apply negb_true_iff in H7.
  repeat split; assumption.
Qed.

(* the two stages of final_headers *)
Definition hs0 (a : bargs) : hdrs := hdrs_or_empty (a_headers a).
Definition hs1 (a : bargs) : hdrs :=
  if a_no_cl a then hs0 a else dict_set (header_key (hs0 a) K_CONTENT_LENGTH) (cl_value a) (hs0 a).

Lemma final_headers_eq a : has_te (hdrs_or_empty (a_headers a)) = false ->
  final_headers a =
  if a_conn_close a then dict_set (header_key (hs1 a) K_CONNECTION) V_CLOSE (hs1 a) else hs1 a.
Proof.
  intros Hte. unfold final_headers, hs1, hs0. cbv zeta. rewrite Hte. cbn [negb andb].
  destruct (a_no_cl a); reflexivity.
Qed.

Lemma cl_value_facts a :
  is_nil (cl_value a) = false /\ forallb is_digit (cl_value a) = true /\
  dec_val (cl_value a) = len (intended_body a).
Proof.
  unfold cl_value, intended_body. destruct (truthy (a_body a)).
  - destruct (dec_of_N_digits (len (bytes_or_empty (a_body a)))) as (D1 & D2 & D3).
    split; [|split; assumption].
    destruct (dec_of_N (len (bytes_or_empty (a_body a)))); [contradiction D1; reflexivity|reflexivity].
  - split; [reflexivity|]. split; vm_compute; reflexivity.
Qed.

Lemma hs1_ok connect a : wf_args connect a = true -> forallb hdr_ok (hs1 a) = true.
Proof.
  intros Hwf. destruct (wf_args_unpack _ _ Hwf) as (_ & _ & _ & _ & _ & Hok & _).
  destruct (cl_value_facts a) as (C1 & C2 & _).
  unfold hs1, hs0. destruct (a_no_cl a); [exact Hok|].
  apply dict_set_forallb; [|exact Hok].
  unfold hdr_ok. cbn [fst snd]. rewrite (digits_field _ C2).
  rewrite (header_key_token _ _ Hok); [reflexivity|vm_compute; reflexivity].
Qed.

Lemma final_headers_ok connect a : wf_args connect a = true ->
  forallb hdr_ok (final_headers a) = true.
Proof.
  intros Hwf. destruct (wf_args_unpack _ _ Hwf) as (_ & _ & _ & _ & _ & _ & Hte & _).
  rewrite (final_headers_eq a Hte). pose proof (hs1_ok _ _ Hwf) as H1.
  destruct (a_conn_close a); [|exact H1].
  apply dict_set_forallb; [|exact H1].
  unfold hdr_ok. cbn [fst snd].
  rewrite (header_key_token _ _ H1); vm_compute; reflexivity.
Qed.

(* ------------------------------------------------------------------ header_values of final_headers *)
Definition qkey (L : bytes) (k : bytes) : bool := bytes_eqb (lower k) L.

Lemma header_values_q L hs :
  header_values L hs = map snd (filter (fun kv => qkey L (fst kv)) hs).
Proof. reflexivity. Qed.

Lemma qkey_header_key L hs name : qkey L (header_key hs name) = qkey L name.
Proof. unfold qkey. rewrite header_key_lower. reflexivity. Qed.

Lemma final_headers_te connect a : wf_args connect a = true ->
  header_values L_TRANSFER_ENCODING (final_headers a) = [].
Proof.
  intros Hwf. destruct (wf_args_unpack _ _ Hwf) as (_ & _ & _ & _ & _ & _ & Hte & _).
  rewrite (final_headers_eq a Hte). rewrite header_values_q.
  assert (H0 : filter (fun kv => qkey L_TRANSFER_ENCODING (fst kv)) (hs0 a) = []).
  { apply filter_none. apply (existsb_false_forallb _ _ Hte). }
  assert (H1 : filter (fun kv => qkey L_TRANSFER_ENCODING (fst kv)) (hs1 a) = []).
  { unfold hs1. destruct (a_no_cl a); [exact H0|].
    rewrite (filter_dict_set_other (qkey L_TRANSFER_ENCODING)); [exact H0|].
    rewrite qkey_header_key. vm_compute. reflexivity. }
  destruct (a_conn_close a).
  - rewrite (filter_dict_set_other (qkey L_TRANSFER_ENCODING)).
    + exact (f_equal (map snd) H1).
    + rewrite qkey_header_key. vm_compute. reflexivity.
  - exact (f_equal (map snd) H1).
Qed.

Lemma final_headers_cl connect a : wf_args connect a = true ->
  header_values L_CONTENT_LENGTH (final_headers a) = if a_no_cl a then [] else [cl_value a].
Proof.
  intros Hwf. destruct (wf_args_unpack _ _ Hwf) as (_ & _ & _ & _ & Hnd & _ & Hte & Hcl & _).
  rewrite (final_headers_eq a Hte). rewrite header_values_q.
  assert (H1 : filter (fun kv => qkey L_CONTENT_LENGTH (fst kv)) (hs1 a) =
               if a_no_cl a then []
               else [(header_key (hs0 a) K_CONTENT_LENGTH, cl_value a)]).
  { unfold hs1, hs0. destruct (a_no_cl a).
    - apply filter_none. revert Hcl. apply forallb_impl. intros kv Hkv.
      unfold qkey. destruct (bytes_eqb (lower (fst kv)) L_CONTENT_LENGTH); [discriminate Hkv|reflexivity].
    - apply (filter_dict_set_unique (qkey L_CONTENT_LENGTH)).
      + rewrite qkey_header_key. vm_compute. reflexivity.
      + exact Hnd.
      + revert Hcl. apply forallb_impl. intros kv Hkv. unfold qkey.
        destruct (bytes_eqb (lower (fst kv)) L_CONTENT_LENGTH); [exact Hkv|reflexivity]. }
  assert (H2 : filter (fun kv => qkey L_CONTENT_LENGTH (fst kv))
                 (if a_conn_close a
                  then dict_set (header_key (hs1 a) K_CONNECTION) V_CLOSE (hs1 a) else hs1 a) =
               if a_no_cl a then []
               else [(header_key (hs0 a) K_CONTENT_LENGTH, cl_value a)]).
  { destruct (a_conn_close a); [|exact H1].
    rewrite (filter_dict_set_other (qkey L_CONTENT_LENGTH)); [exact H1|].
    rewrite qkey_header_key. vm_compute. reflexivity. }
  transitivity (map snd (if a_no_cl a then []
                         else [(header_key (hs0 a) K_CONTENT_LENGTH, cl_value a)])).
  - exact (f_equal (map snd) H2).
  - destruct (a_no_cl a); reflexivity.
Qed.

Lemma final_headers_close a : has_te (hdrs_or_empty (a_headers a)) = false ->
  a_conn_close a = true ->
  In V_CLOSE (header_values L_CONNECTION (final_headers a)).
Proof.
  intros Hte Hcc. rewrite (final_headers_eq a Hte). rewrite Hcc.
  unfold header_values. apply in_map_iff.
  exists (header_key (hs1 a) K_CONNECTION, V_CLOSE). split; [reflexivity|].
  apply filter_In. split; [apply dict_set_In|].
  cbn [fst]. rewrite header_key_lower. vm_compute. reflexivity.
Qed.

Lemma has_conn_close_final a : has_te (hdrs_or_empty (a_headers a)) = false ->
  a_conn_close a = true ->
  has_conn_close (map norm_header (final_headers a)) = true.
Proof.
  intros Hte Hcc. unfold has_conn_close. rewrite header_values_norm.
  apply existsb_exists. exists (strip_ows V_CLOSE). split.
  - apply in_map, final_headers_close; assumption.
  - vm_compute. reflexivity.
Qed.

(* ------------------------------------------------------------------ framing *)
Definition expected_framing (connect : bool) (a : bargs) : framing :=
  if status_no_body connect (a_status a) then NoBody
  else if a_no_cl a then UntilClose else Counted (len (intended_body a)).

Lemma body_framing_final connect a : wf_args connect a = true ->
  body_framing connect (Z.to_N (a_status a)) (map norm_header (final_headers a)) =
  Some (expected_framing connect a).
Proof.
  intros Hwf. destruct (wf_args_unpack _ _ Hwf) as (_ & Hlo & Hhi & _).
  unfold body_framing, expected_framing. cbv zeta.
  rewrite !header_values_norm, (final_headers_te _ _ Hwf), (final_headers_cl _ _ Hwf).
  rewrite (status_no_body_N connect _ Hlo).
  assert (E : (Z.to_N (a_status a) <? 200) = false) by (apply N.ltb_ge; lia).
  rewrite E. cbn [map is_nil negb].
  set (b1 := (Z.to_N (a_status a) =? 204) || (Z.to_N (a_status a) =? 304)).
  set (b2 := connect && (Z.to_N (a_status a) <? 300)).
  destruct (cl_value_facts a) as (C1 & C2 & C3).
  destruct (a_no_cl a).
  - cbn [map negb]. destruct b1, b2; reflexivity.
  - cbn [map]. rewrite (strip_ows_digits _ C2). rewrite C1, C2, C3. cbn [forallb negb andb].
    destruct b1, b2; reflexivity.
Qed.

Lemma status_line_eq a :
  status_line a =
  a_version a ++ [SP] ++ dec_of_Z (a_status a) ++
  match (if truthy (a_reason a) then a_reason a else None) with
  | Some r => [SP] ++ r | None => [] end.
Proof.
  unfold status_line. destruct (a_reason a) as [[|r0 r]|]; cbn [truthy bytes_or_empty app join].
  - rewrite app_nil_r. reflexivity.
  - reflexivity.
  - rewrite app_nil_r. reflexivity.
Qed.

Theorem build_http_response_recognised_gen : forall strict connect a,
  wf_args connect a = true -> (strict = false \/ truthy (a_reason a) = true) ->
  exists v, recognise strict connect (build_http_response a) = Some v /\ framing_ok v = true /\
    rv_version v = a_version a /\ rv_status v = Z.to_N (a_status a) /\
    rv_reason v = (if truthy (a_reason a) then a_reason a else None) /\
    rv_headers v = map norm_header (final_headers a) /\
    rv_body v = intended_body a /\
    rv_framing v = (if status_no_body connect (a_status a) then NoBody
                    else if a_no_cl a then UntilClose else Counted (len (intended_body a))).
Proof.
  intros strict connect a Hwf Hstrict.
  pose proof (wf_args_unpack _ _ Hwf) as Hu. cbv zeta in Hu.
  destruct Hu as (Hver & Hlo & Hhi & Hreason & Hnd & Hok & Hte & Hcl & Hnb & Hcc).
  destruct (status_code_ok _ Hlo Hhi) as (K1 & K2 & K3).
  destruct (http_version_nob _ Hver) as (V1 & V2).
  set (reason' := if truthy (a_reason a) then a_reason a else None).
  assert (Hr' : match reason' with Some r => forallb is_field_char r = true | None => strict = false end).
  { unfold reason'. destruct (a_reason a) as [[|r0 r]|]; cbn [truthy] in *.
    - destruct Hstrict as [Hs|Hs]; [exact Hs|discriminate Hs].
    - exact Hreason.
    - destruct Hstrict as [Hs|Hs]; [exact Hs|discriminate Hs]. }
  assert (Hsl : status_line a = a_version a ++ [SP] ++ dec_of_Z (a_status a) ++
                  match reason' with Some r => [SP] ++ r | None => [] end)
    by apply status_line_eq.
  assert (Hnob : nob 13 (status_line a) = true).
  { rewrite Hsl. rewrite !nob_app, V2, (digits_nob_cr _ K2).
    destruct reason' as [r|]; [|reflexivity].
    rewrite nob_app, (field_nob_cr _ Hr'). reflexivity. }
  rewrite build_shape. unfold recognise.
  set (rest := concat (map render (final_headers a)) ++ CRLF ++ intended_body a).
  rewrite (split_once_CRLF (status_line a) rest Hnob).
  rewrite Hsl, (parse_status_line_built strict _ _ reason' Hver K1 K2 Hr').
  assert (Hfuel : (length (final_headers a) < S (length rest))%nat).
  { unfold rest. rewrite app_length. pose proof (concat_render_length (final_headers a)). lia. }
  unfold rest at 2.
  rewrite (parse_header_fields_built _ _ _ (final_headers_ok _ _ Hwf) Hfuel).
  rewrite K3, (body_framing_final _ _ Hwf).
  eexists. split; [reflexivity|].
  cbn [rv_version rv_status rv_reason rv_headers rv_framing rv_body].
  split; [|repeat split; reflexivity].
  unfold framing_ok, expected_framing.
  cbn [rv_version rv_status rv_reason rv_headers rv_framing rv_body].
  destruct (status_no_body connect (a_status a)).
  - unfold intended_body. apply negb_true_iff in Hnb. rewrite Hnb. reflexivity.
  - destruct (a_no_cl a).
    + cbn [andb negb] in Hcc. apply has_conn_close_final; assumption.
    + apply N.eqb_refl.
Qed.

Theorem build_http_response_recognised : forall connect a, wf_args connect a = true ->
  exists v, recognise false connect (build_http_response a) = Some v /\ framing_ok v = true /\
    rv_version v = a_version a /\ rv_status v = Z.to_N (a_status a) /\
    rv_reason v = (if truthy (a_reason a) then a_reason a else None) /\
    rv_headers v = map norm_header (final_headers a) /\
    rv_body v = intended_body a /\
    rv_framing v = (if status_no_body connect (a_status a) then NoBody
                    else if a_no_cl a then UntilClose else Counted (len (intended_body a))).
Proof.
  intros connect a Hwf. apply build_http_response_recognised_gen; [exact Hwf|left; reflexivity].
Qed.

Corollary build_http_response_wf : forall connect a, wf_args connect a = true ->
  wf_response connect (build_http_response a) = true.
Proof.
  intros connect a Hwf.
  destruct (build_http_response_recognised connect a Hwf) as (v & E & F & _).
  unfold wf_response, wf_response_gen. rewrite E. exact F.
Qed.

Theorem build_http_response_wf_strict : forall connect a, wf_args connect a = true ->
  truthy (a_reason a) = true -> wf_response_strict connect (build_http_response a) = true.
Proof.
  intros connect a Hwf Hr.
  destruct (build_http_response_recognised_gen true connect a Hwf (or_intror Hr)) as (v & E & F & _).
  unfold wf_response_strict, wf_response_gen. rewrite E. exact F.
Qed.

Print Assumptions dec_of_N_digits.
Print Assumptions build_http_response_recognised.
Print Assumptions build_http_response_wf.
Print Assumptions build_http_response_wf_strict.

(* ------------------------------------------------------------------ link with Http/Builders.v *)
From PM Require Http.Builders.

Lemma header_lines_render (h : hdrs) : PM.Http.Builders.header_lines h = concat (map render h).
Proof.
  induction h as [|[k v] h IH]; [reflexivity|].
  cbn [PM.Http.Builders.header_lines map concat]. rewrite IH.
  unfold render. cbn [fst snd]. rewrite <- app_assoc. reflexivity.
Qed.

Lemma build_http_response_is_Builders a :
  build_http_response a =
  PM.Http.Builders.build_http_response (a_status a) (a_version a) (a_reason a) (a_headers a)
    (a_body a) (a_conn_close a) (a_no_cl a).
Proof.
  rewrite build_shape.
  unfold PM.Http.Builders.build_http_response, PM.Http.Builders.build_http_pkt. cbv zeta.
  rewrite header_lines_render. reflexivity.
Qed.

Print Assumptions build_http_response_is_Builders.

(* ------------------------------------------------------------------ the canned packets, okResponse,
   redirects and exception responses are in the builders' domain *)
Ltac wf_args_closed H :=
  unfold wf_args; cbv zeta;
  cbn [a_status a_version a_reason a_headers a_body a_conn_close a_no_cl mk_args hdrs_or_empty
       TUNNEL_ESTABLISHED_ARGS TUNNEL_UNSUPPORTED_SCHEME_ARGS AUTH_FAILED_ARGS BAD_REQUEST_ARGS
       NOT_FOUND_ARGS NOT_IMPLEMENTED_ARGS BAD_GATEWAY_ARGS redirect_args];
  rewrite !andb_true_iff; repeat split; try (vm_compute; reflexivity);
  cbn [forallb fst snd]; unfold wf_agent in H; rewrite ?H; vm_compute; reflexivity.

Lemma BAD_REQUEST_wf_args agent connect : wf_agent agent = true -> wf_args connect (BAD_REQUEST_ARGS agent) = true.
Proof. intros H. destruct connect; wf_args_closed H. Qed.
Lemma NOT_FOUND_wf_args agent connect : wf_agent agent = true -> wf_args connect (NOT_FOUND_ARGS agent) = true.
Proof. intros H. destruct connect; wf_args_closed H. Qed.
Lemma NOT_IMPLEMENTED_wf_args agent connect : wf_agent agent = true -> wf_args connect (NOT_IMPLEMENTED_ARGS agent) = true.
Proof. intros H. destruct connect; wf_args_closed H. Qed.
Lemma AUTH_FAILED_wf_args agent connect : wf_agent agent = true -> wf_args connect (AUTH_FAILED_ARGS agent) = true.
Proof. intros H. destruct connect; wf_args_closed H. Qed.
Lemma BAD_GATEWAY_wf_args agent connect : wf_agent agent = true -> wf_args connect (BAD_GATEWAY_ARGS agent) = true.
Proof. intros H. destruct connect; wf_args_closed H. Qed.
Lemma UNSUPPORTED_SCHEME_wf_args connect : wf_args connect TUNNEL_UNSUPPORTED_SCHEME_ARGS = true.
Proof. destruct connect; vm_compute; reflexivity. Qed.
(* the tunnel acknowledgement is a 2xx answer to CONNECT: no body, no framing headers needed *)
Lemma TUNNEL_ESTABLISHED_wf_args : wf_args true TUNNEL_ESTABLISHED_ARGS = true.
Proof. vm_compute; reflexivity. Qed.

Theorem canned_packets_wf agent : wf_agent agent = true ->
  (forall connect, wf_response connect (BAD_REQUEST_RESPONSE_PKT agent) = true) /\
  (forall connect, wf_response connect (NOT_FOUND_RESPONSE_PKT agent) = true) /\
  (forall connect, wf_response connect (NOT_IMPLEMENTED_RESPONSE_PKT agent) = true) /\
  (forall connect, wf_response connect (PROXY_AUTH_FAILED_RESPONSE_PKT agent) = true) /\
  (forall connect, wf_response connect (BAD_GATEWAY_RESPONSE_PKT agent) = true) /\
  (forall connect, wf_response connect PROXY_TUNNEL_UNSUPPORTED_SCHEME = true) /\
  wf_response true PROXY_TUNNEL_ESTABLISHED_RESPONSE_PKT = true.
Proof.
  intros H. repeat split; intros; apply build_http_response_wf;
    auto using BAD_REQUEST_wf_args, NOT_FOUND_wf_args, NOT_IMPLEMENTED_wf_args, AUTH_FAILED_wf_args,
               BAD_GATEWAY_wf_args, UNSUPPORTED_SCHEME_wf_args, TUNNEL_ESTABLISHED_wf_args.
Qed.

(* dict_set keeps a header dict legal *)
Lemma dict_has_dict_set_other (k k' : bytes) (v : bytes) h :
  bytes_eqb k' k = false -> dict_has k' (dict_set k v h) = dict_has k' h.
Proof.
  intros Hk. unfold dict_has. induction h as [|[k0 v0] h IH]; cbn [dict_set dict_get].
  - now rewrite Hk.
  - destruct (bytes_eqb k k0) eqn:E; cbn [dict_get].
    + apply bytes_eqb_eq in E. subst k0. now rewrite Hk.
    + destruct (bytes_eqb k' k0); [reflexivity|exact IH].
Qed.

Lemma bytes_eqb_sym (x y : bytes) : bytes_eqb x y = bytes_eqb y x.
Proof.
  destruct (bytes_eqb x y) eqn:E, (bytes_eqb y x) eqn:F; try reflexivity.
  - apply bytes_eqb_eq in E. subst. rewrite bytes_eqb_refl in F. discriminate.
  - apply bytes_eqb_eq in F. subst. rewrite bytes_eqb_refl in E. discriminate.
Qed.

Lemma nodup_keys_dict_set k (v : bytes) h : nodup_keys h = true -> nodup_keys (dict_set k v h) = true.
Proof.
  induction h as [|[k0 v0] h IH]; cbn [dict_set nodup_keys]; [reflexivity|].
  intros H. apply andb_true_iff in H as [H1 H2].
  destruct (bytes_eqb k k0) eqn:E; cbn [nodup_keys].
  - apply bytes_eqb_eq in E. subst k0. now rewrite H1, H2.
  - rewrite dict_has_dict_set_other by (rewrite bytes_eqb_sym; exact E).
    rewrite H1. cbn [andb]. apply IH, H2.
Qed.

Lemma has_te_dict_set k v h : bytes_eqb (lower k) L_TRANSFER_ENCODING = false ->
  has_te (dict_set k v h) = has_te h.
Proof.
  intros Hk. unfold has_te. induction h as [|[k0 v0] h IH]; cbn [dict_set existsb fst].
  - now rewrite Hk.
  - destruct (bytes_eqb k k0) eqn:E; cbn [existsb fst].
    + apply bytes_eqb_eq in E. subst k0. reflexivity.
    + now rewrite IH.
Qed.

Lemma no_cl_conj (X : bytes) (b : bool) (hs : hdrs) :
  forallb (fun kv => negb (bytes_eqb (lower (fst kv)) L_CONTENT_LENGTH)) hs = true ->
  forallb (fun kv => if bytes_eqb (lower (fst kv)) L_CONTENT_LENGTH
                     then b && bytes_eqb (fst kv) X else true) hs = true.
Proof.
  induction hs as [|[k v] hs IH]; [reflexivity|].
  cbn [forallb fst]. intros H. apply andb_true_iff in H as [Ha Hb]. apply negb_true_iff in Ha.
  rewrite Ha. cbn [andb]. apply IH, Hb.
Qed.

Lemma ok_args_wf hs body cc :
  wf_user_headers (Some hs) = true ->
  wf_args false (mk_args 200 (Some (bytes_of_string "OK")) (Some hs) body cc false) = true.
Proof.
  unfold wf_user_headers, wf_args. cbv zeta.
  cbn [a_status a_version a_reason a_headers a_body a_conn_close a_no_cl mk_args hdrs_or_empty].
  rewrite !andb_true_iff. intros (((H1 & H2) & H3) & H4).
  repeat split; try (vm_compute; reflexivity); auto.
  apply no_cl_conj, H4.
Qed.

(* okResponse, compressed or not, for every content, gzip function and threshold *)
Theorem okResponse_wf gz content headers compress min_len cc :
  wf_user_headers headers = true ->
  wf_response false (okResponse gz content headers compress min_len cc false) = true.
Proof.
  intros H. unfold okResponse. apply build_http_response_wf. unfold okResponse_args.
  assert (Hs : wf_user_headers (Some (hdrs_or_empty headers)) = true) by (destruct headers; exact H).
  destruct (compress && truthy content && (min_len <? Z.of_nat (length (bytes_or_empty content)))%Z).
  - apply ok_args_wf. unfold wf_user_headers in *. cbv zeta in *. cbn [hdrs_or_empty] in *.
    rewrite !andb_true_iff in *. destruct Hs as (((H1 & H2) & H3) & H4). repeat split.
    + now apply nodup_keys_dict_set.
    + apply dict_set_forallb; [vm_compute; reflexivity|exact H2].
    + rewrite has_te_dict_set by (vm_compute; reflexivity). exact H3.
    + apply dict_set_forallb; [vm_compute; reflexivity|exact H4].
  - destruct headers as [hs|].
    + apply ok_args_wf. exact H.
    + vm_compute. reflexivity.
Qed.

(* the body the client decodes is the content (or its compressed form, announced by Content-Encoding) *)
Theorem okResponse_body gz content headers compress min_len cc :
  wf_user_headers headers = true ->
  exists v, recognise false false (okResponse gz content headers compress min_len cc false) = Some v /\
    framing_ok v = true /\ rv_status v = 200 /\
    rv_framing v = Counted (len (rv_body v)) /\
    rv_body v = (if compress && truthy content && (min_len <? Z.of_nat (length (bytes_or_empty content)))%Z
                 then (if truthy (Some (gz (bytes_or_empty content))) then gz (bytes_or_empty content) else [])
                 else (if truthy content then bytes_or_empty content else [])).
Proof.
  intros H. unfold okResponse.
  assert (Hwf : wf_args false (okResponse_args gz content headers compress min_len cc false) = true).
  { unfold okResponse_args.
    assert (Hs : wf_user_headers (Some (hdrs_or_empty headers)) = true) by (destruct headers; exact H).
    destruct (compress && truthy content && (min_len <? Z.of_nat (length (bytes_or_empty content)))%Z).
    - apply ok_args_wf. unfold wf_user_headers in *. cbv zeta in *. cbn [hdrs_or_empty] in *.
      rewrite !andb_true_iff in *. destruct Hs as (((H1 & H2) & H3) & H4). repeat split.
      + now apply nodup_keys_dict_set.
      + apply dict_set_forallb; [vm_compute; reflexivity|exact H2].
      + rewrite has_te_dict_set by (vm_compute; reflexivity). exact H3.
      + apply dict_set_forallb; [vm_compute; reflexivity|exact H4].
    - destruct headers as [hs|]; [apply ok_args_wf; exact H|vm_compute; reflexivity]. }
  destruct (build_http_response_recognised false _ Hwf) as (v & E & F & _ & Hst & _ & _ & Hb & Hf).
  exists v. split; [exact E|]. split; [exact F|].
  unfold okResponse_args in *.
  destruct (compress && truthy content && (min_len <? Z.of_nat (length (bytes_or_empty content)))%Z);
    cbn [a_status a_body a_no_cl mk_args status_no_body] in *; unfold intended_body in *;
    cbn [a_body mk_args] in *; rewrite Hst, Hf, Hb; repeat split; reflexivity.
Qed.

Theorem redirect_wf location : forallb is_field_char location = true ->
  wf_response false (permanentRedirectResponse location) = true /\
  wf_response false (seeOthersResponse location) = true.
Proof.
  intros H. split; apply build_http_response_wf; wf_args_closed H.
Qed.

(* HttpRequestRejected(status, reason, headers, body).response(), ProxyAuthenticationFailed,
   ProxyConnectionFailed: whatever response() returns is well-formed *)
Theorem exn_response_wf connect agent e r :
  wf_proto_exn connect agent e = true -> exn_response agent e = Some r -> wf_response connect r = true.
Proof.
  destruct e as [k|status reason headers body| | |[r'|]]; cbn [wf_proto_exn exn_response]; intros Hw He.
  - discriminate.
  - destruct status as [s|]; [|discriminate]. destruct (s =? 0)%Z; [discriminate|].
    inversion He; subst. now apply build_http_response_wf.
  - inversion He; subst. apply build_http_response_wf. now apply AUTH_FAILED_wf_args.
  - inversion He; subst. apply build_http_response_wf. now apply BAD_GATEWAY_wf_args.
  - inversion He; subst. exact Hw.
  - discriminate.
Qed.

Print Assumptions canned_packets_wf.
Print Assumptions okResponse_wf.
Print Assumptions exn_response_wf.
