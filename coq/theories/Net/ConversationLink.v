(* Net/ConversationLink.v — the forwarded bytes of the conversation model (C04) are exactly those of
   agent-C02's model of HttpProxyPlugin._queue_request_for_upstream (Net/Forward.v, repaired code:
   cf_via_append = cf_upgrade_complete = true), so C02's theorems about what the upstream receives
   apply to every piece [fwd c m] of C04_partial_forward.  Kept in its own file (not a target of
   ./check C04) because Net/Forward.v is still growing. *)
From PM Require Import Lib.Bytes Lib.BytesFacts Lib.PyStr Http.Url Http.Chunk Http.Parser Http.Builders Net.Conversation.
From PM Require Net.Forward.
From Coq Require Import ZArith.

Definition fcfg_of (agent : bytes) (c : cfg) : Forward.fcfg :=
  {| Forward.cf_agent := agent; Forward.cf_disable := disable_headers c; Forward.cf_auth_code := None;
     Forward.cf_via_append := true; Forward.cf_upgrade_complete := true |}.

Lemma header_of_has p k : has_header p k = true -> exists v, header p k = Ok v.
Proof.
  unfold has_header, header. destruct (headers p) as [d|]; [|discriminate]. unfold dict_has.
  destruct (dict_get (lower k) d) as [[o v]|]; [|discriminate]. intros _. exists v. reflexivity.
Qed.

Lemma build_ua ua1 ua2 p dh ho : build ua1 p dh false ho = build ua2 p dh false ho.
Proof.
  unfold build. destruct (negb _); [reflexivity|]. destruct (get_body_or_chunks p) as [b|e]; [|reflexivity]. cbn [bind].
  unfold build_http_request, request_headers. rewrite !andb_false_r. reflexivity.
Qed.

Lemma rebuild_agrees agent c t p : via_value c = Forward.via_entry agent ->
  Forward.queue_request_for_upstream (fcfg_of agent c) t p =
  match rebuild_for_upstream c t p with (r2, Ok w) => Ok (r2, w) | (_, Err e) => Err e end.
Proof.
  intros V. unfold Forward.queue_request_for_upstream, rebuild_for_upstream.
  change (Forward.del_headers p [Forward.PROXY_AUTHORIZATION; Forward.PROXY_CONNECTION])
    with (del_header (del_header p PROXY_AUTHORIZATION) PROXY_CONNECTION).
  set (r1 := del_header (del_header p PROXY_AUTHORIZATION) PROXY_CONNECTION).
  destruct t; cbn [negb bind].
  - cbn [Forward.cf_agent Forward.cf_disable fcfg_of]. rewrite (build_ua agent [] r1). destruct (build [] r1 _ false None); reflexivity.
  - unfold Forward.via_value, via_for. cbn [Forward.cf_via_append Forward.cf_agent Forward.cf_disable fcfg_of andb].
    change Forward.L_VIA with L_VIA. change Forward.COMMA_SP with COMMA_SP. rewrite <- V.
    destruct (has_header r1 L_VIA) eqn:H.
    + destruct (header_of_has r1 L_VIA H) as (v & ->). cbn [bind].
      change (Forward.add_headers r1 [(Forward.H_VIA, v ++ COMMA_SP ++ via_value c)]) with (add_header r1 K_VIA (v ++ COMMA_SP ++ via_value c)).
      rewrite (build_ua agent []). destruct (build [] _ _ false None); reflexivity.
    + cbn [bind]. change (Forward.add_headers r1 [(Forward.H_VIA, via_value c)]) with (add_header r1 K_VIA (via_value c)).
      rewrite (build_ua agent []). destruct (build [] _ _ false None); reflexivity.
Qed.
Print Assumptions rebuild_agrees.
