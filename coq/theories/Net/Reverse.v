(* C12 — model of the reverse proxy: proxy/http/server/reverse.py (ReverseProxy), the part of
   proxy/http/server/web.py that decides between a route and 404 (on_request_complete, _try_route),
   proxy/core/base/tcp_upstream.py (read_from_descriptors -> handle_upstream_data) and the request
   re-builder proxy/http/parser/parser.py:build + proxy/common/utils.py:build_http_request/_pkt.
   Definitions only; lemmas are in ReverseFacts.v.

   What is data here:
   * the configured upstream URL is ALREADY PARSED (Url.from_bytes is modelled elsewhere; the
     harness compares Url.from_bytes on every generated URL with the components used here);
   * Python `re` is the oracle [re_match] (Section variable = premise of every theorem);
   * random.choice is the list of raw draws [rs]: the k-th call returns seq[draw_k mod len(seq)];
   * the outcome of the outbound connect / TLS wrap is an input of handle_request;
   * the request is the parsed HttpParser object (method, path, version, ordered header dict
     keyed by lower-cased name, body, chunked flag). *)
From PM Require Import Lib.Bytes Lib.PyStr.
Open Scope N_scope.

(* ------------------------------------------------------------------ small Python idioms *)
Definition truthy (b : bytes) : bool := match b with [] => false | _ => true end.
Definition opt_truthy (o : option bytes) : bool := match o with Some b => truthy b | None => false end.
(* `x or b'/'` *)
Definition or_slash (o : option bytes) : bytes := if opt_truthy o then match o with Some p => p | None => [] end else bs "/".
Definition opt_bytes (o : option bytes) : bytes := match o with Some b => b | None => [] end.

(* ------------------------------------------------------------------ utils.py builders *)
Definition build_http_header (k v : bytes) : bytes := k ++ [COLON] ++ [SP] ++ v.

Definition render_headers (headers : dict bytes) : bytes :=
  flat_map (fun kv => build_http_header (fst kv) (snd kv) ++ CRLF) headers.

(* utils.py _header_key: the spelling under which [name] is already present, else [name] *)
Definition header_key (headers : dict bytes) (name : bytes) : bytes :=
  match find (fun kv => bytes_eqb (lower (fst kv)) (lower name)) headers with
  | Some kv => fst kv
  | None => name
  end.

Definition build_http_pkt (line : list bytes) (headers : dict bytes) (body : option bytes)
           (conn_close : bool) : bytes :=
  let headers := if conn_close then dict_set (header_key headers (bs "Connection")) (bs "close") headers else headers in
  join [SP] line ++ CRLF ++ render_headers headers ++ CRLF ++ opt_bytes body.

Definition has_key_ci (name : bytes) (headers : dict bytes) : bool :=
  existsb (fun kv => bytes_eqb (lower (fst kv)) name) headers.

(* the Content-Length bookkeeping of build_http_request *)
Definition fix_content_length (body : option bytes) (headers : dict bytes) : dict bytes :=
  let has_te := has_key_ci (bs "transfer-encoding") headers in
  if opt_truthy body && negb has_te
  then dict_set (header_key headers (bs "Content-Length")) (dec_of_N (len (opt_bytes body))) headers
  else headers.

(* build_http_request(method, url, version, headers=..., body=..., no_ua=True) *)
Definition build_http_request (method url version : bytes) (headers : dict bytes)
           (body : option bytes) : bytes :=
  build_http_pkt [method; url; version] (fix_content_length body headers) body false.

(* build_http_response(status, reason=..., headers=..., body=..., conn_close=...) *)
Definition build_http_response (status : N) (version : bytes) (reason : option bytes)
           (headers : dict bytes) (body : option bytes) (conn_close : bool) : bytes :=
  let line := [version; dec_of_N status] ++ (if opt_truthy reason then [opt_bytes reason] else []) in
  let has_te := has_key_ci (bs "transfer-encoding") headers in
  let headers := if has_te then headers
                 else dict_set (header_key headers (bs "Content-Length"))
                        (if opt_truthy body then dec_of_N (len (opt_bytes body)) else bs "0") headers in
  build_http_pkt line headers body conn_close.

(* responses.py NOT_FOUND_RESPONSE_PKT; [agent] = PROXY_AGENT_HEADER_VALUE *)
Definition NOT_FOUND_RESPONSE_PKT (agent : bytes) : bytes :=
  build_http_response 404 (bs "HTTP/1.1") (Some (bs "NOT FOUND")) [(bs "Server", agent)] None true.

(* chunk.py ChunkParser.to_chunks(raw, chunk_size) for chunk_size > 0 (the only caller passes the
   constant DEFAULT_BUFFER_SIZE; with 0 Python's range() raises ValueError, which this copy does not
   model — Links/Builders.v reverse_to_chunks_eq / reverse_to_chunks_differ_zero relate it to Http/Chunk.v) *)
Fixpoint to_chunks_aux (fuel : nat) (cs : N) (raw : bytes) : list bytes :=
  match fuel with
  | O => []
  | S f => match raw with
           | [] => []
           | _ => let c := take cs raw in hex_of_N (len c) :: c :: to_chunks_aux f cs (drop cs raw)
           end
  end.
Definition to_chunks (cs : N) (raw : bytes) : bytes :=
  join CRLF (to_chunks_aux (length raw) cs raw ++ [hex_of_N 0; []]) ++ CRLF.

(* ------------------------------------------------------------------ Url, request *)
Record url := mkUrl {
  u_scheme : option bytes; u_hostname : option bytes; u_port : option N; u_remainder : option bytes }.

Record request := mkRequest {
  r_method : bytes;                     (* b'' stands for None as well: only truthiness is used *)
  r_path : option bytes;
  r_version : bytes;
  r_headers : dict (bytes * bytes);     (* lower-cased name -> (name as received, value) *)
  r_body : option bytes;
  r_chunked : bool }.

Definition set_path (r : request) (p : option bytes) : request :=
  mkRequest (r_method r) p (r_version r) (r_headers r) (r_body r) (r_chunked r).

(* parser.py _get_body_or_chunks *)
Definition get_body_or_chunks (cs : N) (r : request) : option bytes :=
  match r_body r with
  | Some b => if r_chunked r then Some (to_chunks cs b) else Some b
  | None => None
  end.

(* the dict comprehension of HttpParser.build: insertion by original name, Host replaced *)
Definition build_headers (disable : list bytes) (host : option bytes) (h : dict (bytes * bytes)) : dict bytes :=
  fold_left (fun acc e =>
               if existsb (bytes_eqb (lower (fst e))) disable then acc
               else dict_set (fst (snd e))
                      (match host with
                       | None => snd (snd e)
                       | Some hv => if bytes_eqb (lower (fst (snd e))) (bs "host") then hv else snd (snd e)
                       end) acc) h [].

(* HttpParser.build(host=...) with for_proxy=False *)
Definition build (cs : N) (disable : list bytes) (r : request) (host : option bytes) : result bytes :=
  if truthy (r_method r) && truthy (r_version r) then
    Ok (build_http_request (r_method r) (or_slash (r_path r)) (r_version r)
          (build_headers disable host (r_headers r)) (get_body_or_chunks cs r))
  else Err AssertionError.

(* ------------------------------------------------------------------ configuration, state *)
Record config := mkConfig {
  rewrite_host_header : bool;     (* --rewrite-host-header *)
  chunk_size : N;                 (* DEFAULT_BUFFER_SIZE, used by to_chunks *)
  disable_headers : list bytes;   (* DEFAULT_DISABLE_HEADERS *)
  server_agent : bytes }.         (* PROXY_AGENT_HEADER_VALUE *)

Inductive conn_outcome := ConnOk | ConnRefused | ConnErr (e : exn).

(* TcpServerConnection as far as it is observable here *)
Record upstream := mkUp { up_addr : bytes * N; up_buffer : list bytes; up_external : bool;
                           up_connected : bool }.   (* _conn is not None *)

Record state := mkState {
  choice : option url;               (* ReverseProxy.choice *)
  upstream_ : option upstream;       (* TcpUpstreamConnectionHandler.upstream *)
  client_queue : list bytes;         (* what was passed to client.queue, in order *)
  connect_log : list (bytes * N);    (* every new_socket_connection attempt *)
  wrap_log : list bytes;             (* server_hostname of every TLS wrap *)
  orphans : list (bytes * N);        (* upstream objects replaced while still referenced by nobody *)
  route_set : bool }.                (* HttpWebServerPlugin.route is not None *)

Definition init_state : state := mkState None None [] [] [] [] false.

Definition with_choice (st : state) (c : option url) : state :=
  mkState c (upstream_ st) (client_queue st) (connect_log st) (wrap_log st) (orphans st) (route_set st).
Definition with_upstream (st : state) (u : option upstream) : state :=
  mkState (choice st) u (client_queue st) (connect_log st) (wrap_log st)
          (match upstream_ st with Some o => orphans st ++ [up_addr o] | None => orphans st end) (route_set st).
Definition upstream_queue (st : state) (b : bytes) : state :=
  mkState (choice st)
          (match upstream_ st with Some u => Some (mkUp (up_addr u) (up_buffer u ++ [b]) (up_external u) (up_connected u)) | None => None end)
          (client_queue st) (connect_log st) (wrap_log st) (orphans st) (route_set st).
Definition mark_connected (st : state) : state :=
  mkState (choice st)
          (match upstream_ st with Some u => Some (mkUp (up_addr u) (up_buffer u) (up_external u) true) | None => None end)
          (client_queue st) (connect_log st) (wrap_log st) (orphans st) (route_set st).
Definition client_queue_add (st : state) (b : bytes) : state :=
  mkState (choice st) (upstream_ st) (client_queue st ++ [b]) (connect_log st) (wrap_log st) (orphans st) (route_set st).
Definition log_connect (st : state) (a : bytes * N) : state :=
  mkState (choice st) (upstream_ st) (client_queue st) (connect_log st ++ [a]) (wrap_log st) (orphans st) (route_set st).
Definition log_wrap (st : state) (h : bytes) : state :=
  mkState (choice st) (upstream_ st) (client_queue st) (connect_log st) (wrap_log st ++ [h]) (orphans st) (route_set st).
Definition set_route (st : state) : state :=
  mkState (choice st) (upstream_ st) (client_queue st) (connect_log st) (wrap_log st) (orphans st) true.

(* random.choice(seq) with raw draw r *)
Definition random_choice {A} (l : list A) (r : nat) : result A :=
  match nth_error l (r mod length l)%nat with
  | Some x => Ok x
  | None => Err IndexError       (* only for the empty sequence *)
  end.

Definition HTTP_PROTO := bs "http".
Definition HTTPS_PROTO := bs "https".
Definition scheme_is (u : url) (s : bytes) : bool := option_eqb bytes_eqb (u_scheme u) (Some s).

(* `self.choice.port or DEFAULT` *)
Definition port_or (u : url) (d : N) : N :=
  match u_port u with Some p => if p =? 0 then d else p | None => d end.
(* reverse.py:112-116 (the conditional expression binds as (a or 80) if http else (a or 443)) *)
Definition upstream_port (u : url) : N := if scheme_is u HTTP_PROTO then port_or u 80 else port_or u 443.
(* reverse.py:131-140 *)
Definition host_arg (cfg : config) (u : url) : option bytes :=
  if rewrite_host_header cfg
  then Some (opt_bytes (u_hostname u) ++ match u_port u with Some p => [COLON] ++ dec_of_N p | None => [] end)
  else None.

(* str(url) (url.py __str__), evaluated for the access log when a dynamic route returns a Url:
   text_() of every truthy component, so a component that is not UTF-8 raises *)
Definition url_str (u : url) : result unit :=
  do _ <- (if opt_truthy (u_scheme u) then text_ (opt_bytes (u_scheme u)) else Ok []);
  do _ <- (if opt_truthy (u_hostname u) then text_ (opt_bytes (u_hostname u)) else Ok []);
  do _ <- (if opt_truthy (u_remainder u) then text_ (opt_bytes (u_remainder u)) else Ok []);
  Ok tt.

Section Routing.
  Variable pattern : Type.
  Variable re_match : pattern -> bytes -> bool.    (* re.compile(p).match(text) is not None *)

  Inductive dyn :=                                 (* what handle_route may return *)
  | DUrl (u : url) | DBytes (b : bytes) | DConn (addr : bytes * N).

  Inductive route :=
  | Static (pat : pattern) (urls : list url)
  | Dynamic (pat : pattern) (handle_route : request -> result dyn).

  Definition route_pat (r : route) : pattern :=
    match r with Static p _ => p | Dynamic p _ => p end.

  Record plugin := mkPlugin {
    before_routing : request -> option request;
    p_routes : list route }.

  (* ReverseProxy.routes(): every regex of every plugin (for each of the three protocols) *)
  Definition routes (ps : list plugin) : list pattern :=
    flat_map (fun p => map route_pat (p_routes p)) ps.

  (* pattern.match(text_(request.path)) *)
  Definition match_path (pat : pattern) (req : request) : result bool :=
    match r_path req with
    | None => Err TypeError
    | Some p => do t <- text_ p; Ok (re_match pat t)
    end.

  (* what happens when a route's pattern matches, up to and including the `break` *)
  Definition fire (r : route) (req : request) (rs : list nat) (st : state) (needs : bool)
    : state * list nat * result bool :=
    match r with
    | Static _ urls =>
        match random_choice urls (hd O rs) with
        | Ok u => (with_choice st (Some u), tl rs, Ok true)
        | Err e => (st, tl rs, Err e)
        end
    | Dynamic _ h =>
        match h req with
        | Err e => (st, rs, Err e)
        | Ok (DUrl u) =>
            match url_str u with                      (* self._upstream_proxy_pass = str(self.choice) *)
            | Ok _ => (with_choice st (Some u), rs, Ok true)
            | Err e => (with_choice st (Some u), rs, Err e)
            end
        | Ok (DBytes b) => (client_queue_add st b, rs, Ok needs)
        | Ok (DConn a) => (with_upstream st (Some (mkUp a [] true true)), rs, Ok needs)
        end
    end.

  (* inner loop of handle_request: `for route in plugin.routes(): if pattern.match(...): ...; break` *)
  Fixpoint routes_loop (rts : list route) (req : request) (rs : list nat) (st : state) (needs : bool)
    : state * list nat * result bool :=
    match rts with
    | [] => (st, rs, Ok needs)
    | r :: rest =>
        match match_path (route_pat r) req with
        | Err e => (st, rs, Err e)
        | Ok false => routes_loop rest req rs st needs
        | Ok true => fire r req rs st needs
        end
    end.

  (* outer loop: `for plugin in self.plugins:` — the `break` above leaves only the inner loop *)
  Fixpoint plugins_loop (ps : list plugin) (req : request) (rs : list nat) (st : state) (needs : bool)
    : state * list nat * result bool :=
    match ps with
    | [] => (st, rs, Ok needs)
    | p :: rest =>
        match routes_loop (p_routes p) req rs st needs with
        | (st', rs', Ok needs') => plugins_loop rest req rs' st' needs'
        | other => other
        end
    end.

  Fixpoint before_routing_all (ps : list plugin) (req : request) : result request :=
    match ps with
    | [] => Ok req
    | p :: rest => match before_routing p req with
                   | None => Err (HttpProtocolException 0)
                   | Some r => before_routing_all rest r
                   end
    end.

  (* reverse.py:110-150 *)
  Definition connect_and_forward (cfg : config) (co : conn_outcome) (wo : result unit)
             (req : request) (st : state) : state * result unit :=
    match choice st with
    | None => (st, Err AssertionError)
    | Some u =>
        if negb (opt_truthy (u_hostname u)) then (st, Err AssertionError) else
        let port := upstream_port u in
        match text_ (opt_bytes (u_hostname u)) with
        | Err e => (st, Err e)
        | Ok h =>
            let st1 := with_upstream st (Some (mkUp (h, port) [] false false)) in   (* initialize_upstream *)
            let st2 := log_connect st1 (h, port) in                            (* upstream.connect() *)
            match co with
            | ConnRefused => (st2, Err (HttpProtocolException 1))
            | ConnErr e => (st2, Err e)
            | ConnOk =>
                let st2 := mark_connected st2 in
                let wrapped :=
                  if scheme_is u HTTPS_PROTO
                  then (log_wrap st2 h, wo)
                  else (st2, Ok tt) in
                match wrapped with
                | (st3, Err e) => (st3, Err e)
                | (st3, Ok _) =>
                    let req' := set_path req (u_remainder u) in
                    match build (chunk_size cfg) (disable_headers cfg) req' (host_arg cfg u) with
                    | Err e => (st3, Err e)
                    | Ok raw => (upstream_queue st3 raw, Ok tt)
                    end
                end
            end
        end
    end.

  (* ReverseProxy.handle_request *)
  Definition handle_request (cfg : config) (ps : list plugin) (co : conn_outcome) (wo : result unit)
             (req : request) (rs : list nat) (st : state) : state * list nat * result unit :=
    match before_routing_all ps req with
    | Err e => (st, rs, Err e)
    | Ok req1 =>
        match plugins_loop ps req1 rs st false with
        | (st1, rs1, Err e) => (st1, rs1, Err e)
        | (st1, rs1, Ok false) => (st1, rs1, Ok tt)
        | (st1, rs1, Ok true) =>
            let '(st2, r) := connect_and_forward cfg co wo req1 st1 in (st2, rs1, r)
        end
    end.

  (* HttpWebServerPlugin._try_route with ReverseProxy as the only HttpWebServerBasePlugin
     (that is what --enable-reverse-proxy loads); do_upgrade() is False, so websocket upgrade
     requests take the same branch. *)
  Definition try_route (cfg : config) (ps : list plugin) (co : conn_outcome) (wo : result unit)
             (req : request) (path : bytes) (rs : list nat) (st : state) : state * list nat * result bool :=
    match text_ path with
    | Err e => (st, rs, Err e)
    | Ok t =>
        if existsb (fun pat => re_match pat t) (routes ps) then
          match handle_request cfg ps co wo req rs (set_route st) with
          | (st', rs', Ok _) => (st', rs', Ok false)
          | (st', rs', Err e) => (st', rs', Err e)
          end
        else (st, rs, Ok false)
    end.

  (* HttpWebServerPlugin.on_request_complete, static server disabled; returns the teardown flag *)
  Definition on_request_complete (cfg : config) (ps : list plugin) (co : conn_outcome) (wo : result unit)
             (req : request) (rs : list nat) (st : state) : state * list nat * result bool :=
    let path := or_slash (r_path req) in
    match try_route cfg ps co wo req path rs st with
    | (st', rs', Err e) => (st', rs', Err e)
    | (st', rs', Ok true) => (st', rs', Ok true)
    | (st', rs', Ok false) =>
        if route_set st' then (st', rs', Ok false)
        else (client_queue_add st' (NOT_FOUND_RESPONSE_PKT (server_agent cfg)), rs', Ok true)
    end.
End Routing.


(* ------------------------------------------------------------------ upstream -> client relay *)
(* outcome of upstream.recv() *)
Inductive recv_outcome := RData (b : bytes) | REof | RTimeout | RReset | RWantRead | RErr (e : exn).

(* TcpUpstreamConnectionHandler.read_from_descriptors with ReverseProxy.handle_upstream_data;
   [ready] = the upstream descriptor is in the readable set.  Returns the teardown flag. *)
Definition read_from_descriptors (ready : bool) (o : recv_outcome) (st : state) : state * result bool :=
  match upstream_ st with
  | None => (st, Ok false)
  | Some _ =>
      if negb ready then (st, Ok false) else
      match o with
      | RData b => (client_queue_add st b, Ok false)       (* handle_upstream_data: client.queue(raw) *)
      | REof => (st, Ok true)
      | RTimeout => (st, Ok true)
      | RReset => (st, Ok true)
      | RWantRead => (st, Ok false)
      | RErr e => (st, Err e)
      end
  end.

(* a run of reads; stops at the first teardown / exception *)
Fixpoint read_all (os : list recv_outcome) (st : state) : state * result bool :=
  match os with
  | [] => (st, Ok false)
  | o :: rest => match read_from_descriptors true o st with
                 | (st', Ok false) => read_all rest st'
                 | other => other
                 end
  end.

Arguments Static {pattern} pat urls.
Arguments Dynamic {pattern} pat handle_route.
Arguments route_pat {pattern} r.
Arguments mkPlugin {pattern} before_routing p_routes.
Arguments before_routing {pattern} p.
Arguments p_routes {pattern} p.
Arguments routes {pattern} ps.
Arguments match_path {pattern} re_match pat req.
Arguments fire {pattern} r req rs st needs.
Arguments routes_loop {pattern} re_match rts req rs st needs.
Arguments plugins_loop {pattern} re_match ps req rs st needs.
Arguments before_routing_all {pattern} ps req.
Arguments handle_request {pattern} re_match cfg ps co wo req rs st.
Arguments try_route {pattern} re_match cfg ps co wo req path rs st.
Arguments on_request_complete {pattern} re_match cfg ps co wo req rs st.

(* ================================================================== reference specification
   What the upstream peer reads, independently of the builders above: an RFC 7230 section 3
   reading of a request message (request-line, header fields with OWS around the value, empty
   line, then the body bytes).  Cross-validated on every run by h11 on the bytes the fake
   upstream socket received. *)
Record message := mkMsg {
  m_method : bytes; m_target : bytes; m_version : bytes;
  m_headers : list (bytes * bytes); m_body : bytes }.

Definition is_ows (x : N) : bool := (x =? 32) || (x =? 9).
Fixpoint drop_ows (l : bytes) : bytes :=
  match l with x :: t => if is_ows x then drop_ows t else l | [] => [] end.
Definition strip_ows (l : bytes) : bytes := rev (drop_ows (rev (drop_ows l))).

Definition ref_header (line : bytes) : option (bytes * bytes) :=
  match split_once [COLON] line with
  | Some (k, v) => Some (k, strip_ows v)
  | None => None
  end.

Fixpoint ref_headers (fuel : nat) (raw : bytes) : option (list (bytes * bytes) * bytes) :=
  match fuel with
  | O => None
  | S f =>
      match split_once CRLF raw with
      | None => None
      | Some ([], rest) => Some ([], rest)
      | Some (line, rest) =>
          match ref_header line, ref_headers f rest with
          | Some h, Some (hs, body) => Some (h :: hs, body)
          | _, _ => None
          end
      end
  end.

Definition ref_parse (raw : bytes) : option message :=
  match split_once CRLF raw with
  | None => None
  | Some (line, rest) =>
      match split_once [SP] line with
      | None => None
      | Some (m, r1) =>
          match split_once [SP] r1 with
          | None => None
          | Some (t, v) =>
              match ref_headers (S (length rest)) rest with
              | Some (hs, body) => Some (mkMsg m t v hs body)
              | None => None
              end
          end
      end
  end.

(* well-formedness of the parts of a message (what a parsed request satisfies) *)
Definition no_byte (c : N) (l : bytes) : bool := forallb (fun x => negb (x =? c)) l.
Definition no_crlf (l : bytes) : bool := no_byte 13 l && no_byte 10 l.
Definition hd_not_ows (l : bytes) : bool := match l with [] => true | x :: _ => negb (is_ows x) end.
Definition wf_token (l : bytes) : bool := truthy l && no_crlf l && no_byte SP l.      (* method, request-target *)
Definition wf_version (l : bytes) : bool := truthy l && no_crlf l.
Definition wf_name (l : bytes) : bool := no_crlf l && no_byte COLON l.
Definition wf_value (l : bytes) : bool := no_crlf l && hd_not_ows l && hd_not_ows (rev l).
Definition wf_header (kv : bytes * bytes) : bool := wf_name (fst kv) && wf_value (snd kv).

Fixpoint nodup_keys (l : list bytes) : bool :=
  match l with [] => true | x :: t => negb (existsb (bytes_eqb x) t) && nodup_keys t end.

Definition h_orig (e : bytes * (bytes * bytes)) : bytes := fst (snd e).
Definition h_value (e : bytes * (bytes * bytes)) : bytes := snd (snd e).

Definition wf_request (r : request) : bool :=
  wf_token (r_method r) && wf_version (r_version r)
  && forallb (fun e => wf_header (h_orig e, h_value e)) (r_headers r)
  && nodup_keys (map h_orig (r_headers r)).

(* a configured upstream: non-empty UTF-8 host without blanks at its ends, path usable in a request line,
   scheme and path UTF-8 *)
Definition wf_url (u : url) : bool :=
  opt_truthy (u_hostname u) && utf8_valid (opt_bytes (u_hostname u)) && wf_value (opt_bytes (u_hostname u))
  && wf_token (or_slash (u_remainder u))
  && utf8_valid (opt_bytes (u_scheme u)) && utf8_valid (opt_bytes (u_remainder u)).

(* the upstream authority: host[:port] exactly as configured *)
Definition host_value (u : url) : bytes :=
  opt_bytes (u_hostname u) ++ match u_port u with Some p => [COLON] ++ dec_of_N p | None => [] end.

Definition rewrite_host (cfg : config) (u : url) (e : bytes * (bytes * bytes)) : bytes * bytes :=
  (h_orig e,
   if rewrite_host_header cfg && bytes_eqb (lower (h_orig e)) (bs "host") then host_value u else h_value e).

(* the request the upstream must see for client request [req] routed to [u] *)
Definition forwarded (cfg : config) (u : url) (req : request) : message :=
  let body := get_body_or_chunks (chunk_size cfg) req in
  mkMsg (r_method req) (or_slash (u_remainder u)) (r_version req)
        (fix_content_length body (map (rewrite_host cfg u) (r_headers req)))
        (opt_bytes body).

(* ------------------------------------------------------------------ routing, specification side *)
(* the first route of a plugin's table whose pattern matches the path *)
Definition first_match {pattern} (re_match : pattern -> bytes -> bool) (p : bytes)
           (rts : list (route pattern)) : option (route pattern) :=
  find (fun r => re_match (route_pat r) p) rts.

(* the routes that fire for a path: the first matching route of every plugin, in plugin order *)
Definition fired {pattern} (re_match : pattern -> bytes -> bool) (p : bytes)
           (ps : list (plugin pattern)) : list (route pattern) :=
  flat_map (fun pl => match first_match re_match p (p_routes pl) with Some r => [r] | None => [] end) ps.

Fixpoint fire_all {pattern} (frs : list (route pattern)) (req : request) (rs : list nat) (st : state)
         (needs : bool) : state * list nat * result bool :=
  match frs with
  | [] => (st, rs, Ok needs)
  | r :: rest =>
      match fire r req rs st needs with
      | (st', rs', Ok needs') => fire_all rest req rs' st' needs'
      | other => other
      end
  end.

(* route [r], on request [req] and raw random draw [d], designates upstream [u] *)
Definition selects {pattern} (r : route pattern) (req : request) (d : nat) (u : url) : Prop :=
  match r with
  | Static _ urls => random_choice urls d = Ok u
  | Dynamic _ h => h req = Ok (DUrl u)
  end.

(* [u] is one of the upstreams route [r] can designate for [req] *)
Definition offers {pattern} (r : route pattern) (req : request) (u : url) : Prop :=
  match r with
  | Static _ urls => In u urls
  | Dynamic _ h => h req = Ok (DUrl u)
  end.

(* draws left after route [r] fired *)
Definition draws_after {pattern} (r : route pattern) (rs : list nat) : list nat :=
  match r with Static _ _ => tl rs | Dynamic _ _ => rs end.
