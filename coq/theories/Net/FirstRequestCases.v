(* Correspondence relations for C06: each case carries the input and what the implementation
   produced; check_case evaluates the model (Net/FirstRequest.v, Net/Responses.v) and compares.
   CRecognise cross-validates the RFC 7230 recogniser against h11's verdict. *)
From PM Require Import Lib.Bytes Lib.PyStr Http.Url Http.Chunk Http.Parser Net.Responses Net.FirstRequest.
From Coq Require Import ZArith.

(* what the harness observes on the real handler after each event *)
Record obs := {
  o_buffer : list bytes;        (* work.buffer *)
  o_must_flush : bool; o_reads_teared : bool; o_torn : bool;
  o_plugin : option N;          (* index of the class of handler.plugin *)
  o_state : option N;           (* request.state; None = not compared (after a rejection the
                                   Python parser is left half-updated by the exception) *)
  o_sent : bytes;               (* everything the client socket accepted *)
  o_hq : list bytes;            (* queued by the handler itself *)
  o_orc : N; o_ocd : list bytes; o_parse : N;
  o_raised : bool;              (* an exception escaped handle_events *)
  o_rbuf : option (option bytes) }.   (* request.buffer (None = not compared, as for o_state) *)

Definition mk_obs bf mf rt tn pl st sn hq' oc od pc rs rb : obs :=
  {| o_buffer := bf; o_must_flush := mf; o_reads_teared := rt; o_torn := tn; o_plugin := pl;
     o_state := st; o_sent := sn; o_hq := hq'; o_orc := oc; o_ocd := od; o_parse := pc; o_raised := rs; o_rbuf := rb |}.

Definition escaped (h : handler) : bool :=
  match exc h with
  | Some (Other (OSError _)) => false     (* swallowed by handle_readables *)
  | Some (Other _) => true
  | _ => false
  end.

Definition obs_matches (h : handler) (o : obs) : bool :=
  list_eqb bytes_eqb (buffer h) (o_buffer o) &&
  Bool.eqb (must_flush h) (o_must_flush o) && Bool.eqb (reads_teared h) (o_reads_teared o) &&
  Bool.eqb (torn h) (o_torn o) && option_eqb N.eqb (plugin h) (o_plugin o) &&
  match o_state o with Some s => state (request h) =? s | None => true end &&
  bytes_eqb (sent h) (o_sent o) && list_eqb bytes_eqb (map fst (hq h)) (o_hq o) &&
  (orc_calls h =? o_orc o) && list_eqb bytes_eqb (ocd h) (o_ocd o) && (parse_calls h =? o_parse o) &&
  Bool.eqb (escaped h) (o_raised o) &&
  match o_rbuf o with Some b => option_eqb bytes_eqb (Parser.buffer (request h)) b | None => true end.

(* scripted plugin: on_request_complete always ends as told; the i-th on_client_data call ends
   as the i-th script entry (plain return when the script is exhausted) *)
Definition orc_const (x : list bytes * orc_outcome) : N -> parser -> list bytes * orc_outcome := fun _ _ => x.
Definition ocd_script (s : list (list bytes * ocd_outcome))
  : N -> parser -> list bytes -> bytes -> list bytes * ocd_outcome :=
  fun _ _ prev _ => nth (length prev) s ([], OcdReturn).

Fixpoint run_obs (cfg : config) orc ocd (h : handler) (evs : list event) (os : list obs) : bool :=
  match evs, os with
  | [], [] => true
  | ev :: evs', o :: os' =>
      let h' := step cfg orc ocd h ev in
      obs_matches h' o && run_obs cfg orc ocd h' evs' os'
  | _, _ => false
  end.

Definition framing_code (f : framing) : N * N :=
  match f with NoBody => (0, 0) | Counted n => (1, n) | UntilClose => (2, 0) end.

Inductive case :=
| CHandler (cfg : config) (orc : list bytes * orc_outcome) (ocd : list (list bytes * ocd_outcome))
           (evs : list event) (expected : list obs)
  (* build_http_response on the arguments, h11's verdict on the bytes the implementation built,
     and the recogniser on the same bytes *)
| CBuild (connect : bool) (a : bargs) (expected : bytes) (h11 : N) (status : N) (nheaders : N)
         (blen : N) (body : option bytes)
| COk (gz_out : bytes) (content : option bytes) (headers : option hdrs) (compress : bool)
      (min_len : Z) (conn_close no_cl : bool) (expected : bytes)
| CCanned (agent : bytes) (which : N) (expected : bytes)
| CRedirect (permanent : bool) (location : bytes) (expected : bytes)
| CExnResponse (agent : bytes) (e : proto_exn) (expected : option bytes)
  (* h11: 0 = rejects; 1 = accepts exactly one response + EOF; 2 = accepts, but the input
     contains something h11 is knowingly more lenient about than RFC 7230;
     the body h11 decoded is given as [Some body], or as None when it is the last blen bytes of raw *)
| CRecognise (connect : bool) (raw : bytes) (h11 : N) (status : N) (nheaders : N) (blen : N) (body : option bytes).

Definition canned (agent : bytes) (which : N) : bytes :=
  if which =? 0 then PROXY_TUNNEL_ESTABLISHED_RESPONSE_PKT
  else if which =? 1 then PROXY_TUNNEL_UNSUPPORTED_SCHEME
  else if which =? 2 then PROXY_AUTH_FAILED_RESPONSE_PKT agent
  else if which =? 3 then BAD_REQUEST_RESPONSE_PKT agent
  else if which =? 4 then NOT_FOUND_RESPONSE_PKT agent
  else if which =? 5 then NOT_IMPLEMENTED_RESPONSE_PKT agent
  else BAD_GATEWAY_RESPONSE_PKT agent.

Definition suffix (n : N) (l : bytes) : bytes := drop (len l - n) l.

Definition check_recognise (connect : bool) (raw : bytes) (h11 status nheaders blen : N) (body : option bytes) : bool :=
  let body := match body with Some b => b | None => suffix blen raw end in
  match recognise false connect raw with
  | Some v =>
      if framing_ok v then
        negb (h11 =? 0) && (rv_status v =? status) && (N.of_nat (length (rv_headers v)) =? nheaders) &&
        bytes_eqb (rv_body v) body
      else match rv_framing v with
           | UntilClose => true   (* close-delimited without announcing the close: accepted by
                                     h11, deliberately not by framing_ok *)
           | _ => negb (h11 =? 1)
           end
  | None => negb (h11 =? 1)
  end.

Definition check_case (c : case) : bool :=
  match c with
  | CHandler cfg orc ocd evs expected =>
      run_obs cfg (orc_const orc) (ocd_script ocd) new_handler evs expected
  | CBuild connect a e h11 status nheaders blen body =>
      bytes_eqb (build_http_response a) e &&
      (* wf_args -> the model's recogniser and h11 both accept *)
      (if wf_args connect a then wf_response connect (build_http_response a) && negb (h11 =? 0) else true) &&
      check_recognise connect e h11 status nheaders blen body
  | COk gz_out content headers compress min_len cc ncl e =>
      bytes_eqb (okResponse (fun _ => gz_out) content headers compress min_len cc ncl) e
  | CCanned agent which e => bytes_eqb (canned agent which) e
  | CRedirect perm loc e =>
      bytes_eqb (if perm then permanentRedirectResponse loc else seeOthersResponse loc) e
  | CExnResponse agent e exp => option_eqb bytes_eqb (exn_response agent e) exp
  | CRecognise connect raw h11 status nheaders blen body =>
      check_recognise connect raw h11 status nheaders blen body
  end.

(* model outputs for replay files *)
Definition run_trace (cfg : config) orc ocd (evs : list event) : list handler :=
  (fix go h evs := match evs with [] => [] | ev :: t => let h' := step cfg (orc_const orc) (ocd_script ocd) h ev in h' :: go h' t end)
    new_handler evs.
