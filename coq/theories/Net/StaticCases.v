(* Correspondence relations for C13: each case carries an input and what the implementation
   (or an independent reference) returned for it; check_case evaluates the model and compares.
   The environment the Python code called into during the run (gzip.compress, mimetypes.guess_type)
   is part of the case as a transcript (argument -> result); the file system is the table of the
   real temporary tree the implementation was run on. *)
From PM Require Import Lib.Bytes Lib.PyStr Net.Static Net.StaticSpec.
From Coq Require Import ZArith.

Inductive obs (A : Type) := OkObs (a : A) | ErrObs (code : N).
Arguments OkObs {A} a.
Arguments ErrObs {A} code.

Definition obs_eqb {A} (eqb : A -> A -> bool) (r : result A) (o : obs A) : bool :=
  match r, o with
  | Ok a, OkObs c => eqb a c
  | Err e, ErrObs code => exn_code e =? code
  | _, _ => false
  end.

Fixpoint assoc {V} (k : bytes) (l : list (bytes * V)) : option V :=
  match l with
  | [] => None
  | (k', v) :: t => if bytes_eqb k k' then Some v else assoc k t
  end.

(* transcript of gzip.compress: argument -> result (an argument never seen compresses to b'') *)
Definition gz_of_log (log : list (bytes * bytes)) (x : bytes) : bytes :=
  match assoc x log with Some y => y | None => [] end.
(* transcript of mimetypes.guess_type(path)[0] *)
Definition guess_of_log (log : list (bytes * option bytes)) (x : bytes) : option bytes :=
  match assoc x log with Some y => y | None => None end.

Definition tree := list (list bytes * entry).

Inductive case :=
(* os.path.normpath(p) *)
| CNorm (p expected : bytes)
(* the reference resolution against os.path.realpath on the real tree (names of the result) *)
| CResolve (p : bytes) (expected : list bytes)
(* open(p,'rb').read() on the real tree *)
| COpen (t : tree) (p : bytes) (expected : obs bytes)
(* HttpWebServerPlugin._try_static_or_404 (directly, or through a whole request handled by
   HttpProtocolHandler): packet queued for the client / exception escaping *)
| CStatic (t : tree) (dir : bytes) (mcl : Z) (agent : bytes)
          (guesslog : list (bytes * option bytes)) (gzlog : list (bytes * bytes))
          (path : bytes) (expected : obs bytes)
(* the confinement decision alone, against realpath containment (independent reference) *)
| CInside (dir path : bytes) (expected : bool).

Fixpoint names_list_eqb (x y : list bytes) : bool :=
  match x, y with
  | [], [] => true
  | a :: x', c :: y' => bytes_eqb a c && names_list_eqb x' y'
  | _, _ => false
  end.

Definition check_case (c : case) : bool :=
  match c with
  | CNorm p e => bytes_eqb (normpath p) e
  | CResolve p e => names_list_eqb (resolve p) e
  | COpen t p e =>
      obs_eqb bytes_eqb (py_open (kopen (table_look t)) p) e
  | CStatic t dir mcl agent guesslog gzlog path e =>
      obs_eqb bytes_eqb
        (try_static_or_404 dir mcl agent (kopen (table_look t)) (guess_of_log guesslog)
                           (gz_of_log gzlog) path) e
  | CInside dir path e =>
      Bool.eqb (confinement_check dir path) e
      && Bool.eqb (names_prefixb (resolve dir) (resolve (dir ++ path))) e
  end.
