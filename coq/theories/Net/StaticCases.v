(* Correspondence relations for C13: each case carries an input and what the implementation
   (or an independent reference) returned for it; check_case evaluates the model and compares.
   The environment the Python code called into during the run (gzip.compress, mimetypes.guess_type)
   is part of the case as a transcript (argument -> result); the file system is the table of the
   real temporary tree the implementation was run on. *)
From PM Require Import Lib.Bytes Lib.PyStr Net.Static Net.StaticSpec.
From Coq Require Import ZArith.

(* byte strings of the generated case files are written as hexadecimal string literals
   (a string token is parsed much faster than a list of numerals) *)
Definition hexval (c : ascii) : N :=
  let n := N_of_ascii c in
  if (48 <=? n) && (n <=? 57) then n - 48 else if (97 <=? n) && (n <=? 102) then n - 87 else 0.
Fixpoint hx (s : string) : bytes :=
  match s with
  | String a (String b t) => (16 * hexval a + hexval b) :: hx t
  | _ => []
  end.

Inductive obs (A : Type) := OkObs (a : A) | ErrObs (code : N).
Arguments OkObs {A} a.
Arguments ErrObs {A} code.

Definition obs_eqb {A} (eqb : A -> A -> bool) (r : result A) (o : obs A) : bool :=
  match r, o with
  | Ok a, OkObs c => eqb a c
  | Err e, ErrObs code => exn_code e =? code
  | _, _ => false
  end.

Fixpoint assoc {V} (k : bytes) (l : list (bytes * V)) : option V :=
  match l with
  | [] => None
  | (k', v) :: t => if bytes_eqb k k' then Some v else assoc k t
  end.

(* transcript of gzip.compress: argument -> result (an argument never seen compresses to b'') *)
Definition gz_of_log (log : list (bytes * bytes)) (x : bytes) : bytes :=
  match assoc x log with Some y => y | None => [] end.
(* transcript of mimetypes.guess_type(path)[0] *)
Definition guess_of_log (log : list (bytes * option bytes)) (x : bytes) : option bytes :=
  match assoc x log with Some y => y | None => None end.

Definition tree := list (list bytes * entry).
Definition mkdir (names : list bytes) : list bytes * entry := (names, EDir).
Definition mkfile (names : list bytes) (content : bytes) : list bytes * entry := (names, EFile content).

Inductive case :=
(* os.path.normpath(p) *)
| CNorm (p expected : bytes)
(* the reference resolution against os.path.realpath on the real tree (names of the result) *)
| CResolve (p : bytes) (expected : list bytes)
(* open(p,'rb').read() on the real tree *)
| COpen (t : tree) (p : bytes) (expected : obs bytes)
(* HttpWebServerPlugin._try_static_or_404 (directly, or through a whole request handled by
   HttpProtocolHandler): packet queued for the client / exception escaping *)
| CStatic (t : tree) (dir : bytes) (mcl : Z) (agent : bytes)
          (guesslog : list (bytes * option bytes)) (gzlog : list (bytes * bytes))
          (path : bytes) (expected : obs bytes)
(* the confinement decision alone, against realpath containment (independent reference) *)
| CInside (dir path : bytes) (expected : bool)
(* the client-side reading of a reply actually produced by the implementation: head lines and body
   as Python's bytes.split gives them *)
| CRead (pkt : bytes) (expected : option (list bytes * bytes))
(* a 200 reply produced by the implementation, read by the reference client and decoded with the
   inverse of the recorded gzip.compress calls, against the bytes of the file on disk *)
| CClient (pkt : bytes) (gzlog : list (bytes * bytes)) (expected : bytes).

(* inverse of the gzip.compress transcript *)
Fixpoint gunz_of_log (log : list (bytes * bytes)) (y : bytes) : bytes :=
  match log with
  | [] => []
  | (x, y') :: t => if bytes_eqb y y' then x else gunz_of_log t y
  end.

Fixpoint names_list_eqb (x y : list bytes) : bool :=
  match x, y with
  | [], [] => true
  | a :: x', c :: y' => bytes_eqb a c && names_list_eqb x' y'
  | _, _ => false
  end.

Definition check_case (c : case) : bool :=
  match c with
  | CNorm p e => bytes_eqb (normpath p) e
  | CResolve p e => names_list_eqb (resolve p) e
  | COpen t p e =>
      obs_eqb bytes_eqb (py_open (kopen (table_look t)) p) e
  | CStatic t dir mcl agent guesslog gzlog path e =>
      obs_eqb bytes_eqb
        (try_static_or_404 dir mcl agent (kopen (table_look t)) (guess_of_log guesslog)
                           (gz_of_log gzlog) path) e
  | CInside dir path e =>
      Bool.eqb (confinement_check dir path) e
      && Bool.eqb (names_prefixb (resolve dir) (resolve (dir ++ path))) e
  | CRead pkt e =>
      option_eqb (fun x y => names_list_eqb (fst x) (fst y) && bytes_eqb (snd x) (snd y)) (read_reply pkt) e
  | CClient pkt gzlog e =>
      match read_reply pkt with
      | Some (status :: hdrs, body) =>
          bytes_eqb status (bs "HTTP/1.1 200 OK") && bytes_eqb (client_body (gunz_of_log gzlog) hdrs body) e
      | _ => false
      end
  end.
