(* Facts about Net/Forward.v (property C02). *)
From PM Require Import Lib.Bytes Lib.BytesFacts Lib.PyStr Lib.PyStrFacts Lib.PyStrFacts2 Http.Url Http.Chunk Http.ChunkFacts
  Http.Parser Http.ParserFacts Http.Builders Http.BuildersFacts Http.Grammar Http.CodecFacts Http.UrlSpec Http.Upstream Http.UrlFacts
  Net.Forward.
From PM Require Net.Auth.
From Coq Require Import ZArith Lia.

(* ===================================================================================== *)
(* A. the header dictionary seen as the list of fields it stores                           *)

Notation U p := (unopt (headers p)).

Lemma hdr_inv_lift h : hdr_inv h -> unopt h = map lift1 (map snd (unopt h)) /\ NoDup (lkeys (map snd (unopt h))).
Proof.
  intros [Hn Hf]. set (d := unopt h) in *. clearbody d. split.
  - induction d as [|[k [o v]] t IH]; [reflexivity|]. inversion Hf as [|? ? E Hf']; subst. inversion Hn; subst.
    cbn [fst snd] in E. subst k. cbn [map snd]. unfold lift1 at 1. cbn [fst snd]. f_equal. now apply IH.
  - replace (lkeys (map snd d)) with (dict_keys d); [exact Hn|].
    unfold lkeys, dict_keys. rewrite map_map. apply map_ext_in. intros e He.
    rewrite Forall_forall in Hf. now apply Hf.
Qed.

Lemma lift_hdr_inv h hs : unopt h = map lift1 hs -> NoDup (lkeys hs) -> hdr_inv h.
Proof.
  intros E Hn. unfold hdr_inv. rewrite E. split.
  - unfold dict_keys. rewrite map_map. exact Hn.
  - apply Forall_forall. intros e He. apply in_map_iff in He as (kv & <- & _). reflexivity.
Qed.

Lemma view_lift hs : map snd (map lift1 hs) = hs.
Proof. rewrite map_map. rewrite <- (map_id hs) at 2. apply map_ext. intros [k v]. reflexivity. Qed.

(* ---- filter / set_field on field lists ---- *)
Definition keep_not (ln : bytes) (nv : bytes * bytes) : bool := negb (bytes_eqb (lower (fst nv)) ln).

Lemma lkeys_filter_subset f hs x : In x (lkeys (filter f hs)) -> In x (lkeys hs).
Proof.
  unfold lkeys. rewrite !in_map_iff. intros (kv & E & Hi). apply filter_In in Hi as [Hi _]. exists kv. now split.
Qed.

Lemma NoDup_lkeys_filter f hs : NoDup (lkeys hs) -> NoDup (lkeys (filter f hs)).
Proof.
  induction hs as [|kv t IH]; intros H; [constructor|]. cbn [filter]. cbn [lkeys map] in H. inversion H; subst.
  destruct (f kv); [|now apply IH]. cbn [lkeys map]. constructor; [|now apply IH].
  intros C. apply lkeys_filter_subset in C. contradiction.
Qed.

Lemma filter_keep_all ln hs : ~ In ln (lkeys hs) -> filter (keep_not ln) hs = hs.
Proof.
  induction hs as [|[k v] t IH]; intros H; [reflexivity|]. cbn [filter]. unfold keep_not at 1. cbn [fst]. cbn [lkeys map fst In] in H.
  destruct (bytes_eqb_spec (lower k) ln) as [E|E]; [exfalso; apply H; now left|]. cbn [negb].
  rewrite IH; [reflexivity|]. intros C. apply H. now right.
Qed.

(* del self.headers[k]: the (only) field of that name disappears *)
Lemma dict_del_lift ln hs : NoDup (lkeys hs) ->
  dict_del ln (map lift1 hs) = map lift1 (filter (keep_not ln) hs).
Proof.
  induction hs as [|[k v] t IH]; intros H; [reflexivity|]. cbn [lkeys map fst] in H. inversion H as [|? ? Hn Hd]; subst.
  cbn [map dict_del filter]. unfold lift1 at 1, keep_not at 1. cbn [fst snd].
  destruct (bytes_eqb_spec ln (lower k)) as [E|E]; destruct (bytes_eqb_spec (lower k) ln) as [E'|E']; try congruence; cbn [negb].
  - subst ln. rewrite filter_keep_all; [reflexivity|exact Hn].
  - cbn [map lift1 fst snd]. f_equal. now apply IH.
Qed.

Lemma lkeys_set_field name v hs :
  lkeys (set_field name v hs) = if has_key_ci (lower name) hs then lkeys hs else lkeys hs ++ [lower name].
Proof.
  induction hs as [|[k v'] t IH]; cbn [set_field lkeys map fst has_key_ci existsb]; [reflexivity|].
  destruct (bytes_eqb_spec (lower k) (lower name)) as [E|E]; cbn [orb map fst lkeys].
  - now rewrite E.
  - fold (lkeys (set_field name v t)). rewrite IH. fold (has_key_ci (lower name) t).
    destruct (has_key_ci (lower name) t); reflexivity.
Qed.

Lemma NoDup_lkeys_set_field name v hs : NoDup (lkeys hs) -> NoDup (lkeys (set_field name v hs)).
Proof.
  intros H. rewrite lkeys_set_field. destruct (has_key_ci (lower name) hs) eqn:E; [exact H|].
  apply NoDup_snoc; [exact H|]. now apply has_key_ci_false.
Qed.

(* self.headers[name.lower()] = (name, v) *)
Lemma dict_set_lift name v hs :
  dict_set (lower name) (name, v) (map lift1 hs) = map lift1 (set_field name v hs).
Proof.
  induction hs as [|[k v'] t IH]; [reflexivity|]. cbn [map lift1 fst snd dict_set set_field].
  destruct (bytes_eqb_spec (lower name) (lower k)) as [E|E]; destruct (bytes_eqb_spec (lower k) (lower name)) as [E'|E'];
    try congruence; cbn [map lift1 fst snd]; [reflexivity|]. f_equal. exact IH.
Qed.

Lemma dict_get_lift ln hs :
  dict_get ln (map lift1 hs) =
  match find (fun kv => bytes_eqb (lower (fst kv)) ln) hs with Some kv => Some kv | None => None end.
Proof.
  induction hs as [|[k v] t IH]; [reflexivity|]. cbn [map lift1 fst snd dict_get find].
  destruct (bytes_eqb_spec ln (lower k)) as [E|E]; destruct (bytes_eqb_spec (lower k) ln) as [E'|E']; congruence.
Qed.

(* ---- the parser methods in terms of the field list ---- *)
Lemma has_header_view p hs key : U p = map lift1 hs -> has_header p key = has_key_ci (lower key) hs.
Proof.
  intros E. unfold has_header. destruct (headers p) as [d|]; cbn [unopt] in E.
  - rewrite E. apply dict_has_lift.
  - destruct hs; [reflexivity|discriminate].
Qed.

Lemma header_view p hs key : U p = map lift1 hs ->
  header p key = match get_ci (lower key) hs with Some v => Ok v | None => Err KeyError end.
Proof.
  intros E. unfold header, get_ci. destruct (headers p) as [d|]; cbn [unopt] in E.
  - rewrite E, dict_get_lift. destruct (find _ hs) as [[k v]|]; reflexivity.
  - destruct hs; [reflexivity|discriminate].
Qed.

Lemma add_header_view p hs name v : U p = map lift1 hs -> U (add_header p name v) = map lift1 (set_field name v hs).
Proof.
  intros E. unfold add_header, add_header_d. cbn [headers set_headers unopt].
  rewrite <- dict_set_lift. f_equal. exact E.
Qed.

Lemma del_header_view p hs key : U p = map lift1 hs -> NoDup (lkeys hs) ->
  U (del_header p key) = map lift1 (filter (keep_not (lower key)) hs).
Proof.
  intros E Hn. unfold del_header. destruct (headers p) as [[|e d]|] eqn:Hh; cbn [unopt] in E.
  - rewrite Hh. cbn [unopt]. destruct hs; [reflexivity|discriminate].
  - destruct (dict_has (lower key) (e :: d)) eqn:Hd.
    + cbn [headers set_headers unopt]. rewrite E. now apply dict_del_lift.
    + rewrite Hh. cbn [unopt]. rewrite E. f_equal. symmetry. apply filter_keep_all.
      apply has_key_ci_false. rewrite <- (dict_has_lift (lower key) hs), <- E. exact Hd.
  - rewrite Hh. cbn [unopt]. destruct hs; [reflexivity|discriminate].
Qed.

(* the other attributes are untouched by the header operations *)
Definition same_rest (p q : parser) : Prop :=
  ty q = ty p /\ state q = state p /\ method q = method p /\ version q = version p /\ path q = path p /\
  Parser.host q = Parser.host p /\ Parser.port q = Parser.port p /\
  body q = body p /\ is_chunked_encoded q = is_chunked_encoded p /\ is_https_tunnel q = is_https_tunnel p /\
  buffer q = buffer p.

Lemma same_rest_refl p : same_rest p p.
Proof. repeat split. Qed.
Lemma same_rest_trans p q r : same_rest p q -> same_rest q r -> same_rest p r.
Proof. unfold same_rest. intuition congruence. Qed.
Lemma same_rest_add p k v : same_rest p (add_header p k v).
Proof. repeat split. Qed.
Lemma same_rest_del p k : same_rest p (del_header p k).
Proof.
  unfold del_header. destruct (headers p) as [[|e d]|]; try apply same_rest_refl.
  destruct (dict_has (lower k) (e :: d)); [repeat split|apply same_rest_refl].
Qed.

(* ---- drop_hop is the two deletions ---- *)
Lemma lower_lower l : lower (lower l) = lower l.
Proof.
  unfold lower. rewrite map_map. apply map_ext. intros x. unfold lower_byte.
  destruct (is_upper x) eqn:E; [|now rewrite E].
  unfold is_upper in *. apply andb_true_iff in E as [E1 E2]. apply N.leb_le in E1, E2.
  replace (65 <=? x + 32) with true by (symmetry; apply N.leb_le; lia).
  replace (x + 32 <=? 90) with false by (symmetry; apply N.leb_gt; lia). reflexivity.
Qed.

Lemma drop_hop_filters hs :
  filter (keep_not (lower (lower PROXY_CONNECTION))) (filter (keep_not (lower (lower PROXY_AUTHORIZATION))) hs) = drop_hop hs.
Proof.
  unfold drop_hop. induction hs as [|[k v] t IH]; [reflexivity|]. cbn [filter].
  unfold keep_not at 2, is_hop at 1. cbn [fst mem_bytes].
  change (lower (lower PROXY_AUTHORIZATION)) with PROXY_AUTHORIZATION.
  change (lower (lower PROXY_CONNECTION)) with PROXY_CONNECTION in *.
  destruct (bytes_eqb (lower k) PROXY_AUTHORIZATION) eqn:E1; cbn [negb orb].
  - exact IH.
  - cbn [filter]. unfold keep_not at 1. cbn [fst]. rewrite orb_false_r.
    destruct (bytes_eqb (lower k) PROXY_CONNECTION) eqn:E2; cbn [negb]; [exact IH|]. f_equal. exact IH.
Qed.

Lemma del_headers_view p hs : U p = map lift1 hs -> NoDup (lkeys hs) ->
  let q := del_headers p [PROXY_AUTHORIZATION; PROXY_CONNECTION] in
  U q = map lift1 (drop_hop hs) /\ NoDup (lkeys (drop_hop hs)) /\ same_rest p q.
Proof.
  intros E Hn q. unfold q, del_headers. cbn [fold_left].
  set (p1 := del_header p (lower PROXY_AUTHORIZATION)).
  assert (E1 : U p1 = map lift1 (filter (keep_not (lower (lower PROXY_AUTHORIZATION))) hs)) by now apply del_header_view.
  assert (N1 : NoDup (lkeys (filter (keep_not (lower (lower PROXY_AUTHORIZATION))) hs))) by now apply NoDup_lkeys_filter.
  pose proof (del_header_view p1 _ (lower PROXY_CONNECTION) E1 N1) as E2.
  rewrite drop_hop_filters in E2. split; [exact E2|]. split.
  - unfold drop_hop. now apply NoDup_lkeys_filter.
  - eapply same_rest_trans; apply same_rest_del.
Qed.

(* ---- the dict comprehension of build() ---- *)
Lemma rebuilt_request_headers_view dis hs : forall acc, NoDup (map fst acc ++ map fst hs) ->
  rebuilt_request_headers dis None (map lift1 hs) acc =
  acc ++ filter (fun nv => negb (mem_bytes (lower (fst nv)) dis)) hs.
Proof.
  induction hs as [|[k v] t IH]; intros acc H; cbn [map rebuilt_request_headers lift1 fst snd filter]; [now rewrite app_nil_r|].
  rewrite lower_lower.
  assert (Hk : ~ In k (dict_keys acc)).
  { unfold dict_keys. cbn [map fst] in H. intros C. apply NoDup_remove_2 in H. apply H. apply in_or_app. now left. }
  destruct (mem_bytes (lower k) dis); cbn [negb].
  - apply IH. cbn [map fst] in H. now apply NoDup_remove_1 in H.
  - rewrite dict_set_new by exact Hk. rewrite IH.
    + now rewrite <- app_assoc.
    + rewrite map_app. cbn [map fst]. rewrite <- app_assoc. exact H.
Qed.

Lemma rebuilt_of_view dis p hs : U p = map lift1 hs -> NoDup (lkeys hs) ->
  match headers p with
  | Some ((_ :: _) as h) => rebuilt_request_headers dis None h []
  | _ => []
  end = filter (fun nv => negb (mem_bytes (lower (fst nv)) dis)) hs.
Proof.
  intros E Hn. destruct (headers p) as [[|e d]|]; cbn [unopt] in E.
  - destruct hs; [reflexivity|discriminate].
  - rewrite E. apply (rebuilt_request_headers_view dis hs []). cbn [map app]. now apply NoDup_names.
  - destruct hs; [reflexivity|discriminate].
Qed.

(* ---- _get_body_or_chunks ---- *)
Lemma get_body_or_chunks_wire p : get_body_or_chunks p = Ok (wire_body p).
Proof.
  unfold get_body_or_chunks, wire_body. destruct (body p) as [b|]; [|reflexivity].
  destruct (is_chunked_encoded p); reflexivity.
Qed.

(* ===================================================================================== *)
(* THEOREM 1: what _queue_request_for_upstream emits, for every parser state               *)

Lemma render_forward_join m t v hs b :
  (m ++ SP :: t ++ SP :: v) ++ CRLF ++ header_lines hs ++ CRLF ++ b = render_forward m t v hs b.
Proof. unfold render_forward. rewrite <- app_assoc. cbn [app]. rewrite <- app_assoc. cbn [app]. reflexivity. Qed.

Lemma build_view ua dis p hs :
  is_request (ty p) = true -> truthy (method p) = true -> truthy (version p) = true ->
  U p = map lift1 hs -> NoDup (lkeys hs) ->
  build ua p dis false None =
  Ok (render_forward (or_empty (method p)) (path_or_slash p) (or_empty (version p))
        (recompute_cl (filter (fun nv => negb (mem_bytes (lower (fst nv)) dis)) hs) (wire_body p))
        (or_empty (wire_body p))).
Proof.
  intros Ht Hm Hv E Hn. unfold build. rewrite Hm, Hv, Ht. cbn [andb negb].
  rewrite get_body_or_chunks_wire. cbn [bind]. rewrite (rebuilt_of_view dis p hs E Hn).
  unfold build_http_request, build_http_pkt, pkt_headers, request_headers, recompute_cl.
  rewrite join_sp3, wire_or_empty. cbn [negb andb].
  set (fs := filter _ hs). rewrite andb_false_r. rewrite render_forward_join. unfold path_or_slash.
  destruct (truthy (wire_body p) && negb (has_key_ci TRANSFER_ENCODING fs)).
  - rewrite dict_set_header_key. reflexivity.
  - reflexivity.
Qed.

Theorem forward_of_parsed_gen cfg tunnel p :
  is_request (ty p) = true -> truthy (method p) = true -> truthy (version p) = true -> hdr_inv (headers p) ->
  exists p', queue_request_for_upstream cfg tunnel p = Ok (p', forward_of_parsed cfg tunnel p) /\
             same_rest p p' /\ hdr_inv (headers p') /\
             fields_of_parser p' =
               (if tunnel then drop_hop (fields_of_parser p) else with_via cfg (drop_hop (fields_of_parser p))).
Proof.
  intros Ht Hm Hv Hi. destruct (hdr_inv_lift _ Hi) as [E Hn]. fold (fields_of_parser p) in E, Hn.
  set (hs := fields_of_parser p) in *.
  unfold queue_request_for_upstream.
  destruct (del_headers_view p hs E Hn) as (E1 & N1 & S1). cbv zeta in E1, S1.
  set (r1 := del_headers p [PROXY_AUTHORIZATION; PROXY_CONNECTION]) in *.
  assert (W1 : wire_body r1 = wire_body p).
  { unfold wire_body. destruct S1 as (_ & _ & _ & _ & _ & _ & _ & Sb & Sc & _). now rewrite Sb, Sc. }
  destruct tunnel; cbn [negb bind].
  - (* no Via on requests read out of a tunnel *)
    destruct S1 as (St & Sst & Sm & Sv & Sp & Sr).
    rewrite (build_view (cf_agent cfg) (cf_disable cfg) r1 (drop_hop hs)); try congruence.
    cbn [bind]. exists r1. split.
    + unfold forward_of_parsed, forwarded_fields, drop_disabled, path_or_slash. fold hs. rewrite Sm, Sv, Sp, W1. reflexivity.
    + split; [repeat split; tauto|]. split; [now apply (lift_hdr_inv _ (drop_hop hs))|].
      unfold fields_of_parser at 1. rewrite E1. apply view_lift.
  - (* Via *)
    assert (Ev : exists v, via_value cfg r1 = Ok v /\ set_field H_VIA v (drop_hop hs) = with_via cfg (drop_hop hs)).
    { unfold via_value, with_via. rewrite (has_header_view r1 _ L_VIA E1), (header_view r1 _ L_VIA E1).
      change (lower L_VIA) with L_VIA. rewrite has_key_ci_get.
      destruct (get_ci L_VIA (drop_hop hs)) as [old|]; destruct (cf_via_append cfg); cbn [andb bind];
        eexists; split; reflexivity. }
    destruct Ev as (v & -> & Ew). cbn [bind]. unfold add_headers. cbn [fold_left fst snd].
    set (r2 := add_header r1 H_VIA v).
    assert (E2 : U r2 = map lift1 (with_via cfg (drop_hop hs))) by (rewrite <- Ew; now apply add_header_view).
    assert (N2 : NoDup (lkeys (with_via cfg (drop_hop hs)))) by (rewrite <- Ew; now apply NoDup_lkeys_set_field).
    assert (S2 : same_rest p r2) by (eapply same_rest_trans; [exact S1|apply same_rest_add]).
    assert (W2 : wire_body r2 = wire_body p) by exact W1.
    destruct S2 as (St & Sst & Sm & Sv & Sp & Sr).
    rewrite (build_view (cf_agent cfg) (cf_disable cfg) r2 (with_via cfg (drop_hop hs))); try congruence.
    cbn [bind]. exists r2. split.
    + unfold forward_of_parsed, forwarded_fields, drop_disabled, path_or_slash. fold hs. rewrite Sm, Sv, Sp, W2. reflexivity.
    + split; [repeat split; tauto|]. split; [now apply (lift_hdr_inv _ (with_via cfg (drop_hop hs)))|].
      unfold fields_of_parser at 1. rewrite E2. apply view_lift.
Qed.

(* ===================================================================================== *)
(* B. parsing the rendering of a well-formed request                                      *)

Lemma forallb_In' {A} (f : A -> bool) l : forallb f l = true -> forall x, In x l -> f x = true.
Proof. intros H x Hx. exact (forallb_In f l x H Hx). Qed.

Lemma is_tchar_facts x : is_tchar x = true -> is_ws x = false /\ x <> COLON /\ x <> CR /\ x <> LF /\ x <> SP.
Proof.
  unfold is_tchar, is_digit, is_alpha, is_upper, is_lower, is_ws, COLON, CR, LF, SP. intros H.
  repeat (apply orb_true_iff in H; destruct H as [H|H]);
    repeat match goal with
    | H : _ && _ = true |- _ => apply andb_true_iff in H; destruct H
    | H : (_ <=? _) = true |- _ => apply N.leb_le in H
    | H : (_ =? _) = true |- _ => apply N.eqb_eq in H
    end;
    (split; [apply orb_false_iff; split; [apply N.eqb_neq; lia|apply andb_false_iff; first [left; apply N.leb_gt; lia|right; apply N.leb_gt; lia]]|]);
    repeat split; lia.
Qed.

Lemma is_field_byte_facts x : is_field_byte x = true -> x <> CR /\ x <> LF.
Proof.
  unfold is_field_byte, CR, LF. intros H. apply andb_true_iff in H as [_ H]. apply negb_true_iff, andb_false_iff in H.
  destruct H as [H|H]; [apply N.leb_gt in H|apply N.leb_gt in H]; split; lia.
Qed.

Lemma is_ows_facts x : is_ows x = true -> is_ws x = true /\ x <> CR /\ x <> LF /\ is_field_byte x = true.
Proof.
  unfold is_ows, is_ws, is_field_byte, CR, LF. intros H. apply orb_true_iff in H as [H|H]; apply N.eqb_eq in H; subst; repeat split; lia.
Qed.

Lemma token_facts n : is_token n = true ->
  n <> [] /\ (forall x, In x n -> is_ws x = false) /\ ~ In COLON n /\ ~ In CR n /\ ~ In LF n /\ ~ In SP n.
Proof.
  unfold is_token. intros H. apply andb_true_iff in H as [Hne Ht]. split; [now apply nonempty_ne|].
  pose proof (forallb_In' _ _ Ht) as F.
  repeat split; try (intros x Hx; now apply is_tchar_facts, F); intros Hi; apply F, is_tchar_facts in Hi; tauto.
Qed.

Lemma rfc_value_facts v : rfc_value v = true -> strip v = v /\ ~ In CR v /\ ~ In LF v.
Proof.
  unfold rfc_value. intros H. apply andb_true_iff in H as [Hf Hs]. split; [now apply stripped_strip|].
  pose proof (forallb_In' _ _ Hf) as F. split; intros Hi; apply F, is_field_byte_facts in Hi; tauto.
Qed.

Section Field.
  Variable f : hfield.
  Hypothesis W : wf_field f = true.

  Lemma wf_field_parts : is_token (hf_name f) = true /\ forallb is_ows (hf_pre f) = true /\
                         rfc_value (hf_value f) = true /\ forallb is_ows (hf_post f) = true.
  Proof.
    unfold wf_field in W. apply andb_true_iff in W as [W1 W4]. apply andb_true_iff in W1 as [W1 W3].
    apply andb_true_iff in W1 as [W1 W2]. tauto.
  Qed.
  Lemma ows_ws l : forallb is_ows l = true -> forallb is_ws l = true.
  Proof. intros H. apply forallb_forall. intros x Hx. now apply is_ows_facts, (forallb_In' _ _ H). Qed.

  Lemma field_hdr_ok : hdr_ok (field_nv f).
  Proof.
    destruct wf_field_parts as (Wn & Wpre & Wv & Wpost). 
    destruct (token_facts _ Wn) as (N1 & N2 & N3 & N4 & _). destruct (rfc_value_facts _ Wv) as (V1 & V2 & _).
    unfold hdr_ok, field_nv. cbn [fst snd]. repeat split; try assumption. now apply strip_noop.
  Qed.

  Lemma strip_padded : strip (hf_pre f ++ hf_value f ++ hf_post f) = hf_value f.
  Proof.
    destruct wf_field_parts as (Wn & Wpre & Wv & Wpost). 
    unfold strip. rewrite lstrip_app_ws by (apply ows_ws, Wpre).
    pose proof Wv as Hv. unfold rfc_value in Hv. apply andb_true_iff in Hv as [_ Hs].
    destruct (hf_value f) as [|x t] eqn:Ev.
    - cbn [app]. replace (hf_post f) with (hf_post f ++ []) by apply app_nil_r.
      rewrite lstrip_app_ws by (apply ows_ws, Wpost). reflexivity.
    - unfold stripped in Hs. apply andb_true_iff in Hs as [H1 H2]. apply negb_true_iff in H1, H2.
      cbn [app]. rewrite lstrip_cons_nws by exact H1. change (x :: t ++ hf_post f) with ((x :: t) ++ hf_post f).
      rewrite rstrip_app_ws by (apply ows_ws, Wpost). apply rstrip_nws; [discriminate|exact H2].
  Qed.

  Lemma hdr_kv_field : hdr_kv (render_field f) = field_nv f.
  Proof.
    destruct wf_field_parts as (Wn & Wpre & Wv & Wpost). 
    destruct (token_facts _ Wn) as (N1 & N2 & N3 & _). unfold hdr_kv, render_field. cbn [app].
    rewrite (split_once_byte_notin COLON (hf_name f) _ N3). rewrite strip_padded, (strip_noop _ N2). reflexivity.
  Qed.

  Lemma field_no_cr : ~ In CR (render_field f).
  Proof.
    destruct wf_field_parts as (Wn & Wpre & Wv & Wpost). 
    destruct (token_facts _ Wn) as (_ & _ & _ & N4 & _). destruct (rfc_value_facts _ Wv) as (_ & V2 & _).
    unfold render_field. rewrite !in_app_iff. cbn [In]. intros [H|[[H|[]]|[H|[H|H]]]]; try contradiction; try discriminate.
    - apply (forallb_In' _ _ Wpre), is_ows_facts in H. tauto.
    - apply (forallb_In' _ _ Wpost), is_ows_facts in H. tauto.
  Qed.

  Lemma field_nonblank : match strip (render_field f) with [] => true | _ => false end = false.
  Proof.
    destruct wf_field_parts as (Wn & Wpre & Wv & Wpost). 
    destruct (token_facts _ Wn) as (N1 & N2 & _). destruct (hf_name f) as [|x t] eqn:En; [congruence|].
    assert (Hin : In x (strip (render_field f))).
    { apply In_strip; [unfold render_field; rewrite En; now left|apply N2; now left]. }
    destruct (strip (render_field f)); [destruct Hin|reflexivity].
  Qed.

  (* one header line: the optional whitespace is invisible to the parser *)
  Lemma hdr_step_field p : hdr_step p (render_field f) = hdr_step p (render_hdr (field_nv f)).
  Proof.
    unfold hdr_step. rewrite field_nonblank, (hdr_ok_nonblank _ field_hdr_ok).
    rewrite !process_header_eq. rewrite hdr_kv_field, (hdr_kv_render _ field_hdr_ok). reflexivity.
  Qed.
End Field.

Lemma render_fields_cons f fs : render_fields (f :: fs) = (render_field f ++ CRLF) ++ render_fields fs.
Proof. reflexivity. Qed.

Lemma hdr_step_nonblank_state p line p' : st23 p -> match strip line with [] => true | _ => false end = false ->
  hdr_step p line = Ok p' -> state p' = RCVING_HEADERS.
Proof.
  intros S B. unfold hdr_step. rewrite (st23_test p S), B. intros H. apply process_header_state in H. exact H.
Qed.

Lemma PH_fields fs : forall p more, st23 p -> forallb wf_field fs = true -> more <> [] ->
  PH p (render_fields fs ++ more) = PH p (render_hdrs (map field_nv fs) ++ more).
Proof.
  induction fs as [|f fs IH]; intros p more S W Hm; [reflexivity|].
  cbn [forallb] in W. apply andb_true_iff in W as [Wf Wfs].
  rewrite render_fields_cons. cbn [map]. change (render_hdrs (field_nv f :: map field_nv fs))
    with ((render_hdr (field_nv f) ++ CRLF) ++ render_hdrs (map field_nv fs)).
  rewrite <- !app_assoc. rewrite (PH_step p (render_field f ++ _)), (PH_step p (render_hdr (field_nv f) ++ _)).
  rewrite (crlf_free_split _ _ (crlf_free_cr _ (field_no_cr f Wf))).
  rewrite (crlf_free_split _ _ (hdr_ok_free _ (field_hdr_ok f Wf))).
  rewrite (hdr_step_field f Wf p).
  destruct (hdr_step p (render_hdr (field_nv f))) as [p'|e] eqn:E; cbn [bind]; [|reflexivity].
  assert (S' : state p' = RCVING_HEADERS).
  { eapply hdr_step_nonblank_state; [exact S|apply (hdr_ok_nonblank _ (field_hdr_ok f Wf))|exact E]. }
  assert (N1 : nz (render_fields fs ++ more) = true) by (apply nz_app_r; exact Hm).
  assert (N2 : nz (render_hdrs (map field_nv fs) ++ more) = true) by (apply nz_app_r; exact Hm).
  rewrite N1, N2, S'. cbn [negb orb]. change (RCVING_HEADERS =? HEADERS_COMPLETE) with false. cbv iota.
  apply IH; [right; exact S'|exact Wfs|exact Hm].
Qed.

(* the whole message: only total_size sees the optional whitespace *)
Lemma parse_spacing al sl fs wire :
  start_ok al sl -> (match sl with ReqLine _ _ _ _ => true | StatusLine _ _ _ => false end) = true ->
  forallb wf_field fs = true ->
  let spaced := render_start sl ++ CRLF ++ render_fields fs ++ CRLF ++ wire in
  let canon := render_start sl ++ CRLF ++ render_hdrs (map field_nv fs) ++ CRLF ++ wire in
  parse_with al (new_parser REQUEST_PARSER) spaced =
  do p <- parse_with al (new_parser REQUEST_PARSER) canon; Ok (set_buffer_size p (buffer p) (len spaced)).
Proof.
  intros Hs Hreq W spaced canon. set (p0 := new_parser REQUEST_PARSER).
  assert (I0 : pinv p0) by apply pinv_new.
  rewrite !parse_with_alt by exact I0. change (bufb p0) with (@nil N). cbn [app].
  assert (Ns : nz spaced = true) by (apply nz_true; unfold spaced; destruct (render_start sl); discriminate).
  assert (Nc : nz canon = true) by (apply nz_true; unfold canon; destruct (render_start sl); discriminate).
  rewrite Ns, Nc.
  enough (E : PL al true p0 spaced = PL al true p0 canon).
  { rewrite E. destruct (PL al true p0 canon) as [[r p']|e]; reflexivity. }
  unfold spaced, canon.
  rewrite !PL_step_true; try exact I0; try discriminate.
  rewrite !proc_line by reflexivity.
  rewrite !(process_line_render al p0 sl _ Hs) by (destruct sl; [reflexivity|discriminate]).
  cbn [bind]. set (p2 := after_line p0 sl).
  assert (I2 : pinv p2) by (apply after_line_inv; [exact I0|reflexivity]).
  assert (S2 : st23 p2) by (left; unfold p2; destruct sl; reflexivity).
  rewrite !maybe_complete_not4 by (unfold p2; destruct sl; cbn [after_line state set_line]; discriminate).
  assert (M : CRLF ++ wire <> []) by discriminate.
  rewrite (nz_app_r (render_fields fs) _ M), (nz_app_r (render_hdrs (map field_nv fs)) _ M).
  rewrite !PL_step_true; try exact I2; try (destruct S2 as [X|X]; rewrite X; discriminate).
  rewrite !proc_headers by exact S2.
  rewrite (PH_fields fs p2 (CRLF ++ wire) S2 W M). reflexivity.
Qed.

(* ---- a well-formed request is a message of the C03 grammar (up to the optional whitespace) ---- *)
Definition to_framing (f : rframing) : framing :=
  match f with
  | RNone => FNone
  | RLength h data => FLength (hf_name h) (hf_value h) data
  | RChunked h s => FChunked (hf_name h) (hf_value h) (stream_of s)
  end.
Definition to_msg (r : request) (u : url) : message :=
  {| m_start := ReqLine (q_method r) (render_target (q_target r)) (q_version r) u;
     m_hs1 := map field_nv (q_hs1 r); m_framing := to_framing (q_framing r); m_hs2 := map field_nv (q_hs2 r) |}.

Record wf_parts (r : request) : Prop := {
  wp_method : is_token (q_method r) = true;
  wp_not_connect : bytes_eqb (q_method r) CONNECT = false;
  wp_abs : is_absolute (q_target r) = true;
  wp_target : wf_target (q_target r) = true;
  wp_vchar : forallb is_vchar (render_target (q_target r)) = true;
  wp_port : (0 < target_port (q_target r) <= 65535)%Z;
  wp_version : q_version r = HTTP_1_1 \/ q_version r = HTTP_1_0;
  wp_hs1 : forallb other_field (q_hs1 r) = true;
  wp_hs2 : forallb other_field (q_hs2 r) = true;
  wp_nodup : nodup_ci (map hf_name (all_fields r)) = true;
  wp_framing : wf_framing (q_framing r) = true }.

Lemma wf_request_parts r : wf_request r = true -> wf_parts r.
Proof.
  unfold wf_request. intros H.
  apply andb_true_iff in H as [H H12]. apply andb_true_iff in H as [H H11]. apply andb_true_iff in H as [H H10].
  apply andb_true_iff in H as [H H9]. apply andb_true_iff in H as [H H8]. apply andb_true_iff in H as [H H7].
  apply andb_true_iff in H as [H H6]. apply andb_true_iff in H as [H H5]. apply andb_true_iff in H as [H H4].
  apply andb_true_iff in H as [H H3]. apply andb_true_iff in H as [H1 H2].
  constructor; try assumption.
  - now apply negb_true_iff in H2.
  - apply Z.ltb_lt in H6. apply Z.leb_le in H7. lia.
  - apply orb_true_iff in H8 as [E|E]; apply bytes_eqb_eq in E; tauto.
Qed.

Lemma is_vchar_facts x : is_vchar x = true -> x <> SP /\ x <> CR /\ x <> LF.
Proof. unfold is_vchar, SP, CR, LF. intros H. apply andb_true_iff in H as [H1 H2]. apply N.leb_le in H1, H2. repeat split; lia. Qed.

Lemma version_facts v : v = HTTP_1_1 \/ v = HTTP_1_0 -> ~ In CR v /\ ~ In LF v /\ ~ In SP v /\ is_http_version v = true.
Proof.
  intros [-> | ->]; (split; [|split; [|split; [|reflexivity]]]); intros Hi;
    match goal with Hi : In ?c ?l |- _ =>
      assert (F : forallb (fun x => negb (x =? c)) l = true) by reflexivity;
      pose proof (forallb_In' _ _ F _ Hi) as C; vm_compute in C; discriminate C end.
Qed.

Lemma other_field_parts f : other_field f = true ->
  wf_field f = true /\ lower (hf_name f) <> CONTENT_LENGTH /\ lower (hf_name f) <> TRANSFER_ENCODING.
Proof.
  unfold other_field, name_is. intros H. apply andb_true_iff in H as [H H3]. apply andb_true_iff in H as [H1 H2].
  apply negb_true_iff in H2, H3. split; [exact H1|]. split; intros C; rewrite C, bytes_eqb_refl in *; discriminate.
Qed.

Lemma others_other_ok fs : forallb other_field fs = true -> Forall other_ok (map field_nv fs) /\ forallb wf_field fs = true.
Proof.
  induction fs as [|f fs IH]; intros H; [split; [constructor|reflexivity]|].
  cbn [forallb] in H. apply andb_true_iff in H as [Hf Hfs]. destruct (IH Hfs) as [I1 I2].
  destruct (other_field_parts f Hf) as (W & N1 & N2). split.
  - cbn [map]. constructor; [|exact I1]. split; [now apply field_hdr_ok|]. split; assumption.
  - cbn [forallb]. now rewrite W, I2.
Qed.

Lemma wf_framing_parts fr : wf_framing fr = true ->
  ParserFacts.framing_ok (to_framing fr) /\ forallb wf_field (framing_fields fr) = true.
Proof.
  destruct fr as [|h data|h s]; cbn [wf_framing to_framing ParserFacts.framing_ok framing_fields forallb]; intros H.
  - split; [exact I|reflexivity].
  - apply andb_true_iff in H as [H H6]. apply andb_true_iff in H as [H H5]. apply andb_true_iff in H as [H H4].
    apply andb_true_iff in H as [H H3]. apply andb_true_iff in H as [H1 H2].
    split; [|now rewrite H1]. split; [exact (field_hdr_ok h H1)|]. split; [now apply bytes_eqb_eq in H2|].
    rewrite int10_digits; [|now apply nonempty_ne|exact H4|now apply Nat.leb_le in H5].
    apply N.eqb_eq in H6. rewrite H6, len_Z. reflexivity.
  - apply andb_true_iff in H as [H H4]. apply andb_true_iff in H as [H H3]. apply andb_true_iff in H as [H1 H2].
    split; [|now rewrite H1]. split; [exact (field_hdr_ok h H1)|]. split; [now apply bytes_eqb_eq in H2|].
    split; [now apply bytes_eqb_eq in H3|now apply wf_chunked_stream_ok].
Qed.

Lemma all_fields_nv r u : all_hdrs (to_msg r u) = map field_nv (all_fields r).
Proof.
  unfold all_hdrs, to_msg, all_fields. cbn [m_hs1 m_framing m_hs2]. rewrite !map_app. f_equal. f_equal.
  destruct (q_framing r); reflexivity.
Qed.

Lemma lkeys_fields fs : lkeys (map field_nv fs) = map lower (map hf_name fs).
Proof. unfold lkeys. rewrite !map_map. reflexivity. Qed.

Lemma nodup_fields r : wf_parts r -> NoDup (lkeys (map field_nv (all_fields r))).
Proof.
  intros P. apply nodup_ci_NoDup. rewrite map_map. cbn [field_nv fst]. exact (wp_nodup r P).
Qed.

Lemma message_ok_of al r u : wf_parts r -> from_bytes al (render_target (q_target r)) = Ok u ->
  message_ok al (to_msg r u) /\ forallb wf_field (all_fields r) = true.
Proof.
  intros P Hu. destruct (others_other_ok _ (wp_hs1 r P)) as [O1 W1]. destruct (others_other_ok _ (wp_hs2 r P)) as [O2 W2].
  destruct (wf_framing_parts _ (wp_framing r P)) as [Of Wf]. split.
  - unfold message_ok, to_msg. cbn [m_start m_hs1 m_framing m_hs2 start_ok]. repeat split; try assumption.
    + apply (token_facts _ (wp_method r P)).
    + apply (token_facts _ (wp_method r P)).
    + intros Hi. apply (forallb_In' _ _ (wp_vchar r P)), is_vchar_facts in Hi. tauto.
    + intros Hi. apply (forallb_In' _ _ (wp_vchar r P)), is_vchar_facts in Hi. tauto.
    + apply (version_facts _ (wp_version r P)).
  - unfold all_fields. rewrite !forallb_app. now rewrite W1, W2, Wf.
Qed.

(* what the parser holds after the whole request *)
Definition body_of_framing (f : rframing) : option bytes :=
  match f with RNone => None | RLength _ d => optb d | RChunked _ s => Some (ref_dechunk s) end.
Definition chunked_framing (f : rframing) : bool := match f with RChunked _ _ => true | _ => false end.

Record parsed_as (r : request) (p : parser) : Prop := {
  pa_state : state p = COMPLETE;
  pa_buffer : buffer p = None;
  pa_ty : ty p = REQUEST_PARSER;
  pa_method : method p = Some (q_method r);
  pa_version : version p = Some (q_version r);
  pa_purl : exists u, purl p = Some u;
  pa_tunnel : is_https_tunnel p = false;
  pa_attrs : (Parser.host p, Parser.port p, path p) = UrlSpec.expected false (q_target r);
  pa_headers : headers p = lift_headers (map field_nv (all_fields r));
  pa_body : body p = body_of_framing (q_framing r);
  pa_chunked : is_chunked_encoded p = chunked_framing (q_framing r) }.

Lemma render_request_start r u :
  render_request r =
  render_start (m_start (to_msg r u)) ++ CRLF ++ render_fields (all_fields r) ++ CRLF ++ framing_wire (q_framing r).
Proof.
  unfold render_request, to_msg. cbn [m_start render_start]. rewrite <- app_assoc. cbn [app].
  rewrite <- app_assoc. cbn [app]. reflexivity.
Qed.

Lemma framing_wire_bytes fr : framing_bytes (to_framing fr) = framing_wire fr.
Proof. destruct fr as [|h d|h s]; cbn [to_framing framing_bytes framing_wire]; [reflexivity|reflexivity|apply render_stream_of]. Qed.

Theorem parse_request r : wf_request r = true ->
  exists p, parse (new_parser REQUEST_PARSER) (render_request r) = Ok p /\ parsed_as r p.
Proof.
  intros W. pose proof (wf_request_parts r W) as P.
  pose proof (derive_roundtrip false _ (wp_target r P)) as D. unfold derive in D.
  destruct (from_bytes DEFAULT_ALLOWED_URL_SCHEMES (render_target (q_target r))) as [u|e] eqn:Hu; cbn [bind] in D; [|discriminate].
  assert (La : line_attributes false u = UrlSpec.expected false (q_target r)) by congruence.
  destruct (message_ok_of _ r u P Hu) as [Hm Wf]. set (m := to_msg r u) in *.
  assert (Ht : tail_ok m []) by (unfold tail_ok; cbn; exact I).
  pose proof (complete_at_end _ m [] Hm Ht) as C. rewrite app_nil_r in C.
  unfold parse. rewrite (render_request_start r u). fold m.
  rewrite (parse_spacing DEFAULT_ALLOWED_URL_SCHEMES (m_start m) (all_fields r) (framing_wire (q_framing r)));
    [|apply Hm|reflexivity|exact Wf].
  assert (Er : render_start (m_start m) ++ CRLF ++ render_hdrs (map field_nv (all_fields r)) ++ CRLF ++ framing_wire (q_framing r)
               = render m).
  { unfold render. rewrite (all_fields_nv r u). unfold m at 3, to_msg. cbn [m_framing]. now rewrite framing_wire_bytes. }
  rewrite Er. change (msg_type m) with REQUEST_PARSER in C. rewrite C. cbn [bind].
  eexists. split; [reflexivity|].
  destruct (expected_fields m []) as (F1 & F2 & _ & F4 & F5 & F6).
  unfold m at 1, to_msg in F6. cbn [m_start] in F6. destruct F6 as (G1 & G2 & G3 & G4 & G5 & _).
  rewrite (wp_not_connect r P) in G4, G5.
  constructor; cbn [state buffer ty method version purl is_https_tunnel Parser.host Parser.port path headers body
                    is_chunked_encoded set_buffer_size]; try assumption.
  - exact (expected_ty m []).
  - exists u. exact G2.
  - rewrite G5. exact La.
  - rewrite F4, (all_fields_nv r u). apply add_all_lift, nodup_fields, P.
  - rewrite F5. unfold m, to_msg. cbn [m_framing]. destruct (q_framing r) as [|h d|h s]; cbn [to_framing body_of_framing];
      [reflexivity|reflexivity|now rewrite stream_body_of].
  - rewrite expected_chunked. unfold m, to_msg. cbn [m_framing]. destruct (q_framing r); reflexivity.
Qed.
