(* Facts about Net/Forward.v (property C02). *)
From PM Require Import Lib.Bytes Lib.BytesFacts Lib.PyStr Lib.PyStrFacts Lib.PyStrFacts2 Http.Url Http.Chunk Http.ChunkFacts
  Http.Parser Http.ParserFacts Http.Builders Http.BuildersFacts Http.Grammar Http.CodecFacts Http.UrlSpec Http.Upstream Http.UrlFacts
  Net.Forward.
From PM Require Net.Auth.
From Coq Require Import ZArith Lia.

(* ===================================================================================== *)
(* A. the header dictionary seen as the list of fields it stores                           *)

Notation U p := (unopt (headers p)).

Lemma hdr_inv_lift h : hdr_inv h -> unopt h = map lift1 (map snd (unopt h)) /\ NoDup (lkeys (map snd (unopt h))).
Proof.
  intros [Hn Hf]. set (d := unopt h) in *. clearbody d. split.
  - induction d as [|[k [o v]] t IH]; [reflexivity|]. inversion Hf as [|? ? E Hf']; subst. inversion Hn; subst.
    cbn [fst snd] in E. subst k. cbn [map snd]. unfold lift1 at 1. cbn [fst snd]. f_equal. now apply IH.
  - replace (lkeys (map snd d)) with (dict_keys d); [exact Hn|].
    unfold lkeys, dict_keys. rewrite map_map. apply map_ext_in. intros e He.
    rewrite Forall_forall in Hf. now apply Hf.
Qed.

Lemma lift_hdr_inv h hs : unopt h = map lift1 hs -> NoDup (lkeys hs) -> hdr_inv h.
Proof.
  intros E Hn. unfold hdr_inv. rewrite E. split.
  - unfold dict_keys. rewrite map_map. exact Hn.
  - apply Forall_forall. intros e He. apply in_map_iff in He as (kv & <- & _). reflexivity.
Qed.

Lemma view_lift hs : map snd (map lift1 hs) = hs.
Proof. rewrite map_map. rewrite <- (map_id hs) at 2. apply map_ext. intros [k v]. reflexivity. Qed.

(* ---- filter / set_field on field lists ---- *)
Definition keep_not (ln : bytes) (nv : bytes * bytes) : bool := negb (bytes_eqb (lower (fst nv)) ln).

Lemma lkeys_filter_subset f hs x : In x (lkeys (filter f hs)) -> In x (lkeys hs).
Proof.
  unfold lkeys. rewrite !in_map_iff. intros (kv & E & Hi). apply filter_In in Hi as [Hi _]. exists kv. now split.
Qed.

Lemma NoDup_lkeys_filter f hs : NoDup (lkeys hs) -> NoDup (lkeys (filter f hs)).
Proof.
  induction hs as [|kv t IH]; intros H; [constructor|]. cbn [filter]. cbn [lkeys map] in H. inversion H; subst.
  destruct (f kv); [|now apply IH]. cbn [lkeys map]. constructor; [|now apply IH].
  intros C. apply lkeys_filter_subset in C. contradiction.
Qed.

Lemma filter_keep_all ln hs : ~ In ln (lkeys hs) -> filter (keep_not ln) hs = hs.
Proof.
  induction hs as [|[k v] t IH]; intros H; [reflexivity|]. cbn [filter]. unfold keep_not at 1. cbn [fst]. cbn [lkeys map fst In] in H.
  destruct (bytes_eqb_spec (lower k) ln) as [E|E]; [exfalso; apply H; now left|]. cbn [negb].
  rewrite IH; [reflexivity|]. intros C. apply H. now right.
Qed.

(* del self.headers[k]: the (only) field of that name disappears *)
Lemma dict_del_lift ln hs : NoDup (lkeys hs) ->
  dict_del ln (map lift1 hs) = map lift1 (filter (keep_not ln) hs).
Proof.
  induction hs as [|[k v] t IH]; intros H; [reflexivity|]. cbn [lkeys map fst] in H. inversion H as [|? ? Hn Hd]; subst.
  cbn [map dict_del filter]. unfold lift1 at 1, keep_not at 1. cbn [fst snd].
  destruct (bytes_eqb_spec ln (lower k)) as [E|E]; destruct (bytes_eqb_spec (lower k) ln) as [E'|E']; try congruence; cbn [negb].
  - subst ln. rewrite filter_keep_all; [reflexivity|exact Hn].
  - cbn [map lift1 fst snd]. f_equal. now apply IH.
Qed.

Lemma lkeys_set_field name v hs :
  lkeys (set_field name v hs) = if has_key_ci (lower name) hs then lkeys hs else lkeys hs ++ [lower name].
Proof.
  induction hs as [|[k v'] t IH]; cbn [set_field lkeys map fst has_key_ci existsb]; [reflexivity|].
  destruct (bytes_eqb_spec (lower k) (lower name)) as [E|E]; cbn [orb map fst lkeys].
  - now rewrite E.
  - fold (lkeys (set_field name v t)). rewrite IH. fold (has_key_ci (lower name) t).
    destruct (has_key_ci (lower name) t); reflexivity.
Qed.

Lemma NoDup_lkeys_set_field name v hs : NoDup (lkeys hs) -> NoDup (lkeys (set_field name v hs)).
Proof.
  intros H. rewrite lkeys_set_field. destruct (has_key_ci (lower name) hs) eqn:E; [exact H|].
  apply NoDup_snoc; [exact H|]. now apply has_key_ci_false.
Qed.

(* self.headers[name.lower()] = (name, v) *)
Lemma dict_set_lift name v hs :
  dict_set (lower name) (name, v) (map lift1 hs) = map lift1 (set_field name v hs).
Proof.
  induction hs as [|[k v'] t IH]; [reflexivity|]. cbn [map lift1 fst snd dict_set set_field].
  destruct (bytes_eqb_spec (lower name) (lower k)) as [E|E]; destruct (bytes_eqb_spec (lower k) (lower name)) as [E'|E'];
    try congruence; cbn [map lift1 fst snd]; [reflexivity|]. f_equal. exact IH.
Qed.

Lemma dict_get_lift ln hs :
  dict_get ln (map lift1 hs) =
  match find (fun kv => bytes_eqb (lower (fst kv)) ln) hs with Some kv => Some kv | None => None end.
Proof.
  induction hs as [|[k v] t IH]; [reflexivity|]. cbn [map lift1 fst snd dict_get find].
  destruct (bytes_eqb_spec ln (lower k)) as [E|E]; destruct (bytes_eqb_spec (lower k) ln) as [E'|E']; congruence.
Qed.

(* ---- the parser methods in terms of the field list ---- *)
Lemma has_header_view p hs key : U p = map lift1 hs -> has_header p key = has_key_ci (lower key) hs.
Proof.
  intros E. unfold has_header. destruct (headers p) as [d|]; cbn [unopt] in E.
  - rewrite E. apply dict_has_lift.
  - destruct hs; [reflexivity|discriminate].
Qed.

Lemma header_view p hs key : U p = map lift1 hs ->
  header p key = match get_ci (lower key) hs with Some v => Ok v | None => Err KeyError end.
Proof.
  intros E. unfold header, get_ci. destruct (headers p) as [d|]; cbn [unopt] in E.
  - rewrite E, dict_get_lift. destruct (find _ hs) as [[k v]|]; reflexivity.
  - destruct hs; [reflexivity|discriminate].
Qed.

Lemma add_header_view p hs name v : U p = map lift1 hs -> U (add_header p name v) = map lift1 (set_field name v hs).
Proof.
  intros E. unfold add_header, add_header_d. cbn [headers set_headers unopt].
  rewrite <- dict_set_lift. f_equal. exact E.
Qed.

Lemma del_header_view p hs key : U p = map lift1 hs -> NoDup (lkeys hs) ->
  U (del_header p key) = map lift1 (filter (keep_not (lower key)) hs).
Proof.
  intros E Hn. unfold del_header. destruct (headers p) as [[|e d]|] eqn:Hh; cbn [unopt] in E.
  - rewrite Hh. cbn [unopt]. destruct hs; [reflexivity|discriminate].
  - destruct (dict_has (lower key) (e :: d)) eqn:Hd.
    + cbn [headers set_headers unopt]. rewrite E. now apply dict_del_lift.
    + rewrite Hh. cbn [unopt]. rewrite E. f_equal. symmetry. apply filter_keep_all.
      apply has_key_ci_false. rewrite <- (dict_has_lift (lower key) hs), <- E. exact Hd.
  - rewrite Hh. cbn [unopt]. destruct hs; [reflexivity|discriminate].
Qed.

(* the other attributes are untouched by the header operations *)
Definition same_rest (p q : parser) : Prop :=
  ty q = ty p /\ state q = state p /\ method q = method p /\ version q = version p /\ path q = path p /\
  Parser.host q = Parser.host p /\ Parser.port q = Parser.port p /\
  body q = body p /\ is_chunked_encoded q = is_chunked_encoded p /\ is_https_tunnel q = is_https_tunnel p /\
  buffer q = buffer p.

Lemma same_rest_refl p : same_rest p p.
Proof. repeat split. Qed.
Lemma same_rest_trans p q r : same_rest p q -> same_rest q r -> same_rest p r.
Proof. unfold same_rest. intuition congruence. Qed.
Lemma same_rest_add p k v : same_rest p (add_header p k v).
Proof. repeat split. Qed.
Lemma same_rest_del p k : same_rest p (del_header p k).
Proof.
  unfold del_header. destruct (headers p) as [[|e d]|]; try apply same_rest_refl.
  destruct (dict_has (lower k) (e :: d)); [repeat split|apply same_rest_refl].
Qed.

(* ---- drop_hop is the two deletions ---- *)
Lemma lower_lower l : lower (lower l) = lower l.
Proof.
  unfold lower. rewrite map_map. apply map_ext. intros x. unfold lower_byte.
  destruct (is_upper x) eqn:E; [|now rewrite E].
  unfold is_upper in *. apply andb_true_iff in E as [E1 E2]. apply N.leb_le in E1, E2.
  replace (65 <=? x + 32) with true by (symmetry; apply N.leb_le; lia).
  replace (x + 32 <=? 90) with false by (symmetry; apply N.leb_gt; lia). reflexivity.
Qed.

Lemma drop_hop_filters hs :
  filter (keep_not (lower (lower PROXY_CONNECTION))) (filter (keep_not (lower (lower PROXY_AUTHORIZATION))) hs) = drop_hop hs.
Proof.
  unfold drop_hop. induction hs as [|[k v] t IH]; [reflexivity|]. cbn [filter].
  unfold keep_not at 2, is_hop at 1. cbn [fst mem_bytes].
  change (lower (lower PROXY_AUTHORIZATION)) with PROXY_AUTHORIZATION.
  change (lower (lower PROXY_CONNECTION)) with PROXY_CONNECTION in *.
  destruct (bytes_eqb (lower k) PROXY_AUTHORIZATION) eqn:E1; cbn [negb orb].
  - exact IH.
  - cbn [filter]. unfold keep_not at 1. cbn [fst]. rewrite orb_false_r.
    destruct (bytes_eqb (lower k) PROXY_CONNECTION) eqn:E2; cbn [negb]; [exact IH|]. f_equal. exact IH.
Qed.

Lemma del_headers_view p hs : U p = map lift1 hs -> NoDup (lkeys hs) ->
  let q := del_headers p [PROXY_AUTHORIZATION; PROXY_CONNECTION] in
  U q = map lift1 (drop_hop hs) /\ NoDup (lkeys (drop_hop hs)) /\ same_rest p q.
Proof.
  intros E Hn q. unfold q, del_headers. cbn [fold_left].
  set (p1 := del_header p (lower PROXY_AUTHORIZATION)).
  assert (E1 : U p1 = map lift1 (filter (keep_not (lower (lower PROXY_AUTHORIZATION))) hs)) by now apply del_header_view.
  assert (N1 : NoDup (lkeys (filter (keep_not (lower (lower PROXY_AUTHORIZATION))) hs))) by now apply NoDup_lkeys_filter.
  pose proof (del_header_view p1 _ (lower PROXY_CONNECTION) E1 N1) as E2.
  rewrite drop_hop_filters in E2. split; [exact E2|]. split.
  - unfold drop_hop. now apply NoDup_lkeys_filter.
  - eapply same_rest_trans; apply same_rest_del.
Qed.

(* ---- the dict comprehension of build() ---- *)
Lemma rebuilt_request_headers_view dis hs : forall acc, NoDup (map fst acc ++ map fst hs) ->
  rebuilt_request_headers dis None (map lift1 hs) acc =
  acc ++ filter (fun nv => negb (mem_bytes (lower (fst nv)) dis)) hs.
Proof.
  induction hs as [|[k v] t IH]; intros acc H; cbn [map rebuilt_request_headers lift1 fst snd filter]; [now rewrite app_nil_r|].
  rewrite lower_lower.
  assert (Hk : ~ In k (dict_keys acc)).
  { unfold dict_keys. cbn [map fst] in H. intros C. apply NoDup_remove_2 in H. apply H. apply in_or_app. now left. }
  destruct (mem_bytes (lower k) dis); cbn [negb].
  - apply IH. cbn [map fst] in H. now apply NoDup_remove_1 in H.
  - rewrite dict_set_new by exact Hk. rewrite IH.
    + now rewrite <- app_assoc.
    + rewrite map_app. cbn [map fst]. rewrite <- app_assoc. exact H.
Qed.

Lemma rebuilt_of_view dis p hs : U p = map lift1 hs -> NoDup (lkeys hs) ->
  match headers p with
  | Some ((_ :: _) as h) => rebuilt_request_headers dis None h []
  | _ => []
  end = filter (fun nv => negb (mem_bytes (lower (fst nv)) dis)) hs.
Proof.
  intros E Hn. destruct (headers p) as [[|e d]|]; cbn [unopt] in E.
  - destruct hs; [reflexivity|discriminate].
  - rewrite E. apply (rebuilt_request_headers_view dis hs []). cbn [map app]. now apply NoDup_names.
  - destruct hs; [reflexivity|discriminate].
Qed.

(* ---- _get_body_or_chunks ---- *)
Lemma get_body_or_chunks_wire p : get_body_or_chunks p = Ok (wire_body p).
Proof.
  unfold get_body_or_chunks, wire_body. destruct (body p) as [b|]; [|reflexivity].
  destruct (is_chunked_encoded p); reflexivity.
Qed.

(* ===================================================================================== *)
(* THEOREM 1: what _queue_request_for_upstream emits, for every parser state               *)

Lemma render_forward_join m t v hs b :
  (m ++ SP :: t ++ SP :: v) ++ CRLF ++ header_lines hs ++ CRLF ++ b = render_forward m t v hs b.
Proof. unfold render_forward. rewrite <- app_assoc. cbn [app]. rewrite <- app_assoc. cbn [app]. reflexivity. Qed.

Lemma build_view ua dis p hs :
  is_request (ty p) = true -> truthy (method p) = true -> truthy (version p) = true ->
  U p = map lift1 hs -> NoDup (lkeys hs) ->
  build ua p dis false None =
  Ok (render_forward (or_empty (method p)) (path_or_slash p) (or_empty (version p))
        (recompute_cl (filter (fun nv => negb (mem_bytes (lower (fst nv)) dis)) hs) (wire_body p))
        (or_empty (wire_body p))).
Proof.
  intros Ht Hm Hv E Hn. unfold build. rewrite Hm, Hv, Ht. cbn [andb negb].
  rewrite get_body_or_chunks_wire. cbn [bind]. rewrite (rebuilt_of_view dis p hs E Hn).
  unfold build_http_request, build_http_pkt, pkt_headers, request_headers, recompute_cl.
  rewrite join_sp3, wire_or_empty. cbn [negb andb].
  set (fs := filter _ hs). rewrite andb_false_r. rewrite render_forward_join. unfold path_or_slash.
  destruct (truthy (wire_body p) && negb (has_key_ci TRANSFER_ENCODING fs)).
  - rewrite dict_set_header_key. reflexivity.
  - reflexivity.
Qed.

Theorem forward_of_parsed_gen cfg tunnel p :
  is_request (ty p) = true -> truthy (method p) = true -> truthy (version p) = true -> hdr_inv (headers p) ->
  exists p', queue_request_for_upstream cfg tunnel p = Ok (p', forward_of_parsed cfg tunnel p) /\
             same_rest p p' /\ hdr_inv (headers p') /\
             fields_of_parser p' =
               (if tunnel then drop_hop (fields_of_parser p) else with_via cfg (drop_hop (fields_of_parser p))).
Proof.
  intros Ht Hm Hv Hi. destruct (hdr_inv_lift _ Hi) as [E Hn]. fold (fields_of_parser p) in E, Hn.
  set (hs := fields_of_parser p) in *.
  unfold queue_request_for_upstream.
  destruct (del_headers_view p hs E Hn) as (E1 & N1 & S1). cbv zeta in E1, S1.
  set (r1 := del_headers p [PROXY_AUTHORIZATION; PROXY_CONNECTION]) in *.
  assert (W1 : wire_body r1 = wire_body p).
  { unfold wire_body. destruct S1 as (_ & _ & _ & _ & _ & _ & _ & Sb & Sc & _). now rewrite Sb, Sc. }
  destruct tunnel; cbn [negb bind].
  - (* no Via on requests read out of a tunnel *)
    destruct S1 as (St & Sst & Sm & Sv & Sp & Sr).
    rewrite (build_view (cf_agent cfg) (cf_disable cfg) r1 (drop_hop hs)); try congruence.
    cbn [bind]. exists r1. split.
    + unfold forward_of_parsed, forwarded_fields, drop_disabled, path_or_slash. fold hs. rewrite Sm, Sv, Sp, W1. reflexivity.
    + split; [repeat split; tauto|]. split; [now apply (lift_hdr_inv _ (drop_hop hs))|].
      unfold fields_of_parser at 1. rewrite E1. apply view_lift.
  - (* Via *)
    assert (Ev : exists v, via_value cfg r1 = Ok v /\ set_field H_VIA v (drop_hop hs) = with_via cfg (drop_hop hs)).
    { unfold via_value, with_via. rewrite (has_header_view r1 _ L_VIA E1), (header_view r1 _ L_VIA E1).
      change (lower L_VIA) with L_VIA. rewrite has_key_ci_get.
      destruct (get_ci L_VIA (drop_hop hs)) as [old|]; destruct (cf_via_append cfg); cbn [andb bind];
        eexists; split; reflexivity. }
    destruct Ev as (v & -> & Ew). cbn [bind]. unfold add_headers. cbn [fold_left fst snd].
    set (r2 := add_header r1 H_VIA v).
    assert (E2 : U r2 = map lift1 (with_via cfg (drop_hop hs))) by (rewrite <- Ew; now apply add_header_view).
    assert (N2 : NoDup (lkeys (with_via cfg (drop_hop hs)))) by (rewrite <- Ew; now apply NoDup_lkeys_set_field).
    assert (S2 : same_rest p r2) by (eapply same_rest_trans; [exact S1|apply same_rest_add]).
    assert (W2 : wire_body r2 = wire_body p) by exact W1.
    destruct S2 as (St & Sst & Sm & Sv & Sp & Sr).
    rewrite (build_view (cf_agent cfg) (cf_disable cfg) r2 (with_via cfg (drop_hop hs))); try congruence.
    cbn [bind]. exists r2. split.
    + unfold forward_of_parsed, forwarded_fields, drop_disabled, path_or_slash. fold hs. rewrite Sm, Sv, Sp, W2. reflexivity.
    + split; [repeat split; tauto|]. split; [now apply (lift_hdr_inv _ (with_via cfg (drop_hop hs)))|].
      unfold fields_of_parser at 1. rewrite E2. apply view_lift.
Qed.

(* ===================================================================================== *)
(* B. parsing the rendering of a well-formed request                                      *)

Lemma forallb_In' {A} (f : A -> bool) l : forallb f l = true -> forall x, In x l -> f x = true.
Proof. intros H x Hx. exact (forallb_In f l x H Hx). Qed.

Lemma is_tchar_facts x : is_tchar x = true -> is_ws x = false /\ x <> COLON /\ x <> CR /\ x <> LF /\ x <> SP.
Proof.
  unfold is_tchar, is_digit, is_alpha, is_upper, is_lower, is_ws, COLON, CR, LF, SP. intros H.
  repeat (apply orb_true_iff in H; destruct H as [H|H]);
    repeat match goal with
    | H : _ && _ = true |- _ => apply andb_true_iff in H; destruct H
    | H : (_ <=? _) = true |- _ => apply N.leb_le in H
    | H : (_ =? _) = true |- _ => apply N.eqb_eq in H
    end;
    (split; [apply orb_false_iff; split; [apply N.eqb_neq; lia|apply andb_false_iff; first [left; apply N.leb_gt; lia|right; apply N.leb_gt; lia]]|]);
    repeat split; lia.
Qed.

Lemma is_field_byte_facts x : is_field_byte x = true -> x <> CR /\ x <> LF.
Proof.
  unfold is_field_byte, CR, LF. intros H. apply andb_true_iff in H as [_ H]. apply negb_true_iff, andb_false_iff in H.
  destruct H as [H|H]; [apply N.leb_gt in H|apply N.leb_gt in H]; split; lia.
Qed.

Lemma is_ows_facts x : is_ows x = true -> is_ws x = true /\ x <> CR /\ x <> LF /\ is_field_byte x = true.
Proof.
  unfold is_ows, is_ws, is_field_byte, CR, LF. intros H. apply orb_true_iff in H as [H|H]; apply N.eqb_eq in H; subst; repeat split; lia.
Qed.

Lemma token_facts n : is_token n = true ->
  n <> [] /\ (forall x, In x n -> is_ws x = false) /\ ~ In COLON n /\ ~ In CR n /\ ~ In LF n /\ ~ In SP n.
Proof.
  unfold is_token. intros H. apply andb_true_iff in H as [Hne Ht]. split; [now apply nonempty_ne|].
  pose proof (forallb_In' _ _ Ht) as F.
  repeat split; try (intros x Hx; now apply is_tchar_facts, F); intros Hi; apply F, is_tchar_facts in Hi; tauto.
Qed.

Lemma rfc_value_facts v : rfc_value v = true -> strip v = v /\ ~ In CR v /\ ~ In LF v.
Proof.
  unfold rfc_value. intros H. apply andb_true_iff in H as [Hf Hs]. split; [now apply stripped_strip|].
  pose proof (forallb_In' _ _ Hf) as F. split; intros Hi; apply F, is_field_byte_facts in Hi; tauto.
Qed.

Section Field.
  Variable f : hfield.
  Hypothesis W : wf_field f = true.

  Lemma wf_field_parts : is_token (hf_name f) = true /\ forallb is_ows (hf_pre f) = true /\
                         rfc_value (hf_value f) = true /\ forallb is_ows (hf_post f) = true.
  Proof.
    unfold wf_field in W. apply andb_true_iff in W as [W1 W4]. apply andb_true_iff in W1 as [W1 W3].
    apply andb_true_iff in W1 as [W1 W2]. tauto.
  Qed.
  Lemma ows_ws l : forallb is_ows l = true -> forallb is_ws l = true.
  Proof. intros H. apply forallb_forall. intros x Hx. now apply is_ows_facts, (forallb_In' _ _ H). Qed.

  Lemma field_hdr_ok : hdr_ok (field_nv f).
  Proof.
    destruct wf_field_parts as (Wn & Wpre & Wv & Wpost). 
    destruct (token_facts _ Wn) as (N1 & N2 & N3 & N4 & _). destruct (rfc_value_facts _ Wv) as (V1 & V2 & _).
    unfold hdr_ok, field_nv. cbn [fst snd]. repeat split; try assumption. now apply strip_noop.
  Qed.

  Lemma strip_padded : strip (hf_pre f ++ hf_value f ++ hf_post f) = hf_value f.
  Proof.
    destruct wf_field_parts as (Wn & Wpre & Wv & Wpost). 
    unfold strip. rewrite lstrip_app_ws by (apply ows_ws, Wpre).
    pose proof Wv as Hv. unfold rfc_value in Hv. apply andb_true_iff in Hv as [_ Hs].
    destruct (hf_value f) as [|x t] eqn:Ev.
    - cbn [app]. replace (hf_post f) with (hf_post f ++ []) by apply app_nil_r.
      rewrite lstrip_app_ws by (apply ows_ws, Wpost). reflexivity.
    - unfold stripped in Hs. apply andb_true_iff in Hs as [H1 H2]. apply negb_true_iff in H1, H2.
      cbn [app]. rewrite lstrip_cons_nws by exact H1. change (x :: t ++ hf_post f) with ((x :: t) ++ hf_post f).
      rewrite rstrip_app_ws by (apply ows_ws, Wpost). apply rstrip_nws; [discriminate|exact H2].
  Qed.

  Lemma hdr_kv_field : hdr_kv (render_field f) = field_nv f.
  Proof.
    destruct wf_field_parts as (Wn & Wpre & Wv & Wpost). 
    destruct (token_facts _ Wn) as (N1 & N2 & N3 & _). unfold hdr_kv, render_field. cbn [app].
    rewrite (split_once_byte_notin COLON (hf_name f) _ N3). rewrite strip_padded, (strip_noop _ N2). reflexivity.
  Qed.

  Lemma field_no_cr : ~ In CR (render_field f).
  Proof.
    destruct wf_field_parts as (Wn & Wpre & Wv & Wpost). 
    destruct (token_facts _ Wn) as (_ & _ & _ & N4 & _). destruct (rfc_value_facts _ Wv) as (_ & V2 & _).
    unfold render_field. rewrite !in_app_iff. cbn [In]. intros [H|[[H|[]]|[H|[H|H]]]]; try contradiction; try discriminate.
    - apply (forallb_In' _ _ Wpre), is_ows_facts in H. tauto.
    - apply (forallb_In' _ _ Wpost), is_ows_facts in H. tauto.
  Qed.

  Lemma field_nonblank : match strip (render_field f) with [] => true | _ => false end = false.
  Proof.
    destruct wf_field_parts as (Wn & Wpre & Wv & Wpost). 
    destruct (token_facts _ Wn) as (N1 & N2 & _). destruct (hf_name f) as [|x t] eqn:En; [congruence|].
    assert (Hin : In x (strip (render_field f))).
    { apply In_strip; [unfold render_field; rewrite En; now left|apply N2; now left]. }
    destruct (strip (render_field f)); [destruct Hin|reflexivity].
  Qed.

  (* one header line: the optional whitespace is invisible to the parser *)
  Lemma hdr_step_field p : hdr_step p (render_field f) = hdr_step p (render_hdr (field_nv f)).
  Proof.
    unfold hdr_step. rewrite field_nonblank, (hdr_ok_nonblank _ field_hdr_ok).
    rewrite !process_header_eq. rewrite hdr_kv_field, (hdr_kv_render _ field_hdr_ok). reflexivity.
  Qed.
End Field.

Lemma render_fields_cons f fs : render_fields (f :: fs) = (render_field f ++ CRLF) ++ render_fields fs.
Proof. reflexivity. Qed.

Lemma hdr_step_nonblank_state p line p' : st23 p -> match strip line with [] => true | _ => false end = false ->
  hdr_step p line = Ok p' -> state p' = RCVING_HEADERS.
Proof.
  intros S B. unfold hdr_step. rewrite (st23_test p S), B. intros H. apply process_header_state in H. exact H.
Qed.

Lemma PH_fields fs : forall p more, st23 p -> forallb wf_field fs = true -> more <> [] ->
  PH p (render_fields fs ++ more) = PH p (render_hdrs (map field_nv fs) ++ more).
Proof.
  induction fs as [|f fs IH]; intros p more S W Hm; [reflexivity|].
  cbn [forallb] in W. apply andb_true_iff in W as [Wf Wfs].
  rewrite render_fields_cons. cbn [map]. change (render_hdrs (field_nv f :: map field_nv fs))
    with ((render_hdr (field_nv f) ++ CRLF) ++ render_hdrs (map field_nv fs)).
  rewrite <- !app_assoc. rewrite (PH_step p (render_field f ++ _)), (PH_step p (render_hdr (field_nv f) ++ _)).
  rewrite (crlf_free_split _ _ (crlf_free_cr _ (field_no_cr f Wf))).
  rewrite (crlf_free_split _ _ (hdr_ok_free _ (field_hdr_ok f Wf))).
  rewrite (hdr_step_field f Wf p).
  destruct (hdr_step p (render_hdr (field_nv f))) as [p'|e] eqn:E; cbn [bind]; [|reflexivity].
  assert (S' : state p' = RCVING_HEADERS).
  { eapply hdr_step_nonblank_state; [exact S|apply (hdr_ok_nonblank _ (field_hdr_ok f Wf))|exact E]. }
  assert (N1 : nz (render_fields fs ++ more) = true) by (apply nz_app_r; exact Hm).
  assert (N2 : nz (render_hdrs (map field_nv fs) ++ more) = true) by (apply nz_app_r; exact Hm).
  rewrite N1, N2, S'. cbn [negb orb]. change (RCVING_HEADERS =? HEADERS_COMPLETE) with false. cbv iota.
  apply IH; [right; exact S'|exact Wfs|exact Hm].
Qed.

(* the whole message: only total_size sees the optional whitespace *)
Lemma parse_spacing al sl fs wire :
  start_ok al sl -> (match sl with ReqLine _ _ _ _ => true | StatusLine _ _ _ => false end) = true ->
  forallb wf_field fs = true ->
  let spaced := render_start sl ++ CRLF ++ render_fields fs ++ CRLF ++ wire in
  let canon := render_start sl ++ CRLF ++ render_hdrs (map field_nv fs) ++ CRLF ++ wire in
  parse_with al (new_parser REQUEST_PARSER) spaced =
  do p <- parse_with al (new_parser REQUEST_PARSER) canon; Ok (set_buffer_size p (buffer p) (len spaced)).
Proof.
  intros Hs Hreq W spaced canon. set (p0 := new_parser REQUEST_PARSER).
  assert (I0 : pinv p0) by apply pinv_new.
  rewrite !parse_with_alt by exact I0. change (bufb p0) with (@nil N). cbn [app].
  assert (Ns : nz spaced = true) by (apply nz_true; unfold spaced; destruct (render_start sl); discriminate).
  assert (Nc : nz canon = true) by (apply nz_true; unfold canon; destruct (render_start sl); discriminate).
  rewrite Ns, Nc.
  enough (E : PL al true p0 spaced = PL al true p0 canon).
  { rewrite E. destruct (PL al true p0 canon) as [[r p']|e]; reflexivity. }
  unfold spaced, canon.
  rewrite !PL_step_true; try exact I0; try discriminate.
  rewrite !proc_line by reflexivity.
  rewrite !(process_line_render al p0 sl _ Hs) by (destruct sl; [reflexivity|discriminate]).
  cbn [bind]. set (p2 := after_line p0 sl).
  assert (I2 : pinv p2) by (apply after_line_inv; [exact I0|reflexivity]).
  assert (S2 : st23 p2) by (left; unfold p2; destruct sl; reflexivity).
  rewrite !maybe_complete_not4 by (unfold p2; destruct sl; cbn [after_line state set_line]; discriminate).
  assert (M : CRLF ++ wire <> []) by discriminate.
  rewrite (nz_app_r (render_fields fs) _ M), (nz_app_r (render_hdrs (map field_nv fs)) _ M).
  rewrite !PL_step_true; try exact I2; try (destruct S2 as [X|X]; rewrite X; discriminate).
  rewrite !proc_headers by exact S2.
  rewrite (PH_fields fs p2 (CRLF ++ wire) S2 W M). reflexivity.
Qed.

(* ---- a well-formed request is a message of the C03 grammar (up to the optional whitespace) ---- *)
Definition to_framing (f : rframing) : framing :=
  match f with
  | RNone => FNone
  | RLength h data => FLength (hf_name h) (hf_value h) data
  | RChunked h s => FChunked (hf_name h) (hf_value h) (stream_of s)
  end.
Definition to_msg (r : request) (u : url) : message :=
  {| m_start := ReqLine (q_method r) (render_target (q_target r)) (q_version r) u;
     m_hs1 := map field_nv (q_hs1 r); m_framing := to_framing (q_framing r); m_hs2 := map field_nv (q_hs2 r) |}.

Record wf_parts (r : request) : Prop := {
  wp_method : is_token (q_method r) = true;
  wp_not_connect : bytes_eqb (q_method r) CONNECT = false;
  wp_abs : is_absolute (q_target r) = true;
  wp_target : wf_target (q_target r) = true;
  wp_vchar : forallb is_vchar (render_target (q_target r)) = true;
  wp_port : (0 < target_port (q_target r) <= 65535)%Z;
  wp_version : q_version r = HTTP_1_1 \/ q_version r = HTTP_1_0;
  wp_hs1 : forallb other_field (q_hs1 r) = true;
  wp_hs2 : forallb other_field (q_hs2 r) = true;
  wp_nodup : nodup_ci (map hf_name (all_fields r)) = true;
  wp_framing : wf_framing (q_framing r) = true }.

Lemma wf_request_parts r : wf_request r = true -> wf_parts r.
Proof.
  unfold wf_request. intros H.
  apply andb_true_iff in H as [H H12]. apply andb_true_iff in H as [H H11]. apply andb_true_iff in H as [H H10].
  apply andb_true_iff in H as [H H9]. apply andb_true_iff in H as [H H8]. apply andb_true_iff in H as [H H7].
  apply andb_true_iff in H as [H H6]. apply andb_true_iff in H as [H H5]. apply andb_true_iff in H as [H H4].
  apply andb_true_iff in H as [H H3]. apply andb_true_iff in H as [H1 H2].
  constructor; try assumption.
  - now apply negb_true_iff in H2.
  - apply Z.ltb_lt in H6. apply Z.leb_le in H7. lia.
  - apply orb_true_iff in H8 as [E|E]; apply bytes_eqb_eq in E; tauto.
Qed.

Lemma is_vchar_facts x : is_vchar x = true -> x <> SP /\ x <> CR /\ x <> LF.
Proof. unfold is_vchar, SP, CR, LF. intros H. apply andb_true_iff in H as [H1 H2]. apply N.leb_le in H1, H2. repeat split; lia. Qed.

Lemma version_facts v : v = HTTP_1_1 \/ v = HTTP_1_0 -> ~ In CR v /\ ~ In LF v /\ ~ In SP v /\ is_http_version v = true.
Proof.
  intros [-> | ->]; (split; [|split; [|split; [|reflexivity]]]); intros Hi;
    match goal with Hi : In ?c ?l |- _ =>
      assert (F : forallb (fun x => negb (x =? c)) l = true) by reflexivity;
      pose proof (forallb_In' _ _ F _ Hi) as C; vm_compute in C; discriminate C end.
Qed.

Lemma other_field_parts f : other_field f = true ->
  wf_field f = true /\ lower (hf_name f) <> CONTENT_LENGTH /\ lower (hf_name f) <> TRANSFER_ENCODING.
Proof.
  unfold other_field, name_is. intros H. apply andb_true_iff in H as [H H3]. apply andb_true_iff in H as [H1 H2].
  apply negb_true_iff in H2, H3. split; [exact H1|]. split; intros C; rewrite C, bytes_eqb_refl in *; discriminate.
Qed.

Lemma others_other_ok fs : forallb other_field fs = true -> Forall other_ok (map field_nv fs) /\ forallb wf_field fs = true.
Proof.
  induction fs as [|f fs IH]; intros H; [split; [constructor|reflexivity]|].
  cbn [forallb] in H. apply andb_true_iff in H as [Hf Hfs]. destruct (IH Hfs) as [I1 I2].
  destruct (other_field_parts f Hf) as (W & N1 & N2). split.
  - cbn [map]. constructor; [|exact I1]. split; [now apply field_hdr_ok|]. split; assumption.
  - cbn [forallb]. now rewrite W, I2.
Qed.

Lemma wf_framing_parts fr : wf_framing fr = true ->
  ParserFacts.framing_ok (to_framing fr) /\ forallb wf_field (framing_fields fr) = true.
Proof.
  destruct fr as [|h data|h s]; cbn [wf_framing to_framing ParserFacts.framing_ok framing_fields forallb]; intros H.
  - split; [exact I|reflexivity].
  - apply andb_true_iff in H as [H H6]. apply andb_true_iff in H as [H H5]. apply andb_true_iff in H as [H H4].
    apply andb_true_iff in H as [H H3]. apply andb_true_iff in H as [H1 H2].
    split; [|now rewrite H1]. split; [exact (field_hdr_ok h H1)|]. split; [now apply bytes_eqb_eq in H2|].
    rewrite int10_digits; [|now apply nonempty_ne|exact H4|now apply Nat.leb_le in H5].
    apply N.eqb_eq in H6. rewrite H6, len_Z. reflexivity.
  - apply andb_true_iff in H as [H H4]. apply andb_true_iff in H as [H H3]. apply andb_true_iff in H as [H1 H2].
    split; [|now rewrite H1]. split; [exact (field_hdr_ok h H1)|]. split; [now apply bytes_eqb_eq in H2|].
    split; [now apply bytes_eqb_eq in H3|now apply wf_chunked_stream_ok].
Qed.

Lemma all_fields_nv r u : all_hdrs (to_msg r u) = map field_nv (all_fields r).
Proof.
  unfold all_hdrs, to_msg, all_fields. cbn [m_hs1 m_framing m_hs2]. rewrite !map_app. f_equal. f_equal.
  destruct (q_framing r); reflexivity.
Qed.

Lemma lkeys_fields fs : lkeys (map field_nv fs) = map lower (map hf_name fs).
Proof. unfold lkeys. rewrite !map_map. reflexivity. Qed.

Lemma nodup_fields r : wf_parts r -> NoDup (lkeys (map field_nv (all_fields r))).
Proof.
  intros P. apply nodup_ci_NoDup. rewrite map_map. cbn [field_nv fst]. exact (wp_nodup r P).
Qed.

Lemma message_ok_of al r u : wf_parts r -> from_bytes al (render_target (q_target r)) = Ok u ->
  message_ok al (to_msg r u) /\ forallb wf_field (all_fields r) = true.
Proof.
  intros P Hu. destruct (others_other_ok _ (wp_hs1 r P)) as [O1 W1]. destruct (others_other_ok _ (wp_hs2 r P)) as [O2 W2].
  destruct (wf_framing_parts _ (wp_framing r P)) as [Of Wf]. split.
  - unfold message_ok, to_msg. cbn [m_start m_hs1 m_framing m_hs2 start_ok]. repeat split; try assumption.
    + apply (token_facts _ (wp_method r P)).
    + apply (token_facts _ (wp_method r P)).
    + intros Hi. apply (forallb_In' _ _ (wp_vchar r P)), is_vchar_facts in Hi. tauto.
    + intros Hi. apply (forallb_In' _ _ (wp_vchar r P)), is_vchar_facts in Hi. tauto.
    + apply (version_facts _ (wp_version r P)).
  - unfold all_fields. rewrite !forallb_app. now rewrite W1, W2, Wf.
Qed.

(* what the parser holds after the whole request *)
Definition body_of_framing (f : rframing) : option bytes :=
  match f with RNone => None | RLength _ d => optb d | RChunked _ s => Some (ref_dechunk s) end.
Definition chunked_framing (f : rframing) : bool := match f with RChunked _ _ => true | _ => false end.

Record parsed_as (r : request) (p : parser) : Prop := {
  pa_state : state p = COMPLETE;
  pa_buffer : buffer p = None;
  pa_ty : ty p = REQUEST_PARSER;
  pa_method : method p = Some (q_method r);
  pa_version : version p = Some (q_version r);
  pa_purl : exists u, purl p = Some u;
  pa_tunnel : is_https_tunnel p = false;
  pa_attrs : (Parser.host p, Parser.port p, path p) = UrlSpec.expected false (q_target r);
  pa_headers : headers p = lift_headers (map field_nv (all_fields r));
  pa_body : body p = body_of_framing (q_framing r);
  pa_chunked : is_chunked_encoded p = chunked_framing (q_framing r) }.

Lemma render_request_start r u :
  render_request r =
  render_start (m_start (to_msg r u)) ++ CRLF ++ render_fields (all_fields r) ++ CRLF ++ framing_wire (q_framing r).
Proof.
  unfold render_request, to_msg. cbn [m_start render_start]. rewrite <- app_assoc. cbn [app].
  rewrite <- app_assoc. cbn [app]. reflexivity.
Qed.

Lemma framing_wire_bytes fr : framing_bytes (to_framing fr) = framing_wire fr.
Proof. destruct fr as [|h d|h s]; cbn [to_framing framing_bytes framing_wire]; [reflexivity|reflexivity|apply render_stream_of]. Qed.

Theorem parse_request r : wf_request r = true ->
  exists p, parse (new_parser REQUEST_PARSER) (render_request r) = Ok p /\ parsed_as r p.
Proof.
  intros W. pose proof (wf_request_parts r W) as P.
  pose proof (derive_roundtrip false _ (wp_target r P)) as D. unfold derive in D.
  destruct (from_bytes DEFAULT_ALLOWED_URL_SCHEMES (render_target (q_target r))) as [u|e] eqn:Hu; cbn [bind] in D; [|discriminate].
  assert (La : line_attributes false u = UrlSpec.expected false (q_target r)) by congruence.
  destruct (message_ok_of _ r u P Hu) as [Hm Wf]. set (m := to_msg r u) in *.
  assert (Ht : tail_ok m []) by (unfold tail_ok; cbn; exact I).
  pose proof (complete_at_end _ m [] Hm Ht) as C. rewrite app_nil_r in C.
  unfold parse. rewrite (render_request_start r u). fold m.
  rewrite (parse_spacing DEFAULT_ALLOWED_URL_SCHEMES (m_start m) (all_fields r) (framing_wire (q_framing r)));
    [|apply Hm|reflexivity|exact Wf].
  assert (Er : render_start (m_start m) ++ CRLF ++ render_hdrs (map field_nv (all_fields r)) ++ CRLF ++ framing_wire (q_framing r)
               = render m).
  { unfold render. unfold m at 3 4. rewrite (all_fields_nv r u). unfold to_msg. cbn [m_framing]. now rewrite framing_wire_bytes. }
  rewrite Er. change (msg_type m) with REQUEST_PARSER in C. rewrite C. cbn [bind].
  eexists. split; [reflexivity|].
  destruct (expected_fields m []) as (F1 & F2 & _ & F4 & F5 & F6).
  unfold m at 1, to_msg in F6. cbn [m_start] in F6. destruct F6 as (G1 & G2 & G3 & G4 & G5 & _).
  rewrite (wp_not_connect r P) in G4, G5.
  constructor; cbn [state buffer ty method version purl is_https_tunnel Parser.host Parser.port path headers body
                    is_chunked_encoded set_buffer_size]; try assumption.
  - exact (expected_ty m []).
  - exists u. exact G2.
  - rewrite G5. exact La.
  - rewrite F4. unfold m. rewrite (all_fields_nv r u). apply add_all_lift, nodup_fields, P.
  - rewrite F5. unfold m, to_msg. cbn [m_framing]. destruct (q_framing r) as [|h d|h s]; cbn [to_framing body_of_framing];
      [reflexivity|reflexivity|now rewrite stream_body_of].
  - rewrite expected_chunked. unfold m, to_msg. cbn [m_framing]. destruct (q_framing r); reflexivity.
Qed.

(* ===================================================================================== *)
(* C. the reference parser reads back what the builders wrote                              *)

Definition out_field (nv : bytes * bytes) : Prop := is_token (fst nv) = true /\ rfc_value (snd nv) = true.

Lemma is_ws_false_ows x : is_ws x = false -> is_ows x = false.
Proof. intros H. destruct (is_ows x) eqn:E; [|reflexivity]. apply is_ows_facts in E. destruct E as [E _]. congruence. Qed.

Lemma ltrim_ows_stripped v : stripped v = true -> ltrim_ows v = v /\ ltrim_ows (rev v) = rev v.
Proof.
  destruct v as [|x t]; [split; reflexivity|]. unfold stripped. intros H. apply andb_true_iff in H as [H1 H2].
  apply negb_true_iff in H1, H2. split.
  - cbn [ltrim_ows]. now rewrite (is_ws_false_ows _ H1).
  - destruct (exists_last (l := x :: t)) as (l' & y & E); [discriminate|]. rewrite E in *. rewrite last_last in H2.
    rewrite rev_app_distr. cbn [rev app ltrim_ows]. now rewrite (is_ws_false_ows _ H2).
Qed.

Lemma trim_ows_sp v : rfc_value v = true -> trim_ows (SP :: v) = v.
Proof.
  unfold rfc_value. intros H. apply andb_true_iff in H as [_ Hs]. destruct (ltrim_ows_stripped v Hs) as [L1 L2].
  unfold trim_ows. cbn [ltrim_ows]. change (is_ows SP) with true. cbv iota. rewrite L1, L2. apply rev_involutive.
Qed.

Lemma out_field_line k v : out_field (k, v) ->
  ~ In LF (build_http_header k v) /\ parse_field_line (build_http_header k v) = Some (k, v) /\
  exists x l, build_http_header k v = x :: l.
Proof.
  intros [Hk Hv]. cbn [fst snd] in *. destruct (token_facts _ Hk) as (N1 & _ & N3 & _ & N5 & _).
  destruct (rfc_value_facts _ Hv) as (_ & _ & V3). unfold build_http_header. repeat split.
  - rewrite !in_app_iff. cbn [In]. unfold COLON, SP, LF in *. intros [H|[[H|[]]|[[H|[]]|H]]]; try contradiction; discriminate.
  - unfold parse_field_line. cbn [app]. rewrite (split_once_byte_notin COLON k _ N3). rewrite Hk.
    cbn [forallb]. change (is_field_byte SP) with true. unfold rfc_value in Hv. apply andb_true_iff in Hv as [Hf Hs].
    rewrite Hf. cbn [andb]. rewrite trim_ows_sp; [reflexivity|]. unfold rfc_value. now rewrite Hf, Hs.
  - destruct k as [|x t]; [congruence|]. exists x. eexists. reflexivity.
Qed.

Lemma parse_fields_lines hs : forall fuel rest, Forall out_field hs -> (length hs < fuel)%nat ->
  parse_fields fuel (header_lines hs ++ CRLF ++ rest) = Some (hs, rest).
Proof.
  induction hs as [|[k v] t IH]; intros fuel rest F Hl; (destruct fuel as [|fuel]; [cbn [length] in Hl; lia|]).
  - cbn [header_lines app parse_fields]. rewrite split_once_crlf_head. reflexivity.
  - inversion F as [|? ? Hkv Ft]; subst. destruct (out_field_line k v Hkv) as (L1 & L2 & x & l & L3).
    cbn [header_lines parse_fields]. rewrite <- !app_assoc.
    rewrite (split_once_crlf_no_lf _ _ L1). rewrite L3 at 1. rewrite L2.
    rewrite (IH fuel rest Ft) by (cbn [length] in Hl; lia). reflexivity.
Qed.

Lemma header_lines_length hs : (length hs <= length (header_lines hs))%nat.
Proof.
  induction hs as [|[k v] t IH]; [cbn; lia|]. cbn [header_lines length]. rewrite !app_length. cbn [length CRLF]. lia.
Qed.

(* how the header fields frame the bytes after the blank line, for the reference parser *)
Definition framing_out (hs : bdict) (wire body : bytes) : Prop :=
  match fields_named TRANSFER_ENCODING hs, fields_named CONTENT_LENGTH hs with
  | [], [] => wire = [] /\ body = []
  | [te], [] => lower te = CHUNKED /\ ref_dechunk_bytes wire = Some (body, [])
  | [], [cl] => is_dec cl = true /\ decval cl = len wire /\ body = wire
  | _, _ => False
  end.

Lemma ref_parse_render m t v hs wire body :
  is_token m = true -> nonempty t = true -> forallb is_vchar t = true -> (v = HTTP_1_1 \/ v = HTTP_1_0) ->
  Forall out_field hs -> framing_out hs wire body ->
  ref_parse_request (render_forward m t v hs wire) =
  Some {| f_method := m; f_target := t; f_version := v; f_headers := hs; f_body := body |}.
Proof.
  intros Hm Hne Ht Hv Hhs Hf. destruct (token_facts _ Hm) as (_ & _ & _ & _ & M5 & M6).
  destruct (version_facts v Hv) as (_ & V2 & V3 & V4).
  assert (T5 : ~ In LF t) by (intros Hi; apply (forallb_In' _ _ Ht), is_vchar_facts in Hi; tauto).
  assert (T6 : ~ In SP t) by (intros Hi; apply (forallb_In' _ _ Ht), is_vchar_facts in Hi; tauto).
  unfold ref_parse_request, render_forward.
  replace (m ++ [SP] ++ t ++ [SP] ++ v ++ CRLF ++ header_lines hs ++ CRLF ++ wire)
    with ((m ++ SP :: t ++ SP :: v) ++ CRLF ++ header_lines hs ++ CRLF ++ wire)
    by (rewrite <- app_assoc; cbn [app]; rewrite <- app_assoc; reflexivity).
  rewrite split_once_crlf_no_lf.
  2:{ rewrite in_app_iff. cbn [In]. rewrite in_app_iff. cbn [In]. unfold SP, LF in *. intros [H|[H|[H|[H|H]]]]; try contradiction; discriminate. }
  rewrite (ParserFacts.splitn2_three m t v M6 T6). rewrite Hm, Hne, Ht, V4. cbn [andb].
  rewrite parse_fields_lines; [|exact Hhs|].
  2:{ pose proof (header_lines_length hs). rewrite app_length. lia. }
  unfold framing_out in Hf.
  destruct (fields_named TRANSFER_ENCODING hs) as [|te [|te2 tl]]; destruct (fields_named CONTENT_LENGTH hs) as [|cl [|cl2 cl3]];
    try contradiction.
  - destruct Hf as [-> ->]. reflexivity.
  - destruct Hf as (H1 & H2 & ->). rewrite H1, H2, N.eqb_refl. reflexivity.
  - destruct Hf as (H1 & H2). rewrite H1, bytes_eqb_refl, H2. reflexivity.
Qed.

(* ---- the executable chunked recogniser accepts every stream of the grammar (completeness) ---- *)
Lemma ext_ok_head e : ext_ok e = true -> match e with [] => True | x :: _ => Grammar.is_hex x = false end.
Proof.
  destruct e as [|x t]; [trivial|]. unfold ext_ok. cbn [forallb]. intros H. apply orb_true_iff in H as [H|H].
  - apply andb_true_iff in H as [H _]. unfold is_ows in H. apply orb_true_iff in H as [H|H]; apply N.eqb_eq in H; subst; reflexivity.
  - apply andb_true_iff in H as [H _]. apply N.eqb_eq in H. subst. reflexivity.
Qed.

Lemma span_hex_app sz e : forallb Grammar.is_hex sz = true -> ext_ok e = true -> span_hex (sz ++ e) = (sz, e).
Proof.
  intros Hs He. induction sz as [|x t IH]; cbn [app].
  - pose proof (ext_ok_head e He) as Hh. destruct e as [|y u]; [reflexivity|]. cbn [span_hex]. now rewrite Hh.
  - cbn [forallb] in Hs. apply andb_true_iff in Hs as [Hx Ht]. cbn [span_hex]. rewrite Hx, (IH Ht). reflexivity.
Qed.

Lemma parse_size_line_complete sz e : nonempty sz = true -> forallb Grammar.is_hex sz = true -> ext_ok e = true ->
  parse_size_line (sz ++ e) = Some (hexval sz, sz, e).
Proof. intros H1 H2 H3. unfold parse_size_line. rewrite (span_hex_app sz e H2 H3), H1, H3. reflexivity. Qed.

Lemma parse_trailers_complete ts : forall fuel rest, forallb wf_field_line ts = true -> (length ts < fuel)%nat ->
  parse_trailers fuel (concat (map (fun t => t ++ CRLF) ts) ++ CRLF ++ rest) = Some (ts, rest).
Proof.
  induction ts as [|t ts IH]; intros fuel rest W Hl; (destruct fuel as [|fuel]; [cbn [length] in Hl; lia|]).
  - cbn [map concat app parse_trailers]. rewrite split_once_crlf_head. reflexivity.
  - cbn [forallb] in W. apply andb_true_iff in W as [Wt Wts].
    destruct (wf_field_line_trailer t Wt) as [Tf Tne].
    cbn [map concat parse_trailers]. rewrite <- !app_assoc. rewrite (crlf_free_split _ _ Tf).
    destruct t as [|t0 t']; [congruence|]. rewrite Wt. rewrite (IH fuel rest Wts) by (cbn [length] in Hl; lia). reflexivity.
Qed.

Lemma concat_trailers_length (ts : list bytes) : (length ts <= length (concat (map (fun t => t ++ CRLF) ts)))%nat.
Proof. induction ts as [|t ts IH]; [cbn; lia|]. cbn [map concat length]. rewrite !app_length. cbn [length CRLF]. lia. Qed.

Lemma len_app' (a b : bytes) : len (a ++ b) = len a + len b.
Proof. unfold len. rewrite app_length. lia. Qed.

Lemma parse_chunked_complete cs : forall fuel last lext ts rest,
  forallb wf_chunk cs = true -> nonempty last = true -> forallb (fun x => x =? 48) last = true -> ext_ok lext = true ->
  forallb wf_field_line ts = true -> (length cs < fuel)%nat ->
  parse_chunked fuel (render_chunked {| ch_chunks := cs; ch_last_size := last; ch_last_ext := lext; ch_trailers := ts |} ++ rest) =
  Some ({| ch_chunks := cs; ch_last_size := last; ch_last_ext := lext; ch_trailers := ts |}, rest).
Proof.
  induction cs as [|c cs IH]; intros fuel last lext ts rest Wc Wl Wz We Wt Hl;
    (destruct fuel as [|fuel]; [cbn [length] in Hl; lia|]); unfold render_chunked;
    cbn [ch_chunks ch_last_size ch_last_ext ch_trailers map concat app].
  - destruct (hexval_zeros last Wz) as [Hh Hv].
    cbn [parse_chunked]. rewrite <- !app_assoc. rewrite (app_assoc last lext).
    rewrite (crlf_free_split _ _ (size_line_crlf_free last lext Hh We)).
    rewrite (parse_size_line_complete last lext Wl Hh We), Hv. change (0 =? 0) with true. cbv iota.
    rewrite parse_trailers_complete; [reflexivity|exact Wt|].
    rewrite !app_length. pose proof (concat_trailers_length ts). lia.
  - cbn [forallb] in Wc. apply andb_true_iff in Wc as [Wc1 Wcs]. destruct c as [sz ext data].
    unfold wf_chunk in Wc1. cbn [ck_size ck_ext ck_data] in Wc1.
    apply andb_true_iff in Wc1 as [Wc1 W5]. apply andb_true_iff in Wc1 as [Wc1 W4]. apply andb_true_iff in Wc1 as [Wc1 W3].
    apply andb_true_iff in Wc1 as [W1 W2]. apply N.eqb_eq in W5.
    unfold render_chunk at 1. cbn [ck_size ck_ext ck_data]. cbn [parse_chunked]. rewrite <- !app_assoc.
    rewrite (app_assoc sz ext). rewrite (crlf_free_split _ _ (size_line_crlf_free sz ext W2 W3)).
    rewrite (parse_size_line_complete sz ext W1 W2 W3), W5.
    assert (Hd : len data <> 0) by (destruct data; [discriminate|unfold len; cbn [length]; lia]).
    apply N.eqb_neq in Hd. rewrite Hd.
    set (tail := concat (map render_chunk cs) ++ last ++ lext ++ CRLF ++ concat (map (fun t => t ++ CRLF) ts) ++ CRLF ++ rest).
    replace (len data <=? len (data ++ CRLF ++ tail)) with true by (symmetry; apply N.leb_le; rewrite len_app'; lia).
    rewrite take_app_exact, drop_app_exact. rewrite is_prefix_self_app. cbn [CRLF app skipn].
    pose proof (IH fuel last lext ts rest Wcs Wl Wz We Wt ltac:(cbn [length] in Hl; lia)) as R.
    unfold render_chunked in R. cbn [ch_chunks ch_last_size ch_last_ext ch_trailers] in R. rewrite <- !app_assoc in R.
    fold tail in R. rewrite R. reflexivity.
Qed.

Lemma chunks_length (cs : list Grammar.chunk) : (length cs <= length (concat (map render_chunk cs)))%nat.
Proof.
  induction cs as [|c cs IH]; [cbn; lia|]. cbn [map concat length]. unfold render_chunk at 1. rewrite !app_length. cbn [length CRLF]. lia.
Qed.

Lemma rechunk_render b : rechunk b = render_chunked (chunks_of b DEFAULT_BUFFER_SIZE).
Proof.
  unfold rechunk, render_chunked, chunks_of. cbn [ch_chunks ch_last_size ch_last_ext ch_trailers map concat app].
  now rewrite to_chunks_aux_render.
Qed.

Lemma ref_dechunk_rechunk b : ref_dechunk_bytes (rechunk b) = Some (b, []).
Proof.
  assert (K : 0 < DEFAULT_BUFFER_SIZE) by reflexivity.
  pose proof (chunks_of_wf b DEFAULT_BUFFER_SIZE K) as W. pose proof (chunks_of_dechunk b DEFAULT_BUFFER_SIZE K) as D.
  unfold ref_dechunk_bytes. rewrite rechunk_render.
  set (s := chunks_of b DEFAULT_BUFFER_SIZE) in *. destruct s as [cs last lext ts] eqn:Es.
  unfold wf_chunked in W. cbn [ch_chunks ch_last_size ch_last_ext ch_trailers] in W.
  apply andb_true_iff in W as [W W5]. apply andb_true_iff in W as [W W4]. apply andb_true_iff in W as [W W3].
  apply andb_true_iff in W as [W1 W2].
  rewrite <- (app_nil_r (render_chunked _)) at 2.
  rewrite parse_chunked_complete; try assumption.
  - now rewrite D.
  - unfold render_chunked. cbn [ch_chunks]. rewrite app_length. pose proof (chunks_length cs). lia.
Qed.

Lemma rechunk_nonempty b : truthy (Some (rechunk b)) = true.
Proof. unfold rechunk. destruct (to_chunks_aux _ _ b); reflexivity. Qed.

(* ---- names survive the rewriting unless they are hop-by-hop, via or disabled ---- *)
Lemma get_ci_filter (g : bytes -> bool) ln hs : g ln = false ->
  get_ci ln (filter (fun nv => negb (g (lower (fst nv)))) hs) = get_ci ln hs.
Proof.
  intros Hg. induction hs as [|[k v] t IH]; [reflexivity|]. cbn [filter fst].
  destruct (g (lower k)) eqn:E; cbn [negb]; rewrite ?get_ci_cons.
  - destruct (bytes_eqb_spec (lower k) ln) as [X|X]; [congruence|exact IH].
  - now rewrite IH.
Qed.

Lemma get_ci_set_field ln name v hs :
  get_ci ln (set_field name v hs) = if bytes_eqb ln (lower name) then Some v else get_ci ln hs.
Proof.
  induction hs as [|[k v'] t IH]; cbn [set_field].
  - rewrite get_ci_cons. destruct (bytes_eqb_spec (lower name) ln), (bytes_eqb_spec ln (lower name)); try reflexivity; congruence.
  - destruct (bytes_eqb_spec (lower k) (lower name)) as [E|E]; rewrite !get_ci_cons.
    + rewrite E. destruct (bytes_eqb_spec (lower name) ln), (bytes_eqb_spec ln (lower name)); try reflexivity; congruence.
    + rewrite IH. destruct (bytes_eqb_spec (lower k) ln), (bytes_eqb_spec ln (lower name)); try reflexivity; congruence.
Qed.

Lemma set_field_new name v hs : get_ci (lower name) hs = None -> set_field name v hs = hs ++ [(name, v)].
Proof.
  induction hs as [|[k v'] t IH]; intros H; [reflexivity|]. rewrite get_ci_cons in H. cbn [set_field app].
  destruct (bytes_eqb (lower k) (lower name)); [discriminate|]. now rewrite IH.
Qed.

Lemma with_via_appended cfg hs : cf_via_append cfg = true -> with_via cfg hs = via_appended (cf_agent cfg) hs.
Proof.
  intros H. unfold with_via, via_appended. rewrite H. destruct (get_ci L_VIA hs) eqn:E; [reflexivity|].
  apply set_field_new. exact E.
Qed.

Definition rewrite_fields (cfg : fcfg) (hs : bdict) : bdict := drop_disabled cfg (with_via cfg (drop_hop hs)).

Lemma get_ci_rewrite cfg ln hs : is_hop ln = false -> ln <> L_VIA -> mem_bytes ln (cf_disable cfg) = false ->
  get_ci ln (rewrite_fields cfg hs) = get_ci ln hs.
Proof.
  intros H1 H2 H3. unfold rewrite_fields, drop_disabled, drop_hop.
  rewrite (get_ci_filter (fun l => mem_bytes l (cf_disable cfg)) ln _ H3).
  unfold with_via.
  assert (G : forall v, get_ci ln (set_field H_VIA v (filter (fun nv => negb (is_hop (lower (fst nv)))) hs)) = get_ci ln hs).
  { intros v. rewrite get_ci_set_field. change (lower H_VIA) with L_VIA.
    destruct (bytes_eqb_spec ln L_VIA); [contradiction|]. apply (get_ci_filter is_hop ln hs H1). }
  destruct (get_ci L_VIA _); apply G.
Qed.

Lemma NoDup_rewrite cfg hs : NoDup (lkeys hs) -> NoDup (lkeys (rewrite_fields cfg hs)).
Proof.
  intros H. unfold rewrite_fields, drop_disabled. apply NoDup_lkeys_filter. unfold with_via.
  destruct (get_ci L_VIA _); apply NoDup_lkeys_set_field; unfold drop_hop; now apply NoDup_lkeys_filter.
Qed.

(* with unique names, the fields named ln are the one get_ci finds *)
Lemma fields_named_get ln hs : NoDup (lkeys hs) ->
  fields_named ln hs = match get_ci ln hs with Some v => [v] | None => [] end.
Proof.
  unfold fields_named. induction hs as [|[k v] t IH]; intros H; [reflexivity|].
  cbn [lkeys map fst] in H. inversion H as [|? ? Hn Hd]; subst. rewrite get_ci_cons. cbn [filter fst].
  destruct (bytes_eqb_spec (lower k) ln) as [E|E].
  - cbn [map snd]. f_equal. subst ln. rewrite (IH Hd). apply get_ci_none in Hn. now rewrite Hn.
  - exact (IH Hd).
Qed.

(* ---- value update by name, used for the recomputed Content-Length ---- *)
Definition upd (ln v : bytes) (hs : bdict) : bdict :=
  map (fun nv => if bytes_eqb (lower (fst nv)) ln then (fst nv, v) else nv) hs.

Lemma lkeys_upd ln v hs : lkeys (upd ln v hs) = lkeys hs.
Proof. unfold lkeys, upd. rewrite map_map. apply map_ext. intros [k w]. cbn [fst]. destruct (bytes_eqb (lower k) ln); reflexivity. Qed.

Lemma upd_absent ln v hs : ~ In ln (lkeys hs) -> upd ln v hs = hs.
Proof.
  induction hs as [|[k w] t IH]; intros H; [reflexivity|]. cbn [lkeys map fst In] in H. cbn [upd map fst].
  destruct (bytes_eqb_spec (lower k) ln) as [E|E]; [exfalso; apply H; now left|]. f_equal. apply IH. intros C. apply H. now right.
Qed.

Lemma put_ci_upd name v hs : NoDup (lkeys hs) -> has_key_ci (lower name) hs = true -> put_ci name v hs = upd (lower name) v hs.
Proof.
  induction hs as [|[k w] t IH]; intros Hn Hk; [discriminate|]. cbn [lkeys map fst] in Hn. inversion Hn as [|? ? N1 N2]; subst.
  cbn [put_ci upd map fst]. destruct (bytes_eqb_spec (lower k) (lower name)) as [E|E].
  - f_equal. symmetry. apply upd_absent. now rewrite <- E.
  - f_equal. apply IH; [exact N2|]. cbn [has_key_ci existsb fst] in Hk. apply orb_true_iff in Hk as [Hk|Hk]; [|exact Hk].
    apply bytes_eqb_eq in Hk. contradiction.
Qed.

Lemma upd_cons ln v k w t :
  upd ln v ((k, w) :: t) = (if bytes_eqb (lower k) ln then (k, v) else (k, w)) :: upd ln v t.
Proof. reflexivity. Qed.

Lemma upd_filter (g : bytes -> bool) ln v hs :
  upd ln v (filter (fun nv => negb (g (lower (fst nv)))) hs) = filter (fun nv => negb (g (lower (fst nv)))) (upd ln v hs).
Proof.
  induction hs as [|[k w] t IH]; [reflexivity|]. rewrite upd_cons. cbn [filter fst].
  destruct (bytes_eqb (lower k) ln) eqn:E; cbn [filter fst]; destruct (g (lower k)); cbn [negb];
    rewrite ?upd_cons, ?E, IH; reflexivity.
Qed.

Lemma upd_app ln v a b : upd ln v (a ++ b) = upd ln v a ++ upd ln v b.
Proof. unfold upd. apply map_app. Qed.

Lemma get_ci_upd_other ln' ln v hs : ln' <> ln -> get_ci ln' (upd ln v hs) = get_ci ln' hs.
Proof.
  intros H. induction hs as [|[k w] t IH]; [reflexivity|]. rewrite upd_cons.
  destruct (bytes_eqb_spec (lower k) ln) as [E|E]; rewrite !get_ci_cons, IH; [|reflexivity].
  destruct (bytes_eqb_spec (lower k) ln'); [congruence|reflexivity].
Qed.

Lemma upd_set_field ln v name w hs : lower name <> ln -> upd ln v (set_field name w hs) = set_field name w (upd ln v hs).
Proof.
  intros H. induction hs as [|[k x] t IH].
  - cbn [set_field upd map fst]. destruct (bytes_eqb_spec (lower name) ln); [contradiction|reflexivity].
  - rewrite upd_cons. cbn [set_field]. destruct (bytes_eqb_spec (lower k) (lower name)) as [E|E].
    + rewrite upd_cons. destruct (bytes_eqb_spec (lower name) ln); [contradiction|].
      destruct (bytes_eqb_spec (lower k) ln) as [E2|E2]; [congruence|]. cbn [set_field]. rewrite E.
      now rewrite bytes_eqb_refl.
    + rewrite upd_cons, IH. destruct (bytes_eqb (lower k) ln); cbn [set_field];
        (destruct (bytes_eqb_spec (lower k) (lower name)); [contradiction|reflexivity]).
Qed.

Lemma upd_rewrite cfg ln v hs : ln <> L_VIA ->
  upd ln v (rewrite_fields cfg hs) = rewrite_fields cfg (upd ln v hs).
Proof.
  intros H. unfold rewrite_fields, drop_disabled, drop_hop.
  rewrite (upd_filter (fun l => mem_bytes l (cf_disable cfg))). f_equal.
  unfold with_via. rewrite <- (upd_filter is_hop).
  rewrite (get_ci_upd_other L_VIA ln v _ (fun C => H (eq_sym C))).
  destruct (get_ci L_VIA _); apply upd_set_field; change (lower H_VIA) with L_VIA; congruence.
Qed.

Lemma has_key_ci_rewrite cfg ln hs : is_hop ln = false -> ln <> L_VIA -> mem_bytes ln (cf_disable cfg) = false ->
  has_key_ci ln (rewrite_fields cfg hs) = has_key_ci ln hs.
Proof. intros. rewrite !has_key_ci_get, get_ci_rewrite by assumption. reflexivity. Qed.

(* ---- digits ---- *)
Lemma decval_digits l : decval l = digits_val l.
Proof.
  unfold decval, digits_val. generalize 0. induction l as [|x t IH]; intros a; [reflexivity|]. cbn [fold_left digits_val_aux]. apply IH.
Qed.

Lemma digits_field_value l : l <> [] -> all_digits l = true -> rfc_value l = true /\ is_dec l = true.
Proof.
  intros Hne Hd. unfold all_digits in Hd. pose proof (forallb_In' _ _ Hd) as F. split.
  - unfold rfc_value. apply andb_true_iff. split.
    + apply forallb_forall. intros x Hx. apply F, is_digit_range in Hx. unfold is_field_byte.
      replace (x =? 0) with false by (symmetry; apply N.eqb_neq; lia).
      replace (x <=? 13) with false by (symmetry; apply N.leb_gt; lia). now rewrite andb_false_r.
    + destruct l as [|x t]; [congruence|]. unfold stripped.
      assert (W : forall y, In y (x :: t) -> is_ws y = false) by (intros y Hy; now apply digit_not_ws, F).
      rewrite (W x) by now left. rewrite W; [reflexivity|].
      destruct (exists_last (l := x :: t)) as (l' & y & E); [discriminate|]. rewrite E, last_last. apply in_or_app. right. now left.
  - unfold is_dec. destruct l; [congruence|]. now rewrite Hd.
Qed.

(* ---- the Via value is a proper field value ---- *)
Lemma last_app_ne (a b : bytes) d : b <> [] -> last (a ++ b) d = last b d.
Proof.
  intros H. induction a as [|x t IH]; [reflexivity|]. cbn [app]. destruct (t ++ b) eqn:E.
  - apply app_eq_nil in E. destruct E; contradiction.
  - cbn [last]. exact IH.
Qed.

Lemma rfc_value_parts v : rfc_value v = true <-> forallb is_field_byte v = true /\ stripped v = true.
Proof. unfold rfc_value. apply andb_true_iff. Qed.

Lemma stripped_app (pre agent : bytes) : agent <> [] -> is_ws (last agent 0) = false ->
  match pre ++ agent with x :: _ => is_ws x = false | [] => True end -> stripped (pre ++ agent) = true.
Proof.
  intros Hne Hl Hh. destruct (pre ++ agent) as [|x t] eqn:E; [reflexivity|]. unfold stripped. rewrite Hh.
  rewrite <- E, (last_app_ne pre agent 0 Hne), Hl. reflexivity.
Qed.

Lemma via_value_ok agent old : nonempty agent = true -> rfc_value agent = true -> rfc_value old = true ->
  rfc_value (via_entry agent) = true /\ rfc_value (old ++ COMMA_SP ++ via_entry agent) = true.
Proof.
  intros Hne Ha Ho. apply rfc_value_parts in Ha as [Af As]. apply rfc_value_parts in Ho as [Of Os].
  apply nonempty_ne in Hne.
  assert (Al : is_ws (last agent 0) = false).
  { destruct agent as [|x t]; [congruence|]. unfold stripped in As. apply andb_true_iff in As as [_ H]. now apply negb_true_iff in H. }
  split; apply rfc_value_parts; split.
  - unfold via_entry. rewrite forallb_app, Af. reflexivity.
  - unfold via_entry. apply stripped_app; [exact Hne|exact Al|reflexivity].
  - unfold via_entry. rewrite !forallb_app, Of, Af. reflexivity.
  - unfold via_entry. rewrite !app_assoc. rewrite <- (app_assoc old). apply stripped_app; [exact Hne|exact Al|].
    destruct old as [|x t]; [reflexivity|]. unfold stripped in Os. apply andb_true_iff in Os as [O1 _].
    apply negb_true_iff in O1. exact O1.
Qed.

Lemma Forall_filter {A} (P : A -> Prop) f l : Forall P l -> Forall P (filter f l).
Proof. intros H. apply Forall_forall. intros x Hx. apply filter_In in Hx as [Hx _]. rewrite Forall_forall in H. now apply H. Qed.

Lemma Forall_set_field P name v hs : Forall P hs -> P (name, v) -> Forall P (set_field name v hs).
Proof.
  intros H Hp. induction hs as [|[k w] t IH]; cbn [set_field]; [constructor; [exact Hp|constructor]|].
  inversion H; subst. destruct (bytes_eqb (lower k) (lower name)); constructor; auto.
Qed.

Lemma get_ci_In ln hs v : get_ci ln hs = Some v -> exists k, In (k, v) hs.
Proof.
  induction hs as [|[k w] t IH]; [discriminate|]. rewrite get_ci_cons. destruct (bytes_eqb (lower k) ln).
  - intros H; inversion H; subst. exists k. now left.
  - intros H. destruct (IH H) as [k' Hk]. exists k'. now right.
Qed.

Lemma out_field_rewrite cfg hs : nonempty (cf_agent cfg) = true -> rfc_value (cf_agent cfg) = true ->
  Forall out_field hs -> Forall out_field (rewrite_fields cfg hs).
Proof.
  intros Hne Ha H. unfold rewrite_fields, drop_disabled. apply Forall_filter. unfold with_via.
  assert (Hd : Forall out_field (drop_hop hs)) by (unfold drop_hop; now apply Forall_filter).
  assert (Tk : is_token H_VIA = true) by reflexivity.
  destruct (get_ci L_VIA (drop_hop hs)) as [old|] eqn:E.
  - destruct (get_ci_In _ _ _ E) as [k Hk]. rewrite Forall_forall in Hd. destruct (Hd _ Hk) as [_ Ho]. cbn [snd] in Ho.
    destruct (via_value_ok (cf_agent cfg) old Hne Ha Ho) as [V1 V2].
    apply Forall_set_field; [now apply Forall_forall|]. split; [exact Tk|]. cbn [snd]. destruct (cf_via_append cfg); assumption.
  - destruct (via_value_ok (cf_agent cfg) [] Hne Ha eq_refl) as [V1 _].
    apply Forall_set_field; [exact Hd|]. split; [exact Tk|exact V1].
Qed.

(* ---- the fields of a well-formed request ---- *)
Lemma field_out f : wf_field f = true -> out_field (field_nv f).
Proof. intros W. destruct (wf_field_parts f W) as (A & _ & B & _). split; assumption. Qed.

Lemma fields_out fs : forallb wf_field fs = true -> Forall out_field (map field_nv fs).
Proof.
  induction fs as [|f t IH]; intros H; [constructor|]. cbn [forallb] in H. apply andb_true_iff in H as [H1 H2].
  cbn [map]. constructor; [now apply field_out|now apply IH].
Qed.

Lemma get_ci_other_fields ln fs : forallb other_field fs = true -> ln = CONTENT_LENGTH \/ ln = TRANSFER_ENCODING ->
  get_ci ln (map field_nv fs) = None /\ ~ In ln (lkeys (map field_nv fs)).
Proof.
  intros H Hl. destruct (others_other_ok fs H) as [O _]. pose proof (get_ci_others ln _ O Hl) as G.
  split; [exact G|now apply get_ci_none].
Qed.

Section Composition.
  Variable cfg : fcfg.
  Variable r : request.
  Variable p : parser.
  Hypothesis Wr : wf_request r = true.
  Hypothesis Wc : wf_cfg cfg = true.
  Hypothesis Pa : parsed_as r p.

  Let P := wf_request_parts r Wr.

  Lemma wf_cfg_parts : cf_via_append cfg = true /\ cf_upgrade_complete cfg = true /\ nonempty (cf_agent cfg) = true /\
    rfc_value (cf_agent cfg) = true /\ mem_bytes CONTENT_LENGTH (cf_disable cfg) = false /\
    mem_bytes TRANSFER_ENCODING (cf_disable cfg) = false.
  Proof.
    unfold wf_cfg in Wc. apply andb_true_iff in Wc as [H H6]. apply andb_true_iff in H as [H H5].
    apply andb_true_iff in H as [H H4]. apply andb_true_iff in H as [H H3]. apply andb_true_iff in H as [H1 H2].
    apply negb_true_iff in H5, H6. tauto.
  Qed.

  Let hs := map field_nv (all_fields r).

  Lemma fields_of_parsed : fields_of_parser p = hs /\ U p = map lift1 hs.
  Proof.
    unfold fields_of_parser. rewrite (pa_headers r p Pa). fold hs. unfold lift_headers.
    destruct hs as [|kv t]; [split; reflexivity|]. cbn [unopt]. split; [apply (view_lift (kv :: t))|reflexivity].
  Qed.

  Lemma wire_body_parsed :
    wire_body p = match q_framing r with
                  | RNone => None
                  | RLength _ d => optb d
                  | RChunked _ s => Some (rechunk (ref_dechunk s))
                  end.
  Proof.
    unfold wire_body. rewrite (pa_body r p Pa), (pa_chunked r p Pa).
    destruct (q_framing r) as [|h d|h s]; cbn [body_of_framing chunked_framing]; [reflexivity| |reflexivity].
    destruct d; reflexivity.
  Qed.

  (* the framing field among the client's fields *)
  Lemma get_framing ln : ln = CONTENT_LENGTH \/ ln = TRANSFER_ENCODING -> forall mid,
    get_ci ln (map field_nv (q_hs1 r) ++ mid ++ map field_nv (q_hs2 r)) = get_ci ln mid.
  Proof.
    intros Hl mid. rewrite !get_ci_app.
    destruct (get_ci_other_fields ln _ (wp_hs1 r P) Hl) as [-> _].
    destruct (get_ci_other_fields ln _ (wp_hs2 r P) Hl) as [-> _]. destruct (get_ci ln mid); reflexivity.
  Qed.

  Lemma hs_split : hs = map field_nv (q_hs1 r) ++ map field_nv (framing_fields (q_framing r)) ++ map field_nv (q_hs2 r).
  Proof. unfold hs, all_fields. now rewrite !map_app. Qed.

  (* Content-Length as recomputed by the builder = the client's fields with the canonical spelling *)
  Lemma recomputed_fields :
    recompute_cl (rewrite_fields cfg hs) (wire_body p) = rewrite_fields cfg (client_fields r).
  Proof.
    destruct wf_cfg_parts as (_ & _ & _ & _ & D1 & D2).
    pose proof (nodup_fields r P) as Hn. fold hs in Hn. rewrite hs_split in Hn.
    unfold recompute_cl. rewrite wire_body_parsed.
    rewrite has_key_ci_rewrite by (try reflexivity; try discriminate; exact D2).
    rewrite has_key_ci_get. rewrite hs_split, (get_framing TRANSFER_ENCODING (or_intror eq_refl)).
    pose proof (wp_framing r P) as Wf. unfold client_fields.
    destruct (q_framing r) as [|h d|h s] eqn:Ef; cbn [framing_fields map framing_nv].
    - reflexivity.
    - cbn [wf_framing] in Wf. apply andb_true_iff in Wf as [Wf _]. apply andb_true_iff in Wf as [Wf _].
      apply andb_true_iff in Wf as [Wf _]. apply andb_true_iff in Wf as [Wf _]. apply andb_true_iff in Wf as [_ Wn].
      unfold name_is in Wn. apply bytes_eqb_eq in Wn.
      assert (Gte : get_ci TRANSFER_ENCODING [field_nv h] = None).
      { unfold field_nv. rewrite get_ci_cons. cbn [fst]. rewrite Wn. reflexivity. }
      rewrite Gte. destruct d as [|x t]; [reflexivity|]. cbn [optb truthy negb andb or_empty].
      rewrite put_ci_upd.
      + change (lower H_CONTENT_LENGTH) with CONTENT_LENGTH. rewrite upd_rewrite by discriminate. f_equal.
        rewrite !upd_app.
        destruct (get_ci_other_fields CONTENT_LENGTH _ (wp_hs1 r P) (or_introl eq_refl)) as [_ N1].
        destruct (get_ci_other_fields CONTENT_LENGTH _ (wp_hs2 r P) (or_introl eq_refl)) as [_ N2].
        rewrite (upd_absent _ _ _ N1), (upd_absent _ _ _ N2). unfold field_nv at 2. rewrite upd_cons, Wn, bytes_eqb_refl. reflexivity.
      + apply NoDup_rewrite. exact Hn.
      + change (lower H_CONTENT_LENGTH) with CONTENT_LENGTH.
        rewrite has_key_ci_rewrite by (try reflexivity; try discriminate; exact D1).
        rewrite has_key_ci_get, (get_framing CONTENT_LENGTH (or_introl eq_refl)). unfold field_nv. rewrite get_ci_cons. cbn [fst].
        now rewrite Wn, bytes_eqb_refl.
    - cbn [wf_framing] in Wf. apply andb_true_iff in Wf as [Wf _]. apply andb_true_iff in Wf as [Wf _].
      apply andb_true_iff in Wf as [_ Wn]. unfold name_is in Wn. apply bytes_eqb_eq in Wn.
      unfold field_nv at 1. rewrite get_ci_cons. cbn [fst]. rewrite Wn, bytes_eqb_refl. cbn [negb]. rewrite andb_false_r. reflexivity.
  Qed.
End Composition.

Lemma lkeys_client_fields r : lkeys (client_fields r) = lkeys (map field_nv (all_fields r)).
Proof.
  unfold client_fields, all_fields. rewrite !map_app, !lkeys_app. f_equal. f_equal.
  destruct (q_framing r) as [|h [|x t]|h s]; reflexivity.
Qed.

Lemma client_fields_out r : wf_parts r -> Forall out_field (client_fields r).
Proof.
  intros P. destruct (others_other_ok _ (wp_hs1 r P)) as [_ W1]. destruct (others_other_ok _ (wp_hs2 r P)) as [_ W2].
  destruct (wf_framing_parts _ (wp_framing r P)) as [_ Wf]. unfold client_fields.
  apply Forall_app. split; [now apply fields_out|]. apply Forall_app. split; [|now apply fields_out].
  destruct (q_framing r) as [|h [|x t]|h s]; cbn [framing_nv framing_fields forallb] in *.
  - constructor.
  - apply andb_true_iff in Wf as [Wf _]. constructor; [now apply field_out|constructor].
  - apply andb_true_iff in Wf as [Wf _]. destruct (field_out h Wf) as [Hn _]. constructor; [|constructor].
    split; [exact Hn|]. cbn [snd].
    destruct (dec_of_N_spec (len (x :: t))) as (D1 & D2 & _). now apply digits_field_value.
  - apply andb_true_iff in Wf as [Wf _]. constructor; [now apply field_out|constructor].
Qed.

Lemma origin_form_facts r p : wf_parts r -> parsed_as r p ->
  path_or_slash p = origin_form (q_target r) /\ nonempty (origin_form (q_target r)) = true /\
  forallb is_vchar (origin_form (q_target r)) = true.
Proof.
  intros P Pa. pose proof (pa_attrs r p Pa) as A. pose proof (wp_abs r P) as Ha. pose proof (wp_target r P) as Wt.
  pose proof (wp_vchar r P) as Wv. unfold path_or_slash.
  destruct (q_target r) as [pp|ui h pt pa|h q]; try discriminate. cbn [UrlSpec.expected] in A.
  assert (Ep : path p = pa) by congruence. rewrite Ep. cbn [origin_form].
  cbn [wf_target] in Wt. apply andb_true_iff in Wt as [_ Wpa].
  cbn [render_target] in Wv. rewrite !forallb_app in Wv.
  apply andb_true_iff in Wv as [_ Wv]. apply andb_true_iff in Wv as [_ Wv]. apply andb_true_iff in Wv as [_ Wv].
  apply andb_true_iff in Wv as [_ Wv].
  destruct pa as [[|x t]|]; cbn [render_path] in *; try discriminate; repeat split; try reflexivity; assumption.
Qed.

Theorem forward_ref cfg r p : wf_request r = true -> wf_cfg cfg = true -> parsed_as r p ->
  ref_parse_request (forward_of_parsed cfg false p) = Some (expected_fwd cfg r).
Proof.
  intros Wr Wc Pa. pose proof (wf_request_parts r Wr) as P.
  destruct (wf_cfg_parts cfg Wc) as (Cv & _ & Cne & Ca & D1 & D2).
  destruct (origin_form_facts r p P Pa) as (O1 & O2 & O3).
  destruct (fields_of_parsed r p Pa) as [Ef _].
  unfold forward_of_parsed, forwarded_fields. rewrite Ef.
  change (drop_disabled cfg (with_via cfg (drop_hop (map field_nv (all_fields r)))))
    with (rewrite_fields cfg (map field_nv (all_fields r))).
  rewrite (recomputed_fields cfg r p Wr Wc Pa), O1, (pa_method r p Pa), (pa_version r p Pa). cbn [or_empty].
  assert (Ee : rewrite_fields cfg (client_fields r) = expected_headers cfg r).
  { unfold rewrite_fields, expected_headers. now rewrite with_via_appended. }
  unfold expected_fwd. rewrite <- Ee.
  apply ref_parse_render; try assumption.
  - exact (wp_method r P).
  - exact (wp_version r P).
  - apply out_field_rewrite; [exact Cne|exact Ca|now apply client_fields_out].
  - (* framing *)
    assert (Nc : NoDup (lkeys (client_fields r))) by (rewrite lkeys_client_fields; now apply nodup_fields).
    unfold framing_out. rewrite !fields_named_get by now apply NoDup_rewrite.
    rewrite !get_ci_rewrite by (try reflexivity; try discriminate; assumption).
    unfold client_fields.
    rewrite (get_framing r Wr TRANSFER_ENCODING (or_intror eq_refl)), (get_framing r Wr CONTENT_LENGTH (or_introl eq_refl)).
    rewrite (wire_body_parsed r p Pa). pose proof (wp_framing r P) as Wf.
    destruct (q_framing r) as [|h d|h s]; cbn [framing_nv decoded_body or_empty].
    + split; reflexivity.
    + cbn [wf_framing] in Wf. apply andb_true_iff in Wf as [Wf W6]. apply andb_true_iff in Wf as [Wf W5].
      apply andb_true_iff in Wf as [Wf W4]. apply andb_true_iff in Wf as [Wf W3]. apply andb_true_iff in Wf as [W1 W2].
      unfold name_is in W2. apply bytes_eqb_eq in W2. apply N.eqb_eq in W6.
      assert (T : bytes_eqb CONTENT_LENGTH TRANSFER_ENCODING = false) by reflexivity.
      destruct d as [|x t]; cbn [framing_nv optb or_empty]; unfold field_nv; rewrite !get_ci_cons; cbn [fst]; rewrite W2, T, bytes_eqb_refl;
        cbn [get_ci find].
      * destruct (digits_field_value _ (nonempty_ne _ W3) W4) as [_ Hd]. rewrite decval_digits. repeat split; assumption.
      * destruct (dec_of_N_spec (len (x :: t))) as (E1 & E2 & E3).
        destruct (digits_field_value _ E1 E2) as [_ Hd]. rewrite decval_digits. repeat split; assumption.
    + cbn [wf_framing] in Wf. apply andb_true_iff in Wf as [Wf W4]. apply andb_true_iff in Wf as [Wf W3].
      apply andb_true_iff in Wf as [W1 W2]. unfold name_is in W2. apply bytes_eqb_eq in W2, W3.
      assert (T : bytes_eqb TRANSFER_ENCODING CONTENT_LENGTH = false) by reflexivity.
      unfold field_nv; rewrite !get_ci_cons; cbn [fst]; rewrite W2, T, bytes_eqb_refl. cbn [get_ci find].
      split; [exact W3|apply ref_dechunk_rechunk].
Qed.

(* ===================================================================================== *)
(* D. the handler: pieces, first and later requests                                        *)

Definition nonempty_pieces (segs : list bytes) : Prop := Forall (fun s => s <> []) segs.

Lemma concat_nil_pieces segs : nonempty_pieces segs -> concat segs = [] -> segs = [].
Proof.
  intros F E. destruct segs as [|x t]; [reflexivity|]. inversion F; subst. cbn [concat] in E.
  apply app_eq_nil in E. destruct E; contradiction.
Qed.

(* one more piece: either it is the last one and completes the message, or the parser is still incomplete *)
Lemma pieces_progress q x t pf : parser_inv q -> nonempty_pieces t ->
  parse q (x ++ concat t) = Ok pf -> state pf = COMPLETE -> buffer pf = None ->
  exists q1, parse q x = Ok q1 /\ parser_inv q1 /\
             ((t = [] /\ q1 = pf) \/ (t <> [] /\ state q1 <> COMPLETE /\ parse q1 (concat t) = Ok pf)).
Proof.
  intros I F H C B. destruct (two_piece q x (concat t) pf I H (framed_complete pf C)) as (q1 & H1 & H2).
  exists q1. split; [exact H1|]. assert (I1 : parser_inv q1) by (eapply parse_inv; eassumption). split; [exact I1|].
  destruct (N.eq_dec (state q1) COMPLETE) as [C1|C1].
  - left. pose proof H2 as H2'. unfold parse in H2'. rewrite (parse_with_complete_absorbs _ q1 (concat t) I1 C1) in H2'.
    inversion H2' as [H3]. assert (Hb : optb (bufb q1 ++ concat t) = None) by (rewrite <- H3 in B; exact B).
    destruct (bufb q1 ++ concat t) eqn:E; [|discriminate]. apply app_eq_nil in E as [_ E].
    pose proof (concat_nil_pieces t F E) as ->. split; [reflexivity|].
    cbn [concat] in H2. unfold parse in H2. rewrite (parse_with_nil _ q1 I1) in H2. congruence.
  - right. destruct t as [|y t']; [|split; [discriminate|split; assumption]].
    exfalso. cbn [concat] in H2. unfold parse in H2. rewrite (parse_with_nil _ q1 I1) in H2. congruence.
Qed.

(* the except clause of handle_data *)
Definition catch (o : outcome) : outcome :=
  match o with
  | Raised (HttpProtocolException k) st' =>
      Done true (match exc_response k with Some c => queue_client st' c | None => st' end)
  | _ => o
  end.

Lemma handle_data_first cfg ok st data : state (h_request st) <> COMPLETE ->
  handle_data cfg ok st data = catch (first_remainder cfg (parse_first_request cfg ok st data)).
Proof. intros H. unfold handle_data. apply N.eqb_neq in H. rewrite H. reflexivity. Qed.

Lemma handle_data_later cfg ok st data : state (h_request st) = COMPLETE -> h_plugin st = true ->
  handle_data cfg ok st data = catch (on_client_data cfg st data).
Proof. intros H Hp. unfold handle_data. rewrite H, Hp. reflexivity. Qed.

Lemma feed_last cfg ok st x : feed cfg ok st [x] = handle_data cfg ok st x.
Proof. cbn [feed]. destruct (handle_data cfg ok st x) as [[|] st'|e st']; reflexivity. Qed.

(* nothing follows a request that is still incomplete, nor one whose parser kept no remainder *)
Lemma first_remainder_incomplete cfg st : is_complete (h_request st) = false ->
  first_remainder cfg (Done false st) = Done false st.
Proof.
  intros H. unfold first_remainder. rewrite H. destruct (buffer (h_request st)) as [[|b0 bt]|]; reflexivity.
Qed.
Lemma first_remainder_none cfg st : buffer (h_request st) = None -> first_remainder cfg (Done false st) = Done false st.
Proof. intros H. unfold first_remainder. now rewrite H. Qed.

(* ---- first request ---- *)
Lemma feed_first cfg ok pf : forall segs st,
  parser_inv (h_request st) -> state (h_request st) <> COMPLETE -> nonempty_pieces segs ->
  parse (h_request st) (concat segs) = Ok pf -> state pf = COMPLETE -> buffer pf = None ->
  http_handler_protocol pf = HTTP_PROXY ->
  feed cfg ok st segs = catch (first_remainder cfg (on_request_complete cfg ok (set_plugin (set_request st pf)))).
Proof.
  induction segs as [|x t IH]; intros st I N F H C B Hp.
  - exfalso. cbn [concat] in H. unfold parse in H. rewrite (parse_with_nil _ _ I) in H. congruence.
  - inversion F as [|? ? Fx Ft]; subst. cbn [concat] in H.
    destruct (pieces_progress _ x t pf I Ft H C B) as (q1 & H1 & I1 & [[-> ->]|(Tn & N1 & H2)]).
    + rewrite feed_last, handle_data_first by exact N. unfold parse_first_request. rewrite H1.
      unfold is_complete. rewrite C. change (COMPLETE =? COMPLETE) with true. cbn [negb]. now rewrite Hp.
    + cbn [feed]. rewrite handle_data_first by exact N. unfold parse_first_request. rewrite H1.
      unfold is_complete at 1. apply N.eqb_neq in N1. rewrite N1. cbn [negb].
      rewrite first_remainder_incomplete by (unfold is_complete; cbn [h_request set_request]; exact N1). cbn [catch].
      apply N.eqb_neq in N1. exact (IH (set_request st q1) I1 N1 Ft H2 C B Hp).
Qed.

(* ---- later requests ---- *)
Record conn_ready (st : hstate) : Prop := {
  cr_complete : state (h_request st) = COMPLETE;
  cr_not_tunnel : is_https_tunnel (h_request st) = false;
  cr_plugin : h_plugin st = true;
  cr_upstream : exists up, h_upstream st = Some up /\ up_closed up = false }.

Definition cur (st : hstate) : parser :=
  match h_pipeline st with Some q => q | None => new_parser REQUEST_PARSER end.

(* the state after a pipelined request was forwarded *)
Definition after_forward (st : hstate) (q'' : parser) (w : bytes) : hstate :=
  match h_upstream st with
  | Some up => set_pipeline (set_upstream st (Some (queue_upstream up w)))
                            (if is_connection_upgrade q'' then Some (clear_buffer q'') else None)
  | None => st
  end.

Lemma on_client_data_one cfg st raw o : on_client_data_round cfg st raw = (o, None) -> on_client_data cfg st raw = o.
Proof.
  intros H. unfold on_client_data. cbn [on_client_data_loop]. rewrite H. destruct o as [[|] st'|e st']; reflexivity.
Qed.

Lemma on_client_data_step cfg st raw q' : conn_ready st -> cf_upgrade_complete cfg = true ->
  state (cur st) <> COMPLETE -> parse (cur st) raw = Ok q' ->
  on_client_data_round cfg st raw =
  if is_complete q' then
    match queue_request_for_upstream cfg false q' with
    | Err e => (Raised e (set_pipeline st (Some q')), None)
    | Ok (q'', w) => (Done false (after_forward st q'' w), buffer q'')
    end
  else (Done false (set_pipeline st (Some q')), None).
Proof.
  intros R Cu N H. destruct R as [Rc Rt Rp (up & Ru & Rcl)]. unfold on_client_data_round, after_forward, after_pipelined. rewrite Ru, Rcl.
  unfold is_complete at 1. rewrite Rc, Rt. change (COMPLETE =? COMPLETE) with true. cbn [negb andb].
  unfold cur in N, H. destruct (h_pipeline st) as [q|].
  - rewrite Cu. cbn [negb orb]. unfold is_complete at 1. apply N.eqb_neq in N. rewrite N. cbn [andb]. rewrite H.
    destruct (is_complete q'); [|reflexivity]. destruct (queue_request_for_upstream cfg false q') as [[q'' w]|e]; reflexivity.
  - rewrite H. destruct (is_complete q'); [|reflexivity]. destruct (queue_request_for_upstream cfg false q') as [[q'' w]|e]; reflexivity.
Qed.

Lemma conn_ready_pipeline st q : conn_ready st -> conn_ready (set_pipeline st q).
Proof. intros [A B C D]. constructor; assumption. Qed.

Lemma feed_later cfg ok pf q'' w : forall segs st,
  conn_ready st -> cf_upgrade_complete cfg = true ->
  parser_inv (cur st) -> state (cur st) <> COMPLETE -> nonempty_pieces segs ->
  parse (cur st) (concat segs) = Ok pf -> state pf = COMPLETE -> buffer pf = None ->
  queue_request_for_upstream cfg false pf = Ok (q'', w) -> buffer q'' = None ->
  feed cfg ok st segs = Done false (after_forward st q'' w).
Proof.
  induction segs as [|x t IH]; intros st R Cu I N F H C B Hq Hb.
  - exfalso. cbn [concat] in H. unfold parse in H. rewrite (parse_with_nil _ _ I) in H. congruence.
  - inversion F as [|? ? Fx Ft]; subst. cbn [concat] in H.
    destruct (pieces_progress _ x t pf I Ft H C B) as (q1 & H1 & I1 & [[-> ->]|(Tn & N1 & H2)]).
    + rewrite feed_last, handle_data_later by apply R.
      rewrite (on_client_data_one cfg st x (Done false (after_forward st q'' w))); [reflexivity|].
      rewrite (on_client_data_step cfg st x pf R Cu N H1). unfold is_complete. rewrite C. change (COMPLETE =? COMPLETE) with true.
      cbv iota. rewrite Hq, Hb. reflexivity.
    + cbn [feed]. rewrite handle_data_later by apply R.
      rewrite (on_client_data_one cfg st x (Done false (set_pipeline st (Some q1)))).
      2:{ rewrite (on_client_data_step cfg st x q1 R Cu N H1). unfold is_complete. apply N.eqb_neq in N1. now rewrite N1. }
      cbn [catch].
      pose proof (IH (set_pipeline st (Some q1)) (conn_ready_pipeline st _ R) Cu I1 N1 Ft H2 C B Hq Hb) as G.
      rewrite G. destruct R as [_ _ _ (up & Ru & _)]. unfold after_forward. cbn [h_upstream set_pipeline]. rewrite Ru. reflexivity.
Qed.

(* ---- composition: one well-formed request through the handler ---- *)
Lemma get_ci_with_via_hop cfg ln hs : is_hop ln = false -> ln <> L_VIA ->
  get_ci ln (with_via cfg (drop_hop hs)) = get_ci ln hs.
Proof.
  intros H1 H2. unfold with_via, drop_hop.
  assert (G : forall v, get_ci ln (set_field H_VIA v (filter (fun nv => negb (is_hop (lower (fst nv)))) hs)) = get_ci ln hs).
  { intros v. rewrite get_ci_set_field. change (lower H_VIA) with L_VIA.
    destruct (bytes_eqb_spec ln L_VIA); [contradiction|]. apply (get_ci_filter is_hop ln hs H1). }
  destruct (get_ci L_VIA _); apply G.
Qed.

Lemma has_key_fields ln fs : has_key_ci ln (map field_nv fs) = existsb (name_is ln) fs.
Proof. unfold has_key_ci. induction fs as [|f t IH]; [reflexivity|]. cbn [map existsb]. rewrite IH. reflexivity. Qed.

Lemma hdict_of_lift hs : hdict_of hs = map lift1 hs.
Proof. unfold hdict_of. apply map_ext. intros [k v]. reflexivity. Qed.

Section OneRequest.
  Variable cfg : fcfg.
  Variable r : request.
  Variable p : parser.
  Hypothesis Wr : wf_request r = true.
  Hypothesis Wc : wf_cfg cfg = true.
  Hypothesis Pa : parsed_as r p.

  Let P := wf_request_parts r Wr.
  Let hs := map field_nv (all_fields r).

  Lemma parsed_facts :
    is_request (ty p) = true /\ truthy (method p) = true /\ truthy (version p) = true /\ hdr_inv (headers p) /\
    http_handler_protocol p = HTTP_PROXY /\ is_https_tunnel p = false /\ parser_inv (new_parser REQUEST_PARSER).
  Proof.
    destruct (fields_of_parsed r p Pa) as [_ Eu].
    split; [now rewrite (pa_ty r p Pa)|]. split.
    { rewrite (pa_method r p Pa). destruct (token_facts _ (wp_method r P)) as [N _]. destruct (q_method r); [congruence|reflexivity]. }
    split.
    { rewrite (pa_version r p Pa). destruct (wp_version r P) as [-> | ->]; reflexivity. }
    split; [apply (lift_hdr_inv _ hs Eu), nodup_fields, P|]. split; [|split; [exact (pa_tunnel r p Pa)|apply parser_inv_new]].
    unfold http_handler_protocol. rewrite (pa_version r p Pa). destruct (pa_purl r p Pa) as [u ->].
    assert (Hv : bytes_eqb (q_version r) HTTP_1_1 || bytes_eqb (q_version r) HTTP_1_0 = true)
      by (destruct (wp_version r P) as [-> | ->]; reflexivity).
    rewrite Hv. pose proof (pa_attrs r p Pa) as A. pose proof (wp_abs r P) as Ha.
    destruct (q_target r); try discriminate. cbn [UrlSpec.expected] in A.
    assert (Eh : Parser.host p = Some (host_text h)) by congruence. now rewrite Eh.
  Qed.

  Lemma connect_ok_wf : exists c, connect_upstream (fun _ => None) (Parser.host p) (Parser.port p) = Ok c.
  Proof.
    pose proof (pa_attrs r p Pa) as A. pose proof (wp_abs r P) as Ha. pose proof (wp_target r P) as Wt.
    pose proof (wp_port r P) as Wp.
    destruct (q_target r) as [|ui h pt pa|]; try discriminate. cbn [UrlSpec.expected] in A. cbn [target_port] in Wp.
    assert (Eh : Parser.host p = Some (host_text h)) by congruence.
    assert (Ep : Parser.port p = Some (port_or_default false pt)) by congruence.
    cbn [wf_target] in Wt. apply andb_true_iff in Wt as [Wt _]. apply andb_true_iff in Wt as [Wt _].
    apply andb_true_iff in Wt as [_ Wh]. pose proof (wf_host_facts h Wh) as F.
    rewrite Eh, Ep. eexists. apply connect_upstream_ok; [apply F|exact Wp|apply F].
  Qed.

  Lemma auth_ok_wf : auth_passes cfg r = true -> before_upstream_connection cfg p = Ok p.
  Proof.
    unfold auth_passes, before_upstream_connection. destruct (fields_of_parsed r p Pa) as [_ Eu].
    rewrite Eu, hdict_of_lift. fold hs. destruct (cf_auth_code cfg) as [[|c0 ct]|]; try reflexivity.
    intros ->. reflexivity.
  Qed.

  (* Theorem 1 instantiated: what is queued and what the request object looks like afterwards *)
  Lemma queued_wf : exists p',
    queue_request_for_upstream cfg false p = Ok (p', forward_of_parsed cfg false p) /\
    same_rest p p' /\ is_connection_upgrade p' = is_upgrade_request r.
  Proof.
    destruct parsed_facts as (T1 & T2 & T3 & T4 & _).
    destruct (forward_of_parsed_gen cfg false p T1 T2 T3 T4) as (p' & Q & S & I' & F').
    exists p'. split; [exact Q|]. split; [exact S|].
    destruct (hdr_inv_lift _ I') as [Eu' _]. fold (fields_of_parser p') in Eu'.
    destruct (fields_of_parsed r p Pa) as [Ef _]. rewrite F', Ef in Eu'. fold hs in Eu'.
    unfold is_connection_upgrade, is_upgrade_request.
    destruct S as (_ & _ & _ & Sv & _). rewrite Sv, (pa_version r p Pa). cbn [option_eqb].
    rewrite !(has_header_view p' _ _ Eu'). rewrite !has_key_ci_get.
    rewrite !get_ci_with_via_hop by (try reflexivity; discriminate).
    rewrite <- !has_key_ci_get. unfold hs. rewrite !has_key_fields. reflexivity.
  Qed.
End OneRequest.

Lemma feed_app cfg ok : forall a st b,
  feed cfg ok st (a ++ b) = match feed cfg ok st a with Done false st' => feed cfg ok st' b | o => o end.
Proof.
  induction a as [|x t IH]; intros st b; [reflexivity|]. cbn [app feed].
  destruct (handle_data cfg ok st x) as [[|] st'|e st']; [reflexivity|apply IH|reflexivity].
Qed.

(* THEOREMS 2/3: the first request of a connection, received in any pieces *)
Theorem first_request cfg r segs :
  wf_request r = true -> wf_cfg cfg = true -> auth_passes cfg r = true ->
  nonempty_pieces segs -> concat segs = render_request r ->
  exists w st', feed cfg true init_state segs = Done false st' /\ upstream_queue st' = [w] /\
                ref_parse_request w = Some (expected_fwd cfg r) /\
                conn_ready st' /\ (is_upgrade_request r = false -> h_pipeline st' = None) /\
                (forall p, parse (new_parser REQUEST_PARSER) (render_request r) = Ok p -> w = forward_of_parsed cfg false p).
Proof.
  intros Wr Wc Wa F E. destruct (parse_request r Wr) as (p & Hp & Pa).
  destruct (parsed_facts r p Wr Pa) as (_ & _ & _ & _ & Hh & Ht & I0).
  rewrite (feed_first cfg true p segs init_state I0 ltac:(discriminate) F ltac:(rewrite E; exact Hp)
             (pa_state r p Pa) (pa_buffer r p Pa) Hh).
  unfold on_request_complete. cbn [h_request set_plugin set_request].
  rewrite (auth_ok_wf cfg r p Pa Wa). destruct (connect_ok_wf r p Wr Pa) as [c ->]. cbn [negb].
  rewrite Ht. destruct (queued_wf cfg r p Wr Pa) as (p' & -> & S & Eu).
  assert (Bp' : buffer p' = None).
  { destruct S as (_ & _ & _ & _ & _ & _ & _ & _ & _ & _ & Sb). rewrite Sb. exact (pa_buffer r p Pa). }
  rewrite first_remainder_none by exact Bp'.
  cbn [catch]. eexists. eexists. split; [reflexivity|]. split; [reflexivity|].
  split; [exact (forward_ref cfg r p Wr Wc Pa)|]. split; [|split].
  - destruct S as (_ & Ss & _ & _ & _ & _ & _ & _ & _ & St & _).
    constructor; cbn [h_request h_plugin h_upstream set_upstream set_request set_plugin].
    + rewrite Ss. exact (pa_state r p Pa).
    + rewrite St. exact Ht.
    + reflexivity.
    + eexists. split; reflexivity.
  - intros _. reflexivity.
  - intros p2 H2. congruence.
Qed.

(* THEOREM 4: a later request of a connection *)
Theorem later_request cfg r segs st :
  wf_request r = true -> wf_cfg cfg = true -> conn_ready st -> h_pipeline st = None ->
  nonempty_pieces segs -> concat segs = render_request r ->
  exists w st', feed cfg true st segs = Done false st' /\ upstream_queue st' = upstream_queue st ++ [w] /\
                ref_parse_request w = Some (expected_fwd cfg r) /\
                conn_ready st' /\ (is_upgrade_request r = false -> h_pipeline st' = None) /\
                (forall p, parse (new_parser REQUEST_PARSER) (render_request r) = Ok p -> w = forward_of_parsed cfg false p).
Proof.
  intros Wr Wc R Hn F E. destruct (parse_request r Wr) as (p & Hp & Pa).
  destruct (wf_cfg_parts cfg Wc) as (_ & Cu & _).
  assert (Ec : cur st = new_parser REQUEST_PARSER) by (unfold cur; now rewrite Hn).
  destruct (queued_wf cfg r p Wr Pa) as (p' & Hq & S & Eu).
  assert (Bp' : buffer p' = None).
  { destruct S as (_ & _ & _ & _ & _ & _ & _ & _ & _ & _ & Sb). rewrite Sb. exact (pa_buffer r p Pa). }
  rewrite (feed_later cfg true p p' (forward_of_parsed cfg false p) segs st R Cu); try (rewrite Ec);
    try exact Hq; try exact Bp'.
  2:{ apply parser_inv_new. } 2:{ discriminate. } 2:{ exact F. } 2:{ rewrite E. exact Hp. }
  2:{ exact (pa_state r p Pa). } 2:{ exact (pa_buffer r p Pa). }
  pose proof R as [Rc Rt Rp (up & Ru & Rcl)]. unfold after_forward. rewrite Ru.
  eexists. eexists. split; [reflexivity|]. split.
  { unfold upstream_queue. cbn [h_upstream set_pipeline set_upstream queue_upstream up_queue]. now rewrite Ru. }
  split; [exact (forward_ref cfg r p Wr Wc Pa)|]. split; [|split].
  - constructor; cbn [h_request h_plugin h_upstream set_upstream set_pipeline]; try assumption.
    eexists. split; [reflexivity|exact Rcl].
  - intros Hu. cbn [h_pipeline set_pipeline]. now rewrite Eu, Hu.
  - intros p2 H2. congruence.
Qed.

(* ===================================================================================== *)
(* E. the invariant of HttpParser.headers holds for every parser state reachable by parsing *)

Lemma Forall_dict_set {V} (P : bytes * V -> Prop) k (v : V) d : Forall P d -> P (k, v) -> Forall P (dict_set k v d).
Proof.
  intros H Hp. induction d as [|[k' v'] t IH]; cbn [dict_set]; [constructor; [exact Hp|constructor]|].
  inversion H; subst. destruct (bytes_eqb k k'); constructor; auto.
Qed.

Lemma hdr_inv_add h k v : hdr_inv h -> hdr_inv (Some (add_header_d h k v)).
Proof.
  intros [H1 H2]. unfold hdr_inv, add_header_d. cbn [unopt]. fold (unopt h). split.
  - apply (dict_wf_set (lower k) (k, v) (unopt h)). exact H1.
  - apply Forall_dict_set; [exact H2|reflexivity].
Qed.

Lemma hdr_inv_new t : hdr_inv (headers (new_parser t)).
Proof. split; constructor. Qed.

Lemma process_header_hdr_inv p raw p' : process_header p raw = Ok p' -> hdr_inv (headers p) -> hdr_inv (headers p').
Proof.
  rewrite process_header_eq. cbv zeta. intros H I.
  destruct (bytes_eqb _ CONTENT_LENGTH).
  - destruct (int10 _); cbn [bind] in H; [|discriminate]. inv_ok H. cbn [headers set_headers]. now apply hdr_inv_add.
  - destruct (_ && _); inv_ok H; cbn [headers set_headers]; now apply hdr_inv_add.
Qed.

Lemma hdr_step_hdr_inv p line p' : hdr_step p line = Ok p' -> hdr_inv (headers p) -> hdr_inv (headers p').
Proof.
  unfold hdr_step. destruct (_ || _).
  - destruct (match strip line with [] => true | _ => false end).
    + intros H I; inv_ok H. exact I.
    + intros H I. apply (process_header_hdr_inv _ _ _ H). exact I.
  - intros H I; inv_ok H. exact I.
Qed.

Lemma PH_hdr_inv : forall p raw, hdr_inv (headers p) -> forall m r p', PH p raw = Ok (m, r, p') -> hdr_inv (headers p').
Proof.
  apply (PH_ind (fun p raw res => hdr_inv (headers p) -> forall m r p', res = Ok (m, r, p') -> hdr_inv (headers p'))).
  - intros p raw _ I m r p' H; inv_ok H. exact I.
  - intros; discriminate.
  - intros p raw line rest p1 _ Hs _ I m r p' H; inv_ok H. eapply hdr_step_hdr_inv; eassumption.
  - intros p raw line rest p1 _ Hs _ _ IH I m r p' H. eapply IH; [eapply hdr_step_hdr_inv; eassumption|exact H].
Qed.

Lemma proc_hdr_inv al p raw m r p' : proc al p raw = Ok (m, r, p') -> hdr_inv (headers p) -> hdr_inv (headers p').
Proof.
  unfold proc. destruct (HEADERS_COMPLETE <=? state p).
  - intros H I. destruct (process_body_fields _ _ _ _ _ H) as (_ & -> & _). exact I.
  - destruct (state p =? INITIALIZED).
    + intros H I. apply process_line_result in H. inversion H; subst; exact I.
    + intros H I. eapply PH_hdr_inv; eassumption.
Qed.

Lemma maybe_complete_headers p raw : headers (maybe_complete p raw) = headers p.
Proof. unfold maybe_complete. destruct (_ && _); reflexivity. Qed.

Lemma PL_hdr_inv al : forall m p raw, pinv p -> hdr_inv (headers p) -> forall r p', PL al m p raw = Ok (r, p') -> hdr_inv (headers p').
Proof.
  apply (PL_ind al (fun m p raw res => hdr_inv (headers p) -> forall r p', res = Ok (r, p') -> hdr_inv (headers p'))).
  - intros m p raw _ _ I r p' H; inv_ok H. exact I.
  - intros; discriminate.
  - intros p raw m' r0 p0 _ _ E _ IH I r p' H. apply (IH ltac:(rewrite maybe_complete_headers; eapply proc_hdr_inv; eassumption) _ _ H).
Qed.

Theorem parse_hdr_inv al p raw p' : parser_inv p -> hdr_inv (headers p) -> parse_with al p raw = Ok p' -> hdr_inv (headers p').
Proof.
  intros [I _] Hi. rewrite parse_with_alt by exact I.
  destruct (PL al (nz raw) p (bufb p ++ raw)) as [[r q]|e] eqn:E; cbn [bind]; [|discriminate].
  intros H; inv_ok H. cbn [headers set_buffer_size]. eapply PL_hdr_inv; eassumption.
Qed.

(* every parser state reached from a new parser by feeding pieces *)
Theorem pieces_hdr_inv al : forall pieces p p', parser_inv p -> hdr_inv (headers p) ->
  parse_pieces_with al p pieces = Ok p' -> hdr_inv (headers p') /\ parser_inv p'.
Proof.
  induction pieces as [|x t IH]; intros p p' I Hi H; cbn [parse_pieces_with] in H.
  - inv_ok H. split; assumption.
  - destruct (parse_with al p x) as [p1|e] eqn:E; cbn [bind] in H; [|discriminate].
    apply (IH p1 p'); [eapply parse_with_inv; eassumption|eapply parse_hdr_inv; eassumption|exact H].
Qed.

(* ===================================================================================== *)
(* F. whole connections                                                                   *)

Definition request_pieces (rs : request * list bytes) : Prop :=
  wf_request (fst rs) = true /\ nonempty_pieces (snd rs) /\ concat (snd rs) = render_request (fst rs).
Definition forwarded_as cfg (w : bytes) (rs : request * list bytes) : Prop :=
  ref_parse_request w = Some (expected_fwd cfg (fst rs)).

Theorem later_requests cfg : wf_cfg cfg = true -> forall rest st,
  conn_ready st -> h_pipeline st = None ->
  Forall request_pieces rest ->
  Forall (fun rs => is_upgrade_request (fst rs) = false) (removelast rest) ->
  exists st' ws, feed cfg true st (concat (map snd rest)) = Done false st' /\
                 upstream_queue st' = upstream_queue st ++ ws /\ Forall2 (forwarded_as cfg) ws rest /\ conn_ready st'.
Proof.
  intros Wc. induction rest as [|rs t IH]; intros st R Hn F Fu.
  - exists st, []. cbn [map concat feed]. rewrite app_nil_r. split; [reflexivity|]. split; [reflexivity|]. split; [apply Forall2_nil|exact R].
  - inversion F as [|? ? (W & Np & Ec) Ft]; subst.
    destruct (later_request cfg (fst rs) (snd rs) st W Wc R Hn Np Ec) as (w & st1 & F1 & Q1 & P1 & R1 & U1 & _).
    cbn [map concat]. rewrite feed_app, F1.
    destruct t as [|rs2 t2].
    + exists st1, [w]. cbn [map concat feed]. split; [reflexivity|]. split; [exact Q1|].
      split; [constructor; [exact P1|constructor]|exact R1].
    + cbn [removelast] in Fu. inversion Fu as [|? ? Fu1 Fu2]; subst.
      destruct (IH st1 R1 (U1 Fu1) Ft Fu2) as (st' & ws & F2 & Q2 & P2 & R2).
      exists st', (w :: ws). split; [exact F2|]. split; [rewrite Q2, Q1, <- app_assoc; reflexivity|].
      split; [constructor; assumption|exact R2].
Qed.

Theorem connection cfg first rest : wf_cfg cfg = true -> auth_passes cfg (fst first) = true ->
  Forall request_pieces (first :: rest) ->
  Forall (fun rs => is_upgrade_request (fst rs) = false) (removelast (first :: rest)) ->
  exists ws, forward cfg (concat (map snd (first :: rest))) = Some ws /\ Forall2 (forwarded_as cfg) ws (first :: rest).
Proof.
  intros Wc Wa F Fu. inversion F as [|? ? (W & Np & Ec) Ft]; subst.
  destruct (first_request cfg (fst first) (snd first) W Wc Wa Np Ec) as (w & st1 & F1 & Q1 & P1 & R1 & U1 & _).
  unfold forward. cbn [map concat]. rewrite feed_app, F1.
  destruct rest as [|rs2 t2].
  - exists [w]. cbn [map concat feed]. rewrite Q1. split; [reflexivity|constructor; [exact P1|constructor]].
  - cbn [removelast] in Fu. inversion Fu as [|? ? Fu1 Fu2]; subst.
    destruct (later_requests cfg Wc (rs2 :: t2) st1 R1 (U1 Fu1) Ft Fu2) as (st' & ws & F2 & Q2 & P2 & _).
    exists (w :: ws). rewrite F2, Q2, Q1. split; [reflexivity|constructor; assumption].
Qed.

(* ---- data from the upstream server never changes the forwarding state ---- *)
Lemma read_from_upstream_fwd cs raw : c_fwd (read_from_upstream cs raw) = c_fwd cs.
Proof.
  unfold read_from_upstream. destruct (h_upstream (c_fwd cs)) as [up|]; [|reflexivity].
  destruct (up_closed up); [reflexivity|].
  destruct (negb (is_https_tunnel (h_request (c_fwd cs)))); [|reflexivity].
  destruct (is_complete (c_response cs)).
  - destruct (handle_pipeline_response (c_pipeline_response cs) raw); reflexivity.
  - destruct (parse (c_response cs) raw); reflexivity.
Qed.

(* hence: however upstream data is interleaved with the client's pieces, the forwarding side of the connection
   goes through exactly the states it goes through without any upstream data *)
Theorem interleaving_irrelevant cfg ok : forall evs cs,
  forwarding_outcome (run_events cfg ok cs evs) = feed cfg ok (c_fwd cs) (client_pieces evs).
Proof.
  induction evs as [|[x|x] t IH]; intros cs; cbn [run_events client_pieces flat_map app feed forwarding_outcome].
  - reflexivity.
  - fold (client_pieces t). destruct (handle_data cfg ok (c_fwd cs) x) as [[|] st'|e st']; cbn [forwarding_outcome with_fwd c_fwd]; try reflexivity.
    rewrite IH. reflexivity.
  - fold (client_pieces t). rewrite IH, read_from_upstream_fwd. reflexivity.
Qed.

Theorem connection_interleaved cfg first rest evs : wf_cfg cfg = true -> auth_passes cfg (fst first) = true ->
  Forall request_pieces (first :: rest) ->
  Forall (fun rs => is_upgrade_request (fst rs) = false) (removelast (first :: rest)) ->
  client_pieces evs = concat (map snd (first :: rest)) ->
  exists cs ws, run_events cfg true init_cstate evs = CDone false cs /\ upstream_queue (c_fwd cs) = ws /\
                Forall2 (forwarded_as cfg) ws (first :: rest).
Proof.
  intros Wc Wa F Fu E. destruct (connection cfg first rest Wc Wa F Fu) as (ws & Hf & Hw).
  pose proof (interleaving_irrelevant cfg true evs init_cstate) as I. rewrite E in I. cbn [init_cstate c_fwd] in I.
  unfold forward in Hf. destruct (feed cfg true init_state (concat (map snd (first :: rest)))) as [[|] st'|e st'] eqn:Ef; try discriminate.
  destruct (run_events cfg true init_cstate evs) as [b cs|e cs]; cbn [forwarding_outcome] in I; [|discriminate].
  inversion I; subst. exists cs, ws. split; [reflexivity|]. split; [congruence|exact Hw].
Qed.

(* ---- the remainder loop of on_client_data: no result depends on the amount of fuel ---- *)
Lemma client_loop_fuel_mono cfg : forall f st raw o, on_client_data_loop f cfg st raw = o ->
  (forall st', o <> Raised OutOfFuel st') -> forall k, on_client_data_loop (f + k) cfg st raw = o.
Proof.
  induction f as [|f IH]; intros st raw o H Hn k.
  - cbn [on_client_data_loop] in H. subst o. exfalso. exact (Hn st eq_refl).
  - cbn [plus on_client_data_loop] in *. destruct (on_client_data_round cfg st raw) as [[[|] st'|e st'] [r|]]; try exact H.
    apply IH; assumption.
Qed.

(* ===================================================================================== *)
(* G. non-vacuity and refutations, by evaluation (statements repeated in Props/C02.v)      *)

Lemma nonvacuous :
  forallb (fun cr => wf_request (snd cr) && wf_cfg (fst cr) && auth_passes (fst cr) (snd cr))
          [(cfg_auth, ex_cl); (cfg_plain, ex_chunked); (cfg_plain, ex_empty_chunked); (cfg_plain, ex_upgrade)] = true /\
  forallb (fun cr =>
             match forward (fst cr) [render_request (snd cr)],
                   forward (fst cr) (map (fun x => [x]) (render_request (snd cr))) with
             | Some [w], Some [w'] => bytes_eqb w w' && option_eqb fwd_eqb (ref_parse_request w) (Some (expected_fwd (fst cr) (snd cr)))
             | _, _ => false
             end)
          [(cfg_auth, ex_cl); (cfg_plain, ex_chunked); (cfg_plain, ex_empty_chunked); (cfg_plain, ex_upgrade)] = true /\
  expected_fwd cfg_auth ex_cl =
    {| f_method := bs "POST"; f_target := bs "/a/b?x=1"; f_version := bs "HTTP/1.1";
       f_headers := [(bs "hOsT", bs "example.com:8080"); (bs "Via", bs "1.0 fred, 1.1 proxy.py v2.4");
                     (bs "content-LENGTH", bs "5"); (bs "Accept", bs "*/*")];
       f_body := bs "hello" |} /\
  expected_fwd cfg_plain ex_chunked =
    {| f_method := bs "PUT"; f_target := bs "/up"; f_version := bs "HTTP/1.1";
       f_headers := [(bs "Host", bs "[::1]"); (bs "Transfer-Encoding", bs "Chunked"); (bs "Expect", bs "100-continue");
                     (bs "Via", via24)];
       f_body := bs "hello0123456789 chunked!!!" |} /\
  (* two requests on one connection, the second one an upgrade request cut after its Upgrade line *)
  (let raw2 := render_request ex_upgrade in
   match forward cfg_plain [render_request ex_empty_chunked; firstn 70 raw2; skipn 70 raw2] with
   | Some [w1; w2] => option_eqb fwd_eqb (ref_parse_request w2) (Some (expected_fwd cfg_plain ex_upgrade))
   | _ => false
   end = true).
Proof. vm_compute. repeat split. Qed.

Lemma via_overwrite_refuted :
  exists cfg r w e, wf_request r = true /\ auth_passes cfg r = true /\
    forward (as_found_via cfg) [render_request r] = Some [w] /\ ref_parse_request w = Some e /\
    fwd_eqb e (expected_fwd cfg r) = false /\
    get_ci L_VIA (f_headers e) = Some via24 /\
    get_ci L_VIA (f_headers (expected_fwd cfg r)) = Some (bs "1.0 fred, " ++ via24).
Proof.
  exists cfg_auth, ex_cl. eexists. eexists. vm_compute. repeat split.
Qed.

Lemma upgrade_in_progress_refuted :
  exists cfg r1 r2 a b w1 w2,
    wf_request r1 = true /\ wf_request r2 = true /\ is_upgrade_request r1 = false /\
    a ++ b = render_request r2 /\ a <> [] /\ b <> [] /\
    forward (as_found_upgrade cfg) [render_request r1; a; b] = Some [w1; w2] /\
    w2 = b /\ ref_parse_request w2 = None /\
    (* while unsegmented it is forwarded properly by the same code *)
    (exists w2', forward (as_found_upgrade cfg) [render_request r1; render_request r2] = Some [w1; w2'] /\
                 ref_parse_request w2' = Some (expected_fwd cfg r2)).
Proof.
  exists cfg_plain, ex_empty_chunked, ex_upgrade, (firstn 70 (render_request ex_upgrade)), (skipn 70 (render_request ex_upgrade)).
  eexists. eexists. vm_compute. repeat split; try discriminate. eexists. split; reflexivity.
Qed.

Lemma te_list_refuted :
  exists w st, feed cfg_plain true init_state [te_list_raw] = Done true st /\ upstream_queue st = [w] /\
    w = bs "POST / HTTP/1.1" ++ CRLF ++ bs "Host: h.example" ++ CRLF ++ bs "Transfer-Encoding: gzip, chunked" ++ CRLF ++
        bs "Via: " ++ via24 ++ CRLF ++ CRLF /\
    ref_parse_request w = None /\
    (* the body bytes were taken for a further request: "Invalid request line", connection torn down *)
    h_pipeline st = Some (new_parser REQUEST_PARSER).
Proof. eexists. eexists. vm_compute. repeat split. Qed.
