(* Facts about Net/Forward.v (property C02). *)
From PM Require Import Lib.Bytes Lib.BytesFacts Lib.PyStr Lib.PyStrFacts Lib.PyStrFacts2 Http.Url Http.Chunk Http.ChunkFacts
  Http.Parser Http.ParserFacts Http.Builders Http.BuildersFacts Http.Grammar Http.CodecFacts Http.UrlSpec Http.Upstream Http.UrlFacts
  Net.Forward.
From Coq Require Import ZArith Lia.
