(* Facts about Net/Forward.v (property C02). *)
From PM Require Import Lib.Bytes Lib.BytesFacts Lib.PyStr Lib.PyStrFacts Lib.PyStrFacts2 Http.Url Http.Chunk Http.ChunkFacts
  Http.Parser Http.ParserFacts Http.Builders Http.BuildersFacts Http.Grammar Http.CodecFacts Http.UrlSpec Http.Upstream Http.UrlFacts
  Net.Forward.
From PM Require Net.Auth.
From Coq Require Import ZArith Lia.

(* ===================================================================================== *)
(* A. the header dictionary seen as the list of fields it stores                           *)

Notation U p := (unopt (headers p)).

Lemma hdr_inv_lift h : hdr_inv h -> unopt h = map lift1 (map snd (unopt h)) /\ NoDup (lkeys (map snd (unopt h))).
Proof.
  intros [Hn Hf]. set (d := unopt h) in *. clearbody d. split.
  - induction d as [|[k [o v]] t IH]; [reflexivity|]. inversion Hf as [|? ? E Hf']; subst. inversion Hn; subst.
    cbn [fst snd] in E. subst k. cbn [map snd]. unfold lift1 at 1. cbn [fst snd]. f_equal. now apply IH.
  - replace (lkeys (map snd d)) with (dict_keys d); [exact Hn|].
    unfold lkeys, dict_keys. rewrite map_map. apply map_ext_in. intros e He.
    rewrite Forall_forall in Hf. now apply Hf.
Qed.

Lemma lift_hdr_inv h hs : unopt h = map lift1 hs -> NoDup (lkeys hs) -> hdr_inv h.
Proof.
  intros E Hn. unfold hdr_inv. rewrite E. split.
  - unfold dict_keys. rewrite map_map. exact Hn.
  - apply Forall_forall. intros e He. apply in_map_iff in He as (kv & <- & _). reflexivity.
Qed.

Lemma view_lift hs : map snd (map lift1 hs) = hs.
Proof. rewrite map_map. rewrite <- (map_id hs) at 2. apply map_ext. intros [k v]. reflexivity. Qed.

(* ---- filter / set_field on field lists ---- *)
Definition keep_not (ln : bytes) (nv : bytes * bytes) : bool := negb (bytes_eqb (lower (fst nv)) ln).

Lemma lkeys_filter_subset f hs x : In x (lkeys (filter f hs)) -> In x (lkeys hs).
Proof.
  unfold lkeys. rewrite !in_map_iff. intros (kv & E & Hi). apply filter_In in Hi as [Hi _]. exists kv. now split.
Qed.

Lemma NoDup_lkeys_filter f hs : NoDup (lkeys hs) -> NoDup (lkeys (filter f hs)).
Proof.
  induction hs as [|kv t IH]; intros H; [constructor|]. cbn [filter]. cbn [lkeys map] in H. inversion H; subst.
  destruct (f kv); [|now apply IH]. cbn [lkeys map]. constructor; [|now apply IH].
  intros C. apply lkeys_filter_subset in C. contradiction.
Qed.

Lemma filter_keep_all ln hs : ~ In ln (lkeys hs) -> filter (keep_not ln) hs = hs.
Proof.
  induction hs as [|[k v] t IH]; intros H; [reflexivity|]. cbn [filter]. unfold keep_not at 1. cbn [fst]. cbn [lkeys map fst In] in H.
  destruct (bytes_eqb_spec (lower k) ln) as [E|E]; [exfalso; apply H; now left|]. cbn [negb].
  rewrite IH; [reflexivity|]. intros C. apply H. now right.
Qed.

(* del self.headers[k]: the (only) field of that name disappears *)
Lemma dict_del_lift ln hs : NoDup (lkeys hs) ->
  dict_del ln (map lift1 hs) = map lift1 (filter (keep_not ln) hs).
Proof.
  induction hs as [|[k v] t IH]; intros H; [reflexivity|]. cbn [lkeys map fst] in H. inversion H as [|? ? Hn Hd]; subst.
  cbn [map dict_del filter]. unfold lift1 at 1, keep_not at 1. cbn [fst snd].
  destruct (bytes_eqb_spec ln (lower k)) as [E|E]; destruct (bytes_eqb_spec (lower k) ln) as [E'|E']; try congruence; cbn [negb].
  - subst ln. rewrite filter_keep_all; [reflexivity|exact Hn].
  - cbn [map lift1 fst snd]. f_equal. now apply IH.
Qed.

Lemma lkeys_set_field name v hs :
  lkeys (set_field name v hs) = if has_key_ci (lower name) hs then lkeys hs else lkeys hs ++ [lower name].
Proof.
  induction hs as [|[k v'] t IH]; cbn [set_field lkeys map fst has_key_ci existsb]; [reflexivity|].
  destruct (bytes_eqb_spec (lower k) (lower name)) as [E|E]; cbn [orb map fst lkeys].
  - now rewrite E.
  - fold (lkeys (set_field name v t)). rewrite IH. fold (has_key_ci (lower name) t).
    destruct (has_key_ci (lower name) t); reflexivity.
Qed.

Lemma NoDup_lkeys_set_field name v hs : NoDup (lkeys hs) -> NoDup (lkeys (set_field name v hs)).
Proof.
  intros H. rewrite lkeys_set_field. destruct (has_key_ci (lower name) hs) eqn:E; [exact H|].
  apply NoDup_snoc; [exact H|]. now apply has_key_ci_false.
Qed.

(* self.headers[name.lower()] = (name, v) *)
Lemma dict_set_lift name v hs :
  dict_set (lower name) (name, v) (map lift1 hs) = map lift1 (set_field name v hs).
Proof.
  induction hs as [|[k v'] t IH]; [reflexivity|]. cbn [map lift1 fst snd dict_set set_field].
  destruct (bytes_eqb_spec (lower name) (lower k)) as [E|E]; destruct (bytes_eqb_spec (lower k) (lower name)) as [E'|E'];
    try congruence; cbn [map lift1 fst snd]; [reflexivity|]. f_equal. exact IH.
Qed.

Lemma dict_get_lift ln hs :
  dict_get ln (map lift1 hs) =
  match find (fun kv => bytes_eqb (lower (fst kv)) ln) hs with Some kv => Some kv | None => None end.
Proof.
  induction hs as [|[k v] t IH]; [reflexivity|]. cbn [map lift1 fst snd dict_get find].
  destruct (bytes_eqb_spec ln (lower k)) as [E|E]; destruct (bytes_eqb_spec (lower k) ln) as [E'|E']; try congruence.
  exact IH.
Qed.

(* ---- the parser methods in terms of the field list ---- *)
Lemma has_header_view p hs key : U p = map lift1 hs -> has_header p key = has_key_ci (lower key) hs.
Proof.
  intros E. unfold has_header. destruct (headers p) as [d|]; cbn [unopt] in E.
  - rewrite E. apply dict_has_lift.
  - destruct hs; [reflexivity|discriminate].
Qed.

Lemma header_view p hs key : U p = map lift1 hs ->
  header p key = match get_ci (lower key) hs with Some v => Ok v | None => Err KeyError end.
Proof.
  intros E. unfold header, get_ci. destruct (headers p) as [d|]; cbn [unopt] in E.
  - rewrite E, dict_get_lift. destruct (find _ hs) as [[k v]|]; reflexivity.
  - destruct hs; [reflexivity|discriminate].
Qed.

Lemma add_header_view p hs name v : U p = map lift1 hs -> U (add_header p name v) = map lift1 (set_field name v hs).
Proof.
  intros E. unfold add_header, add_header_d. cbn [headers set_headers unopt].
  fold (unopt (headers p)). rewrite E. apply dict_set_lift.
Qed.

Lemma del_header_view p hs key : U p = map lift1 hs -> NoDup (lkeys hs) ->
  U (del_header p key) = map lift1 (filter (keep_not (lower key)) hs).
Proof.
  intros E Hn. unfold del_header. destruct (headers p) as [[|e d]|] eqn:Hh; cbn [unopt] in E.
  - rewrite Hh. cbn [unopt]. destruct hs; [reflexivity|discriminate].
  - destruct (dict_has (lower key) (e :: d)) eqn:Hd.
    + cbn [headers set_headers unopt]. rewrite E. now apply dict_del_lift.
    + rewrite Hh. cbn [unopt]. rewrite E. f_equal. symmetry. apply filter_keep_all.
      apply has_key_ci_false. rewrite <- (dict_has_lift (lower key) hs), <- E. exact Hd.
  - rewrite Hh. cbn [unopt]. destruct hs; [reflexivity|discriminate].
Qed.

(* the other attributes are untouched by the header operations *)
Definition same_rest (p q : parser) : Prop :=
  ty q = ty p /\ state q = state p /\ method q = method p /\ version q = version p /\ path q = path p /\
  Parser.host q = Parser.host p /\ Parser.port q = Parser.port p /\
  body q = body p /\ is_chunked_encoded q = is_chunked_encoded p /\ is_https_tunnel q = is_https_tunnel p /\
  buffer q = buffer p.

Lemma same_rest_refl p : same_rest p p.
Proof. repeat split. Qed.
Lemma same_rest_trans p q r : same_rest p q -> same_rest q r -> same_rest p r.
Proof. unfold same_rest. intuition congruence. Qed.
Lemma same_rest_add p k v : same_rest p (add_header p k v).
Proof. repeat split. Qed.
Lemma same_rest_del p k : same_rest p (del_header p k).
Proof.
  unfold del_header. destruct (headers p) as [[|e d]|]; try apply same_rest_refl.
  destruct (dict_has (lower k) (e :: d)); [repeat split|apply same_rest_refl].
Qed.

(* ---- drop_hop is the two deletions ---- *)
Lemma lower_lower l : lower (lower l) = lower l.
Proof.
  unfold lower. rewrite map_map. apply map_ext. intros x. unfold lower_byte.
  destruct (is_upper x) eqn:E; [|now rewrite E].
  unfold is_upper in *. apply andb_true_iff in E as [E1 E2]. apply N.leb_le in E1, E2.
  replace (65 <=? x + 32) with true by (symmetry; apply N.leb_le; lia).
  replace (x + 32 <=? 90) with false by (symmetry; apply N.leb_gt; lia). reflexivity.
Qed.

Lemma drop_hop_filters hs :
  filter (keep_not (lower (lower PROXY_CONNECTION))) (filter (keep_not (lower (lower PROXY_AUTHORIZATION))) hs) = drop_hop hs.
Proof.
  unfold drop_hop. induction hs as [|[k v] t IH]; [reflexivity|]. cbn [filter].
  unfold keep_not at 2, is_hop at 1. cbn [fst mem_bytes].
  change (lower (lower PROXY_AUTHORIZATION)) with PROXY_AUTHORIZATION.
  change (lower (lower PROXY_CONNECTION)) with PROXY_CONNECTION in *.
  destruct (bytes_eqb (lower k) PROXY_AUTHORIZATION) eqn:E1; cbn [negb orb].
  - exact IH.
  - cbn [filter]. unfold keep_not at 1. cbn [fst]. rewrite orb_false_r.
    destruct (bytes_eqb (lower k) PROXY_CONNECTION) eqn:E2; cbn [negb]; [exact IH|]. f_equal. exact IH.
Qed.

Lemma del_headers_view p hs : U p = map lift1 hs -> NoDup (lkeys hs) ->
  let q := del_headers p [PROXY_AUTHORIZATION; PROXY_CONNECTION] in
  U q = map lift1 (drop_hop hs) /\ NoDup (lkeys (drop_hop hs)) /\ same_rest p q.
Proof.
  intros E Hn q. unfold q, del_headers. cbn [fold_left].
  set (p1 := del_header p (lower PROXY_AUTHORIZATION)).
  assert (E1 : U p1 = map lift1 (filter (keep_not (lower (lower PROXY_AUTHORIZATION))) hs)) by now apply del_header_view.
  assert (N1 : NoDup (lkeys (filter (keep_not (lower (lower PROXY_AUTHORIZATION))) hs))) by now apply NoDup_lkeys_filter.
  pose proof (del_header_view p1 _ (lower PROXY_CONNECTION) E1 N1) as E2.
  rewrite drop_hop_filters in E2. split; [exact E2|]. split.
  - unfold drop_hop. now apply NoDup_lkeys_filter.
  - eapply same_rest_trans; apply same_rest_del.
Qed.

(* ---- the dict comprehension of build() ---- *)
Lemma rebuilt_request_headers_view dis hs : forall acc, NoDup (map fst acc ++ map fst hs) ->
  rebuilt_request_headers dis None (map lift1 hs) acc =
  acc ++ filter (fun nv => negb (mem_bytes (lower (fst nv)) dis)) hs.
Proof.
  induction hs as [|[k v] t IH]; intros acc H; cbn [map rebuilt_request_headers lift1 fst snd filter]; [now rewrite app_nil_r|].
  rewrite lower_lower.
  assert (Hk : ~ In k (dict_keys acc)).
  { unfold dict_keys. cbn [map fst] in H. intros C. apply NoDup_remove_2 in H. apply H. apply in_or_app. now left. }
  destruct (mem_bytes (lower k) dis); cbn [negb].
  - apply IH. cbn [map fst] in H. now apply NoDup_remove_1 in H.
  - rewrite dict_set_new by exact Hk. rewrite IH.
    + now rewrite <- app_assoc.
    + rewrite map_app. cbn [map fst]. rewrite <- app_assoc. exact H.
Qed.

Lemma rebuilt_of_view dis p hs : U p = map lift1 hs -> NoDup (lkeys hs) ->
  match headers p with
  | Some ((_ :: _) as h) => rebuilt_request_headers dis None h []
  | _ => []
  end = filter (fun nv => negb (mem_bytes (lower (fst nv)) dis)) hs.
Proof.
  intros E Hn. destruct (headers p) as [[|e d]|]; cbn [unopt] in E.
  - destruct hs; [reflexivity|discriminate].
  - rewrite E. apply (rebuilt_request_headers_view dis hs []). cbn [map app]. now apply NoDup_names.
  - destruct hs; [reflexivity|discriminate].
Qed.

(* ---- _get_body_or_chunks ---- *)
Lemma get_body_or_chunks_wire p : get_body_or_chunks p = Ok (wire_body p).
Proof.
  unfold get_body_or_chunks, wire_body. destruct (body p) as [b|]; [|reflexivity].
  destruct (is_chunked_encoded p); reflexivity.
Qed.

(* ===================================================================================== *)
(* THEOREM 1: what _queue_request_for_upstream emits, for every parser state               *)

Lemma build_view ua dis p hs :
  is_request (ty p) = true -> truthy (method p) = true -> truthy (version p) = true ->
  U p = map lift1 hs -> NoDup (lkeys hs) ->
  build ua p dis false None =
  Ok (render_forward (or_empty (method p)) (path_or_slash p) (or_empty (version p))
        (recompute_cl (filter (fun nv => negb (mem_bytes (lower (fst nv)) dis)) hs) (wire_body p))
        (or_empty (wire_body p))).
Proof.
  intros Ht Hm Hv E Hn. unfold build. rewrite Hm, Hv, Ht. cbn [andb negb].
  rewrite get_body_or_chunks_wire. cbn [bind]. rewrite (rebuilt_of_view dis p hs E Hn).
  unfold build_http_request, build_http_pkt, pkt_headers, request_headers, render_forward, recompute_cl, path_or_slash.
  rewrite join_sp3, wire_or_empty. cbn [negb andb].
  set (fs := filter _ hs). rewrite andb_false_r.
  destruct (truthy (wire_body p) && negb (has_key_ci TRANSFER_ENCODING fs)).
  - rewrite dict_set_header_key. unfold bytes_of_N. rewrite <- !app_assoc. reflexivity.
  - rewrite <- !app_assoc. reflexivity.
Qed.

Theorem forward_of_parsed_gen cfg tunnel p :
  is_request (ty p) = true -> truthy (method p) = true -> truthy (version p) = true -> hdr_inv (headers p) ->
  exists p', queue_request_for_upstream cfg tunnel p = Ok (p', forward_of_parsed cfg tunnel p) /\
             same_rest p p' /\ hdr_inv (headers p') /\
             fields_of_parser p' =
               (if tunnel then drop_hop (fields_of_parser p) else with_via cfg (drop_hop (fields_of_parser p))).
Proof.
  intros Ht Hm Hv Hi. destruct (hdr_inv_lift _ Hi) as [E Hn]. fold (fields_of_parser p) in E, Hn.
  set (hs := fields_of_parser p) in *.
  unfold queue_request_for_upstream.
  destruct (del_headers_view p hs E Hn) as (E1 & N1 & S1). cbv zeta in E1, S1.
  set (r1 := del_headers p [PROXY_AUTHORIZATION; PROXY_CONNECTION]) in *.
  assert (W1 : wire_body r1 = wire_body p).
  { unfold wire_body. destruct S1 as (_ & _ & _ & _ & _ & _ & _ & Sb & Sc & _). now rewrite Sb, Sc. }
  destruct tunnel; cbn [negb bind].
  - (* no Via on requests read out of a tunnel *)
    destruct S1 as (St & Sst & Sm & Sv & Sp & Sr).
    rewrite (build_view (cf_agent cfg) (cf_disable cfg) r1 (drop_hop hs)); try congruence.
    cbn [bind]. exists r1. split.
    + unfold forward_of_parsed, forwarded_fields, drop_disabled, path_or_slash. fold hs. rewrite Sm, Sv, Sp, W1. reflexivity.
    + split; [repeat split; tauto|]. split; [now apply (lift_hdr_inv _ (drop_hop hs))|].
      unfold fields_of_parser at 1. rewrite E1. apply view_lift.
  - (* Via *)
    assert (Ev : exists v, via_value cfg r1 = Ok v /\ set_field H_VIA v (drop_hop hs) = with_via cfg (drop_hop hs)).
    { unfold via_value, with_via. rewrite (has_header_view r1 _ L_VIA E1), (header_view r1 _ L_VIA E1).
      change (lower L_VIA) with L_VIA. rewrite has_key_ci_get.
      destruct (get_ci L_VIA (drop_hop hs)) as [old|]; destruct (cf_via_append cfg); cbn [andb bind];
        eexists; split; reflexivity. }
    destruct Ev as (v & -> & Ew). cbn [bind]. unfold add_headers. cbn [fold_left fst snd].
    set (r2 := add_header r1 H_VIA v).
    assert (E2 : U r2 = map lift1 (with_via cfg (drop_hop hs))) by (rewrite <- Ew; now apply add_header_view).
    assert (N2 : NoDup (lkeys (with_via cfg (drop_hop hs)))) by (rewrite <- Ew; now apply NoDup_lkeys_set_field).
    assert (S2 : same_rest p r2) by (eapply same_rest_trans; [exact S1|apply same_rest_add]).
    assert (W2 : wire_body r2 = wire_body p) by exact W1.
    destruct S2 as (St & Sst & Sm & Sv & Sp & Sr).
    rewrite (build_view (cf_agent cfg) (cf_disable cfg) r2 (with_via cfg (drop_hop hs))); try congruence.
    cbn [bind]. exists r2. split.
    + unfold forward_of_parsed, forwarded_fields, drop_disabled, path_or_slash. fold hs. rewrite Sm, Sv, Sp, W2. reflexivity.
    + split; [repeat split; tauto|]. split; [now apply (lift_hdr_inv _ (with_via cfg (drop_hop hs)))|].
      unfold fields_of_parser at 1. rewrite E2. apply view_lift.
Qed.
