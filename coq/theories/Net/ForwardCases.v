(* Correspondence relations for Net/Forward.v (property C02): each case carries the input and what the
   implementation (or h11, or the harness's own statement of the rewriting) produced; check_case
   evaluates the Coq side and compares. *)
From PM Require Import Lib.Bytes Lib.PyStr Lib.PyStrFacts Http.Url Http.Chunk Http.Parser Http.Builders Http.Grammar
  Http.UrlSpec Net.Forward.
From Coq Require Import ZArith.

Definition mk_cfg agent dis auth app : fcfg :=
  {| cf_agent := agent; cf_disable := dis; cf_auth_code := auth; cf_via_append := app |}.
Definition mk_field n pre v post : hfield := {| hf_name := n; hf_pre := pre; hf_value := v; hf_post := post |}.
Definition mk_chunk sz ext data : Grammar.chunk := {| ck_size := sz; ck_ext := ext; ck_data := data |}.
Definition mk_chunked cs last ext trailers : chunked :=
  {| ch_chunks := cs; ch_last_size := last; ch_last_ext := ext; ch_trailers := trailers |}.
Definition mk_request m t v hs1 fr hs2 : request :=
  {| q_method := m; q_target := t; q_version := v; q_hs1 := hs1; q_framing := fr; q_hs2 := hs2 |}.
Definition mk_fwd m t v hs b : fwd :=
  {| f_method := m; f_target := t; f_version := v; f_headers := hs; f_body := b |}.

(* outcome of a connection as a number: 0 still open, 1 torn down by handle_data, 1000 + exn_code for an
   exception escaping handle_data *)
Definition outcome_code (o : outcome) : N :=
  match o with
  | Done false _ => 0
  | Done true _ => 1
  | Raised e _ => 1000 + exn_code e
  end.
Definition outcome_state (o : outcome) : hstate := match o with Done _ st => st | Raised _ st => st end.

Definition upstream_bytes (st : hstate) : bytes := concat (upstream_queue st).

(* feed the pieces one handle_data call each; after every call record how many bytes have been handed to
   the upstream connection so far *)
Fixpoint feed_obs (cfg : fcfg) (connect_ok : bool) (st : hstate) (pieces : list bytes) (acc : list N)
  : outcome * list N :=
  match pieces with
  | [] => (Done false st, acc)
  | x :: t =>
      match handle_data cfg connect_ok st x with
      | Done false st' => feed_obs cfg connect_ok st' t (acc ++ [len (upstream_bytes st')])
      | o => (o, acc ++ [len (upstream_bytes (outcome_state o))])
      end
  end.

Inductive fcase :=
(* a whole client connection through the real HttpProtocolHandler + HttpProxyPlugin: pieces as received,
   the final outcome, everything the upstream socket was sent, and the cumulative count after each piece *)
| FConn (cfg : fcfg) (connect_ok : bool) (pieces : list bytes) (exp_outcome : N) (exp_up : bytes)
        (exp_counts : list N)
(* the reference request parser against h11's reading of the same bytes *)
| FRef (w : bytes) (exp : option fwd)
(* the generator's abstract request: inside the theorems' domain, rendered to exactly the bytes sent, and
   the forwarded request demanded by the theorems is the one the harness demands of the implementation *)
| FDom (cfg : fcfg) (r : request) (raw : bytes) (exp : fwd).

Definition list_N_eqb := list_eqb N.eqb.

Definition check_case (c : fcase) : bool :=
  match c with
  | FConn cfg ok pieces eo eu ec =>
      let '(o, counts) := feed_obs cfg ok init_state pieces [] in
      (outcome_code o =? eo) && bytes_eqb (upstream_bytes (outcome_state o)) eu && list_N_eqb counts ec
  | FRef w e => option_eqb fwd_eqb (ref_parse_request w) e
  | FDom cfg r raw e =>
      wf_request r && wf_cfg cfg && auth_passes cfg r && bytes_eqb (render_request r) raw &&
      fwd_eqb (expected_fwd cfg r) e
  end.

(* model output for replay files *)
Definition run_case (c : fcase) :=
  match c with
  | FConn cfg ok pieces _ _ _ =>
      let '(o, counts) := feed_obs cfg ok init_state pieces [] in
      Some (outcome_code o, upstream_bytes (outcome_state o), counts)
  | _ => None
  end.
