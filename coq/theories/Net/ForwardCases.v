(* Correspondence relations for Net/Forward.v (property C02): each case carries the input and what the
   implementation (or h11, or the harness's own statement of the rewriting) produced; check_case
   evaluates the Coq side and compares. *)
From PM Require Import Lib.Bytes Lib.PyStr Lib.PyStrFacts Http.Url Http.Chunk Http.Parser Http.Builders Http.Grammar
  Http.UrlSpec Net.Forward.
From Coq Require Import ZArith.

Definition mk_cfg agent dis auth app upg : fcfg :=
  {| cf_agent := agent; cf_disable := dis; cf_auth_code := auth; cf_via_append := app; cf_upgrade_complete := upg |}.
Definition mk_field n pre v post : hfield := {| hf_name := n; hf_pre := pre; hf_value := v; hf_post := post |}.
Definition mk_chunk sz ext data : Grammar.chunk := {| ck_size := sz; ck_ext := ext; ck_data := data |}.
Definition mk_chunked cs last ext trailers : chunked :=
  {| ch_chunks := cs; ch_last_size := last; ch_last_ext := ext; ch_trailers := trailers |}.
Definition mk_request m t v hs1 fr hs2 : request :=
  {| q_method := m; q_target := t; q_version := v; q_hs1 := hs1; q_framing := fr; q_hs2 := hs2 |}.
Definition mk_fwd m t v hs b : fwd :=
  {| f_method := m; f_target := t; f_version := v; f_headers := hs; f_body := b |}.

(* outcome of a connection as a number: 0 still open, 1 torn down by handle_data, 1000 + exn_code for an
   exception escaping handle_data *)
Definition outcome_code (o : outcome) : N :=
  match o with
  | Done false _ => 0
  | Done true _ => 1
  | Raised e _ => 1000 + exn_code e
  end.
Definition outcome_state (o : outcome) : hstate := match o with Done _ st => st | Raised _ st => st end.

Definition upstream_bytes (st : hstate) : bytes := concat (upstream_queue st).

(* feed the pieces one handle_data call each; after every call record how many bytes have been handed to
   the upstream connection so far *)
Fixpoint feed_obs (cfg : fcfg) (connect_ok : bool) (st : hstate) (pieces : list bytes) (acc : list N)
  : outcome * list N :=
  match pieces with
  | [] => (Done false st, acc)
  | x :: t =>
      match handle_data cfg connect_ok st x with
      | Done false st' => feed_obs cfg connect_ok st' t (acc ++ [len (upstream_bytes st')])
      | o => (o, acc ++ [len (upstream_bytes (outcome_state o))])
      end
  end.

(* how the bytes of one request were cut into the pieces received: at the given offsets (strictly
   increasing, inside the data), or after every single byte *)
Inductive cutspec := Cuts (l : list N) | EveryByte.

Fixpoint cut_at (data : bytes) (prev : N) (cuts : list N) : list bytes :=
  match cuts with
  | [] => [data]
  | c :: t => take (c - prev) data :: cut_at (drop (c - prev) data) c t
  end.
Definition cut_pieces (data : bytes) (c : cutspec) : list bytes :=
  match c with
  | Cuts l => cut_at data 0 l
  | EveryByte => map (fun x => [x]) data
  end.

(* one request of a connection *)
Inductive rq :=
| RAbs (r : request) (e : fwd)    (* abstract syntax of a well-formed request — the bytes sent are its rendering —
                                     and the forwarded request the harness demands (= what h11 read at the origin) *)
| RRaw (raw : bytes).             (* any other bytes *)
Definition rq_bytes (q : rq) : bytes := match q with RAbs r _ => render_request r | RRaw raw => raw end.

(* one way the bytes of the connection arrived: a cut specification per request, the data that arrived from the
   upstream server in between (index of the client piece BEFORE which it arrived, counted over the whole
   connection; data), with what the implementation did: the final outcome and the cumulative count of forwarded
   bytes after each client piece *)
Definition run := (list cutspec * list (N * bytes) * N * list N)%type.

Inductive fcase :=
(* a whole client connection through the real HttpProtocolHandler + HttpProxyPlugin: the requests, one or more
   segmentations of the same bytes (each run on a new connection), and everything the upstream socket was sent
   (the same for all the runs listed) *)
| FConn (cfg : fcfg) (connect_ok : bool) (reqs : list rq) (runs : list run) (exp_up : bytes)
(* the reference request parser against h11's reading of the same bytes (used on forwarded bytes of requests
   OUTSIDE the grammar; for the others it is part of FConn) *)
| FRef (w : bytes) (exp : option fwd).

Definition list_N_eqb := list_eqb N.eqb.

Definition no_auth (cfg : fcfg) : fcfg :=
  {| cf_agent := cf_agent cfg; cf_disable := cf_disable cfg; cf_auth_code := None; cf_via_append := cf_via_append cfg;
     cf_upgrade_complete := cf_upgrade_complete cfg |}.

(* the abstract requests: inside the theorems' domain; the forwarded request the theorems promise is the one
   the harness demands; and the reference parser reads exactly that out of the i-th forwarded byte string
   (credentials are only asked of the first request of a connection) *)
Fixpoint check_abs (cfg : fcfg) (first : bool) (reqs : list rq) (queue : list bytes) : bool :=
  match reqs with
  | [] => true
  | RAbs r e :: t =>
      let cfg' := if first then cfg else no_auth cfg in
      wf_request r && wf_cfg cfg' && auth_passes cfg' r && fwd_eqb (expected_fwd cfg' r) e &&
      match queue with
      | w :: _ => option_eqb fwd_eqb (ref_parse_request w) (Some e)
      | [] => false
      end &&
      check_abs cfg false t (tl queue)
  | RRaw _ :: t => check_abs cfg false t (tl queue)
  end.
(* the abstract part is only judged on the leading run of abstract requests (the harness puts raw
   requests last) *)
Fixpoint abs_prefix (reqs : list rq) : list rq :=
  match reqs with
  | RAbs r e :: t => RAbs r e :: abs_prefix t
  | _ => []
  end.

Fixpoint pieces_of (datas : list bytes) (cuts : list cutspec) : list bytes :=
  match datas, cuts with
  | d :: dt, c :: ct => cut_pieces d c ++ pieces_of dt ct
  | d :: dt, [] => d :: pieces_of dt []
  | [], _ => []
  end.

(* the event list: client pieces in order, upstream data inserted before the piece with the given index
   (entries whose index is past the last piece come at the end) *)
Fixpoint interleave (i : N) (pieces : list bytes) (sched : list (N * bytes)) (fuel : nat) : list event :=
  match fuel with
  | O => []
  | S f =>
      match sched with
      | (j, d) :: st' =>
          if j <=? i then EUpstream d :: interleave i pieces st' f
          else match pieces with
               | x :: t => EClient x :: interleave (i + 1) t sched f
               | [] => EUpstream d :: interleave i pieces st' f
               end
      | [] => match pieces with
              | x :: t => EClient x :: interleave (i + 1) t [] f
              | [] => []
              end
      end
  end.

(* run the events; after every client piece record how many bytes have been handed to the upstream connection *)
Fixpoint run_obs (cfg : fcfg) (connect_ok : bool) (cs : cstate) (evs : list event) (acc : list N) : outcome * list N :=
  match evs with
  | [] => (Done false (c_fwd cs), acc)
  | EClient x :: t =>
      match handle_data cfg connect_ok (c_fwd cs) x with
      | Done false st' => run_obs cfg connect_ok (with_fwd cs st') t (acc ++ [len (upstream_bytes st')])
      | o => (o, acc ++ [len (upstream_bytes (outcome_state o))])
      end
  | EUpstream x :: t => run_obs cfg connect_ok (read_from_upstream cs x) t acc
  end.

Definition run_one (cfg : fcfg) (ok : bool) (datas : list bytes) (cuts : list cutspec) (sched : list (N * bytes))
  : outcome * list N :=
  let pieces := pieces_of datas cuts in
  run_obs cfg ok init_cstate (interleave 0 pieces sched (S (length pieces + length sched))) [].

(* While the connection is open, what the upstream socket received is exactly what was queued.  When the
   handler tears the connection down (or an exception escapes) in the very call that queued something, the
   upstream connection is closed without another flush: then what the socket received is a PREFIX of what was
   queued, and only the last count may fall short (write-side delivery at teardown is C07's business). *)
Fixpoint counts_upto (model impl : list N) : bool :=
  match model, impl with
  | [], [] => true
  | [m], [i] => i <=? m
  | m :: mt, i :: it => (m =? i) && counts_upto mt it
  | _, _ => false
  end.

Definition check_run (cfg : fcfg) (ok : bool) (datas : list bytes) (eu : bytes) (rn : run) : bool :=
  let '(cuts, sched, eo, ec) := rn in
  let '(o, counts) := run_one cfg ok datas cuts sched in
  (outcome_code o =? eo) &&
  (if eo =? 0 then bytes_eqb (upstream_bytes (outcome_state o)) eu && list_N_eqb counts ec
   else is_prefix eu (upstream_bytes (outcome_state o)) && counts_upto counts ec).

Definition check_case (c : fcase) : bool :=
  match c with
  | FConn cfg ok reqs runs eu =>
      let datas := map rq_bytes reqs in
      forallb (check_run cfg ok datas eu) runs &&
      (negb ok ||
       match runs with
       | (cuts, sched, _, _) :: _ =>
           check_abs cfg true (abs_prefix reqs) (upstream_queue (outcome_state (fst (run_one cfg ok datas cuts sched))))
       | [] => false
       end)
  | FRef w e => option_eqb fwd_eqb (ref_parse_request w) e
  end.

(* model output for replay files *)
Definition run_case (c : fcase) :=
  match c with
  | FConn cfg ok reqs runs _ =>
      let datas := map rq_bytes reqs in
      Some (map (fun rn : run => let '(cuts, sched, _, _) := rn in
                                 let '(o, counts) := run_one cfg ok datas cuts sched in
                                 (outcome_code o, upstream_bytes (outcome_state o), counts)) runs)
  | _ => None
  end.
