(* Correspondence relations for Net/Forward.v (property C02): each case carries the input and what the
   implementation (or h11, or the harness's own statement of the rewriting) produced; check_case
   evaluates the Coq side and compares. *)
From PM Require Import Lib.Bytes Lib.PyStr Lib.PyStrFacts Http.Url Http.Chunk Http.Parser Http.Builders Http.Grammar
  Http.UrlSpec Net.Forward.
From Coq Require Import ZArith.

Definition mk_cfg agent dis auth app upg : fcfg :=
  {| cf_agent := agent; cf_disable := dis; cf_auth_code := auth; cf_via_append := app; cf_upgrade_complete := upg |}.
Definition mk_field n pre v post : hfield := {| hf_name := n; hf_pre := pre; hf_value := v; hf_post := post |}.
Definition mk_chunk sz ext data : Grammar.chunk := {| ck_size := sz; ck_ext := ext; ck_data := data |}.
Definition mk_chunked cs last ext trailers : chunked :=
  {| ch_chunks := cs; ch_last_size := last; ch_last_ext := ext; ch_trailers := trailers |}.
Definition mk_request m t v hs1 fr hs2 : request :=
  {| q_method := m; q_target := t; q_version := v; q_hs1 := hs1; q_framing := fr; q_hs2 := hs2 |}.
Definition mk_fwd m t v hs b : fwd :=
  {| f_method := m; f_target := t; f_version := v; f_headers := hs; f_body := b |}.

(* outcome of a connection as a number: 0 still open, 1 torn down by handle_data, 1000 + exn_code for an
   exception escaping handle_data *)
Definition outcome_code (o : outcome) : N :=
  match o with
  | Done false _ => 0
  | Done true _ => 1
  | Raised e _ => 1000 + exn_code e
  end.
Definition outcome_state (o : outcome) : hstate := match o with Done _ st => st | Raised _ st => st end.

Definition upstream_bytes (st : hstate) : bytes := concat (upstream_queue st).

(* feed the pieces one handle_data call each; after every call record how many bytes have been handed to
   the upstream connection so far *)
Fixpoint feed_obs (cfg : fcfg) (connect_ok : bool) (st : hstate) (pieces : list bytes) (acc : list N)
  : outcome * list N :=
  match pieces with
  | [] => (Done false st, acc)
  | x :: t =>
      match handle_data cfg connect_ok st x with
      | Done false st' => feed_obs cfg connect_ok st' t (acc ++ [len (upstream_bytes st')])
      | o => (o, acc ++ [len (upstream_bytes (outcome_state o))])
      end
  end.

(* how the bytes of one request were cut into the pieces received: at the given offsets (strictly
   increasing, inside the data), or after every single byte *)
Inductive cutspec := Cuts (l : list N) | EveryByte.

Fixpoint cut_at (data : bytes) (prev : N) (cuts : list N) : list bytes :=
  match cuts with
  | [] => [data]
  | c :: t => take (c - prev) data :: cut_at (drop (c - prev) data) c t
  end.
Definition cut_pieces (data : bytes) (c : cutspec) : list bytes :=
  match c with
  | Cuts l => cut_at data 0 l
  | EveryByte => map (fun x => [x]) data
  end.

(* one request of a connection *)
Inductive rq :=
| RAbs (r : request) (e : fwd)    (* abstract syntax of a well-formed request — the bytes sent are its rendering —
                                     and the forwarded request the harness demands (= what h11 read at the origin) *)
| RRaw (raw : bytes).             (* any other bytes *)
Definition rq_bytes (q : rq) : bytes := match q with RAbs r _ => render_request r | RRaw raw => raw end.

Inductive fcase :=
(* a whole client connection through the real HttpProtocolHandler + HttpProxyPlugin: the requests with their
   segmentation, the final outcome, everything the upstream socket was sent, and the cumulative count of
   forwarded bytes after each piece *)
| FConn (cfg : fcfg) (connect_ok : bool) (reqs : list (rq * cutspec)) (exp_outcome : N) (exp_up : bytes)
        (exp_counts : list N)
(* the reference request parser against h11's reading of the same bytes (used on forwarded bytes of requests
   OUTSIDE the grammar; for the others it is part of FConn) *)
| FRef (w : bytes) (exp : option fwd).

Definition list_N_eqb := list_eqb N.eqb.

Definition no_auth (cfg : fcfg) : fcfg :=
  {| cf_agent := cf_agent cfg; cf_disable := cf_disable cfg; cf_auth_code := None; cf_via_append := cf_via_append cfg;
     cf_upgrade_complete := cf_upgrade_complete cfg |}.

(* the abstract requests: inside the theorems' domain; the forwarded request the theorems promise is the one
   the harness demands; and the reference parser reads exactly that out of the i-th forwarded byte string
   (credentials are only asked of the first request of a connection) *)
Fixpoint check_abs (cfg : fcfg) (first : bool) (reqs : list (rq * cutspec)) (queue : list bytes) : bool :=
  match reqs with
  | [] => true
  | (RAbs r e, _) :: t =>
      let cfg' := if first then cfg else no_auth cfg in
      wf_request r && wf_cfg cfg' && auth_passes cfg' r && fwd_eqb (expected_fwd cfg' r) e &&
      match queue with
      | w :: _ => option_eqb fwd_eqb (ref_parse_request w) (Some e)
      | [] => false
      end &&
      check_abs cfg false t (tl queue)
  | (RRaw _, _) :: t => check_abs cfg false t (tl queue)
  end.
(* the abstract part is only judged on the leading run of abstract requests (the harness puts raw
   requests last) *)
Fixpoint abs_prefix (reqs : list (rq * cutspec)) : list (rq * cutspec) :=
  match reqs with
  | (RAbs r e, c) :: t => (RAbs r e, c) :: abs_prefix t
  | _ => []
  end.

Definition check_case (c : fcase) : bool :=
  match c with
  | FConn cfg ok reqs eo eu ec =>
      let pieces := flat_map (fun qc => cut_pieces (rq_bytes (fst qc)) (snd qc)) reqs in
      let '(o, counts) := feed_obs cfg ok init_state pieces [] in
      (outcome_code o =? eo) && bytes_eqb (upstream_bytes (outcome_state o)) eu && list_N_eqb counts ec &&
      (negb ok || check_abs cfg true (abs_prefix reqs) (upstream_queue (outcome_state o)))
  | FRef w e => option_eqb fwd_eqb (ref_parse_request w) e
  end.

(* model output for replay files *)
Definition run_case (c : fcase) :=
  match c with
  | FConn cfg ok reqs _ _ _ =>
      let pieces := flat_map (fun qc => cut_pieces (rq_bytes (fst qc)) (snd qc)) reqs in
      let '(o, counts) := feed_obs cfg ok init_state pieces [] in
      Some (outcome_code o, upstream_bytes (outcome_state o), counts)
  | _ => None
  end.
