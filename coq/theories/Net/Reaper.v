(* Net/Reaper.v — the idle reaper around one connection (C20). Definitions only.
   * threadless mode: Threadless._run_forever (proxy/core/work/threadless.py): after every _run_once
       elapsed = tick * (DEFAULT_SELECTOR_SELECT_TIMEOUT + wait_timeout)
       if elapsed >= cleanup_inactive_timeout: _cleanup_inactive(); tick = 0
       tick += 1
     — a COUNT of loop iterations, not a clock — and _cleanup_inactive shuts down every work whose
     is_inactive() is True;
   * threaded mode: HttpProtocolHandler.run: `if self.is_inactive(): break` before every _run_once.
   Restricted to the one work under consideration (the executor proper is Exec/Threadless.v, C05/C10).
   Times are integers in clock units (the harness uses 1/1024 s); the two constants of the tick
   arithmetic are given in microseconds. *)
From PM Require Import Lib.Bytes Net.Conn Net.Handler.
From Coq Require Import ZArith.

Record tcfg := mkTC {
  period_us : N;      (* DEFAULT_SELECTOR_SELECT_TIMEOUT + wait_timeout *)
  cleanup_us : N      (* cleanup_inactive_timeout *)
}.

(* one loop iteration as seen by this work:
   - it_ev: the handle_events call it got in _run_once (None: none of its descriptors was ready / select
     timed out / its own previous task is still in flight — _update_selector and _create_tasks skip such a work);
   - it_t: the time.time() that is_inactive() reads if the sweep runs in this iteration;
   - it_unfinished: whether _run_once left tasks in self.unfinished (some work's handle_events coroutine is
     still suspended: another work awaiting a slow plugin future, ...).  An INPUT of the iteration: the
     loop body below never looks at it — in the code the tick advances and the sweep runs regardless. *)
Record loop_iter := mkIter { it_ev : option event; it_t : Z; it_unfinished : bool }.

Inductive fate := Alive | ClosedByHandler | Reaped (t : Z).

Record rstate := mkR { r_h : hstate; r_tick : N; r_fate : fate }.

Definition sweep_due (tc : tcfg) (tick : N) : bool := cleanup_us tc <=? tick * period_us tc.

(* _run_once for this work: handle_events; teardown (or an escaped exception) -> _cleanup -> shutdown() *)
Definition run_once (c : cfg) (st : rstate) (oev : option event) : rstate :=
  match r_fate st, oev with
  | Alive, Some ev =>
      match step c (r_h st) ev with
      | (h', Continue) => mkR h' (r_tick st) Alive
      | (h', _) => mkR (shutdown c [] h') (r_tick st) ClosedByHandler
      end
  | _, _ => st
  end.

(* _cleanup_inactive for this work at time t *)
Definition cleanup_inactive (c : cfg) (st : rstate) (t : Z) : rstate :=
  match r_fate st with
  | Alive => if is_inactive c (r_h st) t then mkR (shutdown c [] (r_h st)) (r_tick st) (Reaped t) else st
  | _ => st
  end.

Definition set_tick (n : N) (st : rstate) : rstate := mkR (r_h st) n (r_fate st).

(* one iteration of _run_forever; the boolean says whether the sweep ran.
       if await self._run_once(): break
       elapsed = tick * (DEFAULT_SELECTOR_SELECT_TIMEOUT + self.wait_timeout)
       if elapsed >= self.cleanup_inactive_timeout: self._cleanup_inactive(); ...; tick = 0
       tick += 1
   No test of self.unfinished anywhere: [it_unfinished it] is not used.  _cleanup_inactive asks is_inactive()
   of EVERY work in self.works, also of one whose own task is in flight; such a work is then shut down under
   its suspended task (which later finds closed sockets; its teardown is absorbed by _cleanup's works.pop). *)
Definition threadless_iter (tc : tcfg) (c : cfg) (st : rstate) (it : loop_iter) : rstate * bool :=
  let st1 := run_once c st (it_ev it) in
  if sweep_due tc (r_tick st1)
  then (set_tick 1 (cleanup_inactive c st1 (it_t it)), true)
  else (set_tick (r_tick st1 + 1) st1, false).

Fixpoint reaper_run (tc : tcfg) (c : cfg) (st : rstate) (its : list loop_iter) : rstate :=
  match its with
  | [] => st
  | it :: t => reaper_run tc c (fst (threadless_iter tc c st it)) t
  end.

(* smallest tick at which the sweep is due: ceil(cleanup / period) *)
Definition sweep_period (tc : tcfg) : N := (cleanup_us tc + period_us tc - 1) / period_us tc.

(* ---- threaded mode: run()'s loop.  Every iteration calls handle_events, with empty ready lists when
   select timed out. *)
Definition null_event (t : Z) : event :=
  mkEvent t false false false false WouldBlock WouldBlock ROsErr ROsErr RIncomplete DNothing.

Definition threaded_iter (c : cfg) (sel : list (option outcome)) (st : rstate) (it : loop_iter) : rstate :=
  match r_fate st with
  | Alive =>
      if is_inactive c (r_h st) (it_t it) then mkR (shutdown c sel (r_h st)) (r_tick st) (Reaped (it_t it))
      else
        let ev := match it_ev it with Some ev => ev | None => null_event (it_t it) end in
        match step c (r_h st) ev with
        | (h', Continue) => mkR h' (r_tick st) Alive
        | (h', _) => mkR (shutdown c sel h') (r_tick st) ClosedByHandler
        end
  | _ => st
  end.

Fixpoint threaded_run (c : cfg) (sel : list (option outcome)) (st : rstate) (its : list loop_iter) : rstate :=
  match its with
  | [] => st
  | it :: t => threaded_run c sel (threaded_iter c sel st it) t
  end.

(* consecutive loop iterations are at most delta apart (and time does not go backwards) *)
Fixpoint chain (delta : Z) (ts : list Z) : Prop :=
  match ts with
  | a :: ((b :: _) as t) => (a <= b <= a + delta)%Z /\ chain delta t
  | _ => True
  end.

(* ---- observations for the correspondence *)
Definition fate_code (f : fate) : N := match f with Alive => 0 | ClosedByHandler => 1 | Reaped _ => 2 end.

Fixpoint reaper_trace (tc : tcfg) (c : cfg) (st : rstate) (its : list loop_iter) : list (bool * N) * rstate :=
  match its with
  | [] => ([], st)
  | it :: t => let '(st', sw) := threadless_iter tc c st it in
               let '(os, st'') := reaper_trace tc c st' t in ((sw, fate_code (r_fate st')) :: os, st'')
  end.

Fixpoint threaded_trace (c : cfg) (sel : list (option outcome)) (st : rstate) (its : list loop_iter) : list N * rstate :=
  match its with
  | [] => ([], st)
  | it :: t => let st' := threaded_iter c sel st it in
               let '(os, st'') := threaded_trace c sel st' t in (fate_code (r_fate st') :: os, st'')
  end.
