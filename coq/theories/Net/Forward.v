(* Net/Forward.v — C02: what the origin server is sent for a client's proxy request.
   Definitions only (lemmas: ForwardFacts.v).

   Python modelled, function for function (tree after the fix: commits up to e222aa4):
     proxy/http/parser/parser.py     HttpParser.add_headers / del_headers            -> add_headers / del_headers
                                     (add_header, del_header, build, _get_body_or_chunks are in Http/Builders.v;
                                      parse and friends in Http/Parser.v)
     proxy/http/proxy/server.py      HttpProxyPlugin._queue_request_for_upstream     -> queue_request_for_upstream
                                     HttpProxyPlugin.on_request_complete             -> on_request_complete
                                     HttpProxyPlugin.on_client_data / _on_client_data -> on_client_data(_loop) / on_client_data_round
                                     HttpProxyPlugin.connect_upstream                -> Http/Upstream.v connect_upstream + connect outcome
     proxy/http/proxy/auth.py        AuthPlugin.before_upstream_connection           -> before_upstream_connection (Net/Auth.v auth_ok)
     proxy/http/handler.py           HttpProtocolHandler._parse_first_request        -> parse_first_request
                                     HttpProtocolHandler.handle_data                 -> handle_data
   Scope: forward proxy with only HttpProxyPlugin enabled, no user plugins (the AuthPlugin when
   --basic-auth is given), TLS interception, connection pool and proxy protocol off (defaults).
   Sockets are outside: the model's observable is the sequence of byte strings handed to
   TcpServerConnection.queue of the upstream connection (flushed in that order, C01).

   Then the REFERENCE side of property C02, written as specifications independent of the parser and
   builder models: the abstract syntax of a well-formed proxy request, its rendering, the abstract
   forwarded request [expected_fwd] and the reference request parser [ref_parse_request] (built from
   the RFC 7230 recognisers of Http/Grammar.v). *)
From PM Require Import Lib.Bytes Lib.PyStr Lib.PyStrFacts Http.Url Http.Chunk Http.Parser Http.Builders Http.Grammar
  Http.UrlSpec Http.Upstream.
From PM Require Net.Auth.
From Coq Require Import ZArith.

(* ===================================================================================== *)
(* configuration                                                                          *)
Record fcfg := {
  cf_agent : bytes;               (* PROXY_AGENT_HEADER_VALUE = b'proxy.py v' + version *)
  cf_disable : list bytes;        (* flags.disable_headers *)
  cf_auth_code : option bytes;    (* flags.auth_code (base64 of --basic-auth); None: AuthPlugin not loaded *)
  cf_via_append : bool;           (* true: the repaired code (fix C02-via-append); false: as found *)
  cf_upgrade_complete : bool }.   (* true: the repaired code (fix C02-upgrade-request-in-progress): only a COMPLETE
                                     pipelined upgrade request switches the connection to raw relaying; false: as found *)

Definition PROXY_AUTHORIZATION : bytes := bs "proxy-authorization".   (* httpHeaders.PROXY_AUTHORIZATION *)
Definition PROXY_CONNECTION : bytes := bs "proxy-connection".
Definition H_VIA : bytes := bs "Via".
Definition L_VIA : bytes := bs "via".
Definition COMMA_SP : bytes := bs ", ".
(* b'1.1 %s' % PROXY_AGENT_HEADER_VALUE *)
Definition via_entry (agent : bytes) : bytes := bs "1.1 " ++ agent.

Definition unopt (h : option hdict) : hdict := match h with Some d => d | None => [] end.

(* ===================================================================================== *)
(* HttpParser.add_headers / del_headers                                                    *)
Definition add_headers (p : parser) (hs : list (bytes * bytes)) : parser :=
  fold_left (fun q kv => add_header q (fst kv) (snd kv)) hs p.
(* for key in headers: self.del_header(key.lower()) *)
Definition del_headers (p : parser) (keys : list bytes) : parser :=
  fold_left (fun q k => del_header q (lower k)) keys p.

(* ===================================================================================== *)
(* HttpProxyPlugin._queue_request_for_upstream                                             *)

(* the value given to the Via field *)
Definition via_value (cfg : fcfg) (request : parser) : result bytes :=
  let via := via_entry (cf_agent cfg) in
  if cf_via_append cfg && has_header request L_VIA then
    do old <- header request L_VIA; Ok (old ++ COMMA_SP ++ via)
  else Ok via.

(* returns the request object as mutated and the bytes handed to self.upstream.queue;
   [first_is_tunnel] = self.request.is_https_tunnel (the FIRST request of the connection) *)
Definition queue_request_for_upstream (cfg : fcfg) (first_is_tunnel : bool) (request : parser)
  : result (parser * bytes) :=
  let r1 := del_headers request [PROXY_AUTHORIZATION; PROXY_CONNECTION] in
  do r2 <- (if negb first_is_tunnel
            then do v <- via_value cfg r1; Ok (add_headers r1 [(H_VIA, v)])
            else Ok r1);
  do w <- build (cf_agent cfg) r2 (cf_disable cfg) false None;
  Ok (r2, w).

(* ===================================================================================== *)
(* connection state                                                                        *)

(* TcpServerConnection as far as this property needs it *)
Record upstream := { up_closed : bool; up_queue : list bytes }.   (* arguments of queue(), in order *)

(* what is queued for the client on this path, by name (their bytes are C06 / C08 business) *)
Inductive cpkt := BadRequest | TunnelEstablished | BadGateway | AuthFailed.
Definition cpkt_code (c : cpkt) : N :=
  match c with BadRequest => 400 | TunnelEstablished => 200 | BadGateway => 502 | AuthFailed => 407 end.

Record hstate := {
  h_request : parser;              (* HttpProtocolHandler.request == HttpProxyPlugin.request *)
  h_plugin : bool;                 (* HttpProtocolHandler.plugin is the HttpProxyPlugin instance *)
  h_upstream : option upstream;    (* HttpProxyPlugin.upstream *)
  h_pipeline : option parser;      (* HttpProxyPlugin.pipeline_request *)
  h_client : list cpkt }.          (* queued for the client *)

Definition init_state : hstate :=
  {| h_request := new_parser REQUEST_PARSER; h_plugin := false; h_upstream := None; h_pipeline := None;
     h_client := [] |}.

Definition set_request (st : hstate) (r : parser) : hstate :=
  {| h_request := r; h_plugin := h_plugin st; h_upstream := h_upstream st; h_pipeline := h_pipeline st;
     h_client := h_client st |}.
Definition set_plugin (st : hstate) : hstate :=
  {| h_request := h_request st; h_plugin := true; h_upstream := h_upstream st; h_pipeline := h_pipeline st;
     h_client := h_client st |}.
Definition set_upstream (st : hstate) (u : option upstream) : hstate :=
  {| h_request := h_request st; h_plugin := h_plugin st; h_upstream := u; h_pipeline := h_pipeline st;
     h_client := h_client st |}.
Definition set_pipeline (st : hstate) (q : option parser) : hstate :=
  {| h_request := h_request st; h_plugin := h_plugin st; h_upstream := h_upstream st; h_pipeline := q;
     h_client := h_client st |}.
Definition queue_client (st : hstate) (c : cpkt) : hstate :=
  {| h_request := h_request st; h_plugin := h_plugin st; h_upstream := h_upstream st; h_pipeline := h_pipeline st;
     h_client := h_client st ++ [c] |}.
(* self.upstream.queue(raw) *)
Definition queue_upstream (u : upstream) (raw : bytes) : upstream :=
  {| up_closed := up_closed u; up_queue := up_queue u ++ [raw] |}.

(* a method returns normally (with handle_data's teardown flag where it has one) or raises; the
   state carries what was mutated before the raise *)
Inductive outcome := Done (teardown : bool) (st : hstate) | Raised (e : exn) (st : hstate).

(* HttpProtocolException kinds used here (exn_code maps all of them to 100):
   5 ProxyConnectionFailed, 6 ProxyAuthenticationFailed, 7 "Error when parsing request" *)
Definition EXC_CONNECT : exn := HttpProtocolException 5.
Definition EXC_AUTH : exn := HttpProtocolException 6.
Definition EXC_PARSE : exn := HttpProtocolException 7.

(* ===================================================================================== *)
(* plugin chain of HttpProxyPlugin: the AuthPlugin when --basic-auth is given, nothing else  *)
Definition before_upstream_connection (cfg : fcfg) (r : parser) : result parser :=
  match cf_auth_code cfg with
  | Some (c0 :: ct) =>
      if Auth.auth_ok (c0 :: ct) (unopt (headers r)) then Ok r else Err EXC_AUTH
  | _ => Ok r
  end.

(* ===================================================================================== *)
(* HttpProxyPlugin.on_request_complete; [connect_ok]: outcome of the socket-level connect   *)
Definition on_request_complete (cfg : fcfg) (connect_ok : bool) (st : hstate) : outcome :=
  (* for plugin in self.plugins.values(): r = plugin.before_upstream_connection(self.request) *)
  match before_upstream_connection cfg (h_request st) with
  | Err e => Raised e st
  | Ok r =>
      (* self.connect_upstream() *)
      match connect_upstream (fun _ => None) (Parser.host r) (Parser.port r) with
      | Err e => Raised e st
      | Ok _ =>
          if negb connect_ok then Raised EXC_CONNECT st else
          let up := {| up_closed := false; up_queue := [] |} in
          (* plugin.handle_client_request: the base class returns the request *)
          if is_https_tunnel r then
            Done false (queue_client (set_upstream st (Some up)) TunnelEstablished)
          else
            match queue_request_for_upstream cfg (is_https_tunnel r) r with
            | Err e => Raised e (set_upstream st (Some up))
            | Ok (r', w) => Done false (set_upstream (set_request st r') (Some (queue_upstream up w)))
            end
      end
  end.

(* ===================================================================================== *)
(* HttpProtocolHandler._parse_first_request                                                 *)
Definition parse_first_request (cfg : fcfg) (connect_ok : bool) (st : hstate) (data : bytes) : outcome :=
  match parse (h_request st) data with
  | Err _ =>
      (* both except clauses: self.work.queue(BAD_REQUEST_RESPONSE_PKT); raise HttpProtocolException *)
      Raised EXC_PARSE (queue_client st BadRequest)
  | Ok r =>
      let st1 := set_request st r in
      if negb (is_complete r) then Done false st1 else
      match http_handler_protocol r with
      | HTTP_PROXY =>
          (* klass = HttpProxyPlugin; self.plugin = ...; output = self.plugin.on_request_complete() *)
          on_request_complete cfg connect_ok (set_plugin st1)
      | _ =>
          (* UNKNOWN, or no plugin class for the protocol (web server not enabled) *)
          Done true (queue_client st1 BadRequest)
      end
  end.

(* is_connection_upgrade *)
Definition H_CONNECTION_K : bytes := bs "Connection".
Definition H_UPGRADE_K : bytes := bs "Upgrade".
Definition is_connection_upgrade (p : parser) : bool :=
  option_eqb bytes_eqb (version p) (Some HTTP_1_1) && has_header p H_CONNECTION_K && has_header p H_UPGRADE_K.

(* ===================================================================================== *)
(* HttpProxyPlugin._on_client_data: one round over the client data; returns the outcome and the bytes
   following a completed pipelined request (`remainder = self.pipeline_request.buffer`), None otherwise *)
Definition clear_buffer (q : parser) : parser := set_buffer_size q None (total_size q).
(* after _queue_request_for_upstream(self.pipeline_request): remainder taken out, pipeline_request reset
   unless it is a connection upgrade *)
Definition after_pipelined (st : hstate) (up : upstream) (q'' : parser) (w : bytes) : outcome * option bytes :=
  let st1 := set_upstream st (Some (queue_upstream up w)) in
  (Done false (set_pipeline st1 (if is_connection_upgrade q'' then Some (clear_buffer q'') else None)), buffer q'').

Definition on_client_data_round (cfg : fcfg) (st : hstate) (raw : bytes) : outcome * option bytes :=
  match h_upstream st with
  | None =>
      (* plugin.handle_client_data chain; the result is not used *)
      (Done false st, None)
  | Some up =>
      if up_closed up then (Done false st, None) else
      if is_complete (h_request st) && negb (is_https_tunnel (h_request st)) then
        match h_pipeline st with
        | Some q =>
            if (negb (cf_upgrade_complete cfg) || is_complete q) && is_connection_upgrade q then
              (* previous pipelined request was an upgrade: relay as is *)
              (Done false (set_upstream st (Some (queue_upstream up raw))), None)
            else
              match parse q raw with
              | Err e => (Raised e st, None)
              | Ok q' =>
                  if is_complete q' then
                    match queue_request_for_upstream cfg (is_https_tunnel (h_request st)) q' with
                    | Err e => (Raised e (set_pipeline st (Some q')), None)
                    | Ok (q'', w) => after_pipelined st up q'' w
                    end
                  else (Done false (set_pipeline st (Some q')), None)
              end
        | None =>
            (* self.pipeline_request = HttpParser(REQUEST_PARSER) *)
            match parse (new_parser REQUEST_PARSER) raw with
            | Err e => (Raised e (set_pipeline st (Some (new_parser REQUEST_PARSER))), None)
            | Ok q' =>
                if is_complete q' then
                  match queue_request_for_upstream cfg (is_https_tunnel (h_request st)) q' with
                  | Err e => (Raised e (set_pipeline st (Some q')), None)
                  | Ok (q'', w) => after_pipelined st up q'' w
                  end
                else (Done false (set_pipeline st (Some q')), None)
            end
        end
      else
        (* tunnel: queue for the upstream server as is *)
        (Done false (set_upstream st (Some (queue_upstream up raw))), None)
  end.

(* HttpProxyPlugin.on_client_data:  remainder = raw;  while remainder is not None: remainder = self._on_client_data(remainder).
   Every round that returns a remainder has consumed at least one byte of (carried buffer ++ raw); the fuel is
   that length + 1 (Raised OutOfFuel would be the Python looping for ever) *)
Fixpoint on_client_data_loop (fuel : nat) (cfg : fcfg) (st : hstate) (raw : bytes) : outcome :=
  match fuel with
  | O => Raised OutOfFuel st
  | S f =>
      match on_client_data_round cfg st raw with
      | (Done false st', Some r) => on_client_data_loop f cfg st' r
      | (o, _) => o
      end
  end.
Definition carried (st : hstate) : bytes :=
  match h_pipeline st with
  | Some q => match buffer q with Some b => b | None => [] end
  | None => []
  end.
Definition on_client_data (cfg : fcfg) (st : hstate) (raw : bytes) : outcome :=
  on_client_data_loop (S (length (carried st) + length raw)) cfg st raw.

(* ===================================================================================== *)
(* HttpProtocolHandler.handle_data (data is not None)                                       *)
(* e.response(self.request) for the HttpProtocolException subclasses raised on this path *)
Definition exc_response (k : N) : option cpkt :=
  if k =? 5 then Some BadGateway else if k =? 6 then Some AuthFailed else None.

(* bytes received after the end of the first request belong to the plugin serving the connection:
   if self.request.is_complete and self.plugin and self.request.buffer: ... self.plugin.on_client_data(remainder) *)
Definition first_remainder (cfg : fcfg) (o : outcome) : outcome :=
  match o with
  | Done false st1 =>
      match buffer (h_request st1) with
      | Some (b0 :: bt) =>
          if is_complete (h_request st1) && h_plugin st1
          then on_client_data cfg (set_request st1 (clear_buffer (h_request st1))) (b0 :: bt)
          else o
      | _ => o
      end
  | _ => o
  end.

Definition handle_data (cfg : fcfg) (connect_ok : bool) (st : hstate) (data : bytes) : outcome :=
  let o :=
    if negb (state (h_request st) =? COMPLETE)
    then first_remainder cfg (parse_first_request cfg connect_ok st data)
    else if h_plugin st then on_client_data cfg st data
    else Done false st in
  match o with
  | Raised (HttpProtocolException k) st' =>
      Done true (match exc_response k with Some c => queue_client st' c | None => st' end)
  | _ => o
  end.

(* the client's bytes arrive in pieces; handling stops at the first teardown or escaping exception *)
Fixpoint feed (cfg : fcfg) (connect_ok : bool) (st : hstate) (pieces : list bytes) : outcome :=
  match pieces with
  | [] => Done false st
  | x :: t =>
      match handle_data cfg connect_ok st x with
      | Done false st' => feed cfg connect_ok st' t
      | o => o
      end
  end.

Definition upstream_queue (st : hstate) : list bytes :=
  match h_upstream st with Some u => up_queue u | None => [] end.

(* what has been handed to the upstream connection after the pieces were received on a new
   connection; None when the connection was torn down or an exception escaped *)
Definition forward (cfg : fcfg) (segs : list bytes) : option (list bytes) :=
  match feed cfg true init_state segs with
  | Done false st => Some (upstream_queue st)
  | _ => None
  end.

(* the same, continuing a connection in state st *)
Definition forward_from (cfg : fcfg) (st : hstate) (segs : list bytes) : option (list bytes) :=
  match feed cfg true st segs with
  | Done false st' => Some (upstream_queue st')
  | _ => None
  end.

(* ===================================================================================== *)
(* the other direction: data read from the upstream server                                  *)
(* HttpProxyPlugin.read_from_descriptors (the branch: upstream readable, recv returned data) relays the bytes to
   the client and feeds them to the BOOKKEEPING response parsers self.response / self.pipeline_response
   (handle_pipeline_response).  These objects sit beside the forwarding state: *)
Record cstate := {
  c_fwd : hstate;                          (* request, plugin, upstream, pipeline_request, packets queued by the proxy *)
  c_response : parser;                     (* HttpProxyPlugin.response *)
  c_pipeline_response : option parser;     (* HttpProxyPlugin.pipeline_response *)
  c_relayed : list bytes }.                (* upstream bytes queued for the client, in order *)

Definition init_cstate : cstate :=
  {| c_fwd := init_state; c_response := new_parser RESPONSE_PARSER; c_pipeline_response := None; c_relayed := [] |}.
Definition with_fwd (cs : cstate) (st : hstate) : cstate :=
  {| c_fwd := st; c_response := c_response cs; c_pipeline_response := c_pipeline_response cs; c_relayed := c_relayed cs |}.

(* HttpProxyPlugin.handle_pipeline_response: returns the new pipeline_response *)
Definition handle_pipeline_response (pr : option parser) (raw : bytes) : result (option parser) :=
  let q := match pr with Some q => q | None => new_parser RESPONSE_PARSER end in
  do q' <- parse q raw;
  Ok (if is_complete q' then None else Some q').

(* read_from_descriptors with data `raw` (no user plugins).  An exception of the bookkeeping parsers is caught
   (fix ba95ac6): the bytes are relayed all the same; what the half-updated parser object then holds is not
   modelled (kept as before the call). *)
Definition read_from_upstream (cs : cstate) (raw : bytes) : cstate :=
  match h_upstream (c_fwd cs) with
  | Some up =>
      if up_closed up then cs else
      let '(resp, presp) :=
        if negb (is_https_tunnel (h_request (c_fwd cs))) then
          if is_complete (c_response cs) then
            match handle_pipeline_response (c_pipeline_response cs) raw with
            | Ok pr' => (c_response cs, pr')
            | Err _ => (c_response cs, c_pipeline_response cs)
            end
          else
            match parse (c_response cs) raw with
            | Ok r' => (r', c_pipeline_response cs)
            | Err _ => (c_response cs, c_pipeline_response cs)
            end
        else (set_buffer_size (c_response cs) (buffer (c_response cs)) (total_size (c_response cs) + len raw),
              c_pipeline_response cs) in
      {| c_fwd := c_fwd cs; c_response := resp; c_pipeline_response := presp; c_relayed := c_relayed cs ++ [raw] |}
  | None => cs
  end.

(* what happens on a connection: data from the client (one handle_data call) or data from the upstream server *)
Inductive event := EClient (data : bytes) | EUpstream (data : bytes).
Inductive coutcome := CDone (teardown : bool) (cs : cstate) | CRaised (e : exn) (cs : cstate).

Fixpoint run_events (cfg : fcfg) (connect_ok : bool) (cs : cstate) (evs : list event) : coutcome :=
  match evs with
  | [] => CDone false cs
  | EClient x :: t =>
      match handle_data cfg connect_ok (c_fwd cs) x with
      | Done false st' => run_events cfg connect_ok (with_fwd cs st') t
      | Done true st' => CDone true (with_fwd cs st')
      | Raised e st' => CRaised e (with_fwd cs st')
      end
  | EUpstream x :: t => run_events cfg connect_ok (read_from_upstream cs x) t
  end.

Definition client_pieces (evs : list event) : list bytes :=
  flat_map (fun e => match e with EClient x => [x] | EUpstream _ => [] end) evs.
Definition forwarding_outcome (o : coutcome) : outcome :=
  match o with CDone b cs => Done b (c_fwd cs) | CRaised e cs => Raised e (c_fwd cs) end.

(* ===================================================================================== *)
(* closed form of what _queue_request_for_upstream emits (theorem C02_forward_of_parsed)     *)

(* header fields as (name as received, value), in dictionary order *)
Definition fields_of_parser (p : parser) : bdict := map snd (unopt (headers p)).

Definition is_hop (lname : bytes) : bool := mem_bytes lname [PROXY_AUTHORIZATION; PROXY_CONNECTION].
Definition drop_hop (hs : bdict) : bdict := filter (fun nv => negb (is_hop (lower (fst nv)))) hs.
Definition drop_disabled (cfg : fcfg) (hs : bdict) : bdict :=
  filter (fun nv => negb (mem_bytes (lower (fst nv)) (cf_disable cfg))) hs.

(* headers[name.lower()] = (name, v): an existing field of that name (any case) is replaced in
   place, name included; otherwise the field is appended *)
Fixpoint set_field (name v : bytes) (hs : bdict) : bdict :=
  match hs with
  | [] => [(name, v)]
  | (k, v') :: t => if bytes_eqb (lower k) (lower name) then (name, v) :: t else (k, v') :: set_field name v t
  end.

Definition with_via (cfg : fcfg) (hs : bdict) : bdict :=
  let via := via_entry (cf_agent cfg) in
  match get_ci L_VIA hs with
  | Some old => set_field H_VIA (if cf_via_append cfg then old ++ COMMA_SP ++ via else via) hs
  | None => set_field H_VIA via hs
  end.

(* build_http_request: Content-Length is (re)computed for a non-empty body unless a
   Transfer-Encoding field is present; an existing spelling keeps its place *)
Definition recompute_cl (hs : bdict) (body : option bytes) : bdict :=
  if truthy body && negb (has_key_ci TRANSFER_ENCODING hs)
  then put_ci H_CONTENT_LENGTH (dec_of_N (len (or_empty body))) hs else hs.

(* ChunkParser.to_chunks(body) with the default chunk size (total: the size is positive) *)
Definition rechunk (b : bytes) : bytes :=
  to_chunks_aux (length b) (N.to_nat DEFAULT_BUFFER_SIZE) b ++ [48] ++ CRLF ++ CRLF.

(* _get_body_or_chunks *)
Definition wire_body (p : parser) : option bytes :=
  match body p with
  | Some b => if is_chunked_encoded p then Some (rechunk b) else Some b
  | None => None
  end.

Definition forwarded_fields (cfg : fcfg) (first_is_tunnel : bool) (p : parser) : bdict :=
  let hs := drop_hop (fields_of_parser p) in
  let hs := if first_is_tunnel then hs else with_via cfg hs in
  recompute_cl (drop_disabled cfg hs) (wire_body p).

Definition path_or_slash (p : parser) : bytes := if truthy (path p) then or_empty (path p) else [SLASH].

(* a request on the wire *)
Definition render_forward (m t v : bytes) (hs : bdict) (body : bytes) : bytes :=
  m ++ [SP] ++ t ++ [SP] ++ v ++ CRLF ++ header_lines hs ++ CRLF ++ body.

Definition forward_of_parsed (cfg : fcfg) (first_is_tunnel : bool) (p : parser) : bytes :=
  render_forward (or_empty (method p)) (path_or_slash p) (or_empty (version p))
                 (forwarded_fields cfg first_is_tunnel p) (or_empty (wire_body p)).

(* invariant of HttpParser.headers: every key is the lower-cased name it stores, keys pairwise different *)
Definition hdr_inv (h : option hdict) : Prop :=
  NoDup (dict_keys (unopt h)) /\ Forall (fun e => fst e = lower (fst (snd e))) (unopt h).

(* ===================================================================================== *)
(* REFERENCE SIDE                                                                          *)
(* ===================================================================================== *)

(* ---- abstract syntax of a well-formed proxy request ---- *)
(* header-field = field-name ":" OWS field-value OWS, with the optional whitespace as spelled *)
Record hfield := { hf_name : bytes; hf_pre : bytes; hf_value : bytes; hf_post : bytes }.

Inductive rframing :=
| RNone                                   (* no framing field: no body *)
| RLength (f : hfield) (data : bytes)     (* the Content-Length field as spelled; the body *)
| RChunked (f : hfield) (s : chunked).    (* the Transfer-Encoding field as spelled; the chunk layout:
                                             sizes as spelled, extensions, last-chunk, trailers *)

Record request := {
  q_method : bytes;
  q_target : target;                      (* Http/UrlSpec.v: the absolute-form constructor is required by wf_request *)
  q_version : bytes;
  q_hs1 : list hfield;                    (* fields before the framing field *)
  q_framing : rframing;
  q_hs2 : list hfield }.                  (* fields after it *)

Definition framing_fields (f : rframing) : list hfield :=
  match f with RNone => [] | RLength h _ => [h] | RChunked h _ => [h] end.
Definition all_fields (r : request) : list hfield := q_hs1 r ++ framing_fields (q_framing r) ++ q_hs2 r.

(* ---- the wire form ---- *)
Definition render_field (f : hfield) : bytes := hf_name f ++ [COLON] ++ hf_pre f ++ hf_value f ++ hf_post f.
Definition render_fields (fs : list hfield) : bytes := concat (map (fun f => render_field f ++ CRLF) fs).
Definition framing_wire (f : rframing) : bytes :=
  match f with RNone => [] | RLength _ data => data | RChunked _ s => render_chunked s end.
Definition render_request (r : request) : bytes :=
  q_method r ++ [SP] ++ render_target (q_target r) ++ [SP] ++ q_version r ++ CRLF ++
  render_fields (all_fields r) ++ CRLF ++ framing_wire (q_framing r).

(* ---- well-formedness, as booleans ---- *)
Definition wf_field (f : hfield) : bool :=
  is_token (hf_name f) && forallb is_ows (hf_pre f) && rfc_value (hf_value f) && forallb is_ows (hf_post f).

Definition name_is (lname : bytes) (f : hfield) : bool := bytes_eqb (lower (hf_name f)) lname.
Definition other_field (f : hfield) : bool :=
  wf_field f && negb (name_is CONTENT_LENGTH f) && negb (name_is TRANSFER_ENCODING f).

Definition is_absolute (t : target) : bool := match t with Absolute _ _ _ _ => true | _ => false end.
Definition target_port (t : target) : Z :=
  match t with Absolute _ _ pt _ => port_or_default false pt | _ => 0%Z end.

Definition wf_framing (f : rframing) : bool :=
  match f with
  | RNone => true
  | RLength h data =>
      (* Content-Length: 1*DIGIT (leading zeros allowed) announcing exactly the body *)
      wf_field h && name_is CONTENT_LENGTH h && nonempty (hf_value h) && all_digits (hf_value h) &&
      (length (hf_value h) <=? int_limit)%nat && (digits_val (hf_value h) =? len data)
  | RChunked h s =>
      (* Transfer-Encoding: chunked (any case); GUARD: a coding list such as "gzip, chunked" is outside,
         see C02_te_list_refuted (known finding C02-te-list-not-chunked) *)
      wf_field h && name_is TRANSFER_ENCODING h && bytes_eqb (lower (hf_value h)) CHUNKED && wf_chunked s
  end.

Definition wf_request (r : request) : bool :=
  (* method: a token; CONNECT asks for a tunnel, not for forwarding *)
  is_token (q_method r) && negb (bytes_eqb (q_method r) CONNECT) &&
  (* target: absolute-form, http scheme (UrlSpec grammar), visible characters only, a port one can connect to *)
  is_absolute (q_target r) && wf_target (q_target r) && forallb is_vchar (render_target (q_target r)) &&
  (0 <? target_port (q_target r))%Z && (target_port (q_target r) <=? 65535)%Z &&
  (* HTTP/1.x: the versions the handler accepts as proxy requests *)
  (bytes_eqb (q_version r) HTTP_1_1 || bytes_eqb (q_version r) HTTP_1_0) &&
  (* header fields: names tokens, unique case-insensitively; values without CR/LF/NUL, no outer whitespace;
     no Content-Length / Transfer-Encoding besides the framing field *)
  forallb other_field (q_hs1 r) && forallb other_field (q_hs2 r) &&
  nodup_ci (map hf_name (all_fields r)) &&
  wf_framing (q_framing r).

(* a request asking for a protocol upgrade (HttpParser.is_connection_upgrade): after forwarding it the
   proxy relays the client's bytes as they are *)
Definition has_field (lname : bytes) (r : request) : bool := existsb (name_is lname) (all_fields r).
Definition is_upgrade_request (r : request) : bool :=
  bytes_eqb (q_version r) HTTP_1_1 && has_field (bs "connection") r && has_field (bs "upgrade") r.

(* configuration domain: the Via entry is a proper field value; the operator does not disable the
   framing fields (removing them cannot preserve the message) *)
Definition wf_cfg (cfg : fcfg) : bool :=
  (* the tree after the fix: commits C02-via-append and C02-upgrade-request-in-progress *)
  cf_via_append cfg && cf_upgrade_complete cfg &&
  nonempty (cf_agent cfg) && rfc_value (cf_agent cfg) &&
  negb (mem_bytes CONTENT_LENGTH (cf_disable cfg)) && negb (mem_bytes TRANSFER_ENCODING (cf_disable cfg)).

(* ---- the request the origin must be sent ---- *)
Record fwd := {
  f_method : bytes; f_target : bytes; f_version : bytes;
  f_headers : list (bytes * bytes);       (* (name, value) in order *)
  f_body : bytes }.                       (* decoded content *)

(* origin-form of the target *)
Definition origin_form (t : target) : bytes :=
  match t with
  | Absolute _ _ _ (Some p) => p
  | Absolute _ _ _ None => [SLASH]
  | Origin p => p
  | Authority _ _ => [SLASH]
  end.

Definition decoded_body (f : rframing) : bytes :=
  match f with RNone => [] | RLength _ data => data | RChunked _ s => ref_dechunk s end.

(* names and values as the client sent them; only the Content-Length of a non-empty body is
   re-spelled canonically (leading zeros dropped) *)
Definition field_nv (f : hfield) : bytes * bytes := (hf_name f, hf_value f).
Definition framing_nv (f : rframing) : list (bytes * bytes) :=
  match f with
  | RNone => []
  | RLength h [] => [field_nv h]
  | RLength h data => [(hf_name h, dec_of_N (len data))]
  | RChunked h _ => [field_nv h]
  end.
Definition client_fields (r : request) : list (bytes * bytes) :=
  map field_nv (q_hs1 r) ++ framing_nv (q_framing r) ++ map field_nv (q_hs2 r).

(* the Via field names the proxy: its entry is appended to a Via field the client sent (the field then
   takes the spelling "Via"), otherwise a Via field is added after the last field *)
Definition via_appended (agent : bytes) (hs : list (bytes * bytes)) : list (bytes * bytes) :=
  match get_ci L_VIA hs with
  | Some old => set_field H_VIA (old ++ COMMA_SP ++ via_entry agent) hs
  | None => hs ++ [(H_VIA, via_entry agent)]
  end.

(* hop-by-hop proxy fields removed, Via, operator-disabled fields removed (a disabled "via" removes Via too) *)
Definition expected_headers (cfg : fcfg) (r : request) : list (bytes * bytes) :=
  drop_disabled cfg (via_appended (cf_agent cfg) (drop_hop (client_fields r))).

Definition expected_fwd (cfg : fcfg) (r : request) : fwd :=
  {| f_method := q_method r; f_target := origin_form (q_target r); f_version := q_version r;
     f_headers := expected_headers cfg r; f_body := decoded_body (q_framing r) |}.

(* ---- the reference parser of a request on the wire (RFC 7230 sections 3, 3.2, 3.3.3, 4.1) ---- *)
Definition ref_parse_request (w : bytes) : option fwd :=
  match split_once CRLF w with
  | None => None
  | Some (line, rest) =>
      match splitn [SP] 2 line with
      | [m; t; v] =>
          if is_token m && nonempty t && forallb is_vchar t && is_http_version v then
            match parse_fields (S (length rest)) rest with
            | None => None
            | Some (fs, wire) =>
                let mk b := {| f_method := m; f_target := t; f_version := v; f_headers := fs; f_body := b |} in
                match fields_named TRANSFER_ENCODING fs, fields_named CONTENT_LENGTH fs with
                | [], [] => if nonempty wire then None else Some (mk [])
                | [te], [] =>
                    if bytes_eqb (lower te) CHUNKED then
                      match ref_dechunk_bytes wire with
                      | Some (b, []) => Some (mk b)
                      | _ => None
                      end
                    else None
                | [], [cl] => if is_dec cl && (decval cl =? len wire) then Some (mk wire) else None
                | _, _ => None
                end
            end
          else None
      | _ => None
      end
  end.

(* ---- the authorisation premise: with --basic-auth the request carries the valid credentials (C08) ---- *)
Definition hdict_of (hs : list (bytes * bytes)) : hdict := map (fun nv => (lower (fst nv), nv)) hs.
Definition auth_passes (cfg : fcfg) (r : request) : bool :=
  match cf_auth_code cfg with
  | Some (c0 :: ct) => Auth.auth_ok (c0 :: ct) (hdict_of (map field_nv (all_fields r)))
  | _ => true
  end.

(* ---- decidable equality of forwarded requests ---- *)
Definition nv_eqb (x y : bytes * bytes) : bool := bytes_eqb (fst x) (fst y) && bytes_eqb (snd x) (snd y).
Definition fwd_eqb (x y : fwd) : bool :=
  bytes_eqb (f_method x) (f_method y) && bytes_eqb (f_target x) (f_target y) &&
  bytes_eqb (f_version x) (f_version y) && list_eqb nv_eqb (f_headers x) (f_headers y) &&
  bytes_eqb (f_body x) (f_body y).

(* ===================================================================================== *)
(* witnesses used by the non-vacuity example and the refutation theorems of Props/C02.v     *)
Definition F (n pre v post : string) : hfield :=
  {| hf_name := bs n; hf_pre := bs pre; hf_value := bs v; hf_post := bs post |}.
Definition HT : string := String (Ascii.ascii_of_nat 9) EmptyString.
Definition cfg_plain : fcfg :=
  {| cf_agent := bs "proxy.py v2.4"; cf_disable := []; cf_auth_code := None; cf_via_append := true; cf_upgrade_complete := true |}.
Definition cfg_auth : fcfg :=
  {| cf_agent := bs "proxy.py v2.4"; cf_disable := [bs "x-drop"; bs "user-agent"]; cf_auth_code := Some (bs "dXNlcjpwYXNz");
     cf_via_append := true; cf_upgrade_complete := true |}.

(* Content-Length body, userinfo + port + query in the target, name casings, value spacings, hop-by-hop and
   disabled fields, credentials, a client Via, leading zeros in Content-Length *)
Definition ex_cl : request :=
  {| q_method := bs "POST";
     q_target := Absolute (Some (bs "user", Some (bs "pw"))) (RegName (bs "example.com")) (Some (bs "8080")) (Some (bs "/a/b?x=1"));
     q_version := bs "HTTP/1.1";
     q_hs1 := [F "hOsT" HT "example.com:8080" " "; F "Proxy-Connection" " " "keep-alive" ""; F "X-Drop" "" "1" "";
               F "pRoXy-AuThOrIzAtIoN" "  " "basic  dXNlcjpwYXNz" ""; F "via" " " "1.0 fred" ""];
     q_framing := RLength (F "content-LENGTH" " " "0005" "") (bs "hello");
     q_hs2 := [F "Accept" "" "*/*" "  "; F "User-Agent" " " "curl/8" ""] |}.
(* three chunks (upper/lower-case hex, leading zeros, an extension), last-chunk extension, a trailer; IPv6 host *)
Definition ex_chunked : request :=
  {| q_method := bs "PUT"; q_target := Absolute None (IPv6 (bs "::1")) None (Some (bs "/up"));
     q_version := bs "HTTP/1.1";
     q_hs1 := [F "Host" " " "[::1]" ""];
     q_framing := RChunked (F "Transfer-Encoding" " " "Chunked" "")
       {| ch_chunks := [ {| ck_size := bs "5"; ck_ext := []; ck_data := bs "hello" |};
                         {| ck_size := bs "00A"; ck_ext := bs ";name=val"; ck_data := bs "0123456789" |};
                         {| ck_size := bs "0b"; ck_ext := []; ck_data := bs " chunked!!!" |} ];
          ch_last_size := bs "0"; ch_last_ext := bs ";last"; ch_trailers := [bs "X-Trailer: 1"] |};
     q_hs2 := [F "Expect" " " "100-continue" ""] |}.
(* empty chunked body, HTTP/1.0, no path *)
Definition ex_empty_chunked : request :=
  {| q_method := bs "POST"; q_target := Absolute None (IPv4 (bs "10.0.0.1")) (Some (bs "81")) None;
     q_version := bs "HTTP/1.0"; q_hs1 := [];
     q_framing := RChunked (F "transfer-encoding" "" "chunked" "")
       {| ch_chunks := []; ch_last_size := bs "000"; ch_last_ext := []; ch_trailers := [] |};
     q_hs2 := [] |}.
(* a later upgrade request *)
Definition ex_upgrade : request :=
  {| q_method := bs "GET"; q_target := Absolute None (RegName (bs "h")) None (Some (bs "/ws")); q_version := bs "HTTP/1.1";
     q_hs1 := [F "Connection" " " "Upgrade" ""; F "Upgrade" " " "websocket" ""; F "Host" " " "h" ""];
     q_framing := RNone; q_hs2 := [] |}.

Definition via24 : bytes := bs "1.1 proxy.py v2.4".


(* the code as found, before the two fix: commits *)
Definition as_found_via (cfg : fcfg) : fcfg :=
  {| cf_agent := cf_agent cfg; cf_disable := cf_disable cfg; cf_auth_code := cf_auth_code cfg;
     cf_via_append := false; cf_upgrade_complete := cf_upgrade_complete cfg |}.
Definition as_found_upgrade (cfg : fcfg) : fcfg :=
  {| cf_agent := cf_agent cfg; cf_disable := cf_disable cfg; cf_auth_code := cf_auth_code cfg;
     cf_via_append := cf_via_append cfg; cf_upgrade_complete := false |}.

(* a request with a Transfer-Encoding coding list (known finding C02-te-list-not-chunked) *)
Definition te_list_raw : bytes :=
  bs "POST http://h.example/ HTTP/1.1" ++ CRLF ++ bs "Host: h.example" ++ CRLF ++
  bs "Transfer-Encoding: gzip, chunked" ++ CRLF ++ CRLF ++ bs "3" ++ CRLF ++ bs "abc" ++ CRLF ++ bs "0" ++ CRLF ++ CRLF.
