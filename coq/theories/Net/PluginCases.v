(* Correspondence relations for C08/C09: plugins generated from action tables (the same tables
   drive generated Python plugin classes in harness/props/plugins_common.py), and the cases
   carrying inputs together with what the implementation did. *)
From PM Require Import Lib.Bytes Lib.PyStr Net.Auth Net.PluginChain.

(* what one hook of a generated plugin does *)
Inductive act :=
| APass
| AModify (marker : bytes)       (* request: add_header(b'X-Mk-'+m, m); bytes: append m; context: ctx['mk_'+m] = m *)
| ADel (key : bytes)             (* request: del_header(key); context: del ctx[key] if present; bytes: unchanged *)
| AFresh (r : request)           (* request hooks: return a NEW HttpParser object, namely r (a redirect/rewrite); other hooks: unchanged *)
| ADrop                          (* return None *)
| AReject (status : option N) (reason : option bytes) (body : option bytes)   (* raise HttpRequestRejected(...) *)
| ARaise (e : exn)               (* raise another exception *)
| AAfter (n : N) (a1 a2 : act).  (* a1 during the first n invocations of this hook of this plugin, then a2 (a stateful plugin) *)

Inductive dns_act := DNone | DIp (ip : bytes) | DSrc (src : bytes) | DRaise.

Record ptable := mkTable {
  t_id : N; t_name : bytes;
  t_buc : act; t_hcr : act; t_hcd : act; t_huc : act; t_oal : act; t_oucc : act; t_dns : dns_act
}.

Definition count_calls (p : N) (hk : hook) (seen : log) : N :=
  N.of_nat (length (filter (fun e => match e with Call q _ _ => (q =? p) && is_call_of hk e | _ => false end) seen)).

Fixpoint run_act {A} (modify : bytes -> A -> A) (del : bytes -> A -> A) (fresh : request -> A -> A) (count : N) (a : act) (x : A) : outcome A :=
  match a with
  | APass => Pass x
  | AModify m => Pass (modify m x)
  | ADel k => Pass (del k x)
  | AFresh r => Pass (fresh r x)
  | ADrop => Drop
  | AReject st rs bd => Reject (HttpRequestRejected_response st rs [] bd)
  | ARaise e => Raise e
  | AAfter n a1 a2 => if count <? n then run_act modify del fresh count a1 x else run_act modify del fresh count a2 x
  end.

Definition req_modify (m : bytes) (r : request) : request :=
  set_headers r (add_header (bs "X-Mk-" ++ m) m (rq_headers r)).
Definition req_del (k : bytes) (r : request) : request := set_headers r (del_header k (rq_headers r)).
Definition ctx_modify (m : bytes) (c : ctx) : ctx := dict_set (bs "mk_" ++ m) m c.
Definition ctx_del (k : bytes) (c : ctx) : ctx := dict_del k c.

Definition plugin_of_table (t : ptable) : plugin :=
  let id := t_id t in
  mkPlugin id (t_name t)
    (fun seen r => run_act req_modify req_del (fun r' _ => r') (count_calls id BUC seen) (t_buc t) r)
    (fun seen _ _ => match t_dns t with
                     | DNone => Some (None, None) | DIp ip => Some (Some ip, None)
                     | DSrc s => Some (None, Some s) | DRaise => None end)
    (fun seen r => run_act req_modify req_del (fun r' _ => r') (count_calls id HCR seen) (t_hcr t) r)
    (fun seen b => run_act (fun m x => x ++ m) (fun _ x => x) (fun _ x => x) (count_calls id HCD seen) (t_hcd t) b)
    (fun seen b => run_act (fun m x => x ++ m) (fun _ x => x) (fun _ x => x) (count_calls id HUC seen) (t_huc t) b)
    (fun seen c => run_act ctx_modify ctx_del (fun _ x => x) (count_calls id OAL seen) (t_oal t) c)
    (fun seen => match run_act (fun _ x => x) (fun _ x => x) (fun _ x => x) (count_calls id OUCC seen) (t_oucc t) tt with
                 | Raise e => Some e | Reject _ => Some (HttpProtocolException 0) | _ => None end).

Definition klass_of_table (t : ptable) : klass := mkKlass (t_id t) PROXY_BASE (plugin_of_table t).

(* the plugin list of a run exactly as flag.py / plugins.py / HttpProxyPlugin.__init__ produce it:
   defaults = [HttpProxyPlugin] (another base class), the auth plugin iff basic auth is configured *)
Definition HANDLER_BASE : N := 1.
Definition default_klass : klass := mkKlass 1000 HANDLER_BASE (base_plugin 1000 (bs "HttpProxyPlugin")).
Definition auth_klass (agent : bytes) (basic_auth : option bytes) : klass :=
  mkKlass 1001 PROXY_BASE (auth_plugin agent (auth_code_of basic_auth)).
Definition plugins_of (agent : bytes) (basic_auth : option bytes) (requested : list ptable) : list plugin :=
  proxy_plugins (initialize_plugins [HANDLER_BASE; PROXY_BASE] [default_klass] basic_auth
                   (auth_klass agent basic_auth) true (map klass_of_table requested)).

(* ---- equality of observations ---- *)
Definition hook_eqb (a c : hook) : bool :=
  match a, c with
  | BUC, BUC | DNS, DNS | HCR, HCR | HCD, HCD | HUC, HUC | OAL, OAL | OUCC, OUCC => true
  | _, _ => false
  end.
Definition ctx_eqb (a c : ctx) : bool :=
  list_eqb (fun x y => bytes_eqb (fst x) (fst y) && bytes_eqb (snd x) (snd y)) a c.
Definition arg_eqb (a c : arg) : bool :=
  match a, c with
  | ARequest x, ARequest y => request_eqb x y
  | ABytes x, ABytes y => bytes_eqb x y
  | ACtx x, ACtx y => ctx_eqb x y
  | AHostPort h p, AHostPort h' p' => bytes_eqb h h' && (p =? p')
  | AUnit, AUnit => true
  | _, _ => false
  end.
(* the kind of an upstream queue entry is not observable on the implementation: ignored *)
Definition event_eqb (a c : event) : bool :=
  match a, c with
  | Call p h x, Call p' h' x' => (p =? p') && hook_eqb h h' && arg_eqb x x'
  | Connect a p s, Connect a' p' s' => bytes_eqb a a' && (p =? p') && option_eqb bytes_eqb s s'
  | QueueUpstream _ b, QueueUpstream _ b' => bytes_eqb b b'
  | QueueClient b, QueueClient b' => bytes_eqb b b'
  | Teardown, Teardown => true
  | Escaped x, Escaped y => x =? y
  | AccessLog x, AccessLog y => ctx_eqb x y
  | UpstreamClose, UpstreamClose => true
  | ClientFlush, ClientFlush => true
  | ClientShutdown, ClientShutdown => true
  | ClientClose, ClientClose => true
  | _, _ => false
  end.

(* the keys of the access-log context built by on_client_connection_close (values blanked by the harness) *)
Definition std_ctx : ctx :=
  map (fun k => (k, @nil N))
      [bs "client_ip"; bs "client_port"; bs "server_host"; bs "server_port"; bs "connection_time_ms"; bs "request_method";
       bs "request_path"; bs "request_bytes"; bs "request_ua"; bs "request_version"; bs "response_bytes"; bs "response_code";
       bs "response_reason"].

Inductive case :=
(* AuthPlugin.before_upstream_connection on a request with these raw header lines: accepted? *)
| CAuth (code : bytes) (lines : list bytes) (accepted : bool)
(* flag.py: auth_code for --basic-auth *)
| CAuthCode (basic_auth : bytes) (code : bytes)
(* chain order after load + instantiate: pids of HttpProxyPlugin.plugins.values() *)
| COrder (basic_auth : option bytes) (requested : list ptable) (pids : list N)
(* one whole connection *)
| CRun (agent : bytes) (disable : list bytes) (final_flush : bool) (basic_auth : option bytes) (requested : list ptable)
       (c0 : ctx) (steps : list step) (expected : log).

Definition check_case (c : case) : bool :=
  match c with
  | CAuth code lines accepted => Bool.eqb (auth_ok code (headers_of_lines lines)) accepted
  | CAuthCode ba code => option_eqb bytes_eqb (auth_code_of (Some ba)) (if is_empty ba then None else Some code)
  | COrder ba requested pids => list_eqb N.eqb (map pid (plugins_of [] ba requested)) pids
  | CRun agent disable ff ba requested c0 steps expected =>
      list_eqb event_eqb (run_conn (mkConfig agent disable ff) (plugins_of agent ba requested) c0 steps) expected
  end.

(* model output, for replay files *)
Definition run_case (c : case) : log :=
  match c with
  | CRun agent disable ff ba requested c0 steps _ =>
      run_conn (mkConfig agent disable ff) (plugins_of agent ba requested) c0 steps
  | _ => []
  end.

(* debugging aid for replays: index of the first differing log entry, the model's entry there, both lengths *)
Fixpoint first_diff (a c : log) (i : N) : option N :=
  match a, c with
  | [], [] => None
  | x :: a', y :: c' => if event_eqb x y then first_diff a' c' (i + 1) else Some i
  | _, _ => Some i
  end.
Definition diff_case (c : case) : option (N * option event * N * N) :=
  match c with
  | CRun _ _ _ _ _ _ _ expected =>
      let m := run_case c in
      match first_diff m expected 0 with
      | Some i => Some (i, nth_error m (N.to_nat i), N.of_nat (length m), N.of_nat (length expected))
      | None => None
      end
  | _ => None
  end.
