(* Correspondence relation for C12: a case carries configuration, route table (patterns are
   indices; the match table was computed with Python's re by the harness), the parsed request,
   the scripted random draws, the scripted upstream reads, and what the implementation did. *)
From PM Require Import Lib.Bytes Lib.PyStr Net.Reverse.
Open Scope N_scope.

(* typed constructors for the generated literals (pair notation makes elaboration of long lists slow) *)
Definition H (k ok v : bytes) : bytes * (bytes * bytes) := (k, (ok, v)).
Definition M (i : N) (t : bytes) : N * bytes := (i, t).
Definition A (h : bytes) (p : N) : bytes * N := (h, p).

Definition tbl_match (tbl : list (N * bytes)) (i : N) (t : bytes) : bool :=
  existsb (fun e => (fst e =? i) && bytes_eqb (snd e) t) tbl.

Record expected := mkExp {
  e_code : N;                 (* 0 = handler goes on, 1 = teardown, 1000 + exn_code = exception escaped *)
  e_connect : list (bytes * N);
  e_wrap : list bytes;
  e_up : bytes;               (* every byte queued to (and, all sends accepted, received by) the upstream *)
  e_client : bytes;           (* every byte queued to the client after the request *)
  e_draws : N;                (* number of random.choice calls *)
  e_code_after : N;           (* same coding, after the scripted upstream reads *)
  e_client_after : bytes }.

Inductive case :=
| CReq (cfg : config) (tbl : list (N * bytes)) (ps : list (plugin N)) (co : conn_outcome) (wo : result unit)
       (req : request) (rs : list nat) (reads : list recv_outcome) (e : expected).

(* what HttpProtocolHandler.handle_data makes of the plugin's result: HttpProtocolException is
   caught (no response attached by these exceptions) and tears the connection down *)
Definition code_of {A} (teardown : A -> bool) (r : result A) : N :=
  match r with
  | Ok a => if teardown a then 1 else 0
  | Err (HttpProtocolException _) => 1      (* caught in HttpProtocolHandler.handle_data *)
  | Err (OSError _) => 1                    (* caught (socket.error) in HttpProtocolHandler.handle_readables *)
  | Err e => 1000 + exn_code e
  end.

(* When the handler wants to tear down but the client still has queued bytes it keeps running to
   flush them; its next get_events() asks the reverse proxy for descriptors, and an upstream object
   whose connect() failed raises TcpConnectionUninitializedException (code 98) there.
   (Observed on the implementation; robustness of the executor against this is C05's subject.) *)
Definition handler_code (st : state) (code : N) : N :=
  if code =? 1 then
    match client_queue st, upstream_ st with
    | _ :: _, Some u => if up_connected u then 1 else 1098
    | _, _ => 1
    end
  else code.

Definition addr_eqb (x y : bytes * N) : bool := bytes_eqb (fst x) (fst y) && (snd x =? snd y).
Fixpoint list_eqb {A} (eqb : A -> A -> bool) (x y : list A) : bool :=
  match x, y with
  | [], [] => true
  | a :: x', c :: y' => eqb a c && list_eqb eqb x' y'
  | _, _ => false
  end.

Definition up_bytes (st : state) : bytes :=
  match upstream_ st with Some u => concat (up_buffer u) | None => [] end.

(* bytes that reach the client socket.  Queued bytes are flushed by LATER handle_events calls; when an
   exception escapes handle_events (code >= 1000, which includes 1098) the work is shut down at once and
   HttpProtocolHandler.shutdown() does not flush in threadless mode, so whatever was queued during the
   failing call (e.g. a literal answer of an earlier plugin, before a later plugin's handle_route
   raised) is never sent.  A requested teardown (code 1) still flushes first. *)
Definition delivered (st : state) (code : N) : bytes :=
  if 1000 <=? code then [] else concat (client_queue st).

Definition check_case (c : case) : bool :=
  match c with
  | CReq cfg tbl ps co wo req rs reads e =>
      let '(st, rs', r) := on_request_complete (tbl_match tbl) cfg ps co wo req rs init_state in
      let code := handler_code st (code_of (fun b : bool => b) r) in
      let '(st2, r2) := if code =? 0 then read_all reads st else (st, r) in
      (code =? e_code e)
      && list_eqb addr_eqb (connect_log st) (e_connect e)
      && list_eqb bytes_eqb (wrap_log st) (e_wrap e)
      && bytes_eqb (up_bytes st) (e_up e)
      && bytes_eqb (delivered st code) (e_client e)
      && (N.of_nat (length rs - length rs') =? e_draws e)
      && (handler_code st2 (code_of (fun b : bool => b) r2) =? e_code_after e)
      (* the scripted reads run one handle_events call each, everything queued before a failing read
         was flushed by then and a failing read queues nothing *)
      && bytes_eqb (if code =? 0 then concat (client_queue st2) else delivered st code) (e_client_after e)
  end.

(* the model's own output, for replay files *)
Definition run_case (c : case) :=
  match c with
  | CReq cfg tbl ps co wo req rs reads e =>
      let '(st, rs', r) := on_request_complete (tbl_match tbl) cfg ps co wo req rs init_state in
      (handler_code st (code_of (fun b : bool => b) r), connect_log st, wrap_log st, up_bytes st,
       delivered st (handler_code st (code_of (fun b : bool => b) r)), length rs')
  end.
