(* Net/HandlerFacts.v — invariants of the per-connection machine (Handler.v) along EVERY event list:
   conservation of the client stream, the relay invariants (C01), flushed-before-teardown (C07),
   last_activity = time of the last client I/O (C20). *)
From PM Require Import Lib.Bytes Lib.BytesFacts Net.Conn Net.ConnFacts Net.Handler.
From Coq Require Import ZArith.

(* ------------------------------------------------------------------------------------------
   helpers
   ------------------------------------------------------------------------------------------ *)
Ltac hsimpl :=
  cbn [work must_flush writes_teared reads_teared last_activity req_complete plugin upstream is_tunnel
       pipeline_upgrade g_up_rcvd g_cl_rcvd g_cl_queued g_last_cio set_work set_must_flush
       set_writes_teared set_reads_teared set_last_activity set_upstream set_pipeline_upgrade set_request
       note_up_rcvd note_cl_rcvd note_client_io client_queue fst snd] in *.

Lemma client_queue_all_spec ps s :
  client_queue_all ps s =
  mkH (queue_all ps (work s)) (must_flush s) (writes_teared s) (reads_teared s) (last_activity s)
      (req_complete s) (plugin s) (upstream s) (is_tunnel s) (pipeline_upgrade s) (g_up_rcvd s)
      (g_cl_rcvd s) (g_cl_queued s ++ concat ps) (g_last_cio s).
Proof.
  revert s; induction ps as [|p t IH]; intros s; cbn [client_queue_all queue_all concat].
  - rewrite app_nil_r. now destruct s.
  - rewrite IH. unfold client_queue; cbn. now rewrite <- app_assoc.
Qed.

Lemma has_buffer_queue mv w : has_buffer (queue mv w) = true.
Proof. unfold has_buffer, queue; cbn. destruct (buffer w); reflexivity. Qed.

Lemma has_buffer_queue_all ps w : has_buffer w = true -> has_buffer (queue_all ps w) = true.
Proof.
  revert w; induction ps as [|p t IH]; intros w H; cbn [queue_all]; [exact H|].
  apply IH, has_buffer_queue.
Qed.

(* ------------------------------------------------------------------------------------------
   the invariant
   ------------------------------------------------------------------------------------------ *)
Definition inv_up (c : cfg) (s : hstate) : Prop :=
  match upstream s with
  | Some u => plugin s = PProxy /\ req_complete s = true /\
              g_cl_queued s = ack_of c s ++ g_up_rcvd s /\
              (is_tunnel s = true -> sent u ++ pending u = g_cl_rcvd s)
  | None => plugin s <> PProxy /\ g_up_rcvd s = [] /\ g_cl_rcvd s = [] /\
            (req_complete s = false -> g_cl_queued s = [])
  end.

Definition inv (c : cfg) (s : hstate) : Prop :=
  sent (work s) ++ pending (work s) = g_cl_queued s /\
  (must_flush s = true -> has_buffer (work s) = true) /\
  inv_up c s.

Lemma inv_init c t0 : inv c (init t0).
Proof.
  unfold inv, inv_up, init; cbn. repeat split; try discriminate; auto.
Qed.

(* ---- every function preserves it *)
Lemma inv_base_handle_writables c ev s s' r :
  inv c s -> base_handle_writables c ev s = (s', r) -> inv c s'.
Proof.
  intros [H1 [H2 H3]]. unfold base_handle_writables.
  destruct (c_w ev && has_buffer (work s)); [|intros E; inversion E; subst; now repeat split].
  hsimpl.
  destruct (flush (max_send c) (c_send ev) (work s)) as [w' fr] eqn:Ef.
  pose proof (flush_conservation _ _ _ _ _ Ef) as Hc.
  destruct fr; intros E.
  - destruct (must_flush s && negb (has_buffer w')) eqn:Em; inversion E; subst; clear E;
      unfold inv; hsimpl; (split; [rewrite Hc; exact H1|]); (split; [|exact H3]).
    + discriminate.
    + intros Hm. rewrite Hm in Em. cbn in Em. now apply negb_false_iff in Em.
  - inversion E; subst. now repeat split.
  - inversion E; subst. now repeat split.
Qed.

Lemma inv_handle_writables c ev s s' b :
  inv c s -> handle_writables c ev s = (s', b) -> inv c s'.
Proof.
  intros H. unfold handle_writables.
  destruct (c_w ev && has_buffer (work s)); [|intros E; now inversion E; subst].
  destruct (base_handle_writables c ev (set_last_activity (now ev) s)) as [s1 r] eqn:Eb.
  assert (H' : inv c (set_last_activity (now ev) s)) by exact H.
  pose proof (inv_base_handle_writables _ _ _ _ _ H' Eb).
  destruct r; intros E; inversion E; now subst.
Qed.

Lemma inv_write_to_descriptors c ev s s' b :
  inv c s -> write_to_descriptors c ev s = (s', b) -> inv c s'.
Proof.
  intros [H1 [H2 H3]]. unfold write_to_descriptors.
  destruct (plugin s) eqn:Ep; try (intros E; inversion E; subst; now repeat split).
  destruct (upstream s) as [u|] eqn:Eu; try (intros E; inversion E; subst; now repeat split).
  destruct (u_w ev && has_buffer u); try (intros E; inversion E; subst; now repeat split).
  destruct (flush (max_send c) (u_send ev) u) as [u' fr] eqn:Ef.
  pose proof (flush_conservation _ _ _ _ _ Ef) as Hc.
  destruct fr; intros E; inversion E; subst; clear E; try now repeat split.
  split; [exact H1|]. split; [exact H2|].
  unfold inv_up in *. rewrite Eu in H3. hsimpl. destruct H3 as [A [B [C D]]].
  repeat split; auto. intros Ht. rewrite Hc. auto.
Qed.

Lemma inv_parse_first_request c ev s s' r :
  inv c s -> req_complete s = false -> parse_first_request c ev s = (s', r) -> inv c s'.
Proof.
  intros [H1 [H2 H3]] Hrc. unfold parse_first_request.
  assert (Hu : upstream s = None).
  { unfold inv_up in H3. destruct (upstream s); [|reflexivity]. destruct H3 as [_ [B _]]. congruence. }
  unfold inv_up in H3. rewrite Hu in H3. destruct H3 as [A [B [C D]]]. specialize (D Hrc).
  destruct (req ev) as [|pieces|tunnel rebuilt|pieces|]; intros E.
  - inversion E; subst. repeat split; auto. unfold inv_up. rewrite Hu. auto.
  - inversion E; subst; clear E. rewrite client_queue_all_spec. unfold inv, inv_up; hsimpl.
    rewrite Hu. split; [|split].
    + rewrite queue_all_conservation. now rewrite H1.
    + intros Hm. apply has_buffer_queue_all. auto.
    + repeat split; auto; discriminate.
  - destruct tunnel; inversion E; subst; clear E; unfold inv, inv_up, ack_of; hsimpl.
    + split; [|split].
      * rewrite queue_conservation. now rewrite H1.
      * intros _. apply has_buffer_queue.
      * rewrite D, B, C. hsimpl. repeat split; auto. now rewrite app_nil_r.
    + split; [exact H1|]. split; [exact H2|]. rewrite D, B. repeat split; auto. discriminate.
  - inversion E; subst; clear E. rewrite client_queue_all_spec. unfold inv, inv_up; hsimpl.
    rewrite Hu. split; [|split].
    + rewrite queue_all_conservation. now rewrite H1.
    + intros Hm. apply has_buffer_queue_all. auto.
    + repeat split; auto; discriminate.
  - inversion E; subst. repeat split; auto. unfold inv_up. rewrite Hu. auto.
Qed.

Lemma inv_on_client_data c ev s raw s' r :
  inv c s -> req_complete s = true -> on_client_data ev s raw = (s', r) -> inv c s'.
Proof.
  intros [H1 [H2 H3]] Hrc. unfold on_client_data.
  destruct (plugin s) eqn:Ep.
  - intros E; inversion E; subst. now repeat split.
  - destruct (upstream s) as [u|] eqn:Eu; [|intros E; inversion E; subst; now repeat split].
    unfold inv_up in H3. rewrite Eu in H3. destruct H3 as [A [B [C D]]].
    assert (Hq : forall b, inv c (set_upstream (Some (queue b u)) (note_cl_rcvd raw s)) \/ True) by (intros; now right).
    destruct (is_tunnel s) eqn:Et.
    + intros E; inversion E; subst; clear E. unfold inv, inv_up, ack_of; hsimpl. rewrite Et.
      split; [exact H1|]. split; [exact H2|]. repeat split; auto.
      * unfold ack_of in C. now rewrite Et in C.
      * intros _. change (sent u) with (sent (queue raw u)). rewrite queue_conservation. now rewrite (D eq_refl).
    + assert (Hgen : forall s1, work s1 = work s -> must_flush s1 = must_flush s -> plugin s1 = PProxy ->
                req_complete s1 = true -> g_cl_queued s1 = g_cl_queued s -> is_tunnel s1 = false ->
                g_up_rcvd s1 = g_up_rcvd s -> (exists u1, upstream s1 = Some u1) -> inv c s1).
      { intros s1 Ew Em Epl Er Eq Etu Eup [u1 Eu1]. unfold inv, inv_up. rewrite Ew, Em, Eq, Eu1.
        split; [exact H1|]. split; [exact H2|]. unfold ack_of in *. rewrite Etu, Eup. rewrite Et in C.
        repeat split; auto. discriminate. }
      destruct (pipeline_upgrade s).
      * intros E; inversion E; subst; clear E. apply Hgen; hsimpl; eauto.
      * destruct (cdata ev); intros E; inversion E; subst; clear E; apply Hgen; hsimpl; eauto.
  - assert (Hloc : forall ps, inv c (client_queue_all ps s)).
    { intros ps. rewrite client_queue_all_spec. unfold inv, inv_up; hsimpl. split; [|split].
      - rewrite queue_all_conservation. now rewrite H1.
      - intros Hm. apply has_buffer_queue_all. auto.
      - unfold inv_up in H3. destruct (upstream s) as [u|]; [destruct H3; congruence|].
        destruct H3 as [A [B [C D]]]. repeat split; auto. intros Hf; congruence. }
    destruct (cdata ev); intros E; inversion E; subst; clear E; try apply Hloc; now repeat split.
Qed.

Lemma parse_first_request_rem c ev s s1 :
  parse_first_request c ev s = (s1, Some false) -> req_rem (req ev) <> [] -> req_complete s1 = true.
Proof.
  unfold parse_first_request, req_rem.
  destruct (req ev) as [|pieces|tunnel rebuilt rem|pieces rem|]; intros E Hr; try congruence.
  - destruct tunnel; inversion E; reflexivity.
  - inversion E. rewrite client_queue_all_spec. reflexivity.
Qed.

Lemma inv_handle_data c ev s data s' r :
  inv c s -> handle_data c ev s data = (s', r) -> inv c s'.
Proof.
  intros H. unfold handle_data. destruct (req_complete s) eqn:Er; cbn [negb].
  - now apply inv_on_client_data.
  - destruct (parse_first_request c ev s) as [s1 o] eqn:Ep.
    pose proof (inv_parse_first_request _ _ _ _ _ H Er Ep) as I1.
    destruct o as [[|]|]; try (intros E; inversion E; subst; exact I1).
    destruct (req_rem (req ev)) as [|x rem] eqn:Erem; [intros E; inversion E; subst; exact I1|].
    destruct (req_complete s1) eqn:Er1; [|intros E; inversion E; subst; exact I1].
    destruct (plugin s1); [intros E; inversion E; subst; exact I1| |]; now apply inv_on_client_data.
Qed.

Lemma inv_base_handle_readables c ev s s' r :
  inv c s -> base_handle_readables (handle_data c ev) ev s = (s', r) -> inv c s'.
Proof.
  intros H. unfold base_handle_readables.
  destruct (c_r ev); [|intros E; now inversion E; subst].
  assert (H' : inv c (note_client_io (now ev) s)) by exact H.
  destruct (c_recv ev) as [data| | | |]; try (intros E; inversion E; subst; exact H').
  destruct data as [|x data]; [intros E; inversion E; subst; exact H'|].
  destruct (handle_data c ev (note_client_io (now ev) s) (x :: data)) as [s1 o] eqn:Eh.
  pose proof (inv_handle_data _ _ _ _ _ _ H' Eh) as H1.
  destruct o as [[|]|]; try (intros E; inversion E; subst; exact H1).
  destruct (has_buffer (work s1)) eqn:Hb; intros E; inversion E; subst; [|exact H1].
  destruct H1 as [A [B C]]. split; [exact A|]. split; [|exact C]. intros _. exact Hb.
Qed.

Lemma inv_handle_readables c ev s s' r :
  inv c s -> handle_readables c ev s = (s', r) -> inv c s'.
Proof.
  intros H. unfold handle_readables. destruct (c_r ev); [|intros E; now inversion E; subst].
  destruct (base_handle_readables (handle_data c ev) ev (set_last_activity (now ev) s)) as [s1 o] eqn:Eb.
  assert (H' : inv c (set_last_activity (now ev) s)) by exact H.
  pose proof (inv_base_handle_readables _ _ _ _ _ H' Eb).
  destruct o; intros E; inversion E; now subst.
Qed.

Lemma inv_read_from_descriptors c ev s s' r :
  inv c s -> read_from_descriptors c ev s = (s', r) -> inv c s'.
Proof.
  intros [H1 [H2 H3]]. unfold read_from_descriptors.
  destruct (plugin s) eqn:Ep; try (intros E; inversion E; subst; now repeat split).
  destruct (upstream s) as [u|] eqn:Eu; try (intros E; inversion E; subst; now repeat split).
  destruct (u_r ev); try (intros E; inversion E; subst; now repeat split).
  destruct (u_recv ev) as [raw| | |[|]|]; try (intros E; inversion E; subst; now repeat split).
  destruct raw as [|x raw]; [intros E; inversion E; subst; now repeat split|].
  intros E; inversion E; subst; clear E.
  unfold inv_up in H3. rewrite Eu in H3. destruct H3 as [A [B [C D]]].
  unfold inv, inv_up, ack_of; hsimpl. rewrite Eu. split; [|split].
  - rewrite queue_conservation. now rewrite H1.
  - intros _. apply has_buffer_queue.
  - repeat split; auto. unfold ack_of in C. rewrite C. now rewrite app_assoc.
Qed.

Theorem inv_handle_events c ev s s' r :
  inv c s -> handle_events c ev s = (s', r) -> inv c s'.
Proof.
  intros H. unfold handle_events.
  destruct (handle_writables c ev s) as [s1 wt] eqn:Ew.
  pose proof (inv_handle_writables _ _ _ _ _ H Ew) as I1.
  destruct wt; [intros E; inversion E; subst; exact I1|].
  set (p2 := if writes_teared s1 then (s1, true) else
             match plugin s1 with
             | PNone => (s1, false)
             | _ => let '(s', b) := write_to_descriptors c ev s1 in (set_writes_teared b s', b)
             end).
  assert (I2 : inv c (fst p2)).
  { unfold p2. destruct (writes_teared s1); [exact I1|].
    destruct (plugin s1); [exact I1| |];
      destruct (write_to_descriptors c ev s1) as [sx b] eqn:Ewd;
      exact (inv_write_to_descriptors _ _ _ _ _ I1 Ewd). }
  destruct p2 as [s2 wt2]. cbn [fst] in I2.
  destruct (wt2 && negb (has_buffer (work s2))); [intros E; inversion E; subst; exact I2|].
  set (s3 := if wt2 then set_reads_teared true s2 else s2).
  assert (I3 : inv c s3) by (unfold s3; destruct wt2; exact I2).
  clearbody s3.
  set (p4 := if reads_teared s3 then (s3, Some true) else
             match handle_readables c ev s3 with
             | (s', Some true) => (set_reads_teared true s', Some true)
             | (s', None) => (s', None)
             | (s', Some false) =>
                 match plugin s' with
                 | PNone => (s', Some false)
                 | _ => match read_from_descriptors c ev s' with
                        | (s'', Some b) => (set_reads_teared b s'', Some b)
                        | (s'', None) => (s'', None)
                        end
                 end
             end).
  assert (I4 : inv c (fst p4)).
  { unfold p4. destruct (reads_teared s3); [exact I3|].
    destruct (handle_readables c ev s3) as [sx o] eqn:Eh.
    pose proof (inv_handle_readables _ _ _ _ _ I3 Eh) as Ix.
    destruct o as [[|]|]; [exact Ix| |exact Ix].
    destruct (plugin sx); [exact Ix| |];
      destruct (read_from_descriptors c ev sx) as [sy o2] eqn:Erd;
      pose proof (inv_read_from_descriptors _ _ _ _ _ Ix Erd) as Iy;
      destruct o2; exact Iy. }
  destruct p4 as [s4 r4]. cbn [fst] in I4.
  destruct r4; [|intros E; inversion E; subst; exact I4].
  destruct (reads_teared s4 && negb (has_buffer (work s4))); intros E; inversion E; subst; exact I4.
Qed.

Lemma inv_step c ev s s' r : inv c s -> step c s ev = (s', r) -> inv c s'.
Proof. unfold step. apply inv_handle_events. Qed.

Theorem inv_run c evs s s' r : inv c s -> run c s evs = (s', r) -> inv c s'.
Proof.
  revert s; induction evs as [|ev t IH]; intros s H; cbn [run].
  - intros E; inversion E; now subst.
  - destruct (step c s ev) as [s1 r1] eqn:Es. pose proof (inv_step _ _ _ _ _ H Es) as H1.
    destruct r1; intros E; try (inversion E; subst; exact H1). eapply IH; eauto.
Qed.

(* ------------------------------------------------------------------------------------------
   frame facts: what the plugin-side functions leave alone
   ------------------------------------------------------------------------------------------ *)
Definition frame (s s' : hstate) : Prop :=
  last_activity s' = last_activity s /\ g_last_cio s' = g_last_cio s /\
  sent (work s') = sent (work s) /\
  reads_teared s' = reads_teared s /\ writes_teared s' = writes_teared s.

Lemma frame_refl s : frame s s.
Proof. now repeat split. Qed.

Lemma frame_trans s1 s2 s3 : frame s1 s2 -> frame s2 s3 -> frame s1 s3.
Proof. unfold frame. intros [A [B [C [D E]]]] [A' [B' [C' [D' E']]]]. repeat split; congruence. Qed.

Ltac inv_pair := match goal with H : (_, _) = (_, _) |- _ => inversion H; subst; clear H end.
Ltac brk_in H :=
  repeat (match type of H with context [match ?x with _ => _ end] => destruct x eqn:? end).

Lemma frame_client_queue_all ps s : frame s (client_queue_all ps s).
Proof. rewrite client_queue_all_spec. unfold frame; hsimpl. rewrite queue_all_sent. now repeat split. Qed.

Lemma frame_parse_first_request c ev s s' r : parse_first_request c ev s = (s', r) -> frame s s'.
Proof.
  unfold parse_first_request. intros E. brk_in E; inv_pair;
    try apply frame_refl; try (rewrite client_queue_all_spec; unfold frame; hsimpl; rewrite ?queue_all_sent);
    unfold frame; hsimpl; now repeat split.
Qed.

Lemma frame_on_client_data ev s raw s' r : on_client_data ev s raw = (s', r) -> frame s s'.
Proof.
  unfold on_client_data. intros E. brk_in E; inv_pair;
    try apply frame_refl; try (rewrite client_queue_all_spec; unfold frame; hsimpl; rewrite ?queue_all_sent);
    unfold frame; hsimpl; now repeat split.
Qed.

Lemma frame_handle_data c ev s data s' r : handle_data c ev s data = (s', r) -> frame s s'.
Proof.
  unfold handle_data. destruct (negb (req_complete s)); [|apply frame_on_client_data].
  destruct (parse_first_request c ev s) as [s1 o] eqn:Ep.
  pose proof (frame_parse_first_request _ _ _ _ _ Ep) as F1.
  destruct o as [[|]|]; try (intros E; inv_pair; exact F1).
  destruct (req_rem (req ev)) as [|x rem]; [intros E; inv_pair; exact F1|].
  destruct (req_complete s1); [|intros E; inv_pair; exact F1].
  destruct (plugin s1); [intros E; inv_pair; exact F1| |]; intros E;
    exact (frame_trans _ _ _ F1 (frame_on_client_data _ _ _ _ _ E)).
Qed.

Lemma frame_write_to_descriptors c ev s s' b : write_to_descriptors c ev s = (s', b) -> frame s s'.
Proof.
  unfold write_to_descriptors. intros E. brk_in E; inv_pair; unfold frame; hsimpl; now repeat split.
Qed.

Lemma frame_read_from_descriptors c ev s s' r : read_from_descriptors c ev s = (s', r) -> frame s s'.
Proof.
  unfold read_from_descriptors. intros E. brk_in E; inv_pair; unfold frame; hsimpl; now repeat split.
Qed.

Lemma work_write_to_descriptors c ev s s' b :
  write_to_descriptors c ev s = (s', b) ->
  work s' = work s /\ must_flush s' = must_flush s /\ plugin s' = plugin s.
Proof.
  unfold write_to_descriptors. intros E. brk_in E; inv_pair; hsimpl; now repeat split.
Qed.

(* ------------------------------------------------------------------------------------------
   handle_writables / handle_readables: what exactly happens on the client side
   ------------------------------------------------------------------------------------------ *)
Definition send_error (o : outcome) : bool :=
  match o with Broken => true | OsErr => true | _ => false end.

(* the client flush of this call is attempted and fails *)
Definition client_send_failed (ev : event) (s : hstate) : bool :=
  c_w ev && has_buffer (work s) && send_error (c_send ev).

Lemma handle_writables_idle c ev s :
  c_w ev && has_buffer (work s) = false -> handle_writables c ev s = (s, false).
Proof. unfold handle_writables. now intros ->. Qed.

Lemma handle_writables_spec c ev s s' b :
  c_w ev && has_buffer (work s) = true -> handle_writables c ev s = (s', b) ->
  exists w' fr, flush (max_send c) (c_send ev) (work s) = (w', fr) /\
    last_activity s' = now ev /\ g_last_cio s' = now ev /\ work s' = w' /\
    reads_teared s' = reads_teared s /\ writes_teared s' = writes_teared s /\
    plugin s' = plugin s /\ upstream s' = upstream s /\
    match fr with
    | Flushed _ => b = must_flush s && negb (has_buffer w') /\ must_flush s' = must_flush s && has_buffer w'
    | _ => b = true /\ w' = work s
    end.
Proof.
  intros Hc. unfold handle_writables, base_handle_writables. hsimpl. rewrite Hc. hsimpl.
  destruct (flush (max_send c) (c_send ev) (work s)) as [w' fr] eqn:Ef.
  intros E. exists w', fr. split; [reflexivity|].
  destruct fr.
  - destruct (must_flush s && negb (has_buffer w')) eqn:Em; inv_pair; hsimpl; repeat split; auto.
    + apply andb_true_iff in Em as [-> Hn]. apply negb_true_iff in Hn. now rewrite Hn.
    + destruct (must_flush s); [|reflexivity]. cbn in Em. apply negb_false_iff in Em. now rewrite Em.
  - assert (Hw : w' = work s) by (eapply flush_error_unchanged; [exact Ef|intros ?; discriminate]).
    inv_pair; hsimpl; repeat split; auto; congruence.
  - assert (Hw : w' = work s) by (eapply flush_error_unchanged; [exact Ef|intros ?; discriminate]).
    inv_pair; hsimpl; repeat split; auto; congruence.
Qed.

(* handle_writables returns True only if the client send failed or the awaited final flush completed *)
Lemma handle_writables_true c ev s s' :
  handle_writables c ev s = (s', true) ->
  client_send_failed ev s = true \/ buffer (work s') = [].
Proof.
  intros E. unfold client_send_failed.
  destruct (c_w ev && has_buffer (work s)) eqn:Hc.
  - destruct (handle_writables_spec _ _ _ _ _ Hc E) as [w' [fr [Ef [_ [_ [Hw [_ [_ [_ [_ Hm]]]]]]]]]].
    destruct fr.
    + right. destruct Hm as [Hb _]. symmetry in Hb. apply andb_true_iff in Hb as [_ Hb].
      apply negb_true_iff in Hb. rewrite Hw. now apply has_buffer_false.
    + left. destruct (flush_res_error _ _ _ _ _ Ef) as [[Hx _] _].
      destruct (Hx eq_refl) as [_ ->]. reflexivity.
    + left. destruct (flush_res_error _ _ _ _ _ Ef) as [_ [Hx _]].
      destruct (Hx eq_refl) as [_ ->]. reflexivity.
  - rewrite (handle_writables_idle _ _ _ Hc) in E. discriminate.
Qed.

Lemma base_handle_readables_frame c ev s s' r :
  base_handle_readables (handle_data c ev) ev s = (s', r) ->
  if c_r ev
  then last_activity s' = last_activity s /\ g_last_cio s' = now ev /\ sent (work s') = sent (work s) /\
       reads_teared s' = reads_teared s /\ writes_teared s' = writes_teared s
  else s' = s.
Proof.
  unfold base_handle_readables. destruct (c_r ev); [|intros E; now inv_pair].
  set (s0 := note_client_io (now ev) s).
  assert (F0 : last_activity s0 = last_activity s /\ g_last_cio s0 = now ev /\ sent (work s0) = sent (work s) /\
               reads_teared s0 = reads_teared s /\ writes_teared s0 = writes_teared s) by now repeat split.
  destruct (c_recv ev) as [data| | | |]; try (intros E; inv_pair; exact F0).
  destruct data as [|x data]; [intros E; inv_pair; exact F0|].
  destruct (handle_data c ev s0 (x :: data)) as [s1 o] eqn:Eh.
  pose proof (frame_handle_data _ _ _ _ _ _ Eh) as [A [B [C [D E']]]].
  destruct F0 as [A0 [B0 [C0 [D0 E0]]]].
  destruct o as [[|]|]; [destruct (has_buffer (work s1))| |]; intros E; inv_pair; hsimpl;
    repeat split; congruence.
Qed.

Lemma handle_readables_frame c ev s s' r :
  handle_readables c ev s = (s', r) ->
  if c_r ev
  then last_activity s' = now ev /\ g_last_cio s' = now ev /\ sent (work s') = sent (work s) /\
       reads_teared s' = reads_teared s /\ writes_teared s' = writes_teared s
  else s' = s /\ r = Some false.
Proof.
  unfold handle_readables. destruct (c_r ev) eqn:Ecr; [|intros E; now inv_pair].
  destruct (base_handle_readables (handle_data c ev) ev (set_last_activity (now ev) s)) as [s1 o] eqn:Eb.
  pose proof (base_handle_readables_frame _ _ _ _ _ Eb) as F. rewrite Ecr in F. hsimpl.
  destruct o; intros E; inv_pair; exact F.
Qed.

(* ------------------------------------------------------------------------------------------
   the middle of handle_events, named, so that the theorems below can walk through it
   ------------------------------------------------------------------------------------------ *)
Definition write_phase (c : cfg) (ev : event) (s1 : hstate) : hstate * bool :=
  if writes_teared s1 then (s1, true)
  else match plugin s1 with
       | PNone => (s1, false)
       | _ => let '(s', b) := write_to_descriptors c ev s1 in (set_writes_teared b s', b)
       end.

Definition read_phase (c : cfg) (ev : event) (s3 : hstate) : hstate * option bool :=
  if reads_teared s3 then (s3, Some true)
  else match handle_readables c ev s3 with
       | (s', Some true) => (set_reads_teared true s', Some true)
       | (s', None) => (s', None)
       | (s', Some false) =>
           match plugin s' with
           | PNone => (s', Some false)
           | _ => match read_from_descriptors c ev s' with
                  | (s'', Some b) => (set_reads_teared b s'', Some b)
                  | (s'', None) => (s'', None)
                  end
           end
       end.

Lemma handle_events_unfold c ev s :
  handle_events c ev s =
  let '(s1, wt) := handle_writables c ev s in
  if wt then (set_writes_teared true s1, Teardown) else
  let '(s2, wt2) := write_phase c ev s1 in
  if wt2 && negb (has_buffer (work s2)) then (s2, Teardown) else
  let '(s4, r) := read_phase c ev (if wt2 then set_reads_teared true s2 else s2) in
  match r with
  | None => (s4, Raised)
  | Some _ => if reads_teared s4 && negb (has_buffer (work s4)) then (s4, Teardown) else (s4, Continue)
  end.
Proof. reflexivity. Qed.

Lemma write_phase_frame c ev s1 s2 b :
  write_phase c ev s1 = (s2, b) ->
  work s2 = work s1 /\ must_flush s2 = must_flush s1 /\ plugin s2 = plugin s1 /\
  last_activity s2 = last_activity s1 /\ g_last_cio s2 = g_last_cio s1 /\ reads_teared s2 = reads_teared s1.
Proof.
  unfold write_phase. destruct (writes_teared s1); [intros E; inv_pair; now repeat split|].
  destruct (plugin s1) eqn:Ep; [intros E; inv_pair; now repeat split| |];
    destruct (write_to_descriptors c ev s1) as [sx bx] eqn:Ew; intros E; inv_pair; hsimpl;
    destruct (work_write_to_descriptors _ _ _ _ _ Ew) as [A [B C]];
    destruct (frame_write_to_descriptors _ _ _ _ _ Ew) as [D [F [G [H I]]]]; repeat split; congruence.
Qed.

Lemma read_phase_frame c ev s3 s4 r :
  read_phase c ev s3 = (s4, r) ->
  sent (work s4) = sent (work s3) /\
  (reads_teared s3 = true -> s4 = s3 /\ r = Some true) /\
  (last_activity s3 = g_last_cio s3 -> last_activity s4 = g_last_cio s4) /\
  (c_r ev = false -> last_activity s4 = last_activity s3 /\ g_last_cio s4 = g_last_cio s3).
Proof.
  unfold read_phase. destruct (reads_teared s3) eqn:Ert.
  { intros E; inv_pair. repeat split; auto. }
  destruct (handle_readables c ev s3) as [sx o] eqn:Eh.
  pose proof (handle_readables_frame _ _ _ _ _ Eh) as F.
  assert (Fx : sent (work sx) = sent (work s3) /\
               (last_activity s3 = g_last_cio s3 -> last_activity sx = g_last_cio sx) /\
               (c_r ev = false -> last_activity sx = last_activity s3 /\ g_last_cio sx = g_last_cio s3)).
  { destruct (c_r ev).
    - destruct F as [A [B [C _]]]. repeat split; try congruence; discriminate.
    - destruct F as [-> _]. repeat split; auto. }
  destruct Fx as [X1 [X2 X3]].
  assert (Hfin : forall sy, sent (work sy) = sent (work sx) -> last_activity sy = last_activity sx ->
                 g_last_cio sy = g_last_cio sx ->
                 sent (work sy) = sent (work s3) /\
                 (false = true -> sy = s3 /\ r = Some true) /\
                 (last_activity s3 = g_last_cio s3 -> last_activity sy = g_last_cio sy) /\
                 (c_r ev = false -> last_activity sy = last_activity s3 /\ g_last_cio sy = g_last_cio s3)).
  { intros sy A B C. split; [congruence|]. split; [intros Q; discriminate Q|].
    split; [intros Q; rewrite B, C; auto|]. intros Q. destruct (X3 Q). split; congruence. }
  destruct o as [[|]|].
  - intros E; inv_pair. apply Hfin; reflexivity.
  - destruct (plugin sx).
    + intros E; inv_pair. apply Hfin; reflexivity.
    + destruct (read_from_descriptors c ev sx) as [sy o2] eqn:Er.
      destruct (frame_read_from_descriptors _ _ _ _ _ Er) as [A [B [C [D E']]]].
      destruct o2; intros E; inv_pair; apply Hfin; hsimpl; assumption.
    + destruct (read_from_descriptors c ev sx) as [sy o2] eqn:Er.
      destruct (frame_read_from_descriptors _ _ _ _ _ Er) as [A [B [C [D E']]]].
      destruct o2; intros E; inv_pair; apply Hfin; hsimpl; assumption.
  - intros E; inv_pair. apply Hfin; reflexivity.
Qed.

(* ------------------------------------------------------------------------------------------
   C07: every teardown decided by handle_events finds the client buffer empty, unless the client
   send of this very call failed
   ------------------------------------------------------------------------------------------ *)
Theorem teardown_flushed c ev s s' :
  handle_events c ev s = (s', Teardown) -> client_send_failed ev s = false ->
  buffer (work s') = [].
Proof.
  rewrite handle_events_unfold. intros E Hf.
  destruct (handle_writables c ev s) as [s1 wt] eqn:Ew.
  destruct wt.
  - inv_pair. hsimpl. destruct (handle_writables_true _ _ _ _ Ew) as [Hx|Hx]; [congruence|exact Hx].
  - destruct (write_phase c ev s1) as [s2 wt2] eqn:Ep.
    destruct (wt2 && negb (has_buffer (work s2))) eqn:E2.
    + inv_pair. apply andb_true_iff in E2 as [_ E2]. apply negb_true_iff in E2. now apply has_buffer_false.
    + destruct (read_phase c ev (if wt2 then set_reads_teared true s2 else s2)) as [s4 r4] eqn:Er.
      destruct r4; [|discriminate].
      destruct (reads_teared s4 && negb (has_buffer (work s4))) eqn:E4; [|discriminate].
      inv_pair. apply andb_true_iff in E4 as [_ E4]. apply negb_true_iff in E4. now apply has_buffer_false.
Qed.

Theorem teardown_all_delivered c ev s s' :
  inv c s -> handle_events c ev s = (s', Teardown) -> client_send_failed ev s = false ->
  pending_client s' = [] /\ delivered_client s' = g_cl_queued s'.
Proof.
  intros I E Hf. pose proof (teardown_flushed _ _ _ _ E Hf) as Hb.
  destruct (inv_handle_events _ _ _ _ _ I E) as [H1 _].
  unfold pending_client, delivered_client, pending in *. rewrite Hb in *. cbn in *.
  rewrite app_nil_r in H1. auto.
Qed.

(* C07 prompt: while a teardown is pending (must_flush_before_shutdown, or reads torn down), the
   handle_events call whose client flush empties the buffer is the one that returns True *)
Theorem teardown_prompt c ev s s' r w' n :
  must_flush s = true \/ reads_teared s = true ->
  c_w ev = true -> has_buffer (work s) = true ->
  flush (max_send c) (c_send ev) (work s) = (w', Flushed n) -> buffer w' = [] ->
  handle_events c ev s = (s', r) -> r = Teardown.
Proof.
  intros Hp Hcw Hb Ef Hw'. rewrite handle_events_unfold.
  destruct (handle_writables c ev s) as [s1 wt] eqn:Ew.
  assert (Hc : c_w ev && has_buffer (work s) = true) by now rewrite Hcw, Hb.
  destruct (handle_writables_spec _ _ _ _ _ Hc Ew) as [w2 [fr [Ef2 [_ [_ [Hw [Hrt [_ [_ [_ Hm]]]]]]]]]].
  rewrite Ef in Ef2. assert (Hw2 : w2 = w') by congruence. assert (Hfr : fr = Flushed n) by congruence.
  rewrite Hfr in Hm. rewrite Hw2 in *. clear Ef2 Hfr Hw2. destruct Hm as [Hwt Hmf].
  assert (Hhb : has_buffer w' = false) by now apply has_buffer_false.
  destruct wt; [intros E; now inv_pair|].
  rewrite Hhb in Hwt. cbn in Hwt. rewrite andb_true_r in Hwt.
  destruct Hp as [Hp|Hp]; [congruence|].
  destruct (write_phase c ev s1) as [s2 wt2] eqn:Ep.
  destruct (write_phase_frame _ _ _ _ _ Ep) as [A [_ [_ [_ [_ F]]]]].
  rewrite A, Hw, Hhb. cbn [negb]. rewrite andb_true_r.
  destruct wt2; [intros E; now inv_pair|].
  destruct (read_phase c ev s2) as [s4 r4] eqn:Er.
  destruct (read_phase_frame _ _ _ _ _ Er) as [_ [G _]].
  destruct (G ltac:(congruence)) as [-> ->].
  assert (reads_teared s2 = true) as -> by congruence.
  rewrite A, Hw, Hhb. cbn. intros E; now inv_pair.
Qed.

(* ------------------------------------------------------------------------------------------
   C20: last_activity is the time of the last send()/recv() attempted on the client socket
   ------------------------------------------------------------------------------------------ *)
Definition la_inv (s : hstate) : Prop := last_activity s = g_last_cio s.

Theorem la_inv_handle_events c ev s s' r :
  la_inv s -> handle_events c ev s = (s', r) -> la_inv s'.
Proof.
  unfold la_inv. intros H. rewrite handle_events_unfold.
  destruct (handle_writables c ev s) as [s1 wt] eqn:Ew.
  assert (H1 : last_activity s1 = g_last_cio s1).
  { destruct (c_w ev && has_buffer (work s)) eqn:Hc.
    - destruct (handle_writables_spec _ _ _ _ _ Hc Ew) as [w2 [fr [_ [A [B _]]]]]. congruence.
    - rewrite (handle_writables_idle _ _ _ Hc) in Ew. inv_pair. exact H. }
  destruct wt; [intros E; inv_pair; exact H1|].
  destruct (write_phase c ev s1) as [s2 wt2] eqn:Ep.
  destruct (write_phase_frame _ _ _ _ _ Ep) as [_ [_ [_ [A [B _]]]]].
  assert (H2 : last_activity s2 = g_last_cio s2) by congruence.
  destruct (wt2 && negb (has_buffer (work s2))); [intros E; inv_pair; exact H2|].
  set (s3 := if wt2 then set_reads_teared true s2 else s2).
  assert (H3 : last_activity s3 = g_last_cio s3) by (unfold s3; destruct wt2; exact H2).
  destruct (read_phase c ev s3) as [s4 r4] eqn:Er.
  destruct (read_phase_frame _ _ _ _ _ Er) as [_ [_ [G _]]]. specialize (G H3).
  destruct r4; [|intros E; inv_pair; exact G].
  destruct (reads_teared s4 && negb (has_buffer (work s4))); intros E; inv_pair; exact G.
Qed.

Theorem la_inv_run c evs s s' r : la_inv s -> run c s evs = (s', r) -> la_inv s'.
Proof.
  revert s; induction evs as [|ev t IH]; intros s H; cbn [run].
  - intros E; inv_pair; exact H.
  - destruct (step c s ev) as [s1 r1] eqn:Es.
    pose proof (la_inv_handle_events _ _ _ _ _ H Es) as H1.
    destruct r1; intros E; try (inv_pair; exact H1). eapply IH; eauto.
Qed.

(* a call that touches neither client direction leaves last_activity and the client connection's
   sent bytes alone; if additionally nothing is readable upstream the buffer is unchanged too *)
Theorem no_client_io_step c ev s s' r :
  c_w ev && has_buffer (work s) = false -> c_r ev = false ->
  handle_events c ev s = (s', r) ->
  last_activity s' = last_activity s /\ g_last_cio s' = g_last_cio s /\ sent (work s') = sent (work s).
Proof.
  intros Hc Hr. rewrite handle_events_unfold. rewrite (handle_writables_idle _ _ _ Hc).
  destruct (write_phase c ev s) as [s2 wt2] eqn:Ep.
  destruct (write_phase_frame _ _ _ _ _ Ep) as [W [_ [_ [A [B _]]]]].
  destruct (wt2 && negb (has_buffer (work s2))); [intros E; inv_pair; repeat split; congruence|].
  set (s3 := if wt2 then set_reads_teared true s2 else s2).
  assert (H3 : last_activity s3 = last_activity s2 /\ g_last_cio s3 = g_last_cio s2 /\ work s3 = work s2)
    by (unfold s3; destruct wt2; now repeat split).
  destruct H3 as [X [Y Z]].
  destruct (read_phase c ev s3) as [s4 r4] eqn:Er.
  destruct (read_phase_frame _ _ _ _ _ Er) as [S [_ [_ G]]]. destruct (G Hr) as [G1 G2].
  assert (last_activity s4 = last_activity s /\ g_last_cio s4 = g_last_cio s /\ sent (work s4) = sent (work s))
    as Hfin by (repeat split; congruence).
  destruct r4; [|intros E; inv_pair; exact Hfin].
  destruct (reads_teared s4 && negb (has_buffer (work s4))); intros E; inv_pair; exact Hfin.
Qed.

(* ------------------------------------------------------------------------------------------
   C01: progress and drain
   ------------------------------------------------------------------------------------------ *)
Lemma handle_events_sent c ev s s' r :
  handle_events c ev s = (s', r) ->
  exists s1 wt, handle_writables c ev s = (s1, wt) /\ sent (work s') = sent (work s1).
Proof.
  rewrite handle_events_unfold.
  destruct (handle_writables c ev s) as [s1 wt] eqn:Ew. intros E. exists s1, wt. split; [reflexivity|].
  destruct wt; [inv_pair; reflexivity|].
  destruct (write_phase c ev s1) as [s2 wt2] eqn:Ep.
  destruct (write_phase_frame _ _ _ _ _ Ep) as [A _].
  destruct (wt2 && negb (has_buffer (work s2))); [inv_pair; now rewrite A|].
  destruct (read_phase c ev (if wt2 then set_reads_teared true s2 else s2)) as [s4 r4] eqn:Er.
  destruct (read_phase_frame _ _ _ _ _ Er) as [S _].
  assert (S' : sent (work s4) = sent (work s1)) by (rewrite S; destruct wt2; hsimpl; now rewrite A).
  destruct r4; [|inv_pair; exact S'].
  destruct (reads_teared s4 && negb (has_buffer (work s4))); inv_pair; exact S'.
Qed.

(* a client-writable event on which the kernel accepts k > 0 bytes delivers at least one byte *)
Theorem handle_events_progress c ev s s' r mv rest k :
  c_w ev = true -> buffer (work s) = mv :: rest -> mv <> [] -> c_send ev = Accept k -> 0 < k ->
  handle_events c ev s = (s', r) ->
  (length (delivered_client s) < length (delivered_client s'))%nat.
Proof.
  intros Hcw Hb Hmv Hk Hpos E. unfold delivered_client.
  destruct (handle_events_sent _ _ _ _ _ E) as [s1 [wt [Ew ->]]].
  assert (Hc : c_w ev && has_buffer (work s) = true).
  { rewrite Hcw. unfold has_buffer. now rewrite Hb. }
  destruct (handle_writables_spec _ _ _ _ _ Hc Ew) as [w' [fr [Ef [_ [_ [Hw _]]]]]].
  rewrite Hw. rewrite Hk in Ef. eapply flush_progress; eauto.
Qed.

Lemma select_cw s ev : c_w (select s ev) && has_buffer (work s) = c_w ev && has_buffer (work s).
Proof. unfold select, get_events, base_get_events. destruct (plugin_get_descriptors s). cbn. now destruct (c_w ev), (has_buffer (work s)). Qed.

Theorem step_progress c ev s s' r mv rest k :
  c_w ev = true -> buffer (work s) = mv :: rest -> mv <> [] -> c_send ev = Accept k -> 0 < k ->
  step c s ev = (s', r) ->
  (length (delivered_client s) < length (delivered_client s'))%nat.
Proof.
  intros Hcw Hb Hmv Hk Hpos. unfold step. apply handle_events_progress with (mv := mv) (rest := rest) (k := k); auto.
  unfold select, get_events, base_get_events. destruct (plugin_get_descriptors s). cbn.
  rewrite Hcw. unfold has_buffer. now rewrite Hb.
Qed.

(* an event on which only the client socket is ready for writing, the kernel accepting k > 0 bytes *)
Definition drain_ev (ev : event) : Prop :=
  c_w ev = true /\ effective (c_send ev) = true /\ c_r ev = false /\ u_r ev = false.

Lemma select_drain s ev : drain_ev ev -> has_buffer (work s) = true -> drain_ev (select s ev).
Proof.
  intros [A [B [C D]]] Hb. unfold drain_ev, select, get_events, base_get_events.
  destruct (plugin_get_descriptors s). cbn. rewrite A, B, C, D, Hb. auto.
Qed.

Lemma read_phase_idle c ev s3 s4 r :
  c_r ev = false -> u_r ev = false -> read_phase c ev s3 = (s4, r) ->
  work s4 = work s3 /\ must_flush s4 = must_flush s3 /\
  (reads_teared s3 = true -> reads_teared s4 = true) /\ r <> None.
Proof.
  intros Hr Hu. unfold read_phase.
  destruct (reads_teared s3) eqn:Ert; [intros E; inv_pair; repeat split; auto; discriminate|].
  unfold handle_readables. rewrite Hr.
  destruct (plugin s3) eqn:Ep; [intros E; inv_pair; repeat split; auto; discriminate| |];
    unfold read_from_descriptors; rewrite Ep; destruct (upstream s3); rewrite ?Hu;
    intros E; inv_pair; hsimpl; repeat split; auto; discriminate.
Qed.

Lemma effective_no_error o : effective o = true -> send_error o = false.
Proof. destruct o; cbn; congruence. Qed.

Lemma drain_step c ev s s' r w' n :
  c_w ev = true -> effective (c_send ev) = true -> c_r ev = false -> u_r ev = false ->
  has_buffer (work s) = true ->
  flush (max_send c) (c_send ev) (work s) = (w', Flushed n) ->
  handle_events c ev s = (s', r) ->
    work s' = w' /\ r <> Raised /\
    (r = Continue -> must_flush s' = must_flush s && has_buffer w') /\
    (reads_teared s = true -> reads_teared s' = true).
Proof.
  intros Hcw Heff Hcr Hur Hb Ef0. rewrite handle_events_unfold.
  destruct (handle_writables c ev s) as [s1 wt] eqn:Ew.
  assert (Hc : c_w ev && has_buffer (work s) = true) by now rewrite Hcw, Hb.
  destruct (handle_writables_spec _ _ _ _ _ Hc Ew) as [w2 [fr [Ef [_ [_ [Hw [Hrt [_ [_ [_ Hm]]]]]]]]]].
  rewrite Ef0 in Ef. assert (Hw2 : w2 = w') by congruence. assert (Hfr : fr = Flushed n) by congruence.
  rewrite Hfr in Hm. rewrite Hw2 in *. clear Ef Hfr Hw2.
  destruct Hm as [Hwt Hmf].
  destruct wt.
  { intros E; inv_pair; hsimpl. repeat split; auto; try discriminate; congruence. }
  destruct (write_phase c ev s1) as [s2 wt2] eqn:Ep.
  destruct (write_phase_frame _ _ _ _ _ Ep) as [A [B [_ [_ [_ F]]]]].
  destruct (wt2 && negb (has_buffer (work s2))).
  { intros E; inv_pair. repeat split; auto; try discriminate; congruence. }
  set (s3 := if wt2 then set_reads_teared true s2 else s2).
  assert (H3 : work s3 = w' /\ must_flush s3 = must_flush s1 /\ (reads_teared s = true -> reads_teared s3 = true)).
  { unfold s3. destruct wt2; hsimpl; repeat split; auto; congruence. }
  destruct H3 as [W3 [M3 R3]].
  destruct (read_phase c ev s3) as [s4 r4] eqn:Er.
  destruct (read_phase_idle _ _ _ _ _ Hcr Hur Er) as [W4 [M4 [R4 N4]]].
  destruct r4; [|congruence].
  destruct (reads_teared s4 && negb (has_buffer (work s4))); intros E; inv_pair;
    repeat split; auto; try discriminate; congruence.
Qed.

Theorem drains c evs : forall s,
  Forall drain_ev evs -> (backlog (work s) <= length evs)%nat ->
  exists s' r, run c s evs = (s', r) /\ r <> Raised /\
               buffer (work s') = [] /\ sent (work s') = sent (work s) ++ pending (work s).
Proof.
  induction evs as [|ev t IH]; intros s Hd Hlen.
  - exists s, Continue. cbn [run]. split; [reflexivity|]. split; [discriminate|].
    assert (Hb : buffer (work s) = []) by (apply backlog_zero; cbn in Hlen; lia).
    split; [exact Hb|]. unfold pending. rewrite Hb. cbn. now rewrite app_nil_r.
  - inversion Hd as [|? ? Hev Ht]; subst. cbn [run].
    destruct (step c s ev) as [s1 r1] eqn:Es. unfold step in Es.
    destruct (has_buffer (work s)) eqn:Hb.
    + destruct (select_drain s ev Hev Hb) as [A [B [C D]]].
      destruct (flush (max_send c) (c_send ev) (work s)) as [w' fr] eqn:Ef'.
      destruct (flush_backlog _ _ _ _ _ (proj1 (proj2 Hev)) Hb Ef') as [Hlt [n ->]].
      destruct (drain_step _ _ _ _ _ _ _ A B C D Hb Ef' Es) as [Hw [Hnr _]].
      pose proof (flush_conservation _ _ _ _ _ Ef') as Hcons.
      destruct r1.
      * destruct (IH s1 Ht) as [s' [r [Hrun [Hr [Hbuf Hsent]]]]]; [rewrite Hw; cbn in Hlen; lia|].
        exists s', r. repeat split; auto. rewrite Hsent, Hw. exact Hcons.
      * exists s1, Teardown. split; [reflexivity|]. split; [discriminate|].
        assert (Hbuf : buffer (work s1) = []).
        { eapply teardown_flushed; [exact Es|]. unfold client_send_failed.
          rewrite (effective_no_error _ B). now rewrite andb_false_r. }
        split; [exact Hbuf|]. rewrite Hw in *. rewrite <- Hcons. unfold pending. rewrite Hbuf. cbn. now rewrite app_nil_r.
      * congruence.
    + assert (Hc : c_w (select s ev) && has_buffer (work s) = false) by (rewrite Hb; apply andb_false_r).
      assert (Hcr : c_r (select s ev) = false).
      { destruct Hev as [_ [_ [C _]]]. unfold select. cbn. now rewrite C. }
      assert (Hur : u_r (select s ev) = false).
      { destruct Hev as [_ [_ [_ D]]]. unfold select. cbn. now rewrite D. }
      assert (Hws : work s1 = work s /\ r1 <> Raised).
      { revert Es. rewrite handle_events_unfold. rewrite (handle_writables_idle _ _ _ Hc).
        destruct (write_phase c (select s ev) s) as [s2 wt2] eqn:Ep.
        destruct (write_phase_frame _ _ _ _ _ Ep) as [W _].
        destruct (wt2 && negb (has_buffer (work s2))); [intros E; inv_pair; split; [auto|discriminate]|].
        destruct (read_phase c (select s ev) (if wt2 then set_reads_teared true s2 else s2)) as [s4 r4] eqn:Er.
        destruct (read_phase_idle _ _ _ _ _ Hcr Hur Er) as [W4 [_ [_ N4]]].
        assert (work s4 = work s) by (rewrite W4; destruct wt2; hsimpl; exact W).
        destruct r4; [|congruence].
        destruct (reads_teared s4 && negb (has_buffer (work s4))); intros E; inv_pair; split; auto; discriminate. }
      destruct Hws as [Hws Hnr].
      assert (Hbuf : buffer (work s) = []) by now apply has_buffer_false.
      destruct r1.
      * destruct (IH s1 Ht) as [s' [r [Hrun [Hr [Hbuf' Hsent]]]]].
        { rewrite Hws. unfold backlog, pending. rewrite Hbuf. cbn. lia. }
        exists s', r. repeat split; auto. now rewrite Hsent, Hws.
      * exists s1, Teardown. split; [reflexivity|]. split; [discriminate|]. rewrite Hws.
        split; [exact Hbuf|]. unfold pending. rewrite Hbuf. cbn. now rewrite app_nil_r.
      * congruence.
Qed.

(* C07: once a teardown is pending, enough effective client-writable events reach the teardown, with
   everything delivered *)
Theorem drains_to_teardown c evs : forall s,
  must_flush s = true \/ reads_teared s = true -> has_buffer (work s) = true ->
  Forall drain_ev evs -> (backlog (work s) <= length evs)%nat ->
  exists s', run c s evs = (s', Teardown) /\
             buffer (work s') = [] /\ sent (work s') = sent (work s) ++ pending (work s).
Proof.
  induction evs as [|ev t IH]; intros s Hp Hb Hd Hlen.
  - exfalso. apply has_buffer_true in Hb. unfold backlog in Hlen. destruct (buffer (work s)); [congruence|cbn in Hlen; lia].
  - inversion Hd as [|? ? Hev Ht]; subst. cbn [run].
    destruct (step c s ev) as [s1 r1] eqn:Es. unfold step in Es.
    destruct (select_drain s ev Hev Hb) as [A [B [C D]]].
    destruct (flush (max_send c) (c_send ev) (work s)) as [w' fr] eqn:Ef'.
    destruct (flush_backlog _ _ _ _ _ (proj1 (proj2 Hev)) Hb Ef') as [Hlt [n ->]].
    destruct (drain_step _ _ _ _ _ _ _ A B C D Hb Ef' Es) as [Hw [Hnr [Hmf Hrt]]].
    pose proof (flush_conservation _ _ _ _ _ Ef') as Hcons.
    destruct (has_buffer w') eqn:Hb'.
    + assert (r1 = Continue).
      { destruct r1; [reflexivity| |congruence]. exfalso.
        assert (Hbuf : buffer (work s1) = []).
        { eapply teardown_flushed; [exact Es|]. unfold client_send_failed.
          rewrite (effective_no_error _ B). now rewrite andb_false_r. }
        rewrite Hw in Hbuf. apply has_buffer_true in Hb'. congruence. }
      subst r1.
      destruct (IH s1) as [s' [Hrun [Hbuf Hsent]]]; auto.
      * destruct Hp as [Hp|Hp]; [left|right; auto]. rewrite (Hmf eq_refl), Hp. reflexivity.
      * now rewrite Hw.
      * rewrite Hw. cbn in Hlen. lia.
      * exists s'. repeat split; auto. rewrite Hsent, Hw. exact Hcons.
    + assert (Hbuf : buffer w' = []) by now apply has_buffer_false.
      assert (r1 = Teardown).
      { eapply teardown_prompt; [exact Hp|exact A|exact Hb|exact Ef'|exact Hbuf|exact Es]. }
      subst r1. exists s1. split; [reflexivity|]. rewrite Hw. split; [exact Hbuf|].
      rewrite <- Hcons. unfold pending. rewrite Hbuf. cbn. now rewrite app_nil_r.
Qed.

(* ------------------------------------------------------------------------------------------
   the ghost histories only ever grow by what a recv() of this very call returned
   ------------------------------------------------------------------------------------------ *)
Definition recv_data (r : recv_res) : bytes := match r with RData b => b | _ => [] end.

(* the client history grows by the whole piece recv() returned, or — in the call that completes the first
   request — by the part of that piece that follows the request (req_rem) *)
Definition cl_grows (ev : event) (s s' : hstate) : Prop :=
  g_cl_rcvd s' = g_cl_rcvd s \/
  (c_r ev = true /\ (g_cl_rcvd s' = g_cl_rcvd s ++ recv_data (c_recv ev) \/
                     g_cl_rcvd s' = g_cl_rcvd s ++ req_rem (req ev))).

Definition ghost_step (ev : event) (s s' : hstate) : Prop :=
  (g_up_rcvd s' = g_up_rcvd s \/ (u_r ev = true /\ g_up_rcvd s' = g_up_rcvd s ++ recv_data (u_recv ev))) /\
  cl_grows ev s s'.

Definition ghost_same (s s' : hstate) : Prop :=
  g_up_rcvd s' = g_up_rcvd s /\ g_cl_rcvd s' = g_cl_rcvd s.

Lemma ghost_same_step ev s s' : ghost_same s s' -> ghost_step ev s s'.
Proof. intros [A B]. split; now left. Qed.

Lemma ghost_step_trans ev s1 s2 s3 :
  ghost_same s1 s2 -> ghost_step ev s2 s3 -> ghost_step ev s1 s3.
Proof. intros [A B] [C D]. unfold ghost_step, cl_grows in *. rewrite <- A, <- B. auto. Qed.

Lemma ghost_step_trans' ev s1 s2 s3 :
  ghost_step ev s1 s2 -> ghost_same s2 s3 -> ghost_step ev s1 s3.
Proof. intros [C D] [A B]. unfold ghost_step, cl_grows in *. rewrite A, B. auto. Qed.

Ltac brk_all :=
  repeat (match goal with
          | H : context [match ?x with _ => _ end] |- _ => destruct x eqn:?
          end).

Lemma ghost_handle_writables c ev s s' b : handle_writables c ev s = (s', b) -> ghost_same s s'.
Proof.
  unfold handle_writables, base_handle_writables. intros E. hsimpl.
  brk_all; repeat inv_pair; now split.
Qed.

Lemma ghost_write_phase c ev s s' b : write_phase c ev s = (s', b) -> ghost_same s s'.
Proof.
  unfold write_phase, write_to_descriptors. intros E. brk_all; repeat inv_pair; unfold ghost_same; hsimpl; now split.
Qed.

Lemma ghost_parse_first_request c ev s s' r : parse_first_request c ev s = (s', r) -> ghost_same s s'.
Proof.
  unfold parse_first_request. intros E. brk_in E; inv_pair; rewrite ?client_queue_all_spec; now split.
Qed.

Lemma ghost_on_client_data ev s raw s' r :
  on_client_data ev s raw = (s', r) ->
  g_up_rcvd s' = g_up_rcvd s /\ (g_cl_rcvd s' = g_cl_rcvd s \/ g_cl_rcvd s' = g_cl_rcvd s ++ raw).
Proof.
  unfold on_client_data. intros E.
  brk_all; repeat inv_pair; rewrite ?client_queue_all_spec; hsimpl; split; auto.
Qed.

(* precise form at the handle_data boundary: whole piece once the first request is complete, only the
   remainder in the call that completes it *)
Lemma ghost_handle_data c ev s data s' r :
  handle_data c ev s data = (s', r) ->
  g_up_rcvd s' = g_up_rcvd s /\
  (g_cl_rcvd s' = g_cl_rcvd s \/
   (req_complete s = true /\ g_cl_rcvd s' = g_cl_rcvd s ++ data) \/
   (req_complete s = false /\ g_cl_rcvd s' = g_cl_rcvd s ++ req_rem (req ev))).
Proof.
  unfold handle_data. destruct (req_complete s) eqn:Er; cbn [negb].
  - intros E. destruct (ghost_on_client_data _ _ _ _ _ E) as [A [B|B]]; split; auto.
  - destruct (parse_first_request c ev s) as [s1 o] eqn:Ep.
    destruct (ghost_parse_first_request _ _ _ _ _ Ep) as [A B].
    destruct o as [[|]|]; try (intros E; inv_pair; split; auto).
    destruct (req_rem (req ev)) as [|x rem] eqn:Erem; [intros E; inv_pair; split; auto|].
    destruct (req_complete s1); [|intros E; inv_pair; split; auto].
    destruct (plugin s1); [intros E; inv_pair; split; auto| |]; intros E;
      destruct (ghost_on_client_data _ _ _ _ _ E) as [A' [B'|B']]; (split; [congruence|]);
      try (left; congruence); right; right; (split; [reflexivity|congruence]).
Qed.

Lemma ghost_handle_readables c ev s s' r :
  handle_readables c ev s = (s', r) ->
  g_up_rcvd s' = g_up_rcvd s /\ cl_grows ev s s'.
Proof.
  unfold handle_readables, cl_grows. destruct (c_r ev) eqn:Ecr; [|intros E; inv_pair; split; auto].
  unfold base_handle_readables. rewrite Ecr.
  destruct (c_recv ev) as [data| | | |] eqn:Erc; try (intros E; inv_pair; split; auto).
  destruct data as [|x data]; [intros E; inv_pair; split; auto|].
  set (s0 := note_client_io (now ev) (set_last_activity (now ev) s)).
  destruct (handle_data c ev s0 (x :: data)) as [s1 o] eqn:Eh.
  destruct (ghost_handle_data _ _ _ _ _ _ Eh) as [A B].
  assert (G : g_up_rcvd s1 = g_up_rcvd s /\
              (g_cl_rcvd s1 = g_cl_rcvd s \/
               true = true /\ (g_cl_rcvd s1 = g_cl_rcvd s ++ recv_data (RData (x :: data)) \/
                               g_cl_rcvd s1 = g_cl_rcvd s ++ req_rem (req ev)))).
  { split; [exact A|]. cbn [recv_data]. destruct B as [B|[[_ B]|[_ B]]]; auto. }
  destruct o as [[|]|]; [destruct (has_buffer (work s1))| |]; intros E; inv_pair; hsimpl; exact G.
Qed.

Lemma ghost_read_from_descriptors c ev s s' r :
  read_from_descriptors c ev s = (s', r) ->
  g_cl_rcvd s' = g_cl_rcvd s /\
  (g_up_rcvd s' = g_up_rcvd s \/ (u_r ev = true /\ g_up_rcvd s' = g_up_rcvd s ++ recv_data (u_recv ev))).
Proof.
  unfold read_from_descriptors. intros E.
  destruct (plugin s); try (inv_pair; split; auto).
  destruct (upstream s); try (inv_pair; split; auto).
  destruct (u_r ev) eqn:Eur; try (inv_pair; split; auto).
  destruct (u_recv ev) as [raw| | |[|]|] eqn:Eu; try (inv_pair; split; auto).
  destruct raw; inv_pair; hsimpl; split; auto.
Qed.

Lemma ghost_read_phase c ev s s' r : read_phase c ev s = (s', r) -> ghost_step ev s s'.
Proof.
  unfold read_phase. destruct (reads_teared s); [intros E; inv_pair; split; now left|].
  destruct (handle_readables c ev s) as [sx o] eqn:Eh.
  destruct (ghost_handle_readables _ _ _ _ _ Eh) as [A B].
  assert (Gx : ghost_step ev s sx) by (split; [now left|exact B]).
  destruct o as [[|]|]; try (intros E; inv_pair; exact Gx).
  destruct (plugin sx); try (intros E; inv_pair; exact Gx);
    destruct (read_from_descriptors c ev sx) as [sy o2] eqn:Er;
    destruct (ghost_read_from_descriptors _ _ _ _ _ Er) as [C D];
    destruct o2; intros E; inv_pair; unfold ghost_step, cl_grows in *; hsimpl; rewrite A in D; rewrite C; (split; [exact D|exact B]).
Qed.

Theorem ghost_handle_events c ev s s' r : handle_events c ev s = (s', r) -> ghost_step ev s s'.
Proof.
  rewrite handle_events_unfold.
  destruct (handle_writables c ev s) as [s1 wt] eqn:Ew.
  pose proof (ghost_handle_writables _ _ _ _ _ Ew) as G1.
  destruct wt; [intros E; inv_pair; apply ghost_same_step; exact G1|].
  destruct (write_phase c ev s1) as [s2 wt2] eqn:Ep.
  pose proof (ghost_write_phase _ _ _ _ _ Ep) as G2.
  assert (G12 : ghost_same s s2) by (destruct G1, G2; split; congruence).
  destruct (wt2 && negb (has_buffer (work s2))); [intros E; inv_pair; now apply ghost_same_step|].
  destruct (read_phase c ev (if wt2 then set_reads_teared true s2 else s2)) as [s4 r4] eqn:Er.
  pose proof (ghost_read_phase _ _ _ _ _ Er) as G4.
  assert (G : ghost_step ev s s4).
  { eapply ghost_step_trans; [|exact G4]. destruct wt2; exact G12. }
  destruct r4; [|intros E; inv_pair; exact G].
  destruct (reads_teared s4 && negb (has_buffer (work s4))); intros E; inv_pair; exact G.
Qed.

(* ------------------------------------------------------------------------------------------
   C01: the relay invariants along every event list
   ------------------------------------------------------------------------------------------ *)
Theorem relay_invariant_client c t0 evs s r :
  run c (init t0) evs = (s, r) -> established s ->
  delivered_client s ++ pending_client s = ack_of c s ++ g_up_rcvd s.
Proof.
  intros Hr [_ [u Hu]]. destruct (inv_run _ _ _ _ _ (inv_init c t0) Hr) as [H1 [_ H3]].
  unfold inv_up in H3. rewrite Hu in H3. destruct H3 as [_ [_ [C _]]].
  unfold delivered_client, pending_client. now rewrite H1.
Qed.

Theorem relay_invariant_upstream c t0 evs s r :
  run c (init t0) evs = (s, r) -> established s -> is_tunnel s = true ->
  delivered_upstream s ++ pending_upstream s = g_cl_rcvd s.
Proof.
  intros Hr [_ [u Hu]] Ht. destruct (inv_run _ _ _ _ _ (inv_init c t0) Hr) as [_ [_ H3]].
  unfold inv_up in H3. rewrite Hu in H3. destruct H3 as [_ [_ [_ D]]].
  unfold delivered_upstream, pending_upstream. rewrite Hu. auto.
Qed.

(* before the exchange is established nothing has been received from upstream, and the only bytes
   ever queued for the client in an established exchange are ack ++ received *)
Theorem client_stream_conservation c t0 evs s r :
  run c (init t0) evs = (s, r) ->
  delivered_client s ++ pending_client s = g_cl_queued s.
Proof. intros Hr. now destruct (inv_run _ _ _ _ _ (inv_init c t0) Hr) as [H1 _]. Qed.

(* C07 along every event list *)
Theorem run_teardown_flushed c t0 evs s :
  Forall (fun ev => send_error (c_send ev) = false) evs ->
  run c (init t0) evs = (s, Teardown) ->
  pending_client s = [] /\ delivered_client s = g_cl_queued s.
Proof.
  intros Hne. assert (Hi := inv_init c t0). revert Hi. generalize (init t0) as s0.
  induction evs as [|ev t IH]; intros s0 Hi; cbn [run]; [discriminate|].
  inversion Hne as [|? ? He Ht]; subst.
  destruct (step c s0 ev) as [s1 r1] eqn:Es.
  pose proof (inv_step _ _ _ _ _ Hi Es) as H1.
  destruct r1; intros E.
  - eapply IH; eauto.
  - inv_pair. unfold step in Es. eapply teardown_all_delivered; [exact Hi|exact Es|].
    unfold client_send_failed, select. cbn. rewrite He. apply andb_false_r.
  - discriminate.
Qed.

(* ------------------------------------------------------------------------------------------
   C07: threaded mode, the blocking _flush of shutdown()
   ------------------------------------------------------------------------------------------ *)
Theorem threaded_flush_conservation max sel w w' r :
  threaded_flush max sel w = (w', r) -> sent w' ++ pending w' = sent w ++ pending w.
Proof.
  revert w; induction sel as [|[o|] t IH]; intros w; cbn [threaded_flush]; destruct (has_buffer w) eqn:Hb;
    try (intros E; inv_pair; reflexivity).
  - destruct (flush max o w) as [w1 fr] eqn:Ef. pose proof (flush_conservation _ _ _ _ _ Ef) as Hc.
    destruct fr; intros E; [rewrite (IH _ E); exact Hc|inv_pair; exact Hc|inv_pair; exact Hc].
  - apply IH.
Qed.

(* when _flush returns normally the buffer is empty and everything was handed to the socket *)
Theorem threaded_flush_complete max sel w w' n :
  threaded_flush max sel w = (w', Some (Flushed n)) ->
  buffer w' = [] /\ sent w' = sent w ++ pending w.
Proof.
  intros E. pose proof (threaded_flush_conservation _ _ _ _ _ E) as Hc.
  assert (Hb : buffer w' = []).
  { revert w E Hc; induction sel as [|[o|] t IH]; intros w; cbn [threaded_flush];
      destruct (has_buffer w) eqn:Hb; intros E Hc; try discriminate;
      try (inv_pair; now apply has_buffer_false).
    - destruct (flush max o w) as [w1 fr] eqn:Ef. destruct fr; try discriminate.
      eapply IH; [exact E|]. eapply threaded_flush_conservation; eauto.
    - eapply IH; eauto. }
  split; [exact Hb|]. unfold pending in Hc at 1. rewrite Hb in Hc. cbn in Hc. now rewrite app_nil_r in Hc.
Qed.

Definition sel_effective (x : option outcome) : bool :=
  match x with None => true | Some o => effective o end.
Fixpoint count_ready (sel : list (option outcome)) : nat :=
  match sel with [] => O | None :: t => count_ready t | Some _ :: t => S (count_ready t) end.

(* it does return normally when the client keeps reading: every ready report is followed by a send
   that accepts k > 0 bytes, and there are at least backlog many of them (time-outs in between do not matter) *)
Theorem threaded_flush_drains max sel : forall w,
  forallb sel_effective sel = true -> (backlog w <= count_ready sel)%nat ->
  exists w', threaded_flush max sel w = (w', Some (Flushed 0)) /\ buffer w' = [] /\ sent w' = sent w ++ pending w.
Proof.
  induction sel as [|[o|] t IH]; intros w Heff Hlen; cbn [threaded_flush].
  - cbn in Hlen. assert (Hb : buffer w = []) by (apply backlog_zero; lia).
    assert (has_buffer w = false) as -> by now apply has_buffer_false.
    exists w. split; [reflexivity|]. split; [exact Hb|]. unfold pending. rewrite Hb. cbn. now rewrite app_nil_r.
  - cbn [forallb sel_effective] in Heff. apply andb_true_iff in Heff as [Ho Ht].
    destruct (has_buffer w) eqn:Hb.
    + destruct (flush max o w) as [w1 fr] eqn:Ef.
      destruct (flush_backlog _ _ _ _ _ Ho Hb Ef) as [Hlt [n ->]].
      cbn [count_ready] in Hlen. destruct (IH w1 Ht ltac:(lia)) as [w' [E1 [E2 E3]]].
      exists w'. split; [exact E1|]. split; [exact E2|]. rewrite E3. apply (flush_conservation _ _ _ _ _ Ef).
    + exists w. split; [reflexivity|]. assert (Hbuf : buffer w = []) by now apply has_buffer_false.
      split; [exact Hbuf|]. unfold pending. rewrite Hbuf. cbn. now rewrite app_nil_r.
  - cbn [forallb sel_effective] in Heff. cbn [count_ready] in Hlen.
    destruct (has_buffer w) eqn:Hb.
    + apply IH; auto.
    + exists w. split; [reflexivity|]. assert (Hbuf : buffer w = []) by now apply has_buffer_false.
      split; [exact Hbuf|]. unfold pending. rewrite Hbuf. cbn. now rewrite app_nil_r.
Qed.

(* threaded shutdown after ANY end of the loop (teardown, idle, exception): what was queued is out *)
Theorem threaded_shutdown_delivers c sel s :
  threadless c = false ->
  forallb sel_effective sel = true -> (backlog (work s) <= count_ready sel)%nat ->
  let s' := shutdown c sel s in
  closed (work s') = true /\ buffer (work s') = [] /\ sent (work s') = sent (work s) ++ pending (work s).
Proof.
  intros Ht Heff Hlen. cbn zeta. unfold shutdown. rewrite Ht.
  destruct (threaded_flush_drains (max_send c) sel (work s) Heff Hlen) as [w' [E1 [E2 E3]]].
  rewrite E1. unfold close_upstream. hsimpl.
  destruct (upstream s); hsimpl; cbn [close closed buffer sent]; auto.
Qed.

(* ------------------------------------------------------------------------------------------
   C01, e222aa4: CONNECT and tunnel payload in ONE segment — the bytes behind the request are queued
   for the upstream in the very call that establishes the tunnel, exactly once
   ------------------------------------------------------------------------------------------ *)
Lemma connect_with_payload c ev s data rebuilt rem :
  req_complete s = false -> req ev = RProxy true rebuilt rem ->
  exists s', handle_data c ev s data = (s', Some false) /\
    established s' /\ is_tunnel s' = true /\
    delivered_upstream s' = [] /\ pending_upstream s' = rem /\
    g_cl_rcvd s' = g_cl_rcvd s ++ rem /\
    pending (work s') = pending (work s) ++ ack c.
Proof.
  intros Hrc Hreq. unfold handle_data, parse_first_request. rewrite Hrc, Hreq. cbn [negb req_rem].
  destruct rem as [|x rem].
  - eexists. split; [reflexivity|]. unfold established, delivered_upstream, pending_upstream; hsimpl.
    repeat split; eauto. + now rewrite app_nil_r. + apply pending_queue.
  - hsimpl. unfold on_client_data; hsimpl.
    eexists. split; [reflexivity|]. unfold established, delivered_upstream, pending_upstream; hsimpl.
    repeat split; eauto.
    + unfold pending, queue, new_conn; cbn [buffer concat app]. now rewrite app_nil_r.
    + apply pending_queue.
Qed.

(* faabfc0: whatever the final flush runs into (would-block, broken pipe, reset, any OS error, script
   exhausted), shutdown() closes the client socket AND runs the close callbacks (upstream closed), in both modes *)
Theorem shutdown_always_closes c sel s :
  let s' := shutdown c sel s in
  closed (work s') = true /\
  match upstream s with
  | Some _ => exists u', upstream s' = Some u' /\ closed u' = true
  | None => upstream s' = None
  end.
Proof.
  cbn zeta.
  assert (H : forall w, let s' := close_upstream (set_work (close w) s) in
              closed (work s') = true /\
              match upstream s with
              | Some _ => exists u', upstream s' = Some u' /\ closed u' = true
              | None => upstream s' = None
              end).
  { intros w. cbn zeta. unfold close_upstream. cbn [upstream set_work].
    destruct (upstream s) as [u|] eqn:E; hsimpl; cbn [close closed].
    - split; [reflexivity|]. eexists. split; reflexivity.
    - split; [reflexivity|exact E]. }
  unfold shutdown. destruct (threadless c); [apply H|].
  destruct (threaded_flush (max_send c) sel (work s)) as [w r]. apply H.
Qed.
