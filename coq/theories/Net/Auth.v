(* Net/Auth.v — proxy authentication and the request record the proxy plugin chains work on.
   Definitions only (lemmas: AuthFacts.v).

   Python modelled, function for function:
     proxy/http/parser/parser.py   HttpParser.has_header/header/add_header/add_headers/del_header/
                                   del_headers/_process_header (header-line ingestion)/build
     proxy/common/utils.py         build_http_header/build_http_pkt/build_http_response/build_http_request
     proxy/http/responses.py       PROXY_AUTH_FAILED_RESPONSE_PKT, BAD_GATEWAY_RESPONSE_PKT,
                                   PROXY_TUNNEL_ESTABLISHED_RESPONSE_PKT
     proxy/http/exception/*.py     HttpRequestRejected.response, ProxyAuthenticationFailed.response
     proxy/http/proxy/auth.py      AuthPlugin.before_upstream_connection
     proxy/common/flag.py          auth_code = base64.b64encode(bytes_(basic_auth))   (lines 143-161)

   A request is the abstract *parsed* record: how the bytes of the client were cut into this
   record is the parser's business (C03); the handler calls the hooks below only once the first
   request is complete.  [rq_headers] is HttpParser.headers: insertion-ordered dict
   lower-cased name -> (name as received, value); Python's None and {} are identified (every
   use in the anchored code treats them alike: `headers or {}`, `if not self.headers`,
   `if self.headers and ...`).  [rq_body] is what _get_body_or_chunks() returns (C15). *)
From PM Require Import Lib.Bytes Lib.PyStr Ws.Sha1.
From Coq Require Import ZArith.

Definition hdr := (bytes * bytes)%type.          (* (name as received, value) *)
Definition headers := dict hdr.

Record request := mkRequest {
  rq_method : bytes;
  rq_host : option bytes;
  rq_port : option Z;         (* int(...) of the port text: may be 0, negative or above 65535 *)
  rq_path : option bytes;
  rq_version : bytes;
  rq_headers : headers;
  rq_body : option bytes;
  rq_tunnel : bool;           (* _is_https_tunnel: method == CONNECT *)
  rq_buffer : bytes           (* HttpParser.buffer: bytes received after the end of this message and not yet handed on ([] = None).
                                 It belongs to the parser OBJECT: a hook that returns a new object returns one with an empty buffer *)
}.

Definition set_headers (r : request) (h : headers) : request :=
  mkRequest (rq_method r) (rq_host r) (rq_port r) (rq_path r) (rq_version r) h (rq_body r) (rq_tunnel r) (rq_buffer r).
Definition set_buffer (r : request) (b : bytes) : request :=
  mkRequest (rq_method r) (rq_host r) (rq_port r) (rq_path r) (rq_version r) (rq_headers r) (rq_body r) (rq_tunnel r) b.

(* ---- constants ---- *)
Definition PROXY_AUTHORIZATION : bytes := bs "proxy-authorization".   (* httpHeaders.PROXY_AUTHORIZATION *)
Definition PROXY_CONNECTION : bytes := bs "proxy-connection".
Definition BASIC : bytes := bs "basic".
Definition HTTP_1_1 : bytes := bs "HTTP/1.1".
Definition HTTP_1_0 : bytes := bs "HTTP/1.0".

(* ---- HttpParser header helpers ---- *)
Definition has_header (r : request) (key : bytes) : bool := dict_has (lower key) (rq_headers r).
Definition header (r : request) (key : bytes) : result bytes :=
  match dict_get (lower key) (rq_headers r) with Some (_, v) => Ok v | None => Err KeyError end.
Definition add_header (key value : bytes) (hs : headers) : headers := dict_set (lower key) (key, value) hs.
Definition add_headers (l : list (bytes * bytes)) (hs : headers) : headers :=
  fold_left (fun h kv => add_header (fst kv) (snd kv) h) l hs.
Definition del_header (key : bytes) (hs : headers) : headers := dict_del (lower key) hs.
Definition del_headers (keys : list bytes) (hs : headers) : headers :=
  fold_left (fun h k => del_header (lower k) h) keys hs.

(* _process_header: `parts = raw.split(b':', 1)`, both sides stripped, then add_header — a
   repeated header name overwrites the earlier line in place (the dict keeps the LAST value at
   the FIRST position). *)
Definition process_header (raw : bytes) (hs : headers) : headers :=
  match split_once [COLON] raw with
  | Some (k, v) => add_header (strip k) (strip v) hs
  | None => add_header (strip raw) [] hs
  end.
Definition headers_of_lines (ls : list bytes) : headers := fold_left (fun h l => process_header l h) ls [].

(* ---- packet builders (common/utils.py) ---- *)
Definition build_http_header (k v : bytes) : bytes := k ++ [COLON; SP] ++ v.

Definition body_or_empty (b : option bytes) : bytes := match b with Some x => x | None => [] end.

(* _header_key (fix 13aa563): the spelling under which the header is already present, else the given one *)
Fixpoint header_key (hs : dict bytes) (name : bytes) : bytes :=
  match hs with
  | [] => name
  | (k, _) :: t => if bytes_eqb (lower k) (lower name) then k else header_key t name
  end.

Definition build_http_pkt (line : list bytes) (hs : dict bytes) (body : option bytes) (conn_close : bool) : bytes :=
  let hs := if conn_close then dict_set (header_key hs (bs "Connection")) (bs "close") hs else hs in
  join [SP] line ++ CRLF
  ++ concat (map (fun kv => build_http_header (fst kv) (snd kv) ++ CRLF) hs)
  ++ CRLF ++ body_or_empty body.

Definition has_transfer_encoding (hs : dict bytes) : bool :=
  existsb (fun kv => bytes_eqb (lower (fst kv)) (bs "transfer-encoding")) hs.

Definition nonempty (b : option bytes) : option bytes :=      (* Python truthiness of Optional[bytes] *)
  match b with Some (x :: t) => Some (x :: t) | _ => None end.

Definition build_http_response (status : N) (reason : option bytes) (hs : dict bytes) (body : option bytes)
    (conn_close no_cl : bool) : bytes :=
  let line := [HTTP_1_1; dec_of_N status] ++ match nonempty reason with Some r => [r] | None => [] end in
  let hs := if negb (has_transfer_encoding hs) && negb no_cl
            then dict_set (header_key hs (bs "Content-Length"))
                   (match nonempty body with Some b => dec_of_N (len b) | None => bs "0" end) hs
            else hs in
  build_http_pkt line hs body conn_close.

(* build_http_request(method, url, version, headers=, body=, no_ua=True) *)
Definition build_http_request (method url version : bytes) (hs : dict bytes) (body : option bytes) : bytes :=
  let hs := match nonempty body with
            | Some b => if has_transfer_encoding hs then hs
                        else dict_set (header_key hs (bs "Content-Length")) (dec_of_N (len b)) hs
            | None => hs
            end in
  build_http_pkt [method; url; version] hs body false.

Definition mem_bytes (x : bytes) (l : list bytes) : bool := existsb (bytes_eqb x) l.

(* the dict comprehension of HttpParser.build: {headers[k][0]: headers[k][1] for k in headers if k.lower() not in disable_headers} *)
Definition build_headers (disable : list bytes) (hs : headers) : dict bytes :=
  fold_left (fun d e => if mem_bytes (lower (fst e)) disable then d else dict_set (fst (snd e)) (snd (snd e)) d) hs [].

Definition is_empty (b : bytes) : bool := match b with [] => true | _ => false end.

(* HttpParser.build(disable_headers=...) with for_proxy=False, host=None *)
Definition build (disable : list bytes) (r : request) : result bytes :=
  if is_empty (rq_method r) || is_empty (rq_version r) then Err AssertionError else
  let path := match nonempty (rq_path r) with Some p => p | None => bs "/" end in
  Ok (build_http_request (rq_method r) path (rq_version r) (build_headers disable (rq_headers r)) (rq_body r)).

(* ---- canned responses; [agent] = PROXY_AGENT_HEADER_VALUE (b'proxy.py v' + version) ---- *)
Definition PROXY_AUTH_FAILED_RESPONSE_PKT (agent : bytes) : bytes :=
  build_http_response 407 (Some (bs "Proxy Authentication Required"))
    [(bs "Proxy-agent", agent); (bs "Proxy-Authenticate", bs "Basic")]
    (Some (bs "Proxy Authentication Required")) true true.
Definition BAD_GATEWAY_RESPONSE_PKT (agent : bytes) : bytes :=
  build_http_response 502 (Some (bs "Bad Gateway")) [(bs "Proxy-agent", agent)] (Some (bs "Bad Gateway")) true true.
Definition PROXY_TUNNEL_ESTABLISHED_RESPONSE_PKT : bytes :=
  build_http_response 200 (Some (bs "Connection established")) [] None false true.

(* HttpRequestRejected(status_code, reason, headers, body).response(): None without a status code *)
Definition HttpRequestRejected_response (status : option N) (reason : option bytes) (hs : dict bytes)
    (body : option bytes) : option bytes :=
  match status with
  | Some s => if s =? 0 then None else Some (build_http_response s reason hs body true false)
  | None => None
  end.

(* ---- what a plugin hook does with its argument ----
   Pass x  : returns x (possibly modified)
   Drop    : returns None
   Reject r: raises an HttpProtocolException whose .response(request) is r
             (HttpRequestRejected -> its packet or None; ProxyAuthenticationFailed -> the 407)
   Raise e : raises any other exception *)
Inductive outcome (A : Type) := Pass (a : A) | Drop | Reject (resp : option bytes) | Raise (e : exn).
Arguments Pass {A} a.
Arguments Drop {A}.
Arguments Reject {A} resp.
Arguments Raise {A} e.

(* ---- flag.py: auth_code ---- *)
Definition truthy (c : option bytes) : bool := match c with Some (_ :: _) => true | _ => false end.
Definition auth_code_of (basic_auth : option bytes) : option bytes :=
  if truthy basic_auth then Some (b64encode (body_or_empty basic_auth)) else None.

(* ---- auth.py ---- *)
(* the three tests of AuthPlugin.before_upstream_connection after `if self.flags.auth_code:` *)
Definition auth_ok (code : bytes) (hs : headers) : bool :=
  match dict_get PROXY_AUTHORIZATION hs with
  | None => false                                   (* header absent *)
  | Some (_, v) =>
      match split_ws v with                         (* parts = value.split() *)
      | [s; c] => bytes_eqb (lower s) BASIC && bytes_eqb c code
      | _ => false                                  (* len(parts) != 2 *)
      end
  end.

Definition AuthPlugin_before_upstream_connection (agent : bytes) (auth_code : option bytes) (r : request)
    : outcome request :=
  if truthy auth_code then
    if auth_ok (body_or_empty auth_code) (rq_headers r) then Pass r
    else Reject (Some (PROXY_AUTH_FAILED_RESPONSE_PKT agent))
  else Pass r.

(* ---- decidable equalities used by the correspondence ---- *)
Definition hdr_eqb (x y : hdr) : bool := bytes_eqb (fst x) (fst y) && bytes_eqb (snd x) (snd y).
Fixpoint list_eqb {A} (eqb : A -> A -> bool) (x y : list A) : bool :=
  match x, y with
  | [], [] => true
  | a :: x', c :: y' => eqb a c && list_eqb eqb x' y'
  | _, _ => false
  end.
Definition headers_eqb (x y : headers) : bool :=
  list_eqb (fun a c => bytes_eqb (fst a) (fst c) && hdr_eqb (snd a) (snd c)) x y.
Definition request_eqb (x y : request) : bool :=
  bytes_eqb (rq_method x) (rq_method y)
  && option_eqb bytes_eqb (rq_host x) (rq_host y)
  && option_eqb Z.eqb (rq_port x) (rq_port y)
  && option_eqb bytes_eqb (rq_path x) (rq_path y)
  && bytes_eqb (rq_version x) (rq_version y)
  && headers_eqb (rq_headers x) (rq_headers y)
  && option_eqb bytes_eqb (rq_body x) (rq_body y)
  && Bool.eqb (rq_tunnel x) (rq_tunnel y)
  && bytes_eqb (rq_buffer x) (rq_buffer y).
