(* Correspondence relation for the per-connection machine: an event list (ready descriptors + the
   outcome of every I/O call + the abstract parser/plugin oracles observed at the handle_data
   boundary) and what the real HttpProtocolHandler / BaseTcpTunnelHandler showed after every
   handle_events call and at the end.  Shared by C01, C07 and C20. *)
From PM Require Import Lib.Bytes Net.Conn Net.ConnCases Net.Handler Net.Tunnel.
From Coq Require Import ZArith.

Definition b2n (b : bool) (k : N) : N := if b then k else 0.
Definition int_code (i : interest) : N := b2n (i_cr i) 1 + b2n (i_cw i) 2 + b2n (i_ur i) 4 + b2n (i_uw i) 8.
Definition res_code (r : res) : N := match r with Continue => 0 | Teardown => 1 | Raised => 2 end.

(* per handle_events call: interest reported by get_events BEFORE the call; result; bytes taken so far by
   the client / upstream socket; bytes still buffered for each; last_activity; is_inactive() evaluated
   at the probe time after the call *)
Record step_obs := mkSO {
  so_int : N; so_res : N; so_csent : N; so_usent : N; so_cpend : N; so_upend : N;
  so_la : Z; so_inactive : bool }.

Definition up_sent_len (s : hstate) : N := match upstream s with Some u => len (sent u) | None => 0 end.
Definition up_pend_len (s : hstate) : N := match upstream s with Some u => len (pending u) | None => 0 end.

(* which handler class *)
Inductive hkind := KHttp | KTunnel.

(* BaseTcpTunnelHandler inherits Work.is_inactive (always False) and has no last_activity *)
Definition observe_step (k : hkind) (c : cfg) (i : interest) (r : res) (s' : hstate) (probe : Z) : step_obs :=
  mkSO (int_code i) (res_code r) (len (sent (work s'))) (up_sent_len s') (len (pending (work s'))) (up_pend_len s')
       (last_activity s') (match k with KHttp => is_inactive c s' probe | KTunnel => false end).

Definition step_obs_eqb (a b : step_obs) : bool :=
  (so_int a =? so_int b) && (so_res a =? so_res b) && (so_csent a =? so_csent b) && (so_usent a =? so_usent b)
  && (so_cpend a =? so_cpend b) && (so_upend a =? so_upend b) && (so_la a =? so_la b)%Z
  && Bool.eqb (so_inactive a) (so_inactive b).

Definition k_interest (k : hkind) (s : hstate) : interest :=
  match k with KHttp => get_events s | KTunnel => tunnel_get_events s end.
Definition k_step (k : hkind) (c : cfg) (s : hstate) (ev : event) : hstate * res :=
  match k with KHttp => step c s ev | KTunnel => tunnel_step c s ev end.

Fixpoint trace (k : hkind) (c : cfg) (s : hstate) (evs : list (event * Z)) : list step_obs * hstate * res :=
  match evs with
  | [] => ([], s, Continue)
  | (ev, probe) :: t =>
      let i := k_interest k s in
      let '(s', r) := k_step k c s ev in
      let o := observe_step k c i r s' probe in
      match r with
      | Continue => let '(os, s'', r') := trace k c s' t in (o :: os, s'', r')
      | _ => ([o], s', r)
      end
  end.

(* at the end: result; every byte each fake peer received; what is still buffered; how much was consumed
   from upstream; socket states after shutdown() (run only when the connection was torn down); the
   interest set if it is still alive *)
Record final_obs := mkFO {
  f_res : N; f_cout : bytes; f_uout : bytes; f_cpend : N; f_upend : N;
  f_uprcvd : N; f_clrcvd : N;           (* lengths: the contents are determined by the event list *)
  f_cclosed : bool; f_uclosed : N;      (* upstream: 0 = none, 1 = open, 2 = closed *)
  f_int : N }.

Definition up_state (s : hstate) : N :=
  match upstream s with None => 0 | Some u => if closed u then 2 else 1 end.

Definition final_of (k : hkind) (c : cfg) (sel : list (option outcome)) (s : hstate) (r : res) : final_obs :=
  let s' := match r with
            | Continue => s
            | _ => match k with KHttp => shutdown c sel s | KTunnel => tunnel_shutdown s end
            end in
  mkFO (res_code r) (sent (work s')) (delivered_upstream s') (len (pending (work s'))) (len (pending_upstream s'))
       (len (g_up_rcvd s')) (len (g_cl_rcvd s')) (closed (work s')) (up_state s')
       (match r with Continue => int_code (k_interest k s') | _ => 0 end).

Definition final_obs_eqb (a b : final_obs) : bool :=
  (f_res a =? f_res b) && bytes_eqb (f_cout a) (f_cout b) && bytes_eqb (f_uout a) (f_uout b)
  && (f_cpend a =? f_cpend b) && (f_upend a =? f_upend b)
  && (f_uprcvd a =? f_uprcvd b) && (f_clrcvd a =? f_clrcvd b)
  && Bool.eqb (f_cclosed a) (f_cclosed b) && (f_uclosed a =? f_uclosed b) && (f_int a =? f_int b).

(* compact encodings used by the generated case files (parsing the literals dominates the cost):
   times are offsets from t0; the ready set is a bit mask (1 = client readable, 2 = client writable,
   4 = upstream readable, 8 = upstream writable) *)
Definition bit (f k : N) : bool := N.testbit f k.
Inductive cev :=
| CE (off flags : N) (cs us : outcome) (cr ur : recv_res) (rq : req_outcome) (cd : cdata_outcome) (poff : N)
| CW (off flags : N) (cs us : outcome) (poff : N).        (* nothing to read, no oracle consulted *)

Definition ev_of (t0 : Z) (e : cev) : event * Z :=
  match e with
  | CE off f cs us cr ur rq cd poff =>
      (mkEvent (t0 + Z.of_N off) (bit f 0) (bit f 1) (bit f 2) (bit f 3) cs us cr ur rq cd, (t0 + Z.of_N poff)%Z)
  | CW off f cs us poff =>
      (mkEvent (t0 + Z.of_N off) (bit f 0) (bit f 1) (bit f 2) (bit f 3) cs us ROsErr ROsErr RIncomplete DNothing,
       (t0 + Z.of_N poff)%Z)
  end.

(* observation with last_activity as an offset from t0 *)
Inductive cso := SO (int res csent usent cpend upend la_off : N) (inactive : bool).
Definition so_of (t0 : Z) (o : cso) : step_obs :=
  match o with SO i r a b c d la x => mkSO i r a b c d (t0 + Z.of_N la) x end.

Inductive relay_case :=
| CRelay (k : hkind) (c : cfg) (t0 : Z) (evs : list cev) (sel : list (option outcome))
         (exp : list cso) (fin : final_obs).

Definition check_relay_case (rc : relay_case) : bool :=
  match rc with
  | CRelay k c t0 evs sel exp fin =>
      let '(os, s, r) := trace k c (init t0) (map (ev_of t0) evs) in
      list_eqb step_obs_eqb os (map (so_of t0) exp) && final_obs_eqb (final_of k c sel s r) fin
  end.

(* for replay files: the model's own output *)
Definition model_output (rc : relay_case) : list step_obs * final_obs :=
  match rc with
  | CRelay k c t0 evs sel exp fin =>
      let '(os, s, r) := trace k c (init t0) (map (ev_of t0) evs) in (os, final_of k c sel s r)
  end.

(* one case type for the three properties *)
Inductive net_case := NConn (c : conn_case) | NRelay (c : relay_case).
Definition check_net_case (c : net_case) : bool :=
  match c with NConn c => check_conn_case c | NRelay c => check_relay_case c end.
