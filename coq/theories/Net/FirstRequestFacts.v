(* Lemmas about the first-request model (Net/FirstRequest.v): the outcome classes are mutually
   exclusive and jointly exhaustive on every reachable state, a rejection is final, the
   response of a rejection is delivered whole before the close, nothing is emitted otherwise. *)
From PM Require Import Lib.Bytes Lib.BytesFacts Lib.PyStr Http.Url Http.Chunk Http.Parser
  Net.Responses Net.ResponsesFacts Net.FirstRequest.
From Coq Require Import ZArith.

(* ------------------------------------------------------------------ small generic facts *)
Lemma is_nil_true {A} (l : list A) : is_nil l = true <-> l = [].
Proof. destruct l; cbn; split; congruence. Qed.

Lemma is_nil_app_cons {A} (l : list A) x : is_nil (l ++ [x]) = false.
Proof. destruct l; reflexivity. Qed.

Lemma concat_snoc {A} (l : list (list A)) x : concat (l ++ [x]) = concat l ++ x.
Proof. rewrite concat_app. cbn. now rewrite app_nil_r. Qed.

Lemma take_all (l : bytes) : take (len l) l = l.
Proof. rewrite <- (app_nil_r l) at 2. rewrite take_app_exact. reflexivity. Qed.

Section Facts.
  Variable cfg : config.
  Variable orcf : N -> parser -> list bytes * orc_outcome.
  Variable ocdf : N -> parser -> list bytes -> bytes -> list bytes * ocd_outcome.

  Notation stp := (step cfg orcf ocdf).
  Notation runs := (run cfg orcf ocdf).

  (* the part of the state that only handle_data touches *)
  Definition logical (h : handler) :=
    (request h, plugin h, hq h, pq h, orc_calls h, ocd h, parse_calls h, exc h, client_gone h).

  (* queued = delivered ++ pending *)
  Definition conserved (h : handler) : Prop :=
    sent h ++ concat (buffer h) = concat (pq h) ++ concat (map fst (hq h)).

  (* ---------------------------------------------------------------- flush *)
  Lemma flush_spec h k :
    let h' := flush cfg h k in
    logical h' = logical h /\ must_flush h' = must_flush h /\ reads_teared h' = reads_teared h /\
    torn h' = torn h /\ sent h' ++ concat (buffer h') = sent h ++ concat (buffer h).
  Proof.
    unfold flush. destruct (buffer h) as [|mv t] eqn:Eb.
    - cbn zeta. rewrite Eb. repeat split.
    - cbn zeta.
      destruct (N.min k (len (take (max_send cfg) mv)) =? len mv) eqn:En.
      + apply N.eqb_eq in En. rewrite En. cbn. repeat split.
        rewrite take_all. now rewrite <- app_assoc.
      + cbn. repeat split. rewrite <- !app_assoc. f_equal. rewrite app_assoc. now rewrite take_drop.
  Qed.

  (* ---------------------------------------------------------------- handle_writables *)
  Lemma handle_writables_spec h w :
    let '(h1, wt) := handle_writables cfg h w in
    logical h1 = logical h /\ reads_teared h1 = reads_teared h /\ torn h1 = torn h /\
    sent h1 ++ concat (buffer h1) = sent h ++ concat (buffer h) /\
    (if wt then buffer h1 = [] /\ must_flush h = true else must_flush h1 = must_flush h).
  Proof.
    unfold handle_writables. destruct w as [k|]; [|repeat split].
    destruct (has_buffer h); [|repeat split].
    destruct (flush_spec h k) as (Hl & Hm & Hr & Ht & Hc).
    set (h1 := flush cfg h k) in *.
    destruct (must_flush h1 && negb (has_buffer h1)) eqn:Hd.
    - apply andb_true_iff in Hd as [Hd1 Hd2]. apply negb_true_iff in Hd2.
      unfold has_buffer in Hd2. apply negb_false_iff, is_nil_true in Hd2.
      cbn. repeat split; auto. congruence.
    - repeat split; auto.
  Qed.

  (* ---------------------------------------------------------------- handle_events that does not read *)
  Lemma handle_events_no_read h ev : ev_r ev = None \/ reads_teared h = true ->
    exists h2 b, handle_events cfg orcf ocdf h ev = (h2, HOk b) /\
      logical h2 = logical h /\ torn h2 = torn h /\
      sent h2 ++ concat (buffer h2) = sent h ++ concat (buffer h) /\
      (b = true -> buffer h2 = []) /\
      (b = false -> must_flush h2 = must_flush h /\ reads_teared h2 = reads_teared h).
  Proof.
    intros Hr. unfold handle_events.
    pose proof (handle_writables_spec h (ev_w ev)) as Hw.
    destruct (handle_writables cfg h (ev_w ev)) as [h1 wt].
    destruct Hw as (Hl & Hrt & Ht & Hc & Hwt).
    destruct wt.
    - exists h1, true. destruct Hwt as [Hb _]. repeat split; auto. discriminate.
    - destruct (reads_teared h1) eqn:E1.
      + exists h1, (negb (has_buffer h1)). repeat split; auto; try congruence.
        intros Hb. unfold has_buffer in Hb. now apply negb_true_iff, negb_false_iff, is_nil_true in Hb.
      + destruct Hr as [Hr|Hr]; [|congruence].
        rewrite Hr. cbn [handle_readables].
        exists (set_reads_teared h1 false), false. cbn. repeat split; auto; try discriminate; try congruence.
  Qed.

  (* ---------------------------------------------------------------- steps that do not read *)
  Lemma step_no_read h ev : no_read h = true ->
    let h' := stp h ev in
    logical h' = logical h /\ no_read h' = true /\
    (must_flush h || torn h = true -> must_flush h' || torn h' = true) /\
    (sent h' ++ concat (buffer h') = sent h ++ concat (buffer h)) /\
    (torn h' = true -> torn h = true \/ buffer h' = []).
  Proof.
    intros Hn. unfold step. destruct (torn h) eqn:Et.
    { cbn zeta. rewrite Et. repeat split; auto. }
    set (ev' := {| ev_w := _; ev_r := _ |}).
    assert (Hr : ev_r ev' = None \/ reads_teared h = true).
    { unfold ev'. cbn. unfold no_read in Hn. rewrite Et in Hn. cbn in Hn.
      destruct (must_flush h); [now left|]. cbn in Hn. now right. }
    destruct (handle_events_no_read h ev' Hr) as (h2 & b & He & Hl & Ht & Hc & Hb1 & Hb0).
    rewrite He. destruct b; cbn zeta.
    - cbn. repeat split; auto; try (intros _; apply orb_true_r); try (intros _; right; now apply Hb1).
    - destruct (Hb0 eq_refl) as [Hm Hrt]. repeat split; auto.
      + unfold no_read in *. now rewrite Ht, Hm, Hrt.
      + rewrite Hm, Ht, Et. auto.
      + rewrite Ht, Et. discriminate.
  Qed.

  (* ---------------------------------------------------------------- handle_data *)
  Notation hd := (handle_data cfg orcf ocdf).

  (* the case analysis of handle_data / _parse_first_request, one goal per path *)
  Ltac orc_cases k p :=
    let q := fresh "q" in let out := fresh "out" in let Eo := fresh "Eo" in
    destruct (orcf k p) as [q out] eqn:Eo;
    destruct out as [[|]| | |?e];
    [ | | | | let pe := fresh "pe" in let oe := fresh "oe" in let Ec := fresh "Ecanon" in
              destruct (canon e) as [pe|oe] eqn:Ec;
              [ let Er := fresh "Er" in destruct (exn_response (agent cfg) pe) as [[|? ?]|] eqn:Er | ] ].
  Ltac hd_cases h d :=
    unfold handle_data, parse_first_request;
    let Ec := fresh "Ecomplete" in
    destruct (negb (is_complete (request h))) eqn:Ec;
    [ let p := fresh "p" in let e := fresh "e" in let Ep := fresh "Eparse" in
      destruct (parse (request h) d) as [p|e] eqn:Ep;
      [ let Ecp := fresh "Ecp" in
        destruct (negb (is_complete p)) eqn:Ecp;
        [ | let Epr := fresh "Eproto" in
            destruct (http_handler_protocol p) eqn:Epr;
            [ | let k := fresh "k" in let Ed := fresh "Edisc" in
                destruct (discover_plugin_klass cfg WEB_SERVER) as [k|] eqn:Ed; [orc_cases k p|]
              | let k := fresh "k" in let Ed := fresh "Edisc" in
                destruct (discover_plugin_klass cfg HTTP_PROXY) as [k|] eqn:Ed; [orc_cases k p|] ] ]
      | destruct e ]
    | let k := fresh "k" in let Epl := fresh "Eplugin" in
      destruct (plugin h) as [k|] eqn:Epl;
      [ let q := fresh "q" in let out := fresh "out" in let Eo := fresh "Eo" in
        destruct (ocdf k (request h) (ocd h) d) as [q out] eqn:Eo;
        destruct out as [|?e];
        [ | let pe := fresh "pe" in let oe := fresh "oe" in let Ec := fresh "Ecanon" in
            destruct (canon e) as [pe|oe] eqn:Ec;
            [ let Er := fresh "Er" in destruct (exn_response (agent cfg) pe) as [[|? ?]|] eqn:Er | ] ]
      | ] ].

  Lemma build_nonempty a : build_http_response a <> [].
  Proof.
    rewrite build_shape. intros H. apply app_eq_nil in H as [_ H]. discriminate.
  Qed.
  Lemma BAD_REQUEST_nonempty : BAD_REQUEST cfg <> [].
  Proof. apply build_nonempty. Qed.

  Ltac hsimpl :=
    cbn [request plugin buffer must_flush reads_teared torn sent hq pq orc_calls ocd parse_calls exc
         client_gone mk queue_h queue_p set_request note_parse set_plugin note_orc note_ocd
         set_must_flush set_reads_teared set_torn set_exc set_client_gone set_io fst snd map exn_response].

  (* what handle_data may change: it appends to the buffer what the plugin hook queued and then at
     most one packet of the handler's own, whose site is recorded truthfully; it never touches
     the flags or the socket *)
  Definition hd_post (h h' : handler) (r : hres bool) : Prop :=
    must_flush h' = must_flush h /\ reads_teared h' = reads_teared h /\ torn h' = torn h /\
    sent h' = sent h /\ client_gone h' = client_gone h /\
    exists qp qh, buffer h' = buffer h ++ qp ++ map fst qh /\ pq h' = pq h ++ qp /\ hq h' = hq h ++ qh /\
      Forall (site_ok cfg) qh /\
      (qh = [] \/ exists x, qh = [x] /\ fst x <> [] /\ r = HOk true /\ exc h' = exc h).

  Ltac post_nil q := exists q, []; hsimpl; rewrite ?app_nil_r; repeat split; auto.
  Ltac post_one q x :=
    exists q, [x]; hsimpl; cbn [app]; rewrite <- ?app_assoc, ?app_nil_r; repeat split; auto;
    lazymatch goal with
    | |- Forall _ _ => constructor; [unfold site_ok; hsimpl; auto | constructor]
    | |- _ \/ _ => right; exists x; hsimpl; repeat split; auto; try apply BAD_REQUEST_nonempty; try discriminate
    | |- _ => idtac
    end.

  Lemma hd_post_holds h d : let '(h', r) := hd h d in hd_post h h' r.
  Proof.
    unfold hd_post. hd_cases h d; hsimpl.
    all: rewrite ?is_nil_app_cons; hsimpl.
    all: try match goal with |- context [is_nil (hq ?y)] => destruct (is_nil (hq y)); hsimpl end.
    all: hsimpl.
    all: repeat split; auto.
    all: lazymatch goal with
         | |- exists qp qh, (buffer ?h ++ ?q) ++ [_] = _ /\ _ /\ hq ?h ++ [?x] = _ /\ _ => post_one q x
         | |- exists qp qh, buffer ?h ++ [_] = _ /\ _ /\ hq ?h ++ [?x] = _ /\ _ => post_one (@nil bytes) x
         | |- exists qp qh, buffer ?h ++ ?q = _ /\ _ => post_nil q
         | |- exists qp qh, buffer ?h = _ /\ _ => post_nil (@nil bytes)
         end.
  Qed.

  (* ---------------------------------------------------------------- how handle_data moves between the classes *)
  Definition coreW (h : handler) : Prop :=
    hq h = [] /\ pq h = [] /\ plugin h = None /\ is_complete (request h) = false /\
    orc_calls h = 0 /\ ocd h = [] /\ exc h = None.
  Definition coreS (h : handler) : Prop :=
    plugin h <> None /\ is_complete (request h) = true /\ orc_calls h = 1 /\ hq h = [] /\ exc h = None.

  Ltac fin := hsimpl; eauto; try congruence; try discriminate; try reflexivity; try (intro; discriminate).
  Ltac core_solve :=
    hsimpl; rewrite ?is_nil_app_cons; hsimpl;
    repeat match goal with
           | H : negb _ = true |- _ => apply negb_true_iff in H
           | H : negb _ = false |- _ => apply negb_false_iff in H
           end;
    try congruence;
    first
      [ solve [left; repeat split; fin]
      | solve [right; left; repeat split; fin]
      | solve [right; right; left; repeat split; fin]
      | solve [right; right; right; left; repeat split; fin]
      | solve [right; right; right; right; eexists; repeat split; fin] ].

  Lemma hd_from_W h d : coreW h ->
    let '(h', r) := hd h d in
    (r = HOk false /\ coreW h' /\ buffer h' = buffer h) \/
    ((r = HOk true \/ r = HOk false) /\ coreS h') \/
    (r = HOk true /\ (exists x, hq h' = [x]) /\ exc h' = None) \/
    (r = HOk true /\ hq h' = [] /\ exc h' <> None) \/
    (exists e, r = HErr (Other e) /\ coreS h').
  Proof.
    intros (Hq & Hp & Hpl & Hc & Ho & Hd & He). unfold coreW, coreS.
    hd_cases h d.
    all: try (rewrite Hc in *; discriminate).
    all: hsimpl; rewrite ?Hq, ?Hp, ?Ho, ?Hd, ?He, ?Hpl; cbn [app]; hsimpl.
    all: core_solve.
  Qed.
End Facts.
