(* Lemmas about the first-request model (Net/FirstRequest.v): the outcome classes are mutually
   exclusive and jointly exhaustive on every reachable state, a rejection is final, the
   response of a rejection is delivered whole before the close, nothing is emitted otherwise. *)
From PM Require Import Lib.Bytes Lib.BytesFacts Lib.PyStr Http.Url Http.Chunk Http.Parser
  Net.Responses Net.ResponsesFacts Net.FirstRequest.
From PM Require Http.ParserFacts.
From Coq Require Import ZArith.

(* ------------------------------------------------------------------ small generic facts *)
Lemma is_nil_true {A} (l : list A) : is_nil l = true <-> l = [].
Proof. destruct l; cbn; split; congruence. Qed.

Lemma is_nil_app_cons {A} (l : list A) x : is_nil (l ++ [x]) = false.
Proof. destruct l; reflexivity. Qed.

Lemma concat_snoc {A} (l : list (list A)) x : concat (l ++ [x]) = concat l ++ x.
Proof. rewrite concat_app. cbn. now rewrite app_nil_r. Qed.

Lemma take_all (l : bytes) : take (len l) l = l.
Proof. rewrite <- (app_nil_r l) at 2. rewrite take_app_exact. reflexivity. Qed.

Section Facts.
  Variable cfg : config.
  Variable orcf : N -> parser -> list bytes * orc_outcome.
  Variable ocdf : N -> parser -> list bytes -> bytes -> list bytes * ocd_outcome.

  Notation stp := (step cfg orcf ocdf).
  Notation runs := (run cfg orcf ocdf).

  (* the part of the state that only handle_data touches *)
  Definition logical (h : handler) :=
    (request h, plugin h, hq h, pq h, orc_calls h, ocd h, parse_calls h, exc h, client_gone h).

  (* queued = delivered ++ pending *)
  Definition conserved (h : handler) : Prop :=
    sent h ++ concat (buffer h) = concat (pq h) ++ concat (map fst (hq h)).

  (* ---------------------------------------------------------------- flush *)
  Lemma flush_spec h k :
    let h' := flush cfg h k in
    logical h' = logical h /\ must_flush h' = must_flush h /\ reads_teared h' = reads_teared h /\
    torn h' = torn h /\ sent h' ++ concat (buffer h') = sent h ++ concat (buffer h).
  Proof.
    unfold flush. destruct (buffer h) as [|mv t] eqn:Eb.
    - cbn zeta. rewrite Eb. repeat split.
    - cbn zeta.
      destruct (N.min k (len (take (max_send cfg) mv)) =? len mv) eqn:En.
      + apply N.eqb_eq in En. rewrite En. cbn. repeat split.
        rewrite take_all. now rewrite <- app_assoc.
      + cbn. repeat split. rewrite <- !app_assoc. f_equal. rewrite app_assoc. now rewrite take_drop.
  Qed.

  (* ---------------------------------------------------------------- handle_writables *)
  Lemma handle_writables_spec h w :
    let '(h1, wt) := handle_writables cfg h w in
    logical h1 = logical h /\ reads_teared h1 = reads_teared h /\ torn h1 = torn h /\
    sent h1 ++ concat (buffer h1) = sent h ++ concat (buffer h) /\
    (if wt then buffer h1 = [] /\ must_flush h = true else must_flush h1 = must_flush h).
  Proof.
    unfold handle_writables. destruct w as [k|]; [|repeat split].
    destruct (has_buffer h); [|repeat split].
    destruct (flush_spec h k) as (Hl & Hm & Hr & Ht & Hc).
    set (h1 := flush cfg h k) in *.
    destruct (must_flush h1 && negb (has_buffer h1)) eqn:Hd.
    - apply andb_true_iff in Hd as [Hd1 Hd2]. apply negb_true_iff in Hd2.
      unfold has_buffer in Hd2. apply negb_false_iff, is_nil_true in Hd2.
      cbn. repeat split; auto. congruence.
    - repeat split; auto.
  Qed.

  (* ---------------------------------------------------------------- handle_events that does not read *)
  Lemma handle_events_no_read h ev : ev_r ev = None \/ reads_teared h = true ->
    exists h2 b, handle_events cfg orcf ocdf h ev = (h2, HOk b) /\
      logical h2 = logical h /\ torn h2 = torn h /\
      sent h2 ++ concat (buffer h2) = sent h ++ concat (buffer h) /\
      (b = true -> buffer h2 = []) /\
      (b = false -> must_flush h2 = must_flush h /\ reads_teared h2 = reads_teared h).
  Proof.
    intros Hr. unfold handle_events.
    pose proof (handle_writables_spec h (ev_w ev)) as Hw.
    destruct (handle_writables cfg h (ev_w ev)) as [h1 wt].
    destruct Hw as (Hl & Hrt & Ht & Hc & Hwt).
    destruct wt.
    - exists h1, true. destruct Hwt as [Hb _]. repeat split; auto. discriminate.
    - destruct (reads_teared h1) eqn:E1.
      + exists h1, (negb (has_buffer h1)). repeat split; auto; try congruence.
        intros Hb. unfold has_buffer in Hb. now apply negb_true_iff, negb_false_iff, is_nil_true in Hb.
      + destruct Hr as [Hr|Hr]; [|congruence].
        rewrite Hr. cbn [handle_readables].
        exists (set_reads_teared h1 false), false. cbn. repeat split; auto; try discriminate; try congruence.
  Qed.

  (* ---------------------------------------------------------------- steps that do not read *)
  Lemma step_no_read h ev : no_read h = true ->
    let h' := stp h ev in
    logical h' = logical h /\ no_read h' = true /\
    (must_flush h || torn h = true -> must_flush h' || torn h' = true) /\
    (sent h' ++ concat (buffer h') = sent h ++ concat (buffer h)) /\
    (torn h' = true -> torn h = true \/ buffer h' = []).
  Proof.
    intros Hn. unfold step. destruct (torn h) eqn:Et.
    { cbn zeta. rewrite Et. repeat split; auto. }
    set (ev' := {| ev_w := _; ev_r := _ |}).
    assert (Hr : ev_r ev' = None \/ reads_teared h = true).
    { unfold ev'. cbn. unfold no_read in Hn. rewrite Et in Hn. cbn in Hn.
      destruct (must_flush h); [now left|]. cbn in Hn. now right. }
    destruct (handle_events_no_read h ev' Hr) as (h2 & b & He & Hl & Ht & Hc & Hb1 & Hb0).
    rewrite He. destruct b; cbn zeta.
    - cbn. repeat split; auto; try (intros _; apply orb_true_r); try (intros _; right; now apply Hb1).
    - destruct (Hb0 eq_refl) as [Hm Hrt]. repeat split; auto.
      + unfold no_read in *. now rewrite Ht, Hm, Hrt.
      + rewrite Hm, Ht, Et. auto.
      + rewrite Ht, Et. discriminate.
  Qed.

  (* ---------------------------------------------------------------- handle_data *)
  Notation hd := (handle_data cfg orcf ocdf).

  (* the case analysis of handle_data / _parse_first_request, one goal per path *)
  Ltac orc_cases k p :=
    let q := fresh "q" in let out := fresh "out" in let Eo := fresh "Eo" in
    destruct (orcf k p) as [q out] eqn:Eo;
    destruct out as [[|]| | |?e];
    [ | | | | let pe := fresh "pe" in let oe := fresh "oe" in let Ec := fresh "Ecanon" in
              destruct (canon e) as [pe|oe] eqn:Ec;
              [ let Er := fresh "Er" in destruct (exn_response (agent cfg) pe) as [[|? ?]|] eqn:Er | ] ].
  Ltac hd_cases0 h d :=
    unfold handle_data, parse_first_request, call_on_client_data;
    let Ec := fresh "Ecomplete" in
    destruct (negb (is_complete (request h))) eqn:Ec;
    [ let p := fresh "p" in let e := fresh "e" in let Ep := fresh "Eparse" in
      destruct (parse (request h) d) as [p|e] eqn:Ep;
      [ let Ecp := fresh "Ecp" in
        destruct (negb (is_complete p)) eqn:Ecp;
        [ | let Epr := fresh "Eproto" in
            destruct (http_handler_protocol p) eqn:Epr;
            [ | let k := fresh "k" in let Ed := fresh "Edisc" in
                destruct (discover_plugin_klass cfg WEB_SERVER) as [k|] eqn:Ed; [orc_cases k p|]
              | let k := fresh "k" in let Ed := fresh "Edisc" in
                destruct (discover_plugin_klass cfg HTTP_PROXY) as [k|] eqn:Ed; [orc_cases k p|] ] ]
      | destruct e ]
    | let k := fresh "k" in let Epl := fresh "Eplugin" in
      destruct (plugin h) as [k|] eqn:Epl;
      [ let q := fresh "q" in let out := fresh "out" in let Eo := fresh "Eo" in
        destruct (ocdf k (request h) (ocd h) d) as [q out] eqn:Eo;
        destruct out as [|?e];
        [ | let pe := fresh "pe" in let oe := fresh "oe" in let Ec := fresh "Ecanon" in
            destruct (canon e) as [pe|oe] eqn:Ec;
            [ let Er := fresh "Er" in destruct (exn_response (agent cfg) pe) as [[|? ?]|] eqn:Er | ] ]
      | ] ].

  Lemma is_complete_sbs p b sz : is_complete (set_buffer_size p b sz) = is_complete p.
  Proof. reflexivity. Qed.

  Lemma build_nonempty a : build_http_response a <> [].
  Proof.
    rewrite build_shape. intros H. apply app_eq_nil in H as [_ H]. discriminate.
  Qed.
  Lemma BAD_REQUEST_nonempty : BAD_REQUEST cfg <> [].
  Proof. apply build_nonempty. Qed.

  Ltac hsimpl :=
    cbn [request plugin buffer must_flush reads_teared torn sent hq pq orc_calls ocd parse_calls exc
         client_gone mk queue_h queue_p set_request note_parse set_plugin note_orc note_ocd
         set_must_flush set_reads_teared set_torn set_exc set_client_gone set_io fst snd map exn_response is_nil].

  (* the remainder hand-over that follows a first request completed with the result False *)
  Ltac ho_cases :=
    unfold hand_over_remainder, call_on_client_data; hsimpl;
    repeat match goal with
           | H : negb (is_complete ?p) = true |- context [is_complete ?p] => rewrite (proj1 (negb_true_iff _) H)
           | H : negb (is_complete ?p) = false |- context [is_complete ?p] => rewrite (proj1 (negb_false_iff _) H)
           end; hsimpl;
    try match goal with |- context [match Parser.buffer ?p with _ => _ end] =>
          let Eb := fresh "Ebuf" in destruct (Parser.buffer p) as [[|? ?]|] eqn:Eb; hsimpl end;
    try match goal with |- context [ocdf ?k ?rq ?o ?d] =>
          let q := fresh "q2" in let out := fresh "out2" in let Eo := fresh "Eo2" in
          destruct (ocdf k rq o d) as [q out] eqn:Eo; destruct out as [|?e];
          [ | let pe := fresh "pe" in let oe := fresh "oe" in let Ec := fresh "Ecanon" in
              destruct (canon e) as [pe|oe] eqn:Ec;
              [ let Er := fresh "Er" in destruct (exn_response (agent cfg) pe) as [[|? ?]|] eqn:Er | ] ] end;
    hsimpl; rewrite ?is_complete_sbs.
  Ltac hd_cases h d := hd_cases0 h d; ho_cases.

  (* what handle_data may change: it appends to the buffer what the plugin hook queued and then at
     most one packet of the handler's own, whose site is recorded truthfully; it never touches
     the flags or the socket *)
  Definition hd_post (h h' : handler) (r : hres bool) : Prop :=
    must_flush h' = must_flush h /\ reads_teared h' = reads_teared h /\ torn h' = torn h /\
    sent h' = sent h /\ client_gone h' = client_gone h /\
    exists qp qh, buffer h' = buffer h ++ qp ++ map fst qh /\ pq h' = pq h ++ qp /\ hq h' = hq h ++ qh /\
      Forall (site_ok cfg) qh /\
      (qh = [] \/ exists x, qh = [x] /\ fst x <> [] /\ r = HOk true /\ exc h' = exc h).

  Ltac post_nil q := exists q, []; hsimpl; rewrite ?app_nil_r, <- ?app_assoc; repeat split; auto.
  Ltac post_one q x :=
    exists q, [x]; hsimpl; cbn [app]; rewrite <- ?app_assoc, ?app_nil_r; repeat split; auto;
    lazymatch goal with
    | |- Forall _ _ => constructor; [unfold site_ok; hsimpl; auto | constructor]
    | |- _ \/ _ => right; exists x; hsimpl; repeat split; auto; try apply BAD_REQUEST_nonempty; try discriminate
    | |- _ => idtac
    end.

  Lemma hd_post_holds h d : let '(h', r) := hd h d in hd_post h h' r.
  Proof.
    unfold hd_post. hd_cases h d; hsimpl.
    all: rewrite ?is_nil_app_cons; hsimpl.
    all: try match goal with |- context [is_nil (hq ?y)] => destruct (is_nil (hq y)); hsimpl end.
    all: hsimpl.
    all: repeat split; auto.
    all: rewrite <- ?app_assoc.
    all: lazymatch goal with
         | |- exists qp qh, _ /\ pq ?h ++ ?q = _ /\ hq ?h ++ [?x] = _ /\ _ => post_one q x
         | |- exists qp qh, _ /\ pq ?h = _ /\ hq ?h ++ [?x] = _ /\ _ => post_one (@nil bytes) x
         | |- exists qp qh, _ /\ pq ?h ++ ?q = _ /\ hq ?h = _ /\ _ => post_nil q
         | |- exists qp qh, _ /\ pq ?h = _ /\ hq ?h = _ /\ _ => post_nil (@nil bytes)
         end.
  Qed.

  (* ---------------------------------------------------------------- how handle_data moves between the classes *)
  Definition coreW (h : handler) : Prop :=
    hq h = [] /\ pq h = [] /\ plugin h = None /\ is_complete (request h) = false /\
    orc_calls h = 0 /\ ocd h = [] /\ exc h = None.
  Definition coreS (h : handler) : Prop :=
    plugin h <> None /\ is_complete (request h) = true /\ orc_calls h = 1 /\ hq h = [] /\ exc h = None.

  Ltac fin := hsimpl; eauto; try congruence; try discriminate; try reflexivity; try (intro; discriminate).
  Ltac rew_hyps := repeat match goal with H : ?l = _ |- context [?l] => rewrite H end.
  Ltac core_solve :=
    hsimpl; rewrite ?is_nil_app_cons; hsimpl; rew_hyps; cbn [app]; hsimpl;
    repeat match goal with
           | H : negb _ = true |- _ => apply negb_true_iff in H
           | H : negb _ = false |- _ => apply negb_false_iff in H
           end;
    try congruence;
    first
      [ solve [left; repeat split; fin]
      | solve [right; left; repeat split; fin]
      | solve [right; right; left; repeat split; fin]
      | solve [right; right; right; left; repeat split; fin]
      | solve [right; right; right; right; eexists; repeat split; fin] ].

  Lemma hd_from_W h d : coreW h ->
    let '(h', r) := hd h d in
    (r = HOk false /\ coreW h' /\ buffer h' = buffer h) \/
    ((r = HOk true \/ r = HOk false) /\ coreS h') \/
    (r = HOk true /\ (exists x, hq h' = [x]) /\ exc h' = None) \/
    (r = HOk true /\ hq h' = [] /\ exc h' <> None) \/
    (exists e, r = HErr (Other e) /\ coreS h').
  Proof.
    intros (Hq & Hp & Hpl & Hc & Ho & Hd & He). unfold coreW, coreS.
    hd_cases h d.
    all: try (rewrite Hc in *; discriminate).
    all: hsimpl; rewrite ?Hq, ?Hp, ?Ho, ?Hd, ?He, ?Hpl; cbn [app]; hsimpl.
    all: core_solve.
  Qed.

  Lemma hd_from_S h d : coreS h ->
    let '(h', r) := hd h d in
    (r = HOk false /\ coreS h') \/
    (r = HOk true /\ (exists x, hq h' = [x]) /\ exc h' = None) \/
    (r = HOk true /\ hq h' = [] /\ exc h' <> None) \/
    (exists e, r = HErr (Other e) /\ coreS h').
  Proof.
    intros (Hpl & Hc & Ho & Hq & He). unfold coreS.
    hd_cases h d.
    all: try (rewrite Hc in *; discriminate).
    all: try congruence.
    all: hsimpl; rewrite ?is_nil_app_cons; hsimpl; rew_hyps; cbn [app]; hsimpl.
    all: first
      [ solve [left; repeat split; fin]
      | solve [right; left; repeat split; fin]
      | solve [right; right; left; repeat split; fin]
      | solve [right; right; right; eexists; repeat split; fin] ].
  Qed.

  (* ---------------------------------------------------------------- the classes as propositions *)
  Lemma is_none_true {A} (o : option A) : is_none o = true <-> o = None.
  Proof. destruct o; cbn; split; congruence. Qed.
  Lemma is_none_false {A} (o : option A) : negb (is_none o) = true <-> o <> None.
  Proof. destruct o; cbn; split; congruence. Qed.

  Lemma waiting_iff h : waiting h = true <->
    coreW h /\ buffer h = [] /\ sent h = [] /\ torn h = false /\ must_flush h = false /\
    reads_teared h = false /\ client_gone h = false.
  Proof.
    unfold waiting, coreW.
    rewrite !andb_true_iff, !negb_true_iff, !is_nil_true, !is_none_true, N.eqb_eq. tauto.
  Qed.

  Lemma serving_iff h : serving h = true <-> coreS h.
  Proof.
    unfold serving, coreS.
    rewrite !andb_true_iff, is_none_false, !is_nil_true, !is_none_true, N.eqb_eq. tauto.
  Qed.

  Lemma rejected_iff h : rejected h = true <->
    (exists x, hq h = [x]) /\ exc h = None /\ (must_flush h = true \/ torn h = true).
  Proof.
    unfold rejected. destruct (hq h) as [|x [|y t]]; cbn [andb].
    - split; [discriminate|]. intros [[x Hx] _]. discriminate.
    - rewrite !andb_true_iff, is_none_true, orb_true_iff. split.
      + intros [He Hf]. repeat split; auto. now exists x.
      + intros (_ & He & Hf). tauto.
    - split; [discriminate|]. intros [[x0 Hx] _]. discriminate.
  Qed.

  Lemma closed_iff h : closed_no_response h = true <->
    exc h <> None /\ hq h = [] /\ (torn h = true \/ must_flush h = true \/ reads_teared h = true).
  Proof.
    unfold closed_no_response. rewrite !andb_true_iff, is_none_false, is_nil_true, !orb_true_iff. tauto.
  Qed.

  Lemma client_closed_iff h : client_closed h = true <->
    client_gone h = true /\ plugin h = None /\ hq h = [] /\ exc h = None /\ torn h = true.
  Proof.
    unfold client_closed. rewrite !andb_true_iff, !is_none_true, is_nil_true. tauto.
  Qed.

  (* ---------------------------------------------------------------- the invariant *)
  Definition Inv (h : handler) : Prop :=
    waiting h = true \/ serving h = true \/ rejected h = true \/ closed_no_response h = true \/
    client_closed h = true.

  Ltac inW := left; apply waiting_iff; unfold coreW in *; hsimpl.
  Ltac inS := right; left; apply serving_iff; unfold coreS in *; hsimpl.
  Ltac inR := right; right; left; apply rejected_iff; hsimpl.
  Ltac inC := right; right; right; left; apply closed_iff; hsimpl.
  Ltac inE := right; right; right; right; apply client_closed_iff; hsimpl.

  Lemma has_buffer_false h : has_buffer h = false <-> buffer h = [].
  Proof. unfold has_buffer. rewrite negb_false_iff. apply is_nil_true. Qed.
  Lemma has_buffer_true h : has_buffer h = true <-> buffer h <> [].
  Proof. unfold has_buffer. destruct (buffer h); cbn; split; congruence. Qed.

  (* what a reading handle_events does after handle_data returned (h2, r) *)
  Definition after_data (h2 : handler) (r : hres bool) : handler :=
    match r with
    | HOk true =>
        if has_buffer h2 then set_reads_teared (set_must_flush h2 true) false
        else set_torn (set_reads_teared h2 true)
    | HOk false => set_reads_teared h2 false
    | HErr (Other (OSError k)) =>
        if k =? SSL_WANT_READ then set_reads_teared h2 false
        else let h3 := set_reads_teared (set_exc h2 (Other (OSError k))) true in
             if has_buffer h3 then h3 else set_torn h3
    | HErr e => set_torn (set_exc h2 e)
    end.

  Lemma step_reading h ev : torn h = false -> must_flush h = false -> reads_teared h = false ->
    exists h1, logical h1 = logical h /\ must_flush h1 = false /\ reads_teared h1 = false /\
      torn h1 = false /\ sent h1 ++ concat (buffer h1) = sent h ++ concat (buffer h) /\
      (buffer h = [] -> buffer h1 = [] /\ sent h1 = sent h) /\
      stp h ev =
        match handle_readables cfg orcf ocdf h1 (ev_r ev) with
        | (h2, HOk b) => let h3 := set_reads_teared h2 b in
                         if b && negb (has_buffer h3) then set_torn h3 else h3
        | (h2, HErr e) => set_torn (set_exc h2 e)
        end.
  Proof.
    intros Ht Hm Hr. unfold step. rewrite Ht, Hm. unfold handle_events. cbn [ev_w ev_r].
    set (w := if has_buffer h then ev_w ev else None).
    pose proof (handle_writables_spec h w) as Hw.
    assert (Hnb : buffer h = [] -> handle_writables cfg h w = (h, false)).
    { intros Hb. unfold w. apply has_buffer_false in Hb. rewrite Hb. reflexivity. }
    destruct (handle_writables cfg h w) as [h1 wt].
    destruct Hw as (Hl & Hrt & Htt & Hc & Hwt).
    destruct wt; [destruct Hwt; congruence|].
    exists h1. do 4 (split; [congruence|]). split; [exact Hc|]. split.
    - intros Hb. specialize (Hnb Hb). inversion Hnb. now subst.
    - assert (E1 : reads_teared h1 = false) by congruence. rewrite E1.
      destruct (handle_readables cfg orcf ocdf h1 (ev_r ev)) as [h2 [b|e]]; [|reflexivity].
      cbv zeta. destruct (b && negb (has_buffer (set_reads_teared h2 b))); reflexivity.
  Qed.

  Lemma step_data h ev d : torn h = false -> must_flush h = false -> reads_teared h = false ->
    ev_r ev = Some (Data d) ->
    exists h1, logical h1 = logical h /\ must_flush h1 = false /\ reads_teared h1 = false /\
      torn h1 = false /\ sent h1 ++ concat (buffer h1) = sent h ++ concat (buffer h) /\
      (buffer h = [] -> buffer h1 = [] /\ sent h1 = sent h) /\
      stp h ev = let '(h2, r) := hd h1 d in after_data h2 r.
  Proof.
    intros Ht Hm Hr Hev.
    destruct (step_reading h ev Ht Hm Hr) as (h1 & F1 & F2 & F3 & F4 & F5 & F6 & E).
    exists h1. do 6 (split; [assumption|]). rewrite E, Hev.
    unfold handle_readables, base_handle_readables.
    destruct (hd h1 d) as [h2 r]. unfold after_data.
    destruct r as [[|]|[pe|oe]].
    - destruct (has_buffer h2) eqn:Hb2.
      + hsimpl. cbn [andb]. reflexivity.
      + unfold has_buffer in *. hsimpl. rewrite Hb2. reflexivity.
    - reflexivity.
    - reflexivity.
    - destruct oe; try reflexivity.
      destruct (k =? SSL_WANT_READ); [reflexivity|].
      hsimpl. cbn [andb]. unfold has_buffer. hsimpl.
      destruct (negb (is_nil (buffer h2))); reflexivity.
  Qed.

  Lemma step_gone h ev : torn h = false -> must_flush h = false -> reads_teared h = false ->
    ev_r ev = Some Eof \/ ev_r ev = Some RecvErr ->
    exists h1, logical h1 = logical h /\ must_flush h1 = false /\ reads_teared h1 = false /\
      torn h1 = false /\ sent h1 ++ concat (buffer h1) = sent h ++ concat (buffer h) /\
      (buffer h = [] -> buffer h1 = [] /\ sent h1 = sent h) /\
      stp h ev = let h3 := set_reads_teared (set_client_gone h1) true in
                 if has_buffer h3 then h3 else set_torn h3.
  Proof.
    intros Ht Hm Hr Hev.
    destruct (step_reading h ev Ht Hm Hr) as (h1 & F1 & F2 & F3 & F4 & F5 & F6 & E).
    exists h1. do 6 (split; [assumption|]). rewrite E.
    destruct Hev as [-> | ->]; unfold handle_readables, base_handle_readables; cbv zeta; cbn [andb];
      destruct (has_buffer _); reflexivity.
  Qed.

  Lemma step_idle h ev : torn h = false -> must_flush h = false -> reads_teared h = false ->
    ev_r ev = None ->
    exists h1, logical h1 = logical h /\ must_flush h1 = false /\ reads_teared h1 = false /\
      torn h1 = false /\ sent h1 ++ concat (buffer h1) = sent h ++ concat (buffer h) /\
      (buffer h = [] -> buffer h1 = [] /\ sent h1 = sent h) /\
      stp h ev = set_reads_teared h1 false.
  Proof.
    intros Ht Hm Hr Hev.
    destruct (step_reading h ev Ht Hm Hr) as (h1 & F1 & F2 & F3 & F4 & F5 & F6 & E).
    exists h1. do 6 (split; [assumption|]). rewrite E, Hev. reflexivity.
  Qed.

  Lemma logical_eq h1 h : logical h1 = logical h ->
    request h1 = request h /\ plugin h1 = plugin h /\ hq h1 = hq h /\ pq h1 = pq h /\
    orc_calls h1 = orc_calls h /\ ocd h1 = ocd h /\ parse_calls h1 = parse_calls h /\
    exc h1 = exc h /\ client_gone h1 = client_gone h.
  Proof. unfold logical. intros H. inversion H. repeat split; assumption. Qed.

  Lemma coreW_logical h1 h : logical h1 = logical h -> coreW h -> coreW h1.
  Proof.
    intros H (A & B & C & D & E & F & G). apply logical_eq in H as (R1 & R2 & R3 & R4 & R5 & R6 & R7 & R8 & R9).
    unfold coreW. rewrite R1, R2, R3, R4, R5, R6, R8. repeat split; assumption.
  Qed.
  Lemma coreS_logical h1 h : logical h1 = logical h -> coreS h -> coreS h1.
  Proof.
    intros H (A & B & C & D & E). apply logical_eq in H as (R1 & R2 & R3 & R4 & R5 & R6 & R7 & R8 & R9).
    unfold coreS. rewrite R1, R2, R3, R5, R8. repeat split; assumption.
  Qed.

  Lemma queued_has_buffer h1 h2 r x : hd_post h1 h2 r -> hq h1 = [] -> hq h2 = [x] -> has_buffer h2 = true.
  Proof.
    intros (_ & _ & _ & _ & _ & qp & qh & Hb & _ & Hq & _ & _) H1 H2.
    rewrite H1 in Hq. cbn [app] in Hq. rewrite H2 in Hq. subst qh.
    apply has_buffer_true. rewrite Hb. cbn [map]. intros E.
    apply app_eq_nil in E as [_ E]. apply app_eq_nil in E as [_ E]. discriminate.
  Qed.

  (* after_data only changes flags and the ghost exc *)
  Lemma after_data_S h2 r : coreS h2 ->
    (r = HOk true \/ r = HOk false \/ exists e, r = HErr (Other e)) -> Inv (after_data h2 r).
  Proof.
    intros HS [-> | [-> | [e ->]]]; unfold after_data.
    - destruct (has_buffer h2); inS; exact HS.
    - inS; exact HS.
    - destruct HS as (A & B & C & D & E).
      destruct e; try (inC; repeat split; auto; discriminate).
      destruct (k =? SSL_WANT_READ); [inS; repeat split; assumption|].
      cbv zeta. destruct (has_buffer _); inC; repeat split; auto; discriminate.
  Qed.

  Lemma after_data_R h2 x : hq h2 = [x] -> exc h2 = None -> has_buffer h2 = true -> Inv (after_data h2 (HOk true)).
  Proof.
    intros Hx He Hb. unfold after_data. rewrite Hb. inR. repeat split; eauto.
  Qed.

  Lemma after_data_C h2 : hq h2 = [] -> exc h2 <> None -> Inv (after_data h2 (HOk true)).
  Proof.
    intros Hx He. unfold after_data. destruct (has_buffer h2); inC; repeat split; auto.
  Qed.

  Lemma Inv_step h ev : Inv h -> Inv (stp h ev).
  Proof.
    intros HI. destruct (no_read h) eqn:Hn.
    - (* nothing is read: only flags, buffer and sent move *)
      destruct (step_no_read h ev Hn) as (Hl & Hn' & Hmt & _ & _).
      set (h' := stp h ev) in *.
      apply logical_eq in Hl as (R1 & R2 & R3 & R4 & R5 & R6 & R7 & R8 & R9).
      destruct HI as [HW|[HS|[HR|[HC|HE]]]].
      + apply waiting_iff in HW as (_ & _ & _ & Ht & Hm & Hr & _).
        unfold no_read in Hn. rewrite Ht, Hm, Hr in Hn. discriminate.
      + right; left. apply serving_iff. apply serving_iff in HS.
        destruct HS as (A & B & C & D & E). unfold coreS. rewrite R1, R2, R3, R5, R8. repeat split; assumption.
      + right; right; left. apply rejected_iff. apply rejected_iff in HR as (A & B & C).
        rewrite R3, R8. repeat split; auto. apply orb_true_iff. apply Hmt. apply orb_true_iff. exact C.
      + right; right; right; left. apply closed_iff. apply closed_iff in HC as (A & B & C).
        rewrite R3, R8. repeat split; auto. unfold no_read in Hn'. rewrite !orb_true_iff in Hn'. tauto.
      + apply client_closed_iff in HE as (A & B & C & D & E).
        assert (h' = h) as ->. { unfold h', step. now rewrite E. }
        right; right; right; right. apply client_closed_iff. repeat split; assumption.
    - (* the handler reads *)
      unfold no_read in Hn. rewrite !orb_false_iff in Hn. destruct Hn as [[Ht Hm] Hr].
      destruct HI as [HW|[HS|[HR|[HC|HE]]]].
      + apply waiting_iff in HW as (HcW & Hb & Hs & _ & _ & _ & Hg).
        destruct (ev_r ev) as [[d| |]|] eqn:Hev.
        * destruct (step_data h ev d Ht Hm Hr Hev) as (h1 & F1 & F2 & F3 & F4 & F5 & F6 & E).
          destruct (F6 Hb) as [Hb1 Hs1]. rewrite E.
          pose proof (coreW_logical _ _ F1 HcW) as HcW1.
          pose proof (hd_from_W h1 d HcW1) as HWd. pose proof (hd_post_holds h1 d) as HP.
          destruct (hd h1 d) as [h2 r].
          destruct HWd as [(-> & Hc2 & Hbuf)|[(Hr2 & Hc2)|[(-> & [x Hx] & He)|[(-> & Hx & He)|(e & -> & Hc2)]]]].
          -- destruct HP as (Pm & Pr & Pt & Ps & Pg & _).
             apply logical_eq in F1 as (_ & _ & _ & _ & _ & _ & _ & _ & R9).
             unfold after_data. left. apply waiting_iff. hsimpl.
             repeat split; try apply Hc2; try congruence.
          -- apply after_data_S; [exact Hc2|]. destruct Hr2; auto.
          -- eapply after_data_R; eauto. eapply queued_has_buffer; eauto. apply HcW1.
          -- apply after_data_C; auto.
          -- apply after_data_S; [exact Hc2|]. right; right. now exists e.
        * destruct (step_gone h ev Ht Hm Hr (or_introl Hev)) as (h1 & F1 & F2 & F3 & F4 & F5 & F6 & E).
          destruct (F6 Hb) as [Hb1 Hs1]. rewrite E. cbv zeta.
          apply logical_eq in F1 as (R1 & R2 & R3 & R4 & R5 & R6 & R7 & R8 & R9).
          destruct HcW as (A & B & C & D & E' & F & G).
          unfold has_buffer. hsimpl. rewrite Hb1. cbn [is_nil negb].
          inE. repeat split; congruence.
        * destruct (step_gone h ev Ht Hm Hr (or_intror Hev)) as (h1 & F1 & F2 & F3 & F4 & F5 & F6 & E).
          destruct (F6 Hb) as [Hb1 Hs1]. rewrite E. cbv zeta.
          apply logical_eq in F1 as (R1 & R2 & R3 & R4 & R5 & R6 & R7 & R8 & R9).
          destruct HcW as (A & B & C & D & E' & F & G).
          unfold has_buffer. hsimpl. rewrite Hb1. cbn [is_nil negb].
          inE. repeat split; congruence.
        * destruct (step_idle h ev Ht Hm Hr Hev) as (h1 & F1 & F2 & F3 & F4 & F5 & F6 & E).
          destruct (F6 Hb) as [Hb1 Hs1]. rewrite E.
          pose proof (coreW_logical _ _ F1 HcW) as HcW1.
          apply logical_eq in F1 as (_ & _ & _ & _ & _ & _ & _ & _ & R9).
          left. apply waiting_iff. hsimpl. repeat split; try apply HcW1; congruence.
      + apply serving_iff in HS.
        destruct (ev_r ev) as [[d| |]|] eqn:Hev.
        * destruct (step_data h ev d Ht Hm Hr Hev) as (h1 & F1 & F2 & F3 & F4 & F5 & F6 & E).
          rewrite E.
          pose proof (coreS_logical _ _ F1 HS) as HS1.
          pose proof (hd_from_S h1 d HS1) as HSd. pose proof (hd_post_holds h1 d) as HP.
          destruct (hd h1 d) as [h2 r].
          destruct HSd as [(-> & Hc2)|[(-> & [x Hx] & He)|[(-> & Hx & He)|(e & -> & Hc2)]]].
          -- apply after_data_S; auto.
          -- eapply after_data_R; eauto. eapply queued_has_buffer; eauto. apply HS1.
          -- apply after_data_C; auto.
          -- apply after_data_S; [exact Hc2|]. right; right. now exists e.
        * destruct (step_gone h ev Ht Hm Hr (or_introl Hev)) as (h1 & F1 & F2 & F3 & F4 & F5 & F6 & E).
          rewrite E. cbv zeta. pose proof (coreS_logical _ _ F1 HS) as HS1.
          destruct (has_buffer _); inS; exact HS1.
        * destruct (step_gone h ev Ht Hm Hr (or_intror Hev)) as (h1 & F1 & F2 & F3 & F4 & F5 & F6 & E).
          rewrite E. cbv zeta. pose proof (coreS_logical _ _ F1 HS) as HS1.
          destruct (has_buffer _); inS; exact HS1.
        * destruct (step_idle h ev Ht Hm Hr Hev) as (h1 & F1 & F2 & F3 & F4 & F5 & F6 & E).
          rewrite E. pose proof (coreS_logical _ _ F1 HS) as HS1. inS; exact HS1.
      + apply rejected_iff in HR as (_ & _ & [C|C]); congruence.
      + apply closed_iff in HC as (_ & _ & [C|[C|C]]); congruence.
      + apply client_closed_iff in HE as (_ & _ & _ & _ & C). congruence.
  Qed.

  (* ---------------------------------------------------------------- bookkeeping invariant *)
  Definition Aux (h : handler) : Prop :=
    conserved h /\ Forall (site_ok cfg) (hq h) /\ (hq h <> [] -> no_read h = true) /\
    (torn h = true -> buffer h = [] \/ exc h <> None) /\ (length (hq h) <= 1)%nat.

  Lemma Aux_after_data h2 r :
    conserved h2 -> Forall (site_ok cfg) (hq h2) -> (length (hq h2) <= 1)%nat -> torn h2 = false ->
    (hq h2 <> [] -> r = HOk true /\ has_buffer h2 = true) -> Aux (after_data h2 r).
  Proof.
    intros Hc Hs Hl Ht Hq. unfold Aux, conserved, no_read, after_data in *.
    assert (Hq' : forall b, hq h2 <> [] -> r = HOk b -> b = true).
    { intros b H E. destruct (Hq H) as [E' _]. congruence. }
    assert (Hq'' : forall e, hq h2 <> [] -> r <> HErr e).
    { intros e H E. destruct (Hq H) as [E' _]. congruence. }
    destruct r as [[|]|[pe|oe]]; [ | | | destruct oe; [ | | | | | | | | destruct (k =? SSL_WANT_READ) | ] ];
      cbv zeta; try destruct (has_buffer _) eqn:Hb; hsimpl; repeat split; auto.
    all: first
      [ solve [intros _; rewrite ?orb_true_r; reflexivity]
      | solve [intros H; congruence]
      | solve [intros _; left; apply has_buffer_false; unfold has_buffer in *; hsimpl; exact Hb]
      | solve [intros _; right; discriminate]
      | solve [intros H; specialize (Hq' _ H eq_refl); discriminate]
      | solve [intros H; exfalso; eapply Hq''; eauto]
      | idtac ].
  Qed.

  Lemma Aux_step h ev : Aux h -> Aux (stp h ev).
  Proof.
    intros (Hc & Hs & Hq & Ht & Hl).
    destruct (torn h) eqn:Et.
    { assert (stp h ev = h) as ->. { unfold step. now rewrite Et. } repeat split; auto. }
    destruct (no_read h) eqn:Hn.
    - destruct (step_no_read h ev Hn) as (Hlg & Hn' & _ & Hcv & Htn).
      set (h' := stp h ev) in *.
      apply logical_eq in Hlg as (R1 & R2 & R3 & R4 & R5 & R6 & R7 & R8 & R9).
      unfold Aux, conserved. rewrite R3, R4, Hcv. repeat split; auto.
      intros H. destruct (Htn H) as [H1|H1]; [congruence|now left].
    - assert (Hnil : hq h = []).
      { destruct (hq h) eqn:E; [reflexivity|]. assert (false = true) by (apply Hq; discriminate). discriminate. }
      unfold no_read in Hn. rewrite Et in Hn. cbn [orb] in Hn. apply orb_false_iff in Hn as [Hm Hr].
      destruct (ev_r ev) as [[d| |]|] eqn:Hev.
      + destruct (step_data h ev d Et Hm Hr Hev) as (h1 & F1 & F2 & F3 & F4 & F5 & F6 & E).
        rewrite E. pose proof (hd_post_holds h1 d) as HP. destruct (hd h1 d) as [h2 r].
        apply logical_eq in F1 as (R1 & R2 & R3 & R4 & R5 & R6 & R7 & R8 & R9).
        destruct HP as (Pm & Pr & Pt & Ps & Pg & qp & qh & Pb & Ppq & Phq & Psite & Pq).
        rewrite R3, Hnil in Phq. cbn [app] in Phq.
        apply Aux_after_data.
        * unfold conserved in *. rewrite Ps, Pb, Ppq, Phq, R4.
          rewrite !concat_app. rewrite app_assoc, F5, Hc, Hnil. cbn [map concat]. rewrite app_nil_r. now rewrite <- !app_assoc.
        * now rewrite Phq.
        * rewrite Phq. destruct Pq as [->|(x & -> & _)]; cbn; lia.
        * congruence.
        * rewrite Phq. intros H. destruct Pq as [->|(x & -> & Hx & -> & _)]; [congruence|].
          split; [reflexivity|]. apply has_buffer_true. rewrite Pb. cbn [map]. intros E'.
          apply app_eq_nil in E' as [_ E']. apply app_eq_nil in E' as [_ E']. discriminate.
      + destruct (step_gone h ev Et Hm Hr (or_introl Hev)) as (h1 & F1 & F2 & F3 & F4 & F5 & F6 & E).
        rewrite E. cbv zeta.
        apply logical_eq in F1 as (R1 & R2 & R3 & R4 & R5 & R6 & R7 & R8 & R9).
        unfold Aux, conserved, no_read in *.
        destruct (has_buffer _) eqn:Hb; hsimpl; rewrite ?R3, ?R4, ?F5; repeat split; auto; try congruence.
        intros _. left. apply has_buffer_false in Hb. exact Hb.
      + destruct (step_gone h ev Et Hm Hr (or_intror Hev)) as (h1 & F1 & F2 & F3 & F4 & F5 & F6 & E).
        rewrite E. cbv zeta.
        apply logical_eq in F1 as (R1 & R2 & R3 & R4 & R5 & R6 & R7 & R8 & R9).
        unfold Aux, conserved, no_read in *.
        destruct (has_buffer _) eqn:Hb; hsimpl; rewrite ?R3, ?R4, ?F5; repeat split; auto; try congruence.
        intros _. left. apply has_buffer_false in Hb. exact Hb.
      + destruct (step_idle h ev Et Hm Hr Hev) as (h1 & F1 & F2 & F3 & F4 & F5 & F6 & E).
        rewrite E.
        apply logical_eq in F1 as (R1 & R2 & R3 & R4 & R5 & R6 & R7 & R8 & R9).
        unfold Aux, conserved, no_read in *. hsimpl. rewrite ?R3, ?R4, ?F5. repeat split; auto; congruence.
  Qed.

  (* ---------------------------------------------------------------- every reachable state *)
  Lemma new_handler_Inv : Inv new_handler.
  Proof. left. reflexivity. Qed.
  Lemma new_handler_Aux : Aux new_handler.
  Proof.
    unfold Aux, conserved. cbn. repeat split; auto; try discriminate; try (intros H; now elim H).
  Qed.

  Lemma fold_Inv evs : forall h, Inv h -> Inv (fold_left stp evs h).
  Proof. induction evs as [|ev evs IH]; intros h H; cbn [fold_left]; [exact H|]. apply IH, Inv_step, H. Qed.
  Lemma fold_Aux evs : forall h, Aux h -> Aux (fold_left stp evs h).
  Proof. induction evs as [|ev evs IH]; intros h H; cbn [fold_left]; [exact H|]. apply IH, Aux_step, H. Qed.

  Lemma run_Inv evs : Inv (runs evs).
  Proof. apply fold_Inv, new_handler_Inv. Qed.
  Lemma run_Aux evs : Aux (runs evs).
  Proof. apply fold_Aux, new_handler_Aux. Qed.

  Lemma run_app evs more : runs (evs ++ more) = fold_left stp more (runs evs).
  Proof. unfold run. apply fold_left_app. Qed.

  (* ---------------------------------------------------------------- exactly one outcome *)
  Ltac kill :=
    unfold waiting, serving, rejected, closed_no_response, client_closed;
    rew_hyps; cbn [is_nil is_none negb andb orb];
    repeat (rewrite ?andb_false_r; cbn [andb]); try reflexivity.

  Lemma outcomes_one h : Inv h -> count_true (outcomes h) = 1%nat.
  Proof.
    unfold outcomes, count_true.
    intros [HW|[HS|[HR|[HC|HE]]]].
    - rewrite HW. apply waiting_iff in HW as ((A & B & C & D & E & F & G) & Hb & Hs & Ht & Hm & Hr & Hg).
      assert (E1 : serving h = false) by kill.
      assert (E2 : rejected h = false) by kill.
      assert (E3 : closed_no_response h = false) by kill.
      assert (E4 : client_closed h = false) by kill.
      now rewrite E1, E2, E3, E4.
    - rewrite HS. apply serving_iff in HS as (A & B & C & D & E).
      destruct (plugin h) as [k|] eqn:Ep; [|congruence].
      assert (E1 : waiting h = false) by kill.
      assert (E2 : rejected h = false) by kill.
      assert (E3 : closed_no_response h = false) by kill.
      assert (E4 : client_closed h = false) by kill.
      now rewrite E1, E2, E3, E4.
    - rewrite HR. apply rejected_iff in HR as ([x A] & B & C).
      assert (E1 : waiting h = false) by kill.
      assert (E2 : serving h = false) by kill.
      assert (E3 : closed_no_response h = false) by kill.
      assert (E4 : client_closed h = false) by kill.
      now rewrite E1, E2, E3, E4.
    - rewrite HC. apply closed_iff in HC as (A & B & C).
      destruct (exc h) as [e|] eqn:Ee; [|congruence].
      assert (E1 : waiting h = false) by kill.
      assert (E2 : serving h = false) by kill.
      assert (E3 : rejected h = false) by kill.
      assert (E4 : client_closed h = false) by kill.
      now rewrite E1, E2, E3, E4.
    - rewrite HE. apply client_closed_iff in HE as (A & B & C & D & E).
      assert (E1 : waiting h = false) by kill.
      assert (E2 : serving h = false) by kill.
      assert (E3 : rejected h = false) by kill.
      assert (E4 : closed_no_response h = false) by kill.
      now rewrite E1, E2, E3, E4.
  Qed.

  Theorem trichotomy evs : count_true (outcomes (runs evs)) = 1%nat.
  Proof. apply outcomes_one, run_Inv. Qed.

  (* ---------------------------------------------------------------- a rejection is final *)
  Lemma rejected_no_read h : rejected h = true -> no_read h = true.
  Proof.
    intros H. apply rejected_iff in H as (_ & _ & [C|C]); unfold no_read; rewrite C; cbn [orb]; rewrite ?orb_true_r; reflexivity.
  Qed.

  Lemma rejected_stays evs : forall h, rejected h = true ->
    rejected (fold_left stp evs h) = true /\ logical (fold_left stp evs h) = logical h.
  Proof.
    induction evs as [|ev evs IH]; intros h H; cbn [fold_left]; [auto|].
    pose proof (rejected_no_read h H) as Hn.
    destruct (step_no_read h ev Hn) as (Hl & _ & Hmt & _ & _).
    assert (H' : rejected (stp h ev) = true).
    { apply rejected_iff in H as (A & B & C). apply rejected_iff.
      apply logical_eq in Hl as (R1 & R2 & R3 & R4 & R5 & R6 & R7 & R8 & R9).
      rewrite R3, R8. repeat split; auto. apply orb_true_iff, Hmt, orb_true_iff, C. }
    destruct (IH _ H') as [I1 I2]. split; [exact I1|congruence].
  Qed.

  Theorem reject_is_final evs more : rejected (runs evs) = true ->
    rejected (runs (evs ++ more)) = true /\ logical (runs (evs ++ more)) = logical (runs evs).
  Proof. intros H. rewrite run_app. now apply rejected_stays. Qed.

  (* ---------------------------------------------------------------- what the client receives *)
  (* the handler's own output is at most one packet, queued after everything the plugin queued,
     and what has been sent plus what is pending is exactly what was queued *)
  Theorem output_accounted evs : let h := runs evs in
    sent h ++ concat (buffer h) = concat (pq h) ++ concat (map fst (hq h)) /\
    (length (hq h) <= 1)%nat /\ Forall (site_ok cfg) (hq h).
  Proof. destruct (run_Aux evs) as (A & B & _ & _ & C). repeat split; assumption. Qed.

  (* rejected and closed: the client got the whole response, nothing after it *)
  Theorem rejected_delivered_whole evs r site : let h := runs evs in
    rejected h = true -> hq h = [(r, site)] -> torn h = true -> sent h = concat (pq h) ++ r /\ buffer h = [].
  Proof.
    intros h HR Hq Ht. destruct (run_Aux evs) as (A & _ & _ & D & _). fold h in A, D.
    apply rejected_iff in HR as (_ & He & _).
    destruct (D Ht) as [Hb|Hx]; [|congruence].
    unfold conserved in A. rewrite Hb, Hq in A. cbn in A. rewrite !app_nil_r in A. auto.
  Qed.

  (* rejected: the response is the canned 400 or the raised exception's own choice; non-empty *)
  Theorem rejected_response evs : let h := runs evs in rejected h = true ->
    exists r site, hq h = [(r, site)] /\
      match site with None => r = BAD_REQUEST cfg | Some e => exn_response (agent cfg) e = Some r end.
  Proof.
    intros h HR. apply rejected_iff in HR as ([[r site] Hx] & _ & _).
    destruct (run_Aux evs) as (_ & B & _). fold h in B. rewrite Hx in B. inversion B as [|? ? Hs _]; subst.
    exists r, site. split; [exact Hx|]. unfold site_ok in Hs. cbn in Hs. destruct site; exact Hs.
  Qed.

  (* ... and it is a well-formed response, provided the version string is a legal field value and
     the exception raised by the plugin (if that is where the response comes from) is one of the
     library classes with arguments in the builders' domain *)
  Theorem rejected_wf evs connect : wf_agent (agent cfg) = true -> let h := runs evs in
    rejected h = true ->
    exists r site, hq h = [(r, site)] /\
      match site with
      | None => r = BAD_REQUEST_RESPONSE_PKT (agent cfg) /\ wf_response connect r = true
      | Some e => exn_response (agent cfg) e = Some r /\
                  (wf_proto_exn connect (agent cfg) e = true -> wf_response connect r = true)
      end.
  Proof.
    intros Ha h HR. destruct (rejected_response evs HR) as (r & site & Hq & Hs).
    exists r, site. split; [exact Hq|]. destruct site as [e|].
    - split; [exact Hs|]. intros Hw. eapply exn_response_wf; eauto.
    - subst r. split; [reflexivity|]. apply (canned_packets_wf _ Ha).
  Qed.

  (* waiting / closed without response / client closed: nothing of the handler's making *)
  Theorem nothing_of_its_own evs : let h := runs evs in
    hq h = [] -> sent h ++ concat (buffer h) = concat (pq h).
  Proof.
    intros h Hq. destruct (run_Aux evs) as (A & _). fold h in A. unfold conserved in A.
    rewrite Hq in A. cbn in A. now rewrite app_nil_r in A.
  Qed.

  (* ---------------------------------------------------------------- once complete, the request is frozen *)
  Definition frozen (h : handler) := (request h, plugin h, orc_calls h, parse_calls h).

  Lemma hd_complete h d : is_complete (request h) = true -> frozen (fst (hd h d)) = frozen h.
  Proof.
    intros Hc. unfold frozen. hd_cases h d.
    all: try (rewrite Hc in *; discriminate).
    all: hsimpl; try match goal with |- context [is_nil (hq ?y)] => destruct (is_nil (hq y)) end; hsimpl; congruence.
  Qed.

  Lemma after_data_frozen h2 r : frozen (after_data h2 r) = frozen h2.
  Proof.
    unfold after_data, frozen.
    destruct r as [[|]|[pe|oe]]; [ | | | destruct oe; [ | | | | | | | | destruct (k =? SSL_WANT_READ) | ] ];
      cbv zeta; try destruct (has_buffer _); hsimpl; reflexivity.
  Qed.

  Lemma logical_frozen h1 h : logical h1 = logical h -> frozen h1 = frozen h.
  Proof. intros H. apply logical_eq in H as (R1 & R2 & _ & _ & R5 & _ & R7 & _). unfold frozen. congruence. Qed.

  Lemma step_complete h ev : is_complete (request h) = true -> frozen (stp h ev) = frozen h.
  Proof.
    intros Hc. destruct (no_read h) eqn:Hn.
    - apply logical_frozen. apply step_no_read, Hn.
    - unfold no_read in Hn. rewrite !orb_false_iff in Hn. destruct Hn as [[Ht Hm] Hr].
      destruct (ev_r ev) as [[d| |]|] eqn:Hev.
      + destruct (step_data h ev d Ht Hm Hr Hev) as (h1 & F1 & _ & _ & _ & _ & _ & E).
        rewrite E. pose proof (logical_frozen _ _ F1) as Hf.
        assert (Hc1 : is_complete (request h1) = true).
        { apply logical_eq in F1 as (R1 & _). now rewrite R1. }
        pose proof (hd_complete h1 d Hc1) as Hd. destruct (hd h1 d) as [h2 r]. cbn [fst] in Hd.
        rewrite after_data_frozen. congruence.
      + destruct (step_gone h ev Ht Hm Hr (or_introl Hev)) as (h1 & F1 & _ & _ & _ & _ & _ & E).
        rewrite E. cbv zeta. rewrite <- (logical_frozen _ _ F1). unfold frozen.
        destruct (has_buffer _); hsimpl; reflexivity.
      + destruct (step_gone h ev Ht Hm Hr (or_intror Hev)) as (h1 & F1 & _ & _ & _ & _ & _ & E).
        rewrite E. cbv zeta. rewrite <- (logical_frozen _ _ F1). unfold frozen.
        destruct (has_buffer _); hsimpl; reflexivity.
      + destruct (step_idle h ev Ht Hm Hr Hev) as (h1 & F1 & _ & _ & _ & _ & _ & E).
        rewrite E. rewrite <- (logical_frozen _ _ F1). unfold frozen. hsimpl. reflexivity.
  Qed.

  Lemma fold_complete evs : forall h, is_complete (request h) = true -> frozen (fold_left stp evs h) = frozen h.
  Proof.
    induction evs as [|ev evs IH]; intros h Hc; cbn [fold_left]; [reflexivity|].
    pose proof (step_complete h ev Hc) as Hf.
    rewrite IH; [exact Hf|]. unfold frozen in Hf. inversion Hf as [[R1 R2 R3 R4]]. now rewrite R1.
  Qed.

  (* once the first request is complete no later piece is parsed, no second plugin is created and
     on_request_complete is not invoked again *)
  Theorem complete_is_frozen evs more : is_complete (request (runs evs)) = true ->
    frozen (runs (evs ++ more)) = frozen (runs evs).
  Proof. intros H. rewrite run_app. now apply fold_complete. Qed.

  (* on_request_complete runs at most once on a connection: never before a plugin exists, exactly
     once afterwards *)
  Definition orc_ok (h : handler) : Prop :=
    (is_complete (request h) = false -> plugin h = None) /\
    (plugin h = None -> orc_calls h = 0) /\ (plugin h <> None -> orc_calls h = 1).

  Lemma hd_orc_ok h d : orc_ok h -> orc_ok (fst (hd h d)).
  Proof.
    intros (A & B & C). unfold orc_ok.
    destruct (is_complete (request h)) eqn:Hc.
    - pose proof (hd_complete h d Hc) as Hf. unfold frozen in Hf. inversion Hf as [[R1 R2 R3 R4]].
      rewrite R1, R2, R3, Hc. repeat split; auto; discriminate.
    - specialize (A eq_refl). specialize (B A). clear C.
      hd_cases h d.
      all: try (rewrite Hc in *; discriminate).
      all: repeat match goal with
                  | H : negb _ = true |- _ => apply negb_true_iff in H
                  | H : negb _ = false |- _ => apply negb_false_iff in H
                  end.
      all: hsimpl; rewrite ?is_nil_app_cons; hsimpl; try match goal with |- context [is_nil (hq ?y)] => destruct (is_nil (hq y)) end; hsimpl.
      all: rewrite ?is_complete_sbs, ?B; repeat split; auto; try congruence; try (intros; discriminate).
  Qed.

  Lemma after_data_orc_ok h2 r : orc_ok h2 -> orc_ok (after_data h2 r).
  Proof.
    intros H. pose proof (after_data_frozen h2 r) as Hf. unfold frozen in Hf. inversion Hf as [[R1 R2 R3 R4]].
    unfold orc_ok. now rewrite R1, R2, R3.
  Qed.

  Lemma step_orc_ok h ev : orc_ok h -> orc_ok (stp h ev).
  Proof.
    intros H.
    assert (G : forall h1, frozen h1 = frozen h -> orc_ok h1).
    { intros h1 Hf. unfold frozen in Hf. inversion Hf as [[R1 R2 R3 R4]]. unfold orc_ok. now rewrite R1, R2, R3. }
    destruct (no_read h) eqn:Hn.
    - apply G, logical_frozen, step_no_read, Hn.
    - unfold no_read in Hn. rewrite !orb_false_iff in Hn. destruct Hn as [[Ht Hm] Hr].
      destruct (ev_r ev) as [[d| |]|] eqn:Hev.
      + destruct (step_data h ev d Ht Hm Hr Hev) as (h1 & F1 & _ & _ & _ & _ & _ & E).
        rewrite E. pose proof (hd_orc_ok h1 d (G _ (logical_frozen _ _ F1))) as Hd.
        destruct (hd h1 d) as [h2 r]. cbn [fst] in Hd. now apply after_data_orc_ok.
      + destruct (step_gone h ev Ht Hm Hr (or_introl Hev)) as (h1 & F1 & _ & _ & _ & _ & _ & E).
        rewrite E. cbv zeta. apply G. rewrite <- (logical_frozen _ _ F1). unfold frozen.
        destruct (has_buffer _); hsimpl; reflexivity.
      + destruct (step_gone h ev Ht Hm Hr (or_intror Hev)) as (h1 & F1 & _ & _ & _ & _ & _ & E).
        rewrite E. cbv zeta. apply G. rewrite <- (logical_frozen _ _ F1). unfold frozen.
        destruct (has_buffer _); hsimpl; reflexivity.
      + destruct (step_idle h ev Ht Hm Hr Hev) as (h1 & F1 & _ & _ & _ & _ & _ & E).
        rewrite E. apply G. rewrite <- (logical_frozen _ _ F1). unfold frozen. hsimpl. reflexivity.
  Qed.

  Theorem orc_at_most_once evs : let h := runs evs in
    orc_calls h <= 1 /\ (orc_calls h = 1 <-> plugin h <> None).
  Proof.
    assert (H : orc_ok (runs evs)).
    { unfold run. generalize new_handler, (ltac:(unfold orc_ok; cbn; repeat split; auto; congruence) : orc_ok new_handler).
      induction evs as [|ev evs IH]; intros h Hh; cbn [fold_left]; [exact Hh|]. apply IH, step_orc_ok, Hh. }
    cbv zeta. destruct H as (A & B & C). destruct (plugin (runs evs)) as [k|] eqn:Ep.
    - rewrite C by discriminate. split; [lia|]. split; [discriminate|reflexivity].
    - rewrite B by reflexivity. split; [lia|]. split; [discriminate|congruence].
  Qed.

  (* ---------------------------------------------------------------- a rejected connection does close *)
  (* must_flush_before_shutdown is only ever set while something is buffered *)
  Definition MF (h : handler) : Prop := torn h = false -> must_flush h = true -> buffer h <> [].

  Lemma step_must_flush h ev : torn h = false -> must_flush h = true ->
    stp h ev =
      match (if has_buffer h then ev_w ev else None) with
      | Some k => let h1 := flush cfg h k in
                  if negb (has_buffer h1) then set_torn (set_must_flush h1 false)
                  else if reads_teared h1 then h1 else set_reads_teared h1 false
      | None => if reads_teared h then (if has_buffer h then h else set_torn h)
                else set_reads_teared h false
      end.
  Proof.
    intros Ht Hm. unfold step. rewrite Ht, Hm. unfold handle_events, handle_writables. cbn [ev_w ev_r].
    destruct (has_buffer h) eqn:Hb.
    - destruct (ev_w ev) as [k|].
      + destruct (flush_spec h k) as (_ & Hm1 & _ & _ & _). cbv zeta.
        set (h1 := flush cfg h k) in *. rewrite Hm1, Hm. cbn [andb].
        destruct (negb (has_buffer h1)) eqn:Hb1; [reflexivity|].
        destruct (reads_teared h1) eqn:Hr1.
        * rewrite Hb1. reflexivity.
        * unfold handle_readables. hsimpl. reflexivity.
      + destruct (reads_teared h) eqn:Hr.
        * rewrite Hb. reflexivity.
        * unfold handle_readables. hsimpl. reflexivity.
    - destruct (reads_teared h) eqn:Hr.
      + rewrite Hb. reflexivity.
      + unfold handle_readables. hsimpl. reflexivity.
  Qed.

  Lemma after_data_MF h2 r : must_flush h2 = false -> MF (after_data h2 r).
  Proof.
    intros Hm. unfold MF, after_data.
    destruct r as [[|]|[pe|oe]]; [ | | | destruct oe; [ | | | | | | | | destruct (k =? SSL_WANT_READ) | ] ];
      cbv zeta; try destruct (has_buffer _) eqn:Hb; hsimpl; try congruence.
    intros _ _. now apply has_buffer_true.
  Qed.

  Lemma MF_step h ev : MF h -> MF (stp h ev).
  Proof.
    intros HM. destruct (torn h) eqn:Et.
    { assert (stp h ev = h) as ->. { unfold step. now rewrite Et. } exact HM. }
    destruct (must_flush h) eqn:Hm.
    - specialize (HM Et Hm). rewrite (step_must_flush h ev Et Hm).
      assert (Hb : has_buffer h = true) by now apply has_buffer_true.
      rewrite Hb. unfold MF.
      destruct (ev_w ev) as [k|].
      + cbv zeta. destruct (negb (has_buffer (flush cfg h k))) eqn:Hb1; [hsimpl; congruence|].
        apply negb_false_iff, has_buffer_true in Hb1.
        destruct (reads_teared _); hsimpl; auto.
      + destruct (reads_teared h); hsimpl; auto.
    - destruct (reads_teared h) eqn:Hr.
      + (* reads already torn: nothing is read, must_flush stays false *)
        unfold step. rewrite Et.
        set (ev' := {| ev_w := _; ev_r := _ |}).
        destruct (handle_events_no_read h ev' (or_intror Hr)) as (h2 & b & He & _ & Ht2 & _ & _ & Hb0).
        rewrite He. unfold MF. destruct b; hsimpl; [congruence|].
        destruct (Hb0 eq_refl) as [Hm2 _]. congruence.
      + destruct (ev_r ev) as [[d| |]|] eqn:Hev.
        * destruct (step_data h ev d Et Hm Hr Hev) as (h1 & _ & F2 & _ & _ & _ & _ & E).
          rewrite E. pose proof (hd_post_holds h1 d) as HP. destruct (hd h1 d) as [h2 r].
          destruct HP as (Pm & _). apply after_data_MF. congruence.
        * destruct (step_gone h ev Et Hm Hr (or_introl Hev)) as (h1 & _ & F2 & _ & _ & _ & _ & E).
          rewrite E. cbv zeta. unfold MF. destruct (has_buffer _); hsimpl; congruence.
        * destruct (step_gone h ev Et Hm Hr (or_intror Hev)) as (h1 & _ & F2 & _ & _ & _ & _ & E).
          rewrite E. cbv zeta. unfold MF. destruct (has_buffer _); hsimpl; congruence.
        * destruct (step_idle h ev Et Hm Hr Hev) as (h1 & _ & F2 & _ & _ & _ & _ & E).
          rewrite E. unfold MF. hsimpl. congruence.
  Qed.

  Lemma run_MF evs : MF (runs evs).
  Proof.
    unfold run. assert (H : MF new_handler) by (unfold MF; cbn; discriminate).
    revert H. generalize new_handler. induction evs as [|ev evs IH]; intros h H; cbn [fold_left]; [exact H|].
    apply IH, MF_step, H.
  Qed.

  (* bytes still to be delivered, plus one per queued packet *)
  Definition pending (h : handler) : nat := fold_right (fun mv n => S (length mv + n)) O (buffer h).

  Lemma len_nat (l : bytes) : N.to_nat (len l) = length l.
  Proof. unfold len. apply Nat2N.id. Qed.

  Lemma flush_progress h k : buffer h <> [] -> 1 <= k -> 1 <= max_send cfg ->
    (pending (flush cfg h k) < pending h)%nat.
  Proof.
    intros Hb Hk Hs. unfold flush, pending. destruct (buffer h) as [|mv t] eqn:Eb; [congruence|].
    cbv zeta. set (n := N.min k (len (take (max_send cfg) mv))).
    destruct (n =? len mv) eqn:En; hsimpl; cbn [fold_right].
    - lia.
    - apply N.eqb_neq in En.
      assert (Hn : 1 <= n /\ n <= len mv).
      { unfold n. rewrite take_firstn. unfold len in *. rewrite firstn_length.
        destruct mv as [|x mv'].
        - exfalso. apply En. unfold n. rewrite take_firstn, firstn_nil. cbn [length]. now rewrite N.min_0_r.
        - cbn [length] in *. lia. }
      rewrite drop_skipn, skipn_length. unfold len in Hn. lia.
  Qed.

  Lemma torn_fold evs : forall h, torn h = true -> fold_left stp evs h = h.
  Proof.
    induction evs as [|ev evs IH]; intros h Ht; cbn [fold_left]; [reflexivity|].
    assert (stp h ev = h) as ->. { unfold step. now rewrite Ht. } now apply IH.
  Qed.

  Definition accepts (ev : event) : Prop := exists k, ev_w ev = Some k /\ 1 <= k.

  Lemma drain ws : forall h, torn h = false -> must_flush h = true -> buffer h <> [] ->
    1 <= max_send cfg -> Forall accepts ws -> (pending h <= length ws)%nat ->
    torn (fold_left stp ws h) = true.
  Proof.
    induction ws as [|ev ws IH]; intros h Ht Hm Hb Hs Hw Hp.
    - exfalso. unfold pending in Hp. destruct (buffer h); [congruence|]. cbn in Hp. lia.
    - cbn [fold_left]. inversion Hw as [|? ? (k & Hk & Hk1) Hw']; subst.
      rewrite (step_must_flush h ev Ht Hm).
      assert (Hhb : has_buffer h = true) by now apply has_buffer_true.
      rewrite Hhb, Hk. cbv zeta.
      pose proof (flush_progress h k Hb Hk1 Hs) as Hlt.
      destruct (flush_spec h k) as (_ & Hm1 & _ & Ht1 & _).
      set (h1 := flush cfg h k) in *.
      destruct (negb (has_buffer h1)) eqn:Hb1.
      + rewrite torn_fold; reflexivity.
      + apply negb_false_iff, has_buffer_true in Hb1. cbn [length] in Hp.
        destruct (reads_teared h1).
        * apply IH; auto; try congruence. lia.
        * apply IH; hsimpl; auto; try congruence. unfold pending in *. hsimpl. lia.
  Qed.

  (* Once rejected, the connection is closed as soon as the client has accepted the response:
     after at most [pending] client-writable events that each accept at least one byte, whatever
     else the client sends meanwhile. *)
  Theorem rejected_closes evs ws : rejected (runs evs) = true -> 1 <= max_send cfg ->
    Forall accepts ws -> (pending (runs evs) <= length ws)%nat ->
    torn (runs (evs ++ ws)) = true.
  Proof.
    intros HR Hs Hw Hp. rewrite run_app.
    destruct (torn (runs evs)) eqn:Et; [now rewrite torn_fold|].
    apply rejected_iff in HR as (_ & _ & [Hm|Hm]); [|congruence].
    apply drain; auto. now apply run_MF.
  Qed.

  (* ---------------------------------------------------------------- no rejection is an artefact of fuel *)
  (* the request parser of every reachable state satisfies the invariant under which
     Http/ParserFacts.v proves that parse never returns Err OutOfFuel *)
  Lemma parser_inv_clear p sz : PM.Http.ParserFacts.parser_inv p ->
    PM.Http.ParserFacts.parser_inv (set_buffer_size p None sz).
  Proof.
    intros [A B]. split; [now apply PM.Http.ParserFacts.pinv_sbs|cbn; discriminate].
  Qed.

  Lemma hd_parser_inv h d : PM.Http.ParserFacts.parser_inv (request h) ->
    PM.Http.ParserFacts.parser_inv (request (fst (hd h d))).
  Proof.
    intros Hi. hd_cases h d.
    all: hsimpl; rewrite ?is_nil_app_cons; hsimpl;
      try match goal with |- context [is_nil (hq ?y)] => destruct (is_nil (hq y)) end; hsimpl.
    all: try exact Hi.
    all: try apply parser_inv_clear.
    all: eapply PM.Http.ParserFacts.parse_inv; eauto.
  Qed.

  Lemma step_parser_inv h ev : PM.Http.ParserFacts.parser_inv (request h) ->
    PM.Http.ParserFacts.parser_inv (request (stp h ev)).
  Proof.
    intros Hi.
    assert (G : forall h1 h0, frozen h1 = frozen h0 -> request h1 = request h0).
    { intros h1 h0 Hf. unfold frozen in Hf. now inversion Hf. }
    destruct (no_read h) eqn:Hn.
    - rewrite (G _ h); [exact Hi|]. apply logical_frozen, step_no_read, Hn.
    - unfold no_read in Hn. rewrite !orb_false_iff in Hn. destruct Hn as [[Ht Hm] Hr].
      destruct (ev_r ev) as [[d| |]|] eqn:Hev.
      + destruct (step_data h ev d Ht Hm Hr Hev) as (h1 & F1 & _ & _ & _ & _ & _ & E).
        rewrite E. pose proof (hd_parser_inv h1 d) as Hd.
        rewrite (G h1 h (logical_frozen _ _ F1)) in Hd. specialize (Hd Hi).
        destruct (hd h1 d) as [h2 r]. cbn [fst] in Hd.
        rewrite (G _ h2 (after_data_frozen h2 r)). exact Hd.
      + destruct (step_gone h ev Ht Hm Hr (or_introl Hev)) as (h1 & F1 & _ & _ & _ & _ & _ & E).
        rewrite E. cbv zeta. rewrite <- (G h1 h (logical_frozen _ _ F1)) in Hi.
        destruct (has_buffer _); hsimpl; exact Hi.
      + destruct (step_gone h ev Ht Hm Hr (or_intror Hev)) as (h1 & F1 & _ & _ & _ & _ & _ & E).
        rewrite E. cbv zeta. rewrite <- (G h1 h (logical_frozen _ _ F1)) in Hi.
        destruct (has_buffer _); hsimpl; exact Hi.
      + destruct (step_idle h ev Ht Hm Hr Hev) as (h1 & F1 & _ & _ & _ & _ & _ & E).
        rewrite E. rewrite <- (G h1 h (logical_frozen _ _ F1)) in Hi. hsimpl. exact Hi.
  Qed.

  Theorem parse_never_out_of_fuel_on_runs evs d : parse (request (runs evs)) d <> Err OutOfFuel.
  Proof.
    apply PM.Http.ParserFacts.parse_never_out_of_fuel.
    unfold run. assert (H : PM.Http.ParserFacts.parser_inv (request new_handler)) by apply PM.Http.ParserFacts.parser_inv_new.
    revert H. generalize new_handler. induction evs as [|ev evs IH]; intros h H; cbn [fold_left]; [exact H|].
    apply IH, step_parser_inv, H.
  Qed.
End Facts.
