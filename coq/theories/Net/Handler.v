(* Net/Handler.v — the per-connection machine: BaseTcpServerHandler (proxy/core/base/tcp_server.py),
   HttpProtocolHandler (proxy/http/handler.py) and the relay part of HttpProxyPlugin
   (proxy/http/proxy/server.py), function for function.  Definitions only.

   One [event] = one call of handle_events(readables, writables): it names the ready descriptors
   and carries the outcome of every I/O call the handler may make in that step, exactly like
   harness/sim.py scripts them on the fake sockets.

   ABSTRACT PARTS (inputs of the event, not modelled here):
   * the HTTP request parser + plugin dispatch of the FIRST request ([req]): the event says what
     _parse_first_request/on_request_complete amounted to — still incomplete / a rejection path that
     queued these pieces for the client and made handle_data return True / HttpProxyPlugin connected
     upstream (CONNECT tunnel or plain HTTP with these rebuilt request bytes) / a local plugin (web
     server) queued these pieces and keeps the connection / an unexpected exception;
   * what plugin.on_client_data amounts to for bytes after the first request on a NON-tunnel
     exchange ([cdata]: pipelined-request parser) and for the local plugin;
   * the response parser used for bookkeeping in read_from_descriptors: in the REPAIRED code
     (commit ba95ac6, proposed_fixes/C01-guard-response-parse.diff) its result — value or exception — cannot
     influence relaying, so it does not appear at all.
   User plugins: none (flags.plugins[HttpProxyBasePlugin] = []), so the hook chains
   handle_upstream_chunk / handle_client_data / on_response_chunk are the identity.
   Scope: --enable-conn-pool off, no TLS interception, no client-side TLS.

   The model describes /repo with these repairs (all applied, see `git -C /repo log`; also faabfc0:
   threaded _flush tolerates every OSError, see [shutdown]):
   * ba95ac6 "fix: a response the bookkeeping parser could not digest tore down the relay"
     (proposed_fixes/C01-guard-response-parse.diff): bookkeeping parse guarded;
   * ae6ca23 "fix: output queued for the client was lost when flushing to the upstream failed"
     (proposed_fixes/C07-write-side-teardown.diff): handle_events no longer tears down at once when
     the plugin's write side fails; writes_teared becomes sticky, reads stop, and teardown waits for
     the client buffer exactly like the read side does. *)
From PM Require Import Lib.Bytes Net.Conn.
From Coq Require Import ZArith.

Record cfg := mkCfg {
  max_send : N;        (* flags.max_sendbuf_size *)
  ack : bytes;         (* PROXY_TUNNEL_ESTABLISHED_RESPONSE_PKT *)
  timeout : Z;         (* flags.timeout, in clock units *)
  threadless : bool    (* flags.threadless (threaded mode: self.selector is set) *)
}.

(* result of one recv() *)
Inductive recv_res :=
| RData (b : bytes)            (* b = [] is what recv returns at end of stream *)
| REof
| RReset                       (* ConnectionResetError *)
| RTimeout (etimedout : bool)  (* TimeoutError, with errno == ETIMEDOUT or not *)
| ROsErr.                      (* any other OSError (incl. BlockingIOError on a spurious wake-up) *)

Inductive plugin_kind := PNone | PProxy | PLocal.

(* [rem] = request.buffer after the parse that completed the first request: the bytes of this very segment
   that follow the end of the request (pipelined request, tunnel payload sent right behind a CONNECT);
   [] when the segment ends with the request.  Since e222aa4 handle_data hands them to
   plugin.on_client_data in the same call. *)
Inductive req_outcome :=
| RIncomplete
| RError (pieces : list bytes)
| RProxy (tunnel : bool) (rebuilt : bytes) (rem : bytes)
| RServe (pieces : list bytes) (rem : bytes)
| RRaise.

Definition req_rem (r : req_outcome) : bytes :=
  match r with RProxy _ _ rem => rem | RServe _ rem => rem | _ => [] end.

Inductive cdata_outcome :=
| DNothing
| DForward (bs : list bytes) (upg : bool)   (* pipelined request(s) complete: these rebuilt requests go upstream; upg = the last one is a connection upgrade *)
| DReply (pieces : list bytes)        (* local plugin answers *)
| DProto (resp : list bytes)          (* HttpProtocolException, e.response() = resp ([] = None) *)
| DRaise.                             (* any other exception *)

Record event := mkEvent {
  now : Z;                          (* time.time() during this call *)
  c_r : bool; c_w : bool;           (* client fd in readables / writables *)
  u_r : bool; u_w : bool;           (* upstream fd in readables / writables *)
  c_send : outcome; u_send : outcome;
  c_recv : recv_res; u_recv : recv_res;
  req : req_outcome; cdata : cdata_outcome
}.

Record hstate := mkH {
  work : conn;                 (* self.work : the client connection *)
  must_flush : bool;           (* must_flush_before_shutdown *)
  writes_teared : bool;
  reads_teared : bool;
  last_activity : Z;
  req_complete : bool;         (* self.request.state == COMPLETE *)
  plugin : plugin_kind;        (* self.plugin *)
  upstream : option conn;      (* plugin.upstream when connected and not closed *)
  is_tunnel : bool;            (* request.is_https_tunnel *)
  pipeline_upgrade : bool;     (* pipeline_request is not None and is_connection_upgrade *)
  (* GHOST history, not in the Python objects *)
  g_up_rcvd : bytes;           (* every byte upstream.recv() returned *)
  g_cl_rcvd : bytes;           (* every byte client recv() returned after the exchange was established *)
  g_cl_queued : bytes;         (* every byte ever queued for the client *)
  g_last_cio : Z               (* time of the last send()/recv() attempted on the client socket (accept time before any) *)
}.

Definition init (t0 : Z) : hstate :=
  mkH new_conn false false false t0 false PNone None false false [] [] [] t0.

(* ---- record updates *)
Definition set_work (w : conn) (s : hstate) : hstate := mkH (w) (must_flush s) (writes_teared s) (reads_teared s) (last_activity s) (req_complete s) (plugin s) (upstream s) (is_tunnel s) (pipeline_upgrade s) (g_up_rcvd s) (g_cl_rcvd s) (g_cl_queued s) (g_last_cio s).
Definition set_must_flush (b : bool) (s : hstate) : hstate := mkH (work s) (b) (writes_teared s) (reads_teared s) (last_activity s) (req_complete s) (plugin s) (upstream s) (is_tunnel s) (pipeline_upgrade s) (g_up_rcvd s) (g_cl_rcvd s) (g_cl_queued s) (g_last_cio s).
Definition set_writes_teared (b : bool) (s : hstate) : hstate := mkH (work s) (must_flush s) (b) (reads_teared s) (last_activity s) (req_complete s) (plugin s) (upstream s) (is_tunnel s) (pipeline_upgrade s) (g_up_rcvd s) (g_cl_rcvd s) (g_cl_queued s) (g_last_cio s).
Definition set_reads_teared (b : bool) (s : hstate) : hstate := mkH (work s) (must_flush s) (writes_teared s) (b) (last_activity s) (req_complete s) (plugin s) (upstream s) (is_tunnel s) (pipeline_upgrade s) (g_up_rcvd s) (g_cl_rcvd s) (g_cl_queued s) (g_last_cio s).
Definition set_last_activity (t : Z) (s : hstate) : hstate := mkH (work s) (must_flush s) (writes_teared s) (reads_teared s) (t) (req_complete s) (plugin s) (upstream s) (is_tunnel s) (pipeline_upgrade s) (g_up_rcvd s) (g_cl_rcvd s) (g_cl_queued s) (g_last_cio s).
Definition set_upstream (u : option conn) (s : hstate) : hstate := mkH (work s) (must_flush s) (writes_teared s) (reads_teared s) (last_activity s) (req_complete s) (plugin s) (u) (is_tunnel s) (pipeline_upgrade s) (g_up_rcvd s) (g_cl_rcvd s) (g_cl_queued s) (g_last_cio s).
Definition set_pipeline_upgrade (b : bool) (s : hstate) : hstate := mkH (work s) (must_flush s) (writes_teared s) (reads_teared s) (last_activity s) (req_complete s) (plugin s) (upstream s) (is_tunnel s) (b) (g_up_rcvd s) (g_cl_rcvd s) (g_cl_queued s) (g_last_cio s).
Definition set_request (complete : bool) (p : plugin_kind) (tunnel : bool) (s : hstate) : hstate := mkH (work s) (must_flush s) (writes_teared s) (reads_teared s) (last_activity s) (complete) (p) (upstream s) (tunnel) (pipeline_upgrade s) (g_up_rcvd s) (g_cl_rcvd s) (g_cl_queued s) (g_last_cio s).
Definition note_up_rcvd (b : bytes) (s : hstate) : hstate := mkH (work s) (must_flush s) (writes_teared s) (reads_teared s) (last_activity s) (req_complete s) (plugin s) (upstream s) (is_tunnel s) (pipeline_upgrade s) (g_up_rcvd s ++ b) (g_cl_rcvd s) (g_cl_queued s) (g_last_cio s).
Definition note_cl_rcvd (b : bytes) (s : hstate) : hstate := mkH (work s) (must_flush s) (writes_teared s) (reads_teared s) (last_activity s) (req_complete s) (plugin s) (upstream s) (is_tunnel s) (pipeline_upgrade s) (g_up_rcvd s) (g_cl_rcvd s ++ b) (g_cl_queued s) (g_last_cio s).
(* GHOST: a send()/recv() on the client socket is attempted at time t *)
Definition note_client_io (t : Z) (s : hstate) : hstate := mkH (work s) (must_flush s) (writes_teared s) (reads_teared s) (last_activity s) (req_complete s) (plugin s) (upstream s) (is_tunnel s) (pipeline_upgrade s) (g_up_rcvd s) (g_cl_rcvd s) (g_cl_queued s) (t).

(* self.work.queue(mv) (also kept in the ghost history) *)
Definition client_queue (mv : bytes) (s : hstate) : hstate := mkH (queue mv (work s)) (must_flush s) (writes_teared s) (reads_teared s) (last_activity s) (req_complete s) (plugin s) (upstream s) (is_tunnel s) (pipeline_upgrade s) (g_up_rcvd s) (g_cl_rcvd s) (g_cl_queued s ++ mv) (g_last_cio s).
Fixpoint client_queue_all (mvs : list bytes) (s : hstate) : hstate :=
  match mvs with
  | [] => s
  | mv :: t => client_queue_all t (client_queue mv s)
  end.

(* ---- results *)
Inductive hres :=
| HRet (b : bool)      (* the function returned b *)
| HOsErr               (* an OSError propagates to the caller *)
| HExc.                (* any other exception propagates *)

Inductive res := Continue | Teardown | Raised.

(* ======================================================================================
   BaseTcpServerHandler
   ====================================================================================== *)

(* get_events: client READ unless must_flush_before_shutdown; client WRITE iff has_buffer *)
Record interest := mkInt { i_cr : bool; i_cw : bool; i_ur : bool; i_uw : bool }.

Definition base_get_events (s : hstate) : bool * bool :=
  (negb (must_flush s), has_buffer (work s)).

(* handle_writables:
     if client in writables and has_buffer:
        self.work.flush(max_sendbuf_size)                 (BrokenPipeError/OSError propagate)
        if must_flush_before_shutdown and not has_buffer: teardown = True; must_flush... = False *)
Definition base_handle_writables (c : cfg) (ev : event) (s : hstate) : hstate * hres :=
  if c_w ev && has_buffer (work s) then
    let s := note_client_io (now ev) s in            (* ghost: send() is about to be called *)
    match flush (max_send c) (c_send ev) (work s) with
    | (w', Flushed _) =>
        let s1 := set_work w' s in
        if must_flush s1 && negb (has_buffer w') then (set_must_flush false s1, HRet true)
        else (s1, HRet false)
    | (_, FlushBroken) => (s, HOsErr)
    | (_, FlushOsErr) => (s, HOsErr)
    end
  else (s, HRet false).

(* ======================================================================================
   HttpProxyPlugin (relay part) and the abstract plugins
   ====================================================================================== *)

(* _parse_first_request + plugin.on_request_complete, by the oracle [req ev].
   returns Some b = handle_data's try-block returns b (HttpProtocolException paths already folded
   into RError: they queue a response and return True); None = another exception escapes. *)
Definition parse_first_request (c : cfg) (ev : event) (s : hstate) : hstate * option bool :=
  match req ev with
  | RIncomplete => (s, Some false)
  | RError pieces => (client_queue_all pieces (set_request true PNone false s), Some true)
  | RProxy tunnel rebuilt _ =>
      let s1 := set_request true PProxy tunnel s in
      if tunnel
      then (client_queue (ack c) (set_upstream (Some new_conn) s1), Some false)
      else (set_upstream (Some (queue rebuilt new_conn)) s1, Some false)
  | RServe pieces _ => (client_queue_all pieces (set_request true PLocal false s), Some false)
  | RRaise => (s, None)
  end.

(* plugin.on_client_data(raw) *)
Definition on_client_data (ev : event) (s : hstate) (raw : bytes) : hstate * option bool :=
  match plugin s with
  | PNone => (s, Some false)
  | PProxy =>
      match upstream s with
      | None => (s, Some false)                       (* `if not self.upstream`: no user plugins *)
      | Some u =>
          let s0 := note_cl_rcvd raw s in
          if is_tunnel s then (set_upstream (Some (queue raw u)) s0, Some false)
          else if pipeline_upgrade s then (set_upstream (Some (queue raw u)) s0, Some false)
          else match cdata ev with
               | DForward bs upg => (set_pipeline_upgrade upg (set_upstream (Some (queue_all bs u)) s0), Some false)
               | DProto _ => (s0, Some true)          (* parser's HttpProtocolException: response() is None *)
               | DRaise => (s0, None)
               | DNothing => (s0, Some false)
               | DReply _ => (s0, Some false)         (* HttpProxyPlugin never answers from on_client_data *)
               end
      end
  | PLocal =>
      match cdata ev with
      | DReply pieces => (client_queue_all pieces s, Some false)
      | DProto resp => (client_queue_all resp s, Some true)
      | DRaise => (s, None)
      | DNothing => (s, Some false)
      | DForward _ _ => (s, Some false)
      end
  end.

(* HttpProtocolHandler.handle_data:
     if request.state != COMPLETE:
         if _parse_first_request(data): return True
         if request.is_complete and plugin and request.buffer:        (e222aa4)
             remainder = request.buffer; request.buffer = None; plugin.on_client_data(remainder)
     elif plugin: plugin.on_client_data(data)
   (HttpProtocolException from either call: queue e.response() if any, return True) *)
Definition handle_data (c : cfg) (ev : event) (s : hstate) (data : bytes) : hstate * option bool :=
  if negb (req_complete s) then
    match parse_first_request c ev s with
    | (s1, Some false) =>
        match req_rem (req ev) with
        | [] => (s1, Some false)
        | rem => if req_complete s1
                 then match plugin s1 with PNone => (s1, Some false) | _ => on_client_data ev s1 rem end
                 else (s1, Some false)
        end
    | r => r
    end
  else on_client_data ev s data.

(* BaseTcpServerHandler.handle_readables, parametric in the subclass's handle_data *)
Definition base_handle_readables (hd : hstate -> bytes -> hstate * option bool) (ev : event) (s : hstate)
  : hstate * hres :=
  if c_r ev then
    let s := note_client_io (now ev) s in            (* ghost: recv() is called *)
    match c_recv ev with
    | RReset => (s, HRet true)
    | RTimeout _ => (s, HRet true)
    | ROsErr => (s, HOsErr)
    | REof => (s, HRet true)
    | RData [] => (s, HRet true)
    | RData data =>
        match hd s data with
        | (s1, Some true) =>
            if has_buffer (work s1) then (set_must_flush true s1, HRet false) else (s1, HRet true)
        | (s1, Some false) => (s1, HRet false)
        | (s1, None) => (s1, HExc)
        end
    end
  else (s, HRet false).

(* HttpProxyPlugin.get_descriptors *)
Definition plugin_get_descriptors (s : hstate) : bool * bool :=
  match plugin s, upstream s with
  | PProxy, Some u => (true, has_buffer u)
  | _, _ => (false, false)
  end.

(* HttpProxyPlugin.write_to_descriptors: flush upstream; BrokenPipeError/OSError -> _close_and_release() = True *)
Definition write_to_descriptors (c : cfg) (ev : event) (s : hstate) : hstate * bool :=
  match plugin s, upstream s with
  | PProxy, Some u =>
      if u_w ev && has_buffer u then
        match flush (max_send c) (u_send ev) u with
        | (u', Flushed _) => (set_upstream (Some u') s, false)
        | (_, _) => (s, true)
        end
      else (s, false)
  | _, _ => (s, false)
  end.

(* HttpProxyPlugin.read_from_descriptors (repaired: bookkeeping parse guarded) *)
Definition read_from_descriptors (c : cfg) (ev : event) (s : hstate) : hstate * option bool :=
  match plugin s, upstream s with
  | PProxy, Some u =>
      if u_r ev then
        match u_recv ev with
        | RTimeout true => (s, Some true)
        | RTimeout false => (s, None)                 (* `raise e` *)
        | RReset => (s, Some true)
        | ROsErr => (s, Some true)
        | REof => (s, Some true)
        | RData [] => (s, Some true)
        | RData raw => (client_queue raw (note_up_rcvd raw s), Some false)
        end
      else (s, Some false)
  | _, _ => (s, Some false)
  end.

(* ======================================================================================
   HttpProtocolHandler
   ====================================================================================== *)

Definition get_events (s : hstate) : interest :=
  let '(cr, cw) := base_get_events s in
  let '(ur, uw) := plugin_get_descriptors s in
  mkInt cr cw ur uw.

(* handle_writables: last_activity is stamped only when a flush is attempted *)
Definition handle_writables (c : cfg) (ev : event) (s : hstate) : hstate * bool :=
  if c_w ev && has_buffer (work s) then
    let s0 := set_last_activity (now ev) s in
    match base_handle_writables c ev s0 with
    | (s1, HRet b) => (s1, b)
    | (s1, _) => (s1, true)                   (* except BrokenPipeError / OSError: return True *)
    end
  else (s, false).

(* handle_readables: last_activity is stamped whenever the client is readable *)
Definition handle_readables (c : cfg) (ev : event) (s : hstate) : hstate * option bool :=
  if c_r ev then
    let s0 := set_last_activity (now ev) s in
    match base_handle_readables (handle_data c ev) ev s0 with
    | (s1, HRet b) => (s1, Some b)
    | (s1, HOsErr) => (s1, Some true)         (* except socket.error: return True *)
    | (s1, HExc) => (s1, None)
    end
  else (s, Some false).

(* handle_events (repaired, see header) *)
Definition handle_events (c : cfg) (ev : event) (s : hstate) : hstate * res :=
  let '(s1, wt) := handle_writables c ev s in
  if wt then (set_writes_teared true s1, Teardown) else
  let '(s2, wt2) :=
      if writes_teared s1 then (s1, true)
      else match plugin s1 with
           | PNone => (s1, false)
           | _ => let '(s', b) := write_to_descriptors c ev s1 in (set_writes_teared b s', b)
           end in
  if wt2 && negb (has_buffer (work s2)) then (s2, Teardown) else
  let s3 := if wt2 then set_reads_teared true s2 else s2 in
  let '(s4, r) :=
      if reads_teared s3 then (s3, Some true)
      else match handle_readables c ev s3 with
           | (s', Some true) => (set_reads_teared true s', Some true)
           | (s', None) => (s', None)
           | (s', Some false) =>
               match plugin s' with
               | PNone => (s', Some false)
               | _ => match read_from_descriptors c ev s' with
                      | (s'', Some b) => (set_reads_teared b s'', Some b)
                      | (s'', None) => (s'', None)
                      end
               end
           end in
  match r with
  | None => (s4, Raised)
  | Some _ => if reads_teared s4 && negb (has_buffer (work s4)) then (s4, Teardown) else (s4, Continue)
  end.

(* the selector only reports descriptors the handler registered (get_events) *)
Definition select (s : hstate) (ev : event) : event :=
  let i := get_events s in
  mkEvent (now ev) (c_r ev && i_cr i) (c_w ev && i_cw i) (u_r ev && i_ur i) (u_w ev && i_uw i)
          (c_send ev) (u_send ev) (c_recv ev) (u_recv ev) (req ev) (cdata ev).

Definition step (c : cfg) (s : hstate) (ev : event) : hstate * res :=
  handle_events c (select s ev) s.

(* the life of one connection under an event list: stops at the first teardown / escape *)
Fixpoint run (c : cfg) (s : hstate) (evs : list event) : hstate * res :=
  match evs with
  | [] => (s, Continue)
  | ev :: t => match step c s ev with
               | (s', Continue) => run c s' t
               | r => r
               end
  end.

(* is_inactive(): not has_buffer and time.time() - last_activity > timeout *)
Definition is_inactive (c : cfg) (s : hstate) (t : Z) : bool :=
  negb (has_buffer (work s)) && (timeout c <? t - last_activity s)%Z.

(* HttpProtocolHandler._flush (threaded mode only): while has_buffer: select; if nothing ready: continue;
   flush.  BrokenPipeError or any other OSError ends it quietly (faabfc0; the result still says which).
   One list element per select() call: None = timed out with nothing ready. *)
Fixpoint threaded_flush (max : N) (sel : list (option outcome)) (w : conn) : conn * option flush_res :=
  if has_buffer w then
    match sel with
    | [] => (w, None)                               (* still looping: script exhausted *)
    | None :: t => threaded_flush max t w
    | Some o :: t =>
        match flush max o w with
        | (w', Flushed _) => threaded_flush max t w'
        | (w', r) => (w', Some r)
        end
    end
  else (w, Some (Flushed 0)).

(* shutdown(): threaded mode flushes first; then plugin.on_client_connection_close() closes the
   upstream (its own connection.shutdown(SHUT_WR) may raise OSError, which is caught, close() is in a
   finally), then conn.shutdown(SHUT_WR) on the client socket — which raises OSError(ENOTCONN) after a
   peer reset / broken pipe; `except OSError: pass` — and `finally` the client socket is closed.
   So the outcome of the two shutdown(SHUT_WR) calls never changes what is closed. *)
Definition close_upstream (s : hstate) : hstate :=
  match upstream s with Some u => set_upstream (Some (close u)) s | None => s end.

Definition shutdown (c : cfg) (sel : list (option outcome)) (s : hstate) : hstate :=
  if threadless c then close_upstream (set_work (close (work s)) s)
  else
    (* faabfc0: _flush() catches every OSError (BrokenPipeError, ConnectionResetError, ...) and returns; the
       close callbacks (plugin.on_client_connection_close: upstream closed) and the client close always follow.
       Before that commit an OSError other than BrokenPipeError escaped _flush, was swallowed by shutdown()'s
       own `except OSError: pass` and the callbacks were skipped (upstream socket left open). *)
    let '(w, _) := threaded_flush (max_send c) sel (work s) in
    close_upstream (set_work (close w) s).

(* ---- abbreviations used in the statements *)
Definition delivered_client (s : hstate) : bytes := sent (work s).
Definition pending_client (s : hstate) : bytes := pending (work s).
Definition established (s : hstate) : Prop := plugin s = PProxy /\ exists u, upstream s = Some u.
Definition ack_of (c : cfg) (s : hstate) : bytes := if is_tunnel s then ack c else [].
Definition delivered_upstream (s : hstate) : bytes :=
  match upstream s with Some u => sent u | None => [] end.
Definition pending_upstream (s : hstate) : bytes :=
  match upstream s with Some u => pending u | None => [] end.
