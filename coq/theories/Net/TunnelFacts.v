(* Net/TunnelFacts.v — the relay invariants hold for BaseTcpTunnelHandler along every event list. *)
From PM Require Import Lib.Bytes Lib.BytesFacts Net.Conn Net.ConnFacts Net.Handler Net.HandlerFacts Net.Tunnel.
From Coq Require Import ZArith.

Lemma inv_tunnel_handle_data c ev s data s' r :
  inv c s -> tunnel_handle_data c ev s data = (s', r) -> inv c s'.
Proof.
  intros [H1 [H2 H3]]. unfold tunnel_handle_data.
  destruct (upstream s) as [u|] eqn:Eu.
  - intros E; inv_pair. unfold inv_up in H3. rewrite Eu in H3. destruct H3 as [A [B [C D]]].
    unfold inv, inv_up, ack_of; hsimpl. split; [exact H1|]. split; [exact H2|].
    repeat split; auto. intros Ht. change (sent u) with (sent (queue data u)).
    rewrite queue_conservation. now rewrite (D Ht).
  - unfold inv_up in H3. rewrite Eu in H3. destruct H3 as [A [B [C D]]].
    destruct (req_complete s) eqn:Erc.
    { intros E; inv_pair. unfold inv, inv_up. rewrite Eu. repeat split; auto. congruence. }
    specialize (D eq_refl).
    assert (Hq : forall ps (b : bool) p, p <> PProxy ->
              inv c (client_queue_all ps (set_request true p b s))).
    { intros ps b p Hp. rewrite client_queue_all_spec. unfold inv, inv_up; hsimpl. rewrite Eu.
      split; [|split].
      - rewrite queue_all_conservation. now rewrite H1.
      - intros Hm. apply has_buffer_queue_all. auto.
      - repeat split; auto. discriminate. }
    destruct (req ev) as [|pieces|tunnel rebuilt|pieces|]; intros E; inv_pair.
    + unfold inv, inv_up. rewrite Eu. repeat split; auto.
    + apply Hq. discriminate.
    + unfold inv, inv_up, ack_of; hsimpl. split; [|split].
      * rewrite queue_conservation. now rewrite H1.
      * intros _. apply has_buffer_queue.
      * rewrite D, B, C. cbn. repeat split; auto. now rewrite app_nil_r.
    + apply Hq. discriminate.
    + unfold inv, inv_up. rewrite Eu. repeat split; auto.
Qed.

Lemma inv_base_handle_readables_gen c hd ev s s' r :
  (forall s0 d s1 o, inv c s0 -> hd s0 d = (s1, o) -> inv c s1) ->
  inv c s -> base_handle_readables hd ev s = (s', r) -> inv c s'.
Proof.
  intros Hhd H. unfold base_handle_readables.
  destruct (c_r ev); [|intros E; now inv_pair].
  assert (H' : inv c (note_client_io (now ev) s)) by exact H.
  destruct (c_recv ev) as [data| | | |]; try (intros E; inv_pair; exact H').
  destruct data as [|x data]; [intros E; inv_pair; exact H'|].
  destruct (hd (note_client_io (now ev) s) (x :: data)) as [s1 o] eqn:Eh.
  pose proof (Hhd _ _ _ _ H' Eh) as H1.
  destruct o as [[|]|]; try (intros E; inv_pair; exact H1).
  destruct (has_buffer (work s1)) eqn:Hb; intros E; inv_pair; [|exact H1].
  destruct H1 as [A [B C]]. split; [exact A|]. split; [|exact C]. intros _. exact Hb.
Qed.

Lemma inv_tunnel_server_events c ev sx s' r :
  inv c sx -> tunnel_server_events c ev sx = (s', r) -> inv c s'.
Proof.
  intros Ix. unfold tunnel_server_events.
  destruct (upstream sx) as [u|] eqn:Eu; [|intros E; inv_pair; exact Ix].
  assert (Hw : forall s2, inv c s2 -> upstream s2 = Some u ->
     (if u_w ev then
        match flush (max_send c) (u_send ev) u with
        | (u', Flushed _) => (set_upstream (Some u') s2, Continue)
        | (_, _) => (s2, Raised)
        end
      else (s2, Continue)) = (s', r) -> inv c s').
  { intros s2 I2 Eu2. destruct (u_w ev); [|intros E; inv_pair; exact I2].
    destruct (flush (max_send c) (u_send ev) u) as [u' fr] eqn:Ef.
    pose proof (flush_conservation _ _ _ _ _ Ef) as Hc.
    destruct fr; intros E; inv_pair; try exact I2.
    destruct I2 as [J1 [J2 J3]]. unfold inv_up in J3. rewrite Eu2 in J3. destruct J3 as [A' [B' [C' D']]].
    unfold inv, inv_up; hsimpl. split; [exact J1|]. split; [exact J2|].
    repeat split; auto. intros Ht. rewrite Hc. auto. }
  assert (Hclosed : (if has_buffer (work sx) then (set_must_flush true sx, Continue) else (sx, Teardown)) = (s', r) -> inv c s').
  { destruct (has_buffer (work sx)) eqn:Hb; intros E; inv_pair; [|exact Ix].
    destruct Ix as [A [B C]]. split; [exact A|]. split; [intros _; exact Hb|exact C]. }
  destruct (u_r ev); [|now apply Hw].
  destruct (u_recv ev) as [raw| | | |]; try exact Hclosed; try (intros E; inv_pair; exact Ix).
  destruct raw as [|x raw]; [exact Hclosed|].
  apply Hw; [|hsimpl; exact Eu].
  destruct Ix as [H1 [H2 H3]]. unfold inv_up in H3. rewrite Eu in H3. destruct H3 as [A [B [C D]]].
  unfold inv, inv_up, ack_of; hsimpl. rewrite Eu. split; [|split].
  - rewrite queue_conservation. now rewrite H1.
  - intros _. apply has_buffer_queue.
  - repeat split; auto. unfold ack_of in C. rewrite C. now rewrite app_assoc.
Qed.

Theorem inv_tunnel_handle_events c ev s s' r :
  inv c s -> tunnel_handle_events c ev s = (s', r) -> inv c s'.
Proof.
  intros H. unfold tunnel_handle_events, base_handle_events.
  destruct (base_handle_writables c ev s) as [s1 r1] eqn:Ew.
  pose proof (inv_base_handle_writables _ _ _ _ _ H Ew) as I1.
  destruct r1 as [[|]| |]; try (intros E; inv_pair; exact I1).
  destruct (base_handle_readables (tunnel_handle_data c ev) ev s1) as [s2 r2] eqn:Er.
  assert (I2 : inv c s2).
  { eapply inv_base_handle_readables_gen; [|exact I1|exact Er].
    intros s0 d sx o I0 E0. eapply inv_tunnel_handle_data; eauto. }
  destruct r2 as [[|]| |]; try (intros E; inv_pair; exact I2).
  now apply inv_tunnel_server_events.
Qed.

Theorem inv_tunnel_run c evs : forall s s' r, inv c s -> tunnel_run c s evs = (s', r) -> inv c s'.
Proof.
  induction evs as [|ev t IH]; intros s s' r H; cbn [tunnel_run].
  - intros E; inv_pair; exact H.
  - destruct (tunnel_step c s ev) as [s1 r1] eqn:Es. unfold tunnel_step in Es.
    pose proof (inv_tunnel_handle_events _ _ _ _ _ H Es) as H1.
    destruct r1; intros E; try (inv_pair; exact H1). eapply IH; eauto.
Qed.

(* in a BaseTcpTunnelHandler an upstream connection only exists for an accepted CONNECT *)
Definition tinv (s : hstate) : Prop := upstream s <> None -> is_tunnel s = true.

Lemma tinv_base_handle_writables c ev s s' r : tinv s -> base_handle_writables c ev s = (s', r) -> tinv s'.
Proof.
  unfold base_handle_writables, tinv. intros H E. hsimpl. brk_all; repeat inv_pair; hsimpl; exact H.
Qed.

Lemma tinv_tunnel_handle_data c ev s d s' r : tinv s -> tunnel_handle_data c ev s d = (s', r) -> tinv s'.
Proof.
  unfold tunnel_handle_data, tinv. intros H E.
  brk_all; repeat inv_pair; rewrite ?client_queue_all_spec; hsimpl; intros Hn;
    try reflexivity; try congruence; try (apply H; congruence).
Qed.

Lemma tinv_base_handle_readables hd ev s s' r :
  (forall s0 d s1 o, tinv s0 -> hd s0 d = (s1, o) -> tinv s1) ->
  tinv s -> base_handle_readables hd ev s = (s', r) -> tinv s'.
Proof.
  intros Hhd H. unfold base_handle_readables.
  destruct (c_r ev); [|intros E; now inv_pair].
  assert (H' : tinv (note_client_io (now ev) s)) by exact H.
  destruct (c_recv ev) as [data| | | |]; try (intros E; inv_pair; exact H').
  destruct data as [|x data]; [intros E; inv_pair; exact H'|].
  destruct (hd (note_client_io (now ev) s) (x :: data)) as [s1 o] eqn:Eh.
  pose proof (Hhd _ _ _ _ H' Eh) as H1.
  destruct o as [[|]|]; try (intros E; inv_pair; exact H1).
  destruct (has_buffer (work s1)); intros E; inv_pair; exact H1.
Qed.

Lemma tinv_tunnel_server_events c ev s s' r : tinv s -> tunnel_server_events c ev s = (s', r) -> tinv s'.
Proof.
  unfold tunnel_server_events, tinv. intros H E.
  destruct (upstream s) as [u|] eqn:Eu; [|inv_pair; congruence].
  assert (Ht : is_tunnel s = true) by (apply H; discriminate).
  brk_all; repeat inv_pair; hsimpl; intros _; exact Ht.
Qed.

Lemma tinv_tunnel_handle_events c ev s s' r : tinv s -> tunnel_handle_events c ev s = (s', r) -> tinv s'.
Proof.
  intros H. unfold tunnel_handle_events, base_handle_events.
  destruct (base_handle_writables c ev s) as [s1 r1] eqn:Ew.
  pose proof (tinv_base_handle_writables _ _ _ _ _ H Ew) as I1.
  destruct r1 as [[|]| |]; try (intros E; inv_pair; exact I1).
  destruct (base_handle_readables (tunnel_handle_data c ev) ev s1) as [s2 r2] eqn:Er.
  assert (I2 : tinv s2).
  { eapply tinv_base_handle_readables; [|exact I1|exact Er].
    intros s0 d sx o I0 E0. eapply tinv_tunnel_handle_data; eauto. }
  destruct r2 as [[|]| |]; try (intros E; inv_pair; exact I2).
  now apply tinv_tunnel_server_events.
Qed.

Lemma tinv_tunnel_run c evs : forall s s' r, tinv s -> tunnel_run c s evs = (s', r) -> tinv s'.
Proof.
  induction evs as [|ev t IH]; intros s s' r H; cbn [tunnel_run].
  - intros E; inv_pair; exact H.
  - destruct (tunnel_step c s ev) as [s1 r1] eqn:Es. unfold tunnel_step in Es.
    pose proof (tinv_tunnel_handle_events _ _ _ _ _ H Es) as H1.
    destruct r1; intros E; try (inv_pair; exact H1). eapply IH; eauto.
Qed.

(* both directions of a BaseTcpTunnelHandler tunnel, along every event list *)
Theorem tunnel_relay_invariant c t0 evs s r u :
  tunnel_run c (init t0) evs = (s, r) -> upstream s = Some u ->
  sent (work s) ++ pending (work s) = ack c ++ g_up_rcvd s /\
  sent u ++ pending u = g_cl_rcvd s.
Proof.
  intros Hr Hu. destruct (inv_tunnel_run _ _ _ _ _ (inv_init c t0) Hr) as [H1 [_ H3]].
  unfold inv_up in H3. rewrite Hu in H3. destruct H3 as [A [B [C D]]].
  assert (Ht : is_tunnel s = true).
  { apply (tinv_tunnel_run _ _ _ _ _ (fun (H : upstream (init t0) <> None) => False_ind _ (H eq_refl)) Hr). congruence. }
  unfold ack_of in C. rewrite Ht in C. split; [now rewrite H1|auto].
Qed.

(* ------------------------------------------------------------------------------------------
   C07 for BaseTcpTunnelHandler (with proposed_fixes/C07-tunnel-upstream-eof.diff): a teardown decided by
   handle_events finds the client buffer empty unless it is the client side that ended (EOF / reset /
   timeout on the client recv: BaseTcpServerHandler returns True at once for those)
   ------------------------------------------------------------------------------------------ *)
Definition client_ended (ev : event) : bool :=
  c_r ev && match c_recv ev with
            | REof => true | RData [] => true | RReset => true | RTimeout _ => true | _ => false
            end.

Theorem tunnel_teardown_flushed c ev s s' :
  tunnel_handle_events c ev s = (s', Teardown) ->
  client_ended ev = true \/ buffer (work s') = [].
Proof.
  unfold tunnel_handle_events, base_handle_events.
  destruct (base_handle_writables c ev s) as [s1 r1] eqn:Ew.
  destruct r1 as [[|]| |]; try (intros E; discriminate).
  - (* the awaited final flush completed *)
    intros E; inv_pair. right. revert Ew. unfold base_handle_writables.
    destruct (c_w ev && has_buffer (work s)); [|discriminate]. hsimpl.
    destruct (flush (max_send c) (c_send ev) (work s)) as [w' fr]. destruct fr; try discriminate.
    destruct (must_flush s && negb (has_buffer w')) eqn:Em; intros E; inversion E; subst. hsimpl.
    apply andb_true_iff in Em as [_ Em]. apply negb_true_iff in Em. now apply has_buffer_false.
  - destruct (base_handle_readables (tunnel_handle_data c ev) ev s1) as [s2 r2] eqn:Er.
    destruct r2 as [[|]| |]; try (intros E; discriminate).
    + (* base handle_readables returned True *)
      intros E; inv_pair. revert Er. unfold base_handle_readables, client_ended.
      destruct (c_r ev); [|discriminate]. cbn [andb].
      destruct (c_recv ev) as [data| | | |]; try (intros _; now left); try discriminate.
      destruct data as [|x data]; [intros _; now left|].
      destruct (tunnel_handle_data c ev (note_client_io (now ev) s1) (x :: data)) as [sx o].
      destruct o as [[|]|]; try discriminate.
      destruct (has_buffer (work sx)) eqn:Hb; intros E; inversion E; subst.
      right. now apply has_buffer_false.
    + (* upstream part *)
      unfold tunnel_server_events. destruct (upstream s2) as [u|]; [|discriminate].
      assert (Hw : forall sy, (if u_w ev then
                  match flush (max_send c) (u_send ev) u with
                  | (u', Flushed _) => (set_upstream (Some u') sy, Continue)
                  | (_, _) => (sy, Raised)
                  end else (sy, Continue)) = (s', Teardown) -> False).
      { intros sy. destruct (u_w ev); [|discriminate].
        destruct (flush (max_send c) (u_send ev) u) as [u' fr]. destruct fr; discriminate. }
      assert (Hc : (if has_buffer (work s2) then (set_must_flush true s2, Continue) else (s2, Teardown)) = (s', Teardown) ->
                   buffer (work s') = []).
      { destruct (has_buffer (work s2)) eqn:Hb; [discriminate|]. intros E; inv_pair. now apply has_buffer_false. }
      destruct (u_r ev); [|intros E; destruct (Hw _ E)].
      destruct (u_recv ev) as [raw| | | |]; try (intros E; right; exact (Hc E)); try discriminate.
      destruct raw as [|x raw]; [intros E; right; exact (Hc E)|]. intros E; destruct (Hw _ E).
Qed.

(* and the server's close is never dropped on the floor: with output pending it arms the final flush,
   and the call whose client flush empties the buffer then returns True (BaseTcpServerHandler.handle_writables) *)
Theorem tunnel_server_close_waits c ev s u :
  upstream s = Some u -> u_r ev = true -> u_recv ev = REof -> has_buffer (work s) = true ->
  tunnel_server_events c ev s = (set_must_flush true s, Continue).
Proof.
  intros Eu Er Ee Hb. unfold tunnel_server_events. now rewrite Eu, Er, Ee, Hb.
Qed.

Theorem tunnel_final_flush_prompt c ev s w' n :
  must_flush s = true -> c_w ev = true -> has_buffer (work s) = true ->
  flush (max_send c) (c_send ev) (work s) = (w', Flushed n) -> buffer w' = [] ->
  exists s', tunnel_handle_events c ev s = (s', Teardown) /\ work s' = w'.
Proof.
  intros Hm Hw Hb Ef Hbuf. unfold tunnel_handle_events, base_handle_events, base_handle_writables.
  rewrite Hw, Hb. hsimpl. rewrite Ef. hsimpl. rewrite Hm.
  assert (has_buffer w' = false) as -> by now apply has_buffer_false.
  cbn. eexists. split; reflexivity.
Qed.
