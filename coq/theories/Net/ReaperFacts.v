(* Net/ReaperFacts.v — C20: the idle reaper is safe (never closes a connection with pending output or
   recent client I/O) and live (closes an idle one within a bounded number of loop iterations). *)
From PM Require Import Lib.Bytes Lib.BytesFacts Net.Conn Net.ConnFacts Net.Handler Net.HandlerFacts Net.Reaper.
From Coq Require Import ZArith Lia.

(* ---- the tick arithmetic: the sweep is due exactly from tick = ceil(cleanup / period) on *)
Lemma sweep_due_iff tc tick :
  0 < period_us tc -> sweep_due tc tick = (sweep_period tc <=? tick).
Proof.
  intros Hp. unfold sweep_due, sweep_period.
  set (p := period_us tc) in *. set (cl := cleanup_us tc).
  pose proof (N.div_mod (cl + p - 1) p ltac:(lia)) as Hdm.
  pose proof (N.mod_lt (cl + p - 1) p ltac:(lia)) as Hlt.
  set (q := (cl + p - 1) / p) in *. set (r := (cl + p - 1) mod p) in *.
  destruct (cl <=? tick * p) eqn:E1; destruct (q <=? tick) eqn:E2; try reflexivity.
  - apply N.leb_le in E1. apply N.leb_gt in E2. exfalso. nia.
  - apply N.leb_gt in E1. apply N.leb_le in E2. exfalso. nia.
Qed.

(* ---- safety *)
Lemma is_inactive_spec c h t :
  is_inactive c h t = true <-> buffer (work h) = [] /\ (timeout c < t - last_activity h)%Z.
Proof.
  unfold is_inactive. rewrite andb_true_iff, negb_true_iff, has_buffer_false, Z.ltb_lt. reflexivity.
Qed.

Theorem cleanup_inactive_safe c st t t' :
  r_fate st = Alive -> r_fate (cleanup_inactive c st t) = Reaped t' ->
  t' = t /\ pending_client (r_h st) = [] /\ (timeout c < t - last_activity (r_h st))%Z.
Proof.
  unfold cleanup_inactive. intros Ha. rewrite Ha. destruct (is_inactive c (r_h st) t) eqn:E; cbn [r_fate]; [|intros H; congruence].
  intros H; inversion H; subst. apply is_inactive_spec in E as [A B].
  split; [reflexivity|]. split; [|exact B]. unfold pending_client, pending. now rewrite A.
Qed.

Lemma run_once_fate c st oev t : r_fate (run_once c st oev) = Reaped t -> r_fate st = Reaped t.
Proof.
  unfold run_once. destruct (r_fate st) eqn:E; try (intros H; now rewrite <- E).
  destruct oev as [ev|]; [|intros H; congruence].
  destruct (step c (r_h st) ev) as [h' r]; destruct r; cbn; discriminate.
Qed.

(* threadless: a connection is reaped in an iteration only if, after that iteration's handle_events,
   nothing is pending for the client and its last client I/O is more than timeout ago *)
Theorem threadless_reaper_safe tc c st it st' sw t :
  r_fate st = Alive -> threadless_iter tc c st it = (st', sw) -> r_fate st' = Reaped t ->
  let h := r_h (run_once c st (it_ev it)) in
  t = it_t it /\ sw = true /\ r_fate (run_once c st (it_ev it)) = Alive /\
  pending_client h = [] /\ (timeout c < t - last_activity h)%Z.
Proof.
  intros Ha. unfold threadless_iter. set (st1 := run_once c st (it_ev it)).
  destruct (sweep_due tc (r_tick st1)); intros E; inversion E; subst; clear E; cbn [set_tick r_fate].
  - intros Hr.
    assert (H1 : r_fate st1 = Alive).
    { destruct (r_fate st1) eqn:E1; [reflexivity| |].
      - unfold cleanup_inactive in Hr. rewrite E1 in Hr. congruence.
      - apply run_once_fate in E1. congruence. }
    destruct (cleanup_inactive_safe _ _ _ _ H1 Hr) as [A [B C]]. subst. repeat split; auto.
  - intros Hr. apply run_once_fate in Hr. congruence.
Qed.

Theorem threaded_reaper_safe c sel st it t :
  r_fate st = Alive -> r_fate (threaded_iter c sel st it) = Reaped t ->
  t = it_t it /\ pending_client (r_h st) = [] /\ (timeout c < t - last_activity (r_h st))%Z.
Proof.
  intros Ha. unfold threaded_iter. rewrite Ha.
  destruct (is_inactive c (r_h st) (it_t it)) eqn:E; cbn [r_fate].
  - intros H; inversion H; subst. apply is_inactive_spec in E as [A B].
    repeat split; auto. unfold pending_client, pending. now rewrite A.
  - destruct (step c (r_h st) _) as [h' r]; destruct r; cbn; discriminate.
Qed.

(* ---- liveness, threadless *)
Lemma reaper_run_dead tc c its : forall st, r_fate st <> Alive -> r_fate (reaper_run tc c st its) = r_fate st.
Proof.
  induction its as [|it t IH]; intros st H; cbn [reaper_run]; [reflexivity|].
  assert (H1 : run_once c st (it_ev it) = st).
  { unfold run_once. destruct (r_fate st); congruence. }
  unfold threadless_iter. rewrite H1.
  assert (H2 : cleanup_inactive c st (it_t it) = st).
  { unfold cleanup_inactive. destruct (r_fate st); congruence. }
  destruct (sweep_due tc (r_tick st)); cbn [fst]; rewrite ?H2; rewrite IH; auto.
Qed.

Lemma run_once_none c st : run_once c st None = st.
Proof. unfold run_once. now destruct (r_fate st). Qed.

Lemma reaper_run_cons tc c st it t :
  reaper_run tc c st (it :: t) = reaper_run tc c (fst (threadless_iter tc c st it)) t.
Proof. reflexivity. Qed.

Lemma threaded_run_cons c sel st it t :
  threaded_run c sel st (it :: t) = threaded_run c sel (threaded_iter c sel st it) t.
Proof. reflexivity. Qed.

Lemma chain_cons2 d a b t : chain d (a :: b :: t) = ((a <= b <= a + d)%Z /\ chain d (b :: t)).
Proof. reflexivity. Qed.

Definition bound_from (tc : tcfg) (delta D t0 : Z) (tick : N) : Z :=
  if (D <? t0)%Z then (t0 + Z.of_N (sweep_period tc - tick) * delta)%Z
  else (D + delta + Z.of_N (sweep_period tc) * delta)%Z.

Lemma idle_bound tc c delta :
  0 < period_us tc -> (0 <= delta)%Z ->
  forall its h tick it0,
  has_buffer (work h) = false ->
  Forall (fun it => it_ev it = None) (it0 :: its) -> chain delta (map it_t (it0 :: its)) ->
  let D := (last_activity h + timeout c)%Z in
  let B := bound_from tc delta D (it_t it0) tick in
  match r_fate (reaper_run tc c (mkR h tick Alive) (it0 :: its)) with
  | Reaped t => (D < t <= B)%Z
  | Alive => forall it, In it (it0 :: its) -> (it_t it <= B)%Z
  | ClosedByHandler => False
  end.
Proof.
  intros Hp Hd. induction its as [|it1 rest IH]; intros h tick it0 Hb Hidle Hch; cbn zeta.
  - (* single iteration *)
    inversion Hidle as [|? ? H0 _]; subst. cbn [reaper_run]. unfold threadless_iter. rewrite H0, run_once_none.
    cbn [r_fate r_tick fst]. rewrite (sweep_due_iff _ _ Hp).
    unfold bound_from. destruct (sweep_period tc <=? tick) eqn:Es; cbn [fst set_tick r_fate].
    + unfold cleanup_inactive. cbn [r_fate r_h]. unfold is_inactive. rewrite Hb. cbn [negb andb].
      destruct (timeout c <? it_t it0 - last_activity h)%Z eqn:Ei; cbn [r_fate].
      * apply Z.ltb_lt in Ei. assert (Hlt : (last_activity h + timeout c <? it_t it0)%Z = true) by (apply Z.ltb_lt; lia).
        rewrite Hlt. apply N.leb_le in Es. replace (sweep_period tc - tick) with 0 by lia. lia.
      * apply Z.ltb_ge in Ei. assert (Hlt : (last_activity h + timeout c <? it_t it0)%Z = false) by (apply Z.ltb_ge; lia).
        rewrite Hlt. intros it [<-|[]]. nia.
    + intros it [<-|[]]. destruct (last_activity h + timeout c <? it_t it0)%Z eqn:Hlt.
      * nia.
      * apply Z.ltb_ge in Hlt. nia.
  - inversion Hidle as [|? ? H0 Hidle']; subst.
    change (map it_t (it0 :: it1 :: rest)) with (it_t it0 :: it_t it1 :: map it_t rest) in Hch.
    rewrite chain_cons2 in Hch. destruct Hch as [[Hle Hgap] Hch'].
    change (it_t it1 :: map it_t rest) with (map it_t (it1 :: rest)) in Hch'.
    rewrite reaper_run_cons. unfold threadless_iter at 1. rewrite H0, run_once_none. cbn [r_fate r_tick fst].
    rewrite (sweep_due_iff _ _ Hp).
    set (D := (last_activity h + timeout c)%Z).
    assert (HB1 : forall tick', (tick' <= sweep_period tc -> True) ->
              (D <? it_t it0)%Z = false ->
              (bound_from tc delta D (it_t it1) tick' <= bound_from tc delta D (it_t it0) tick)%Z).
    { intros tick' _ Hlt. unfold bound_from. rewrite Hlt. apply Z.ltb_ge in Hlt.
      destruct (D <? it_t it1)%Z eqn:Hlt1; [|lia]. apply Z.ltb_lt in Hlt1.
      assert (Z.of_N (sweep_period tc - tick') <= Z.of_N (sweep_period tc))%Z by lia. nia. }
    destruct (sweep_period tc <=? tick) eqn:Es; cbn [fst].
    + (* the sweep runs *)
      unfold cleanup_inactive. cbn [r_fate r_h]. unfold is_inactive. rewrite Hb. cbn [negb andb].
      destruct (timeout c <? it_t it0 - last_activity h)%Z eqn:Ei.
      * rewrite reaper_run_dead by (cbn; discriminate). cbn [set_tick r_fate].
        apply Z.ltb_lt in Ei. unfold bound_from. fold D.
        assert (Hlt : (D <? it_t it0)%Z = true) by (apply Z.ltb_lt; unfold D; lia). rewrite Hlt.
        apply N.leb_le in Es. replace (sweep_period tc - tick) with 0 by lia. unfold D. lia.
      * change (set_tick 1 (mkR h tick Alive)) with (mkR h 1 Alive). apply Z.ltb_ge in Ei.
        assert (Hlt : (D <? it_t it0)%Z = false) by (apply Z.ltb_ge; unfold D; lia).
        specialize (IH h 1 it1 Hb Hidle' Hch'). cbn zeta in IH. fold D in IH.
        pose proof (HB1 1 (fun _ => I) Hlt) as HB.
        destruct (r_fate (reaper_run tc c (mkR h 1 Alive) (it1 :: rest))) eqn:Ef.
        -- intros it [<-|Hin]; [|specialize (IH it Hin); lia].
           unfold bound_from. rewrite Hlt. apply Z.ltb_ge in Hlt. nia.
        -- exact IH.
        -- lia.
    + (* no sweep in this iteration *)
      change (set_tick (tick + 1) (mkR h tick Alive)) with (mkR h (tick + 1) Alive). apply N.leb_gt in Es.
      specialize (IH h (tick + 1) it1 Hb Hidle' Hch'). cbn zeta in IH. fold D in IH.
      assert (HB : (bound_from tc delta D (it_t it1) (tick + 1) <= bound_from tc delta D (it_t it0) tick)%Z).
      { destruct (D <? it_t it0)%Z eqn:Hlt; [|apply (HB1 (tick + 1) (fun _ => I) eq_refl)].
        unfold bound_from. rewrite Hlt. apply Z.ltb_lt in Hlt.
        assert (Hlt1 : (D <? it_t it1)%Z = true) by (apply Z.ltb_lt; lia). rewrite Hlt1.
        replace (Z.of_N (sweep_period tc - tick)) with (Z.of_N (sweep_period tc - (tick + 1)) + 1)%Z by lia. nia. }
      assert (H0B : (it_t it0 <= bound_from tc delta D (it_t it0) tick)%Z).
      { unfold bound_from. destruct (D <? it_t it0)%Z eqn:Hlt; [nia|]. apply Z.ltb_ge in Hlt. nia. }
      destruct (r_fate (reaper_run tc c (mkR h (tick + 1) Alive) (it1 :: rest))) eqn:Ef.
      * intros it [<-|Hin]; [exact H0B|specialize (IH it Hin); lia].
      * exact IH.
      * lia.
Qed.

Lemma bound_from_le tc delta D t0 tick :
  (0 <= delta)%Z ->
  (bound_from tc delta D t0 tick <= Z.max t0 (D + delta) + Z.of_N (sweep_period tc) * delta)%Z.
Proof.
  intros Hd. unfold bound_from. destruct (D <? t0)%Z eqn:E.
  - assert (Z.of_N (sweep_period tc - tick) <= Z.of_N (sweep_period tc))%Z by lia. nia.
  - lia.
Qed.

(* threadless liveness: a connection with nothing pending that gets no further events, observed from
   any tick value, is reaped no later than
       max(first iteration, last_activity + timeout + delta) + ceil(cleanup/period) * delta
   provided consecutive loop iterations are at most delta apart; and it cannot be alive at any
   iteration later than that. *)
Theorem threadless_reaper_live tc c delta h tick it0 its :
  0 < period_us tc -> (0 <= delta)%Z ->
  has_buffer (work h) = false ->
  Forall (fun it => it_ev it = None) (it0 :: its) -> chain delta (map it_t (it0 :: its)) ->
  let D := (last_activity h + timeout c)%Z in
  let B := (Z.max (it_t it0) (D + delta) + Z.of_N (sweep_period tc) * delta)%Z in
  match r_fate (reaper_run tc c (mkR h tick Alive) (it0 :: its)) with
  | Reaped t => (D < t <= B)%Z
  | Alive => forall it, In it (it0 :: its) -> (it_t it <= B)%Z
  | ClosedByHandler => False
  end.
Proof.
  intros Hp Hd Hb Hidle Hch. cbn zeta.
  pose proof (idle_bound tc c delta Hp Hd its h tick it0 Hb Hidle Hch) as H. cbn zeta in H.
  pose proof (bound_from_le tc delta (last_activity h + timeout c) (it_t it0) tick Hd) as HB.
  destruct (r_fate (reaper_run tc c (mkR h tick Alive) (it0 :: its))).
  - intros it Hin. specialize (H it Hin). lia.
  - exact H.
  - lia.
Qed.

(* ---- liveness, threaded: is_inactive() is evaluated before every _run_once *)
Lemma null_step_idle c h t h' r :
  step c h (null_event t) = (h', r) ->
  work h' = work h /\ last_activity h' = last_activity h /\ r <> Raised.
Proof.
  unfold step. set (ev := select h (null_event t)).
  assert (Hcw : c_w ev = false) by reflexivity.
  assert (Hcr : c_r ev = false) by reflexivity.
  assert (Hur : u_r ev = false) by reflexivity.
  intros E.
  assert (Hc : c_w ev && has_buffer (work h) = false) by now rewrite Hcw.
  destruct (no_client_io_step _ _ _ _ _ Hc Hcr E) as [A _]. split; [|split; [exact A|]].
  - revert E. rewrite handle_events_unfold. rewrite (handle_writables_idle _ _ _ Hc).
    destruct (write_phase c ev h) as [s2 wt2] eqn:Ep.
    destruct (write_phase_frame _ _ _ _ _ Ep) as [W _].
    destruct (wt2 && negb (has_buffer (work s2))); [intros E; inv_pair; exact W|].
    destruct (read_phase c ev (if wt2 then set_reads_teared true s2 else s2)) as [s4 r4] eqn:Er.
    destruct (read_phase_idle _ _ _ _ _ Hcr Hur Er) as [W4 _].
    assert (work s4 = work h) by (rewrite W4; destruct wt2; hsimpl; exact W).
    destruct r4; [|intros E; inv_pair; assumption].
    destruct (reads_teared s4 && negb (has_buffer (work s4))); intros E; inv_pair; assumption.
  - revert E. rewrite handle_events_unfold. rewrite (handle_writables_idle _ _ _ Hc).
    destruct (write_phase c ev h) as [s2 wt2] eqn:Ep.
    destruct (wt2 && negb (has_buffer (work s2))); [intros E; inv_pair; discriminate|].
    destruct (read_phase c ev (if wt2 then set_reads_teared true s2 else s2)) as [s4 r4] eqn:Er.
    destruct (read_phase_idle _ _ _ _ _ Hcr Hur Er) as [_ [_ [_ N4]]].
    destruct r4; [|congruence].
    destruct (reads_teared s4 && negb (has_buffer (work s4))); intros E; inv_pair; discriminate.
Qed.

Lemma threaded_run_dead c sel its : forall st, r_fate st <> Alive -> r_fate (threaded_run c sel st its) = r_fate st.
Proof.
  induction its as [|it t IH]; intros st H; cbn [threaded_run]; [reflexivity|].
  assert (H1 : threaded_iter c sel st it = st) by (unfold threaded_iter; destruct (r_fate st); congruence).
  rewrite H1. now apply IH.
Qed.

(* threaded liveness: with nothing pending and no further events the connection is closed at the first
   loop iteration after last_activity + timeout, i.e. no later than max(first iteration, that + delta) *)
Theorem threaded_reaper_live c sel delta :
  (0 <= delta)%Z ->
  forall its h tick it0,
  has_buffer (work h) = false ->
  Forall (fun it => it_ev it = None) (it0 :: its) -> chain delta (map it_t (it0 :: its)) ->
  let D := (last_activity h + timeout c)%Z in
  let B := Z.max (it_t it0) (D + delta) in
  match r_fate (threaded_run c sel (mkR h tick Alive) (it0 :: its)) with
  | Reaped t => (D < t <= B)%Z
  | Alive => forall it, In it (it0 :: its) -> (it_t it <= D)%Z
  | ClosedByHandler => True
  end.
Proof.
  intros Hd. induction its as [|it1 rest IH]; intros h tick it0 Hb Hidle Hch; cbn zeta.
  - inversion Hidle as [|? ? H0 _]; subst. cbn [threaded_run]. unfold threaded_iter. cbn [r_fate r_h r_tick].
    unfold is_inactive. rewrite Hb. cbn [negb andb].
    destruct (timeout c <? it_t it0 - last_activity h)%Z eqn:Ei; cbn [r_fate].
    + apply Z.ltb_lt in Ei. lia.
    + apply Z.ltb_ge in Ei. rewrite H0.
      destruct (step c h (null_event (it_t it0))) as [h' r] eqn:Es. destruct r; cbn [r_fate r_tick]; auto.
      intros it [<-|[]]. lia.
  - inversion Hidle as [|? ? H0 Hidle']; subst.
    change (map it_t (it0 :: it1 :: rest)) with (it_t it0 :: it_t it1 :: map it_t rest) in Hch.
    rewrite chain_cons2 in Hch. destruct Hch as [[Hle Hgap] Hch'].
    change (it_t it1 :: map it_t rest) with (map it_t (it1 :: rest)) in Hch'.
    rewrite threaded_run_cons. unfold threaded_iter at 1. cbn [r_fate r_h r_tick].
    unfold is_inactive. rewrite Hb. cbn [negb andb].
    destruct (timeout c <? it_t it0 - last_activity h)%Z eqn:Ei.
    + rewrite threaded_run_dead by (cbn; discriminate). cbn [r_fate]. apply Z.ltb_lt in Ei. lia.
    + apply Z.ltb_ge in Ei. rewrite H0.
      destruct (step c h (null_event (it_t it0))) as [h' r] eqn:Es.
      destruct (null_step_idle _ _ _ _ _ Es) as [W [L Nr]].
      destruct r; [|rewrite threaded_run_dead by (cbn; discriminate); exact I|congruence].
      assert (Hb' : has_buffer (work h') = false) by now rewrite W.
      specialize (IH h' tick it1 Hb' Hidle' Hch'). cbn zeta in IH. rewrite L in IH.
      destruct (r_fate (threaded_run c sel (mkR h' tick Alive) (it1 :: rest))).
      * intros it [<-|Hin]; [lia|apply IH; exact Hin].
      * exact I.
      * lia.
Qed.

(* ---- unfinished tasks are irrelevant to the loop *)
Lemma reaper_run_unfinished_irrelevant tc c its : forall st (f g : loop_iter -> bool),
  reaper_run tc c st (map (fun it => mkIter (it_ev it) (it_t it) (f it)) its) =
  reaper_run tc c st (map (fun it => mkIter (it_ev it) (it_t it) (g it)) its).
Proof.
  induction its as [|it t IH]; intros st f g; cbn [map reaper_run]; [reflexivity|].
  change (threadless_iter tc c st (mkIter (it_ev it) (it_t it) (f it)))
    with (threadless_iter tc c st (mkIter (it_ev it) (it_t it) (g it))).
  apply IH.
Qed.
