(* Correspondence relation for C12 including later requests of a connection.
   [xcase] = a first-request case of Net/ReverseCases.v, or a CONVERSATION case: configuration, route table
   (patterns are indices, match table computed with Python's re), the parsed requests of one client connection
   in arrival order (each with its raw segment, the scripted connect outcome and the scripted upstream reads
   that follow it), the scripted draws, and what the implementation did: final outcome, the connect log, the
   number of connects after every request, the TLS wrap log, every byte each upstream socket received, every
   byte the client received, the number of random.choice calls. *)
From PM Require Import Lib.Bytes Lib.PyStr Net.Reverse Net.ReverseCases Net.ReverseConv.
Open Scope N_scope.

Record conv_expected := mkCExp {
  ce_code : N;                      (* after the last request handed in: 0 go on / 1 teardown / 1000 + exn_code *)
  ce_connect : list (bytes * N);    (* every new_socket_connection attempt of the connection, in order *)
  ce_nconn : list N;                (* number of attempts so far, after the 1st, 2nd, ... request *)
  ce_wrap : list bytes;
  ce_ups : list bytes;              (* per upstream socket, in creation order: every byte it received *)
  ce_client : bytes;                (* every byte the client received *)
  ce_draws : N }.

Inductive xcase :=
| XReq (c : case)
| XConv (cfg : config) (tbl : list (N * bytes)) (ps : list (plugin N)) (a0 : arrival) (l : list arrival)
        (rs : list nat) (e : conv_expected).

(* typed constructor for the generated literals *)
Definition AR (raw : bytes) (req : request) (co : conn_outcome) (wo : result unit) (reads : list recv_outcome) : arrival :=
  mkArr raw req co wo reads.

Definition N_eqb_list (x y : list N) : bool := list_eqb N.eqb x y.

(* the connection after the first request and the first [n] later ones *)
Definition prefix_run (cfg : config) (tbl : list (N * bytes)) (ps : list (plugin N)) (a0 : arrival) (l : list arrival)
           (rs : list nat) (n : nat) : conn * list nat * result bool :=
  conversation (tbl_match tbl) cfg ps a0 (firstn n l) rs.

Definition run_code (x : conn * list nat * result bool) : N := code_of (fun b : bool => b) (snd x).
Definition run_conn (x : conn * list nat * result bool) : conn := fst (fst x).

Definition check_conv (cfg : config) (tbl : list (N * bytes)) (ps : list (plugin N)) (a0 : arrival) (l : list arrival)
           (rs : list nat) (e : conv_expected) : bool :=
  let n := length l in
  let final := prefix_run cfg tbl ps a0 l rs n in
  let k := run_conn final in
  let raw_code := run_code final in
  (* only the first request handed in: what HttpProtocolHandler makes of a teardown with bytes still queued and
     an upstream object that never connected (Net/ReverseCases.v handler_code) *)
  let code := match l with [] => handler_code (k_rev k) raw_code | _ => raw_code end in
  (* the state before the last request: bytes queued to the client during a call that an exception escapes
     from are never sent (Net/ReverseCases.v delivered) *)
  let before := match n with O => init_conn | S m => run_conn (prefix_run cfg tbl ps a0 l rs m) end in
  let delivered := if 1000 <=? code then concat (client_queue (k_rev before)) else concat (client_queue (k_rev k)) in
  (* every request but the last was handed in because the connection was still up *)
  forallb (fun m => run_code (prefix_run cfg tbl ps a0 l rs m) =? 0) (seq 0 n)
  && (code =? ce_code e)
  && list_eqb addr_eqb (connect_log (k_rev k)) (ce_connect e)
  && N_eqb_list (map (fun m => N.of_nat (length (connect_log (k_rev (run_conn (prefix_run cfg tbl ps a0 l rs m))))))
                     (seq 0 (S n))) (ce_nconn e)
  && list_eqb bytes_eqb (wrap_log (k_rev k)) (ce_wrap e)
  && list_eqb bytes_eqb (socket_streams k) (ce_ups e)
  && bytes_eqb delivered (ce_client e)
  && (N.of_nat (length rs - length (snd (fst final))) =? ce_draws e).

Definition check_xcase (c : xcase) : bool :=
  match c with
  | XReq c0 => check_case c0
  | XConv cfg tbl ps a0 l rs e => check_conv cfg tbl ps a0 l rs e
  end.

(* the model's own output, for replay files *)
Definition run_xcase (c : xcase) :=
  match c with
  | XReq c0 =>
      let '(code, cl, wl, up, cli, nrs) := run_case c0 in (code, cl, wl, [up], cli, nrs)
  | XConv cfg tbl ps a0 l rs e =>
      let final := prefix_run cfg tbl ps a0 l rs (length l) in
      let k := run_conn final in
      (run_code final, connect_log (k_rev k), wrap_log (k_rev k), socket_streams k,
       concat (client_queue (k_rev k)), length (snd (fst final)))
  end.
