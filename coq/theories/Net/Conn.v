(* Net/Conn.v — model of proxy/core/connection/connection.py : TcpConnection
   (buffer management of one peer: queue / flush / recv / close / has_buffer).
   Definitions only; lemmas are in ConnFacts.v.

   Python                                   Gallina
   ------                                   -------
   self.buffer : List[memoryview]           buffer : list bytes
   self._num_buffer                         (= length buffer; has_buffer tests the list)
   self.closed                              closed
   bytes the socket accepted (send())       sent      -- GHOST: not in the Python object; it is what the
                                                          peer socket has received, in order
   socket.send outcome                      outcome   -- input of flush (the kernel decides)          *)
From PM Require Import Lib.Bytes.

(* what one send() call on a non-blocking socket can do *)
Inductive outcome :=
| Accept (k : N)     (* the kernel takes at most k bytes of what is offered (short write when k < offered) *)
| WouldBlock         (* BlockingIOError *)
| Broken             (* BrokenPipeError *)
| OsErr.             (* any other OSError (ECONNRESET, EIO ...) *)

Inductive flush_res :=
| Flushed (n : N)    (* flush returned n *)
| FlushBroken        (* BrokenPipeError propagated to the caller *)
| FlushOsErr.        (* OSError propagated to the caller *)

Record conn := mkConn { buffer : list bytes; closed : bool; sent : bytes }.

Definition new_conn : conn := mkConn [] false [].

Definition DEFAULT_MAX_SEND_SIZE : N := 65536.

(* has_buffer: self._num_buffer != 0 *)
Definition has_buffer (c : conn) : bool :=
  match buffer c with [] => false | _ :: _ => true end.

(* queue: self.buffer.append(mv); self._num_buffer += 1 *)
Definition queue (mv : bytes) (c : conn) : conn :=
  mkConn (buffer c ++ [mv]) (closed c) (sent c).

Fixpoint queue_all (mvs : list bytes) (c : conn) : conn :=
  match mvs with
  | [] => c
  | mv :: t => queue_all t (queue mv c)
  end.

(* max_send_size = max_send_size or DEFAULT_MAX_SEND_SIZE *)
Definition eff_max (max : N) : N := if max =? 0 then DEFAULT_MAX_SEND_SIZE else max.

(* flush(max_send_size):
     if not has_buffer: return 0                       (no send call is made)
     mv = buffer[0]
     try: sent = send(mv[:max])  except BlockingIOError: return 0
     if sent == len(mv): buffer.pop(0) else: buffer[0] = mv[sent:]
     return sent
   BrokenPipeError / OSError from send propagate and leave the buffer untouched. *)
Definition flush (max : N) (o : outcome) (c : conn) : conn * flush_res :=
  match buffer c with
  | [] => (c, Flushed 0)
  | mv :: rest =>
      match o with
      | WouldBlock => (c, Flushed 0)
      | Broken => (c, FlushBroken)
      | OsErr => (c, FlushOsErr)
      | Accept k =>
          let offered := take (eff_max max) mv in
          let n := N.min k (len offered) in
          let buf' := if n =? len mv then rest else drop n mv :: rest in
          (mkConn buf' (closed c) (sent c ++ take n offered), Flushed n)
      end
  end.

(* close(): if not closed: socket.close(); closed = True *)
Definition close (c : conn) : conn := mkConn (buffer c) true (sent c).

(* everything still waiting in the buffer, in order *)
Definition pending (c : conn) : bytes := concat (buffer c).

(* a measure that every effective flush decreases: bytes + pieces still queued *)
Definition backlog (c : conn) : nat := length (pending c) + length (buffer c).

(* repeated flushing, one outcome per call, stopping at the first error
   (this is also the body of HttpProtocolHandler._flush when every select reports ready) *)
Fixpoint flush_many (max : N) (os : list outcome) (c : conn) : conn * flush_res :=
  match os with
  | [] => (c, Flushed 0)
  | o :: t =>
      match flush max o c with
      | (c', Flushed _) => flush_many max t c'
      | r => r
      end
  end.

Definition effective (o : outcome) : bool :=
  match o with Accept k => 0 <? k | _ => false end.

(* ---- operations of the correspondence check on TcpConnection alone *)
Inductive conn_op :=
| OQueue (mv : bytes)
| OFlush (max : N) (o : outcome)
| OClose.

(* observation after one op: return value / exception of the call (flush only), the buffer and
   the number of bytes the socket has taken so far *)
Record conn_obs := mkObs { o_ret : N; o_buffer : list bytes; o_has : bool; o_nsent : N; o_closed : bool }.

Definition ret_code (r : flush_res) : N :=
  match r with Flushed n => n | FlushBroken => 1000001 | FlushOsErr => 1000002 end.

Definition observe (ret : N) (c : conn) : conn_obs :=
  mkObs ret (buffer c) (has_buffer c) (len (sent c)) (closed c).

Definition conn_step (c : conn) (op : conn_op) : conn * conn_obs :=
  match op with
  | OQueue mv => let c' := queue mv c in (c', observe 0 c')
  | OFlush max o => let '(c', r) := flush max o c in (c', observe (ret_code r) c')
  | OClose => let c' := close c in (c', observe 0 c')
  end.

Fixpoint conn_run (c : conn) (ops : list conn_op) : conn * list conn_obs :=
  match ops with
  | [] => (c, [])
  | op :: t => let '(c', o) := conn_step c op in
               let '(c'', os) := conn_run c' t in (c'', o :: os)
  end.
