(* Net/Cause.v — "a teardown needs a cause": the vocabulary.  Definitions only (facts: Net/CauseFacts.v).

   HttpProtocolHandler.handle_events (Net/Handler.v: handle_events) returns True (model: Teardown) at three sites,
   and every one of them is reached only through one of the following things that the EVENT reports — an
   event being one handle_events(readables, writables) call together with the outcome of every recv()/send() and of
   the two abstract request oracles in it — or because an earlier call already decided the teardown and only
   waited for the client buffer to drain ([armed]).

     cause                    Python site (all under handle_events)                         what the event says
     -----                    -------------------------------------                         -------------------
     ClientSendFailed         handle_writables: BrokenPipeError / OSError from              client fd writable, send() raises
                              work.flush() -> return True
     UpstreamSendFailed       HttpProxyPlugin.write_to_descriptors: BrokenPipeError /        upstream fd writable, send() raises
                              OSError from upstream.flush() -> _close_and_release() = True
     ClientRecvEnded          BaseTcpServerHandler.handle_readables: recv() returns          client fd readable, recv() = b'' / None,
                              None/b'' -> True; ConnectionResetError / TimeoutError ->       reset, timeout (any errno), other OSError
                              True; HttpProtocolHandler.handle_readables: socket.error       (BlockingIOError of a spurious wake-up
                              -> return True                                                 included: it is an OSError)
     UpstreamRecvEnded        HttpProxyPlugin.read_from_descriptors: recv() None/b'',        upstream fd readable, recv() = b'' / None,
                              OSError (reset, unreachable, ...), TimeoutError with           reset, ETIMEDOUT, other OSError
                              errno ETIMEDOUT -> _close_and_release() = True
     FirstRequestRejected     handle_data: _parse_first_request returns True / raises        client data while the first request is not
                              HttpProtocolException (bad request, unknown protocol, auth     complete, request oracle = RError
                              / filter plugin rejection, connect failure ...)
     LaterRequestRejected     handle_data: plugin.on_client_data raises                      client data, pipelined-request oracle
                              HttpProtocolException (pipelined request does not parse,       = DProto
                              web plugin rejects)

   NOT a cause (the model has no such path; seeded change C01-r3-2 added one and is refuted by
   C01_teardown_has_cause): anything the upstream SENDS.  An upstream data piece — whatever the bookkeeping
   response parser thinks of it: complete response, interim 1xx, garbage — never makes handle_events return True.

   Separate result [Raised] (an exception escaping handle_events; Threadless treats it as a teardown without flush):
   [raises]. The idle reaper (is_inactive, C20) and shutdown by the executor are outside handle_events. *)
From PM Require Import Lib.Bytes Net.Conn Net.Handler.
From Coq Require Import ZArith.

Inductive cause :=
| ClientSendFailed
| UpstreamSendFailed
| ClientRecvEnded
| UpstreamRecvEnded
| FirstRequestRejected
| LaterRequestRejected.

Definition all_causes : list cause :=
  [ClientSendFailed; UpstreamSendFailed; ClientRecvEnded; UpstreamRecvEnded; FirstRequestRejected; LaterRequestRejected].

(* send() raised BrokenPipeError / another OSError (BlockingIOError = would-block is no failure) *)
Definition send_fails (o : outcome) : bool :=
  match o with Broken => true | OsErr => true | _ => false end.

(* recv() returned a non-empty piece *)
Definition recv_has_data (r : recv_res) : bool :=
  match r with RData (_ :: _) => true | _ => false end.

(* what ends the upstream read side with True: everything but data and the re-raised TimeoutError *)
Definition upstream_recv_ends (r : recv_res) : bool :=
  match r with
  | RData (_ :: _) => false
  | RTimeout false => false          (* `raise e`: escapes, see [raises] *)
  | _ => true
  end.

Definition is_rerror (r : req_outcome) : bool := match r with RError _ => true | _ => false end.
Definition is_dproto (d : cdata_outcome) : bool := match d with DProto _ => true | _ => false end.
Definition is_rraise (r : req_outcome) : bool := match r with RRaise => true | _ => false end.
Definition is_draise (d : cdata_outcome) : bool := match d with DRaise => true | _ => false end.
Definition is_timeout_other (r : recv_res) : bool := match r with RTimeout false => true | _ => false end.

(* the event reports cause k *)
Definition carries (ev : event) (k : cause) : bool :=
  match k with
  | ClientSendFailed => c_w ev && send_fails (c_send ev)
  | UpstreamSendFailed => u_w ev && send_fails (u_send ev)
  | ClientRecvEnded => c_r ev && negb (recv_has_data (c_recv ev))
  | UpstreamRecvEnded => u_r ev && upstream_recv_ends (u_recv ev)
  | FirstRequestRejected => c_r ev && recv_has_data (c_recv ev) && is_rerror (req ev)
  | LaterRequestRejected => c_r ev && recv_has_data (c_recv ev) && is_dproto (cdata ev)
  end.

Definition up_some (s : hstate) : bool := match upstream s with Some _ => true | None => false end.

(* in which states a reported cause can matter at all (the state is the one handle_events is called in) *)
Definition applies (s : hstate) (k : cause) : Prop :=
  match k with
  | ClientSendFailed => has_buffer (work s) = true
  | UpstreamSendFailed => plugin s = PProxy /\ exists u, upstream s = Some u /\ has_buffer u = true
  | ClientRecvEnded => True
  | UpstreamRecvEnded => req_complete s = true -> plugin s = PProxy /\ up_some s = true
  | FirstRequestRejected => req_complete s = false
  | LaterRequestRejected =>
      req_complete s = true ->
      plugin s = PLocal \/
      (plugin s = PProxy /\ is_tunnel s = false /\ pipeline_upgrade s = false /\ up_some s = true)
  end.

Definition has_cause (ev : event) (s : hstate) : Prop :=
  exists k, carries ev k = true /\ applies s k.

(* a teardown has been decided by an earlier call and waits for the client buffer to drain (C07), or
   one side is already torn down *)
Definition armed (s : hstate) : bool := must_flush s || writes_teared s || reads_teared s.

(* the event reports no cause at all *)
Definition quiet (ev : event) : bool := negb (existsb (carries ev) all_causes).

(* what lets an exception escape handle_events: an unexpected exception of the request oracles, or the
   TimeoutError with errno != ETIMEDOUT re-raised by read_from_descriptors *)
Definition raises (ev : event) : bool :=
  (c_r ev && recv_has_data (c_recv ev) && (is_rraise (req ev) || is_draise (cdata ev))) ||
  (u_r ev && is_timeout_other (u_recv ev)).

Definition calm (ev : event) : bool := quiet ev && negb (raises ev).

(* ------------------------------------------------------------------------------------------
   witnesses that no cause can be dropped from the list (Net/CauseFacts.v: every_cause_needed): for each
   cause a life of one connection in which it is the ONLY cause any event reports, ending in a teardown
   ------------------------------------------------------------------------------------------ *)
Definition w_cfg : cfg := mkCfg 3 (bs "HTTP/1.1 200 Connection established") 10 true.

(* an event on which nothing is ready; the outcome fields are then irrelevant *)
Definition w_idle : event :=
  mkEvent 1 false false false false WouldBlock WouldBlock (RData [65]) (RData [66]) RIncomplete DNothing.

Definition w_client_data (data : bytes) (rq : req_outcome) (cd : cdata_outcome) : event :=
  mkEvent 1 true false false false WouldBlock WouldBlock (RData data) (RData [66]) rq cd.
Definition w_client_recv (r : recv_res) : event :=
  mkEvent 1 true false false false WouldBlock WouldBlock r (RData [66]) RIncomplete DNothing.
Definition w_client_send (o : outcome) : event :=
  mkEvent 1 false true false false o WouldBlock (RData [65]) (RData [66]) RIncomplete DNothing.
Definition w_upstream_recv (r : recv_res) : event :=
  mkEvent 1 false false true false WouldBlock WouldBlock (RData [65]) r RIncomplete DNothing.
Definition w_upstream_send (o : outcome) : event :=
  mkEvent 1 false false false true WouldBlock o (RData [65]) (RData [66]) RIncomplete DNothing.

(* a plain-HTTP request is forwarded: the exchange is established, the rebuilt request waits for the upstream *)
Definition w_open : event :=
  w_client_data (bs "GET http://h/ HTTP/1.1") (RProxy false (bs "GET / HTTP/1.1") []) DNothing.

Definition witness (k : cause) : list event :=
  match k with
  | ClientSendFailed => [w_open; w_upstream_recv (RData [1; 2; 3]); w_client_send Broken]
  | UpstreamSendFailed => [w_open; w_upstream_send OsErr]
  | ClientRecvEnded => [w_open; w_client_recv REof]
  | UpstreamRecvEnded => [w_open; w_upstream_recv RReset]
  | FirstRequestRejected =>
      (* the 3-byte answer is queued, must_flush_before_shutdown armed; the call that flushes it returns True *)
      [w_client_data (bs "BAD") (RError [bs "400"]) DNothing; w_client_send (Accept 100)]
  | LaterRequestRejected => [w_open; w_client_data [1] RIncomplete (DProto [])]
  end.
