(* C13 — lemmas and proofs about Net/Static.v and Net/StaticSpec.v *)
From PM Require Import Lib.Bytes Lib.BytesFacts Lib.PyStr Net.Static Net.StaticSpec.
From Coq Require Import ZArith.

(* ================================================================== *)
(* small facts about the string builtins                               *)
(* ================================================================== *)
Lemma is_nil_true {A} (l : list A) : is_nil l = true <-> l = [].
Proof. destruct l; cbn; split; congruence. Qed.

Lemma is_dot_true c : is_dot c = true <-> c = [DOT].
Proof. apply bytes_eqb_eq. Qed.
Lemma is_dotdot_true c : is_dotdot c = true <-> c = [DOT; DOT].
Proof. apply bytes_eqb_eq. Qed.

Lemma split_byte_not_nil sep l : split_byte sep l <> [].
Proof.
  destruct l as [|x t]; cbn [split_byte]; [discriminate|].
  destruct (x =? sep); [discriminate|]. destruct (split_byte sep t); discriminate.
Qed.

Lemma split_byte_nosep sep l : mem_byte sep l = false -> split_byte sep l = [l].
Proof.
  induction l as [|x t IH]; cbn [mem_byte split_byte]; intros H; [reflexivity|].
  apply orb_false_iff in H as [Hx Ht]. rewrite N.eqb_sym, Hx, (IH Ht). reflexivity.
Qed.

Lemma split_byte_app_sep sep a b :
  split_byte sep (a ++ sep :: b) = split_byte sep a ++ split_byte sep b.
Proof.
  induction a as [|x t IH]; cbn [app split_byte].
  - now rewrite N.eqb_refl.
  - destruct (x =? sep); [now rewrite IH|].
    rewrite IH. destruct (split_byte sep t) as [|c cs] eqn:E.
    + now apply split_byte_not_nil in E.
    + reflexivity.
Qed.

Lemma split_byte_pieces_nosep sep l : Forall (fun c => mem_byte sep c = false) (split_byte sep l).
Proof.
  induction l as [|x t IH]; cbn [split_byte]; [repeat constructor|].
  destruct (x =? sep) eqn:E; [constructor; [reflexivity|assumption]|].
  destruct (split_byte sep t) as [|c cs]; [repeat constructor; cbn; now rewrite N.eqb_sym, E|].
  inversion IH as [|? ? Hc Hcs]; subst. constructor; [|assumption].
  cbn [mem_byte]. now rewrite N.eqb_sym, E, Hc.
Qed.

Lemma join_cons2 sep p q t : join sep (p :: q :: t) = p ++ sep ++ join sep (q :: t).
Proof. reflexivity. Qed.

Lemma split_byte_join sep cs :
  Forall (fun c => mem_byte sep c = false) cs -> cs <> [] ->
  split_byte sep (join [sep] cs) = cs.
Proof.
  induction cs as [|p t IH]; intros HF Hne; [congruence|].
  inversion HF as [|? ? Hp Ht]; subst.
  destruct t as [|q t'].
  - cbn [join]. now apply split_byte_nosep.
  - rewrite join_cons2. cbn [app]. rewrite split_byte_app_sep, (split_byte_nosep _ _ Hp).
    rewrite IH by (assumption || discriminate). reflexivity.
Qed.

Lemma join_split_byte sep l : join [sep] (split_byte sep l) = l.
Proof.
  induction l as [|x t IH]; cbn [split_byte]; [reflexivity|].
  destruct (x =? sep) eqn:E.
  - apply N.eqb_eq in E; subst x.
    destruct (split_byte sep t) as [|c cs] eqn:E2; [now apply split_byte_not_nil in E2|].
    rewrite join_cons2, IH. reflexivity.
  - destruct (split_byte sep t) as [|c cs] eqn:E2; [now apply split_byte_not_nil in E2|].
    destruct cs as [|d cs'].
    + cbn [join] in *. now rewrite IH.
    + rewrite join_cons2 in *. rewrite <- IH. reflexivity.
Qed.

(* the string a path is cut back to never contains '?', and only depends on what precedes it *)
Lemma before_q_app_q p q : mem_byte QMARK p = false -> before_q (p ++ QMARK :: q) = p.
Proof.
  induction p as [|x t IH]; cbn [app before_q mem_byte]; intros H.
  - now rewrite N.eqb_refl.
  - apply orb_false_iff in H as [Hx Ht]. rewrite N.eqb_sym, Hx, (IH Ht). reflexivity.
Qed.
Lemma before_q_noq p : mem_byte QMARK p = false -> before_q p = p.
Proof.
  induction p as [|x t IH]; cbn [before_q mem_byte]; intros H; [reflexivity|].
  apply orb_false_iff in H as [Hx Ht]. rewrite N.eqb_sym, Hx, (IH Ht). reflexivity.
Qed.
Lemma before_q_has_no_q p : mem_byte QMARK (before_q p) = false.
Proof.
  induction p as [|x t IH]; cbn [before_q]; [reflexivity|].
  destruct (x =? QMARK) eqn:E; [reflexivity|]. cbn [mem_byte]. now rewrite N.eqb_sym, E, IH.
Qed.
Lemma before_q_idem p : before_q (before_q p) = before_q p.
Proof. apply before_q_noq, before_q_has_no_q. Qed.

(* lstrip / rstrip of one character *)
Lemma lstrip_byte_repeat c n l : lstrip_byte c (repeat c n ++ l) = lstrip_byte c l.
Proof. induction n as [|n IH]; cbn [repeat app lstrip_byte]; [reflexivity|]. now rewrite N.eqb_refl. Qed.

Lemma lstrip_byte_head c x t : x <> c -> lstrip_byte c (x :: t) = x :: t.
Proof. intros H. cbn [lstrip_byte]. apply N.eqb_neq in H. now rewrite H. Qed.

Lemma rstrip_byte_last c l x : x <> c -> rstrip_byte c (l ++ [x]) = l ++ [x].
Proof.
  intros H. unfold rstrip_byte. rewrite rev_app_distr. cbn [rev app].
  rewrite lstrip_byte_head by assumption. cbn [rev]. now rewrite rev_involutive.
Qed.

Lemma rstrip_byte_repeat c n : rstrip_byte c (repeat c n) = [].
Proof.
  unfold rstrip_byte.
  assert (H : rev (repeat c n) = repeat c n).
  { induction n as [|n IH]; [reflexivity|]. cbn [repeat rev]. rewrite IH.
    clear IH. induction n as [|n IH]; [reflexivity|]. cbn [repeat app]. now rewrite IH. }
  rewrite H. replace (repeat c n) with (repeat c n ++ []) by apply app_nil_r.
  rewrite lstrip_byte_repeat. reflexivity.
Qed.

(* ================================================================== *)
(* proper names                                                        *)
(* ================================================================== *)
Lemma proper_name_spec s :
  proper_name s = true <->
  s <> [] /\ mem_byte SLASH s = false /\ s <> [DOT] /\ s <> [DOT; DOT].
Proof.
  unfold proper_name. rewrite !andb_true_iff, !negb_true_iff. split.
  - intros [[[H1 H2] H3] H4]. repeat split; try assumption.
    + intros ->. discriminate.
    + intros ->. discriminate.
    + intros ->. discriminate.
  - intros (H1 & H2 & H3 & H4). repeat split; try assumption.
    + destruct s; [congruence|reflexivity].
    + destruct (is_dot s) eqn:E; [apply is_dot_true in E; congruence|reflexivity].
    + destruct (is_dotdot s) eqn:E; [apply is_dotdot_true in E; congruence|reflexivity].
Qed.

Lemma proper_head s : proper_name s = true -> exists x t, s = x :: t /\ x <> SLASH.
Proof.
  intros H. apply proper_name_spec in H as (H1 & H2 & _).
  destruct s as [|x t]; [congruence|]. exists x, t. split; [reflexivity|].
  cbn [mem_byte] in H2. apply orb_false_iff in H2 as [H2 _]. apply N.eqb_neq in H2. congruence.
Qed.

Lemma proper_last s : proper_name s = true -> exists t x, s = t ++ [x] /\ x <> SLASH.
Proof.
  intros H. apply proper_name_spec in H as (H1 & H2 & _).
  destruct (exists_last H1) as (t & x & ->). exists t, x. split; [reflexivity|].
  intros ->. clear H1. induction t as [|y t IH]; cbn [app mem_byte] in H2.
  - rewrite N.eqb_refl in H2. discriminate.
  - apply orb_false_iff in H2 as [_ H2]. auto.
Qed.

Lemma proper_nosep cs :
  Forall (fun c => proper_name c = true) cs -> Forall (fun c => mem_byte SLASH c = false) cs.
Proof. apply Forall_impl. intros c H. now apply proper_name_spec in H. Qed.

(* the inverse of join on lists of proper names (the empty list is joined to the empty string) *)
Definition names_of (s : bytes) : list bytes := match s with [] => [] | _ => split_byte SLASH s end.

Lemma join_proper_nonempty c cs :
  Forall (fun c => proper_name c = true) (c :: cs) ->
  exists x t, join [SLASH] (c :: cs) = x :: t /\ x <> SLASH.
Proof.
  intros HF. inversion HF as [|? ? Hc _]; subst.
  destruct (proper_head _ Hc) as (x & t & -> & Hx).
  destruct cs as [|d cs']; [now exists x, t|].
  rewrite join_cons2. cbn [app]. now eexists x, _.
Qed.

Lemma names_of_join cs : Forall (fun c => proper_name c = true) cs -> names_of (join [SLASH] cs) = cs.
Proof.
  intros HF. destruct cs as [|c cs]; [reflexivity|].
  destruct (join_proper_nonempty _ _ HF) as (x & t & E & _).
  unfold names_of. rewrite E, <- E. apply split_byte_join; [now apply proper_nosep|discriminate].
Qed.

Lemma lstrip_join_proper cs :
  Forall (fun c => proper_name c = true) cs -> lstrip_byte SLASH (join [SLASH] cs) = join [SLASH] cs.
Proof.
  intros HF. destruct cs as [|c cs]; [reflexivity|].
  destruct (join_proper_nonempty _ _ HF) as (x & t & -> & Hx). now apply lstrip_byte_head.
Qed.

Lemma join_proper_last c cs :
  Forall (fun c => proper_name c = true) (c :: cs) ->
  exists t x, join [SLASH] (c :: cs) = t ++ [x] /\ x <> SLASH.
Proof.
  revert c; induction cs as [|d cs IH]; intros c HF; inversion HF as [|? ? Hc Hcs]; subst.
  - cbn [join]. now apply proper_last.
  - rewrite join_cons2. destruct (IH d Hcs) as (t & x & -> & Hx).
    exists (c ++ [SLASH] ++ t), x. split; [now rewrite !app_assoc|assumption].
Qed.

(* ================================================================== *)
(* the reference resolution                                            *)
(* ================================================================== *)
Lemma resolve_stack_proper stack segs :
  Forall (fun c => proper_name c = true) stack ->
  Forall (fun c => mem_byte SLASH c = false) segs ->
  Forall (fun c => proper_name c = true) (resolve_stack stack segs).
Proof.
  revert stack; induction segs as [|s rest IH]; intros stack Hst Hsegs; cbn [resolve_stack].
  - now apply Forall_rev.
  - inversion Hsegs as [|? ? Hs Hrest]; subst.
    destruct (is_nil s || is_dot s) eqn:E1; [now apply IH|].
    destruct (is_dotdot s) eqn:E2.
    + apply IH; [|assumption]. destruct stack; [constructor|]. now inversion Hst.
    + apply IH; [|assumption]. constructor; [|assumption].
      apply orb_false_iff in E1 as [E0 E1]. unfold proper_name. now rewrite E0, Hs, E1, E2.
Qed.

(* every name of a resolved path is a proper name: no "", ".", "..", no '/' inside *)
Lemma resolve_proper p : Forall (fun c => proper_name c = true) (resolve p).
Proof. apply resolve_stack_proper; [constructor|apply split_byte_pieces_nosep]. Qed.

Lemma resolve_stack_of_proper stack cs :
  Forall (fun c => proper_name c = true) cs -> resolve_stack stack cs = rev stack ++ cs.
Proof.
  revert stack; induction cs as [|c cs IH]; intros stack HF; cbn [resolve_stack].
  - now rewrite app_nil_r.
  - inversion HF as [|? ? Hc Hcs]; subst.
    unfold proper_name in Hc. rewrite !andb_true_iff, !negb_true_iff in Hc.
    destruct Hc as [[[H1 _] H3] H4]. rewrite H1, H3, H4. cbn [orb].
    rewrite IH by assumption. cbn [rev]. now rewrite <- app_assoc.
Qed.

Lemma resolve_stack_app stack a b :
  resolve_stack stack (a ++ b) = resolve_stack (rev (resolve_stack stack a)) b.
Proof.
  revert stack; induction a as [|s a IH]; intros stack; cbn [app resolve_stack].
  - now rewrite rev_involutive.
  - destruct (is_nil s || is_dot s); [apply IH|]. destruct (is_dotdot s); apply IH.
Qed.

(* ================================================================== *)
(* normpath = stack resolution, for absolute paths                     *)
(* ================================================================== *)
Lemma norm_comps_is_resolve comps stack :
  Forall (fun c => is_dotdot c = false) stack ->
  norm_comps true comps stack = resolve_stack stack comps.
Proof.
  revert stack; induction comps as [|c rest IH]; intros stack Hst; cbn [norm_comps resolve_stack]; [reflexivity|].
  destruct (is_nil c || is_dot c); [now apply IH|].
  destruct (is_dotdot c) eqn:E; cbn [negb andb orb].
  - destruct stack as [|top st]; [now apply IH|].
    inversion Hst as [|? ? Htop Hst']; subst. rewrite Htop. cbn [tl]. now apply IH.
  - apply IH. now constructor.
Qed.

Lemma initial_slashes_abs p :
  startswith p [SLASH] = true -> initial_slashes p = 1%nat \/ initial_slashes p = 2%nat.
Proof.
  intros H. unfold initial_slashes. rewrite H. cbn [negb].
  destruct (startswith p [SLASH; SLASH] && negb (startswith p [SLASH; SLASH; SLASH])); auto.
Qed.

(* posixpath.normpath of an absolute path is its leading "/" (or the POSIX "//") followed by the
   names the stack resolution yields, joined by "/" *)
Theorem normpath_abs p :
  startswith p [SLASH] = true ->
  normpath p = repeat SLASH (initial_slashes p) ++ join [SLASH] (resolve p).
Proof.
  intros H. unfold normpath. destruct p as [|x t]; [discriminate|].
  set (q := x :: t) in *.
  assert (Hi : Nat.eqb (initial_slashes q) 0 = false)
    by (destruct (initial_slashes_abs q H) as [-> | ->]; reflexivity).
  rewrite Hi. cbn [negb]. rewrite norm_comps_is_resolve by constructor.
  fold (segments q). fold (resolve q).
  destruct (initial_slashes_abs q H) as [-> | ->]; reflexivity.
Qed.

Lemma segments_slashes_join i cs :
  (i = 1 \/ i = 2)%nat -> Forall (fun c => proper_name c = true) cs ->
  resolve (repeat SLASH i ++ join [SLASH] cs) = cs.
Proof.
  intros Hi HF. unfold resolve, segments.
  assert (E : resolve_stack [] (split_byte SLASH (join [SLASH] cs)) = cs).
  { destruct cs as [|c cs']; [reflexivity|].
    rewrite split_byte_join by (now apply proper_nosep || discriminate).
    now rewrite resolve_stack_of_proper. }
  destruct Hi as [-> | ->]; cbn [repeat app split_byte]; unfold SLASH in *;
    rewrite ?N.eqb_refl; cbn [resolve_stack is_nil orb]; exact E.
Qed.

(* resolving an already normalised absolute path changes nothing *)
Theorem resolve_normpath p : startswith p [SLASH] = true -> resolve (normpath p) = resolve p.
Proof.
  intros H. rewrite normpath_abs by assumption.
  apply segments_slashes_join; [apply initial_slashes_abs, H|apply resolve_proper].
Qed.

Lemma initial_slashes_canon i cs :
  (i = 1 \/ i = 2)%nat -> Forall (fun c => proper_name c = true) cs ->
  initial_slashes (repeat SLASH i ++ join [SLASH] cs) = i
  /\ startswith (repeat SLASH i ++ join [SLASH] cs) [SLASH] = true.
Proof.
  intros Hi HF. unfold initial_slashes, startswith.
  destruct cs as [|c cs'].
  - destruct Hi as [-> | ->]; split; reflexivity.
  - destruct (join_proper_nonempty _ _ HF) as (x & t & -> & Hx).
    apply N.eqb_neq in Hx. unfold SLASH in *.
    destruct Hi as [-> | ->]; cbn [repeat app is_prefix negb andb]; rewrite ?N.eqb_refl;
      cbn [andb negb]; rewrite 1?N.eqb_sym, ?Hx; cbn [andb negb]; split; reflexivity.
Qed.

(* normpath is idempotent on absolute paths *)
Theorem normpath_idem p : startswith p [SLASH] = true -> normpath (normpath p) = normpath p.
Proof.
  intros H. pose proof (normpath_abs p H) as E.
  pose proof (initial_slashes_canon _ _ (initial_slashes_abs p H) (resolve_proper p)) as [Hi Hs].
  rewrite <- E in Hi, Hs.
  rewrite (normpath_abs (normpath p) Hs), Hi, resolve_normpath by assumption. now rewrite <- E.
Qed.

(* ================================================================== *)
(* the confinement check of _try_static_or_404                         *)
(* ================================================================== *)
Lemma startswith_app l c p : startswith l p = true -> startswith (l ++ c) p = true.
Proof. apply is_prefix_app. Qed.

(* canonical form of the two strings the check compares *)
Lemma lstrip_canon i cs :
  Forall (fun c => proper_name c = true) cs ->
  lstrip_byte SLASH (repeat SLASH i ++ join [SLASH] cs) = join [SLASH] cs.
Proof. intros HF. rewrite lstrip_byte_repeat. now apply lstrip_join_proper. Qed.

(* If the check lets a path through, then -- as lists of names -- the resolved static directory
   is a prefix of the resolved target.  (/srv/static_evil does not pass for /srv/static: the
   comparison is on whole names, because the prefix tested ends in '/'.) *)
Theorem check_implies_inside dir path :
  startswith dir [SLASH] = true ->
  confinement_check dir path = true ->
  inside dir (dir ++ path).
Proof.
  intros Hd Hc. unfold inside.
  assert (Hdp : startswith (dir ++ path) [SLASH] = true) by now apply startswith_app.
  unfold confinement_check in Hc.
  rewrite (normpath_abs _ Hd), (normpath_abs _ Hdp) in Hc.
  pose proof (resolve_proper dir) as HR. pose proof (resolve_proper (dir ++ path)) as HT.
  set (R := resolve dir) in *. set (T := resolve (dir ++ path)) in *.
  set (ir := initial_slashes dir) in *. set (it := initial_slashes (dir ++ path)) in *.
  apply orb_true_iff in Hc as [Heq | Hpre].
  - (* target == root *)
    apply bytes_eqb_eq in Heq. apply (f_equal (lstrip_byte SLASH)) in Heq.
    rewrite !lstrip_canon in Heq by assumption.
    apply (f_equal names_of) in Heq. rewrite !names_of_join in Heq by assumption.
    exists []. now rewrite app_nil_r.
  - (* target.startswith(root.rstrip('/') + '/') *)
    destruct R as [|c cs] eqn:ER; [now exists T|].
    destruct (join_proper_last _ _ HR) as (t & x & Elast & Hx).
    assert (Hrs : rstrip_byte SLASH (repeat SLASH ir ++ join [SLASH] (c :: cs))
                  = repeat SLASH ir ++ join [SLASH] (c :: cs)).
    { rewrite Elast, app_assoc. now apply rstrip_byte_last. }
    rewrite Hrs in Hpre. unfold startswith in Hpre. apply is_prefix_skipn in Hpre.
    set (rest := skipn _ _) in Hpre. clearbody rest.
    apply (f_equal (lstrip_byte SLASH)) in Hpre.
    rewrite lstrip_canon in Hpre by assumption.
    rewrite <- !app_assoc, lstrip_byte_repeat in Hpre.
    destruct (join_proper_nonempty _ _ HR) as (x0 & t0 & E0 & Hx0).
    rewrite E0 in Hpre. cbn [app] in Hpre. rewrite lstrip_byte_head in Hpre by assumption.
    apply (f_equal names_of) in Hpre. rewrite names_of_join in Hpre by assumption.
    unfold names_of in Hpre.
    change (x0 :: t0 ++ SLASH :: rest) with ((x0 :: t0) ++ SLASH :: rest) in Hpre.
    rewrite <- E0, split_byte_app_sep, split_byte_join in Hpre
      by (now apply proper_nosep || discriminate).
    now exists (split_byte SLASH rest).
Qed.

(* ================================================================== *)
(* kernel path walk through a symlink-free file system                 *)
(* ================================================================== *)
Lemma kwalk_resolve look cur segs cur' :
  kwalk look cur segs = Some cur' -> resolve_stack cur segs = rev cur'.
Proof.
  revert cur; induction segs as [|s rest IH]; intros cur H; cbn [kwalk resolve_stack] in *.
  - now inversion H.
  - destruct (look (rev cur)) as [[c|]|]; try discriminate.
    destruct (is_nil s || is_dot s); [now apply IH|].
    destruct (is_dotdot s); [now apply IH|].
    destruct (look (rev (s :: cur))); [now apply IH|discriminate].
Qed.

(* When open() succeeds on an absolute path string, the file it read is the one sitting at the
   lexically resolved list of names: in a file system without symbolic links, kernel resolution
   and dot-segment resolution agree wherever the former succeeds. *)
Theorem kopen_resolve look p c : kopen look p = Some c -> look (resolve p) = Some (EFile c).
Proof.
  unfold kopen. destruct (Nat.leb PATH_MAX (length p)); [discriminate|].
  destruct (negb (startswith p [SLASH])); [discriminate|].
  destruct (kwalk look [] (segments p)) as [cur|] eqn:E; [|discriminate].
  apply kwalk_resolve in E. unfold resolve. rewrite E.
  destruct (look (rev cur)) as [[c'|]|]; try discriminate. intros H. now inversion H.
Qed.

(* ================================================================== *)
(* replies                                                              *)
(* ================================================================== *)
Lemma advertises_gzip_set v w :
  advertises_gzip (dict_set (bs "Content-Encoding") (bs "gzip")
                     [(bs "Content-Type", v); (bs "Cache-Control", w)]) = true.
Proof. vm_compute. reflexivity. Qed.
Lemma advertises_gzip_unset v w :
  advertises_gzip [(bs "Content-Type", v); (bs "Cache-Control", w)] = false.
Proof. vm_compute. reflexivity. Qed.

(* a 200 reply and the 404 packet differ in their status line, whatever the headers and body *)
Lemma ok_reply_is_not_404 agent headers body :
  build_http_response 200 (Some (bs "OK")) headers (Some body) true false
  <> NOT_FOUND_RESPONSE_PKT agent.
Proof.
  intros E. apply (f_equal (firstn 12)) in E.
  unfold NOT_FOUND_RESPONSE_PKT, build_http_response, build_http_pkt in E.
  vm_compute in E. discriminate.
Qed.

Section Theorems.
  Variable dir : bytes.
  Variable mcl : Z.
  Variable agent : bytes.
  Variable fs : bytes -> option bytes.
  Variable guess_type : bytes -> option bytes.
  Variable gz gunz : bytes -> bytes.
  Hypothesis gunz_gz : forall x, gunz (gz x) = x.
  Hypothesis dir_abs : startswith dir [SLASH] = true.

  Notation try_static := (try_static_or_404 dir mcl agent fs guess_type gz).

  Lemma okResponse_undo content path :
    let '(headers, body) := okResponse_args mcl gz content (static_headers guess_type path) true in
    undo_encoding gunz headers body = content.
  Proof.
    unfold okResponse_args, static_headers, undo_encoding.
    destruct (true && negb (is_nil content) && (mcl <? Z.of_N (len content))%Z) eqn:E.
    - rewrite advertises_gzip_set.
      apply andb_true_iff in E as [E _]. cbn [andb] in E. rewrite E. cbn [andb]. apply gunz_gz.
    - now rewrite advertises_gzip_unset.
  Qed.

  (* the shape of every reply *)
  Theorem confined path reply :
    try_static path = Ok reply ->
    reply = NOT_FOUND_RESPONSE_PKT agent
    \/ exists content headers body,
         inside dir (dir ++ before_q path)
         /\ fs (dir ++ before_q path) = Some content
         /\ reply = build_http_response 200 (Some (bs "OK")) headers (Some body) true false
         /\ undo_encoding gunz headers body = content.
  Proof.
    unfold try_static_or_404, text_. destruct (utf8_valid path); cbn [bind]; [|discriminate].
    destruct (confinement_check dir (before_q path)) eqn:Hc; cbn [negb].
    - unfold serve_static_file, py_open.
      destruct (mem_byte 0 (dir ++ before_q path)); [discriminate|].
      destruct (fs (dir ++ before_q path)) as [content|] eqn:Hfs.
      + intros H. inversion H as [Hr]. right.
        pose proof (okResponse_undo content (dir ++ before_q path)) as Hu.
        unfold okResponse.
        destruct (okResponse_args mcl gz content (static_headers guess_type (dir ++ before_q path)) true)
          as [headers body].
        exists content, headers, body. repeat split; try assumption.
        now apply check_implies_inside.
      + intros H. inversion H. now left.
    - intros H. inversion H. now left.
  Qed.

  (* a path that does not resolve into the static directory is answered 404 *)
  Theorem outside_is_404 path :
    utf8_valid path = true ->
    ~ inside dir (dir ++ before_q path) ->
    try_static path = Ok (NOT_FOUND_RESPONSE_PKT agent).
  Proof.
    intros Hu Hout. unfold try_static_or_404, text_. rewrite Hu. cbn [bind].
    destruct (confinement_check dir (before_q path)) eqn:Hc; cbn [negb]; [|reflexivity].
    exfalso. apply Hout. now apply check_implies_inside.
  Qed.

  (* no reply at all (an exception escapes, nothing is queued) only for paths that are not UTF-8
     or contain NUL -- both outside the property's alphabet *)
  Theorem escapes path e :
    try_static path = Err e ->
    (e = UnicodeDecodeError /\ utf8_valid path = false)
    \/ (e = ValueError /\ mem_byte 0 (dir ++ before_q path) = true).
  Proof.
    unfold try_static_or_404, text_. destruct (utf8_valid path); cbn [bind].
    - destruct (confinement_check dir (before_q path)); cbn [negb]; [|discriminate].
      unfold serve_static_file, py_open.
      destruct (mem_byte 0 (dir ++ before_q path)).
      + intros H. inversion H. now right.
      + destruct (fs (dir ++ before_q path)); discriminate.
    - intros H. inversion H. now left.
  Qed.

  Theorem always_replies path :
    utf8_valid path = true -> mem_byte 0 (dir ++ before_q path) = false ->
    exists reply, try_static path = Ok reply.
  Proof.
    intros Hu Hz. destruct (try_static path) as [r|e] eqn:E; [now exists r|].
    apply escapes in E as [[_ E] | [_ E]]; congruence.
  Qed.

  (* the reply depends on the request path only through what precedes the first '?' *)
  Theorem query_irrelevant path path' :
    utf8_valid path = true -> utf8_valid path' = true ->
    before_q path = before_q path' ->
    try_static path = try_static path'.
  Proof.
    intros Hu Hu' E. unfold try_static_or_404, text_. rewrite Hu, Hu'. cbn [bind]. now rewrite E.
  Qed.

  Corollary query_irrelevant_app p q q' :
    mem_byte QMARK p = false ->
    utf8_valid (p ++ QMARK :: q) = true -> utf8_valid (p ++ QMARK :: q') = true ->
    try_static (p ++ QMARK :: q) = try_static (p ++ QMARK :: q').
  Proof.
    intros Hp Hu Hu'. apply query_irrelevant; try assumption. now rewrite !before_q_app_q.
  Qed.
End Theorems.

(* with the symlink-free file system behind open(): what is served is the content of a file
   located at or below the static directory *)
Theorem served_from_subtree dir mcl agent look guess_type gz gunz path reply :
  (forall x, gunz (gz x) = x) ->
  startswith dir [SLASH] = true ->
  try_static_or_404 dir mcl agent (kopen look) guess_type gz path = Ok reply ->
  reply = NOT_FOUND_RESPONSE_PKT agent
  \/ exists below content headers body,
       look (resolve dir ++ below) = Some (EFile content)
       /\ reply = build_http_response 200 (Some (bs "OK")) headers (Some body) true false
       /\ undo_encoding gunz headers body = content.
Proof.
  intros Hgz Hd H. apply (confined dir mcl agent (kopen look) guess_type gz gunz Hgz Hd) in H.
  destruct H as [H | (content & headers & body & [below Hin] & Hfs & Hr & Hu)]; [now left|right].
  apply kopen_resolve in Hfs. rewrite Hin in Hfs. now exists below, content, headers, body.
Qed.

(* ================================================================== *)
(* the converse: the string test accepts every path that is inside     *)
(* ================================================================== *)
Lemma join_app sep a b :
  a <> [] -> b <> [] -> join sep (a ++ b) = join sep a ++ sep ++ join sep b.
Proof.
  intros Ha Hb. induction a as [|p t IH]; [congruence|].
  destruct t as [|q t'].
  - destruct b as [|r b']; [congruence|]. reflexivity.
  - change ((p :: q :: t') ++ b) with (p :: q :: (t' ++ b)).
    rewrite !join_cons2. change (q :: t' ++ b) with ((q :: t') ++ b).
    rewrite IH by discriminate. now rewrite <- !app_assoc.
Qed.

Lemma resolve_all_slashes l : lstrip_byte SLASH l = [] -> resolve l = [].
Proof.
  unfold resolve, segments. induction l as [|x t IH]; intros H; [reflexivity|].
  cbn [lstrip_byte] in H. cbn [split_byte]. destruct (x =? SLASH); [|discriminate].
  cbn [resolve_stack is_nil orb]. now apply IH.
Qed.

Lemma initial_slashes_app l c :
  lstrip_byte SLASH l <> [] -> initial_slashes (l ++ c) = initial_slashes l.
Proof.
  intros H. unfold initial_slashes, startswith.
  destruct l as [|x t]; [now contradiction H|].
  cbn [app is_prefix lstrip_byte] in *. rewrite (N.eqb_sym SLASH x).
  destruct (x =? SLASH) eqn:Ex; cbn [andb negb]; [|reflexivity].
  destruct t as [|y t']; [now contradiction H|].
  cbn [app is_prefix lstrip_byte] in *. rewrite (N.eqb_sym SLASH y).
  destruct (y =? SLASH) eqn:Ey; cbn [andb negb]; [|reflexivity].
  destruct t' as [|z t'']; [now contradiction H|].
  reflexivity.
Qed.

Theorem inside_implies_check dir path :
  startswith dir [SLASH] = true ->
  inside dir (dir ++ path) ->
  confinement_check dir path = true.
Proof.
  intros Hd [rest Hin].
  assert (Hdp : startswith (dir ++ path) [SLASH] = true) by now apply startswith_app.
  unfold confinement_check.
  rewrite (normpath_abs _ Hd), (normpath_abs _ Hdp), Hin.
  pose proof (resolve_proper dir) as HR.
  destruct (resolve dir) as [|c cs] eqn:ER.
  - (* the static directory is / itself *)
    apply orb_true_iff. right. cbn [join]. rewrite app_nil_r, rstrip_byte_repeat. cbn [app].
    destruct (initial_slashes_abs _ Hdp) as [-> | ->]; reflexivity.
  - assert (Hns : lstrip_byte SLASH dir <> []).
    { intros E. apply resolve_all_slashes in E. congruence. }
    rewrite (initial_slashes_app _ path Hns).
    destruct rest as [|r rest'].
    + rewrite app_nil_r. now rewrite bytes_eqb_refl.
    + apply orb_true_iff. right.
      destruct (join_proper_last _ _ HR) as (t & x & Elast & Hx).
      assert (Hrs : rstrip_byte SLASH (repeat SLASH (initial_slashes dir) ++ join [SLASH] (c :: cs))
                    = repeat SLASH (initial_slashes dir) ++ join [SLASH] (c :: cs)).
      { rewrite Elast, app_assoc. now apply rstrip_byte_last. }
      rewrite Hrs, join_app by discriminate.
      unfold startswith. rewrite <- !app_assoc.
      replace (repeat SLASH (initial_slashes dir) ++ join [SLASH] (c :: cs) ++ [SLASH] ++ join [SLASH] (r :: rest'))
        with ((repeat SLASH (initial_slashes dir) ++ join [SLASH] (c :: cs) ++ [SLASH]) ++ join [SLASH] (r :: rest'))
        by now rewrite <- !app_assoc.
      apply is_prefix_self_app.
Qed.

Theorem check_iff_inside dir path :
  startswith dir [SLASH] = true ->
  (confinement_check dir path = true <-> inside dir (dir ++ path)).
Proof.
  intros Hd. split; [now apply check_implies_inside|now apply inside_implies_check].
Qed.

(* the boolean prefix test used by the correspondence decides names_prefix *)
Lemma names_prefixb_spec R T : names_prefixb R T = true <-> names_prefix R T.
Proof.
  revert T; induction R as [|r R IH]; intros T; cbn [names_prefixb].
  - split; [now exists T|reflexivity].
  - destruct T as [|t T].
    + split; [discriminate|]. intros [rest H]. discriminate.
    + rewrite andb_true_iff, bytes_eqb_eq, IH. split.
      * intros [-> [rest ->]]. now exists rest.
      * intros [rest H]. inversion H. split; [reflexivity|now exists rest].
Qed.

(* consequence: an existing file inside the directory is served (the check is not over-strict) *)
Theorem inside_file_is_served dir mcl agent fs guess_type gz path content :
  startswith dir [SLASH] = true ->
  utf8_valid path = true -> mem_byte 0 (dir ++ before_q path) = false ->
  inside dir (dir ++ before_q path) ->
  fs (dir ++ before_q path) = Some content ->
  try_static_or_404 dir mcl agent fs guess_type gz path
  = Ok (okResponse mcl gz content (static_headers guess_type (dir ++ before_q path)) true true).
Proof.
  intros Hd Hu Hz Hin Hfs. unfold try_static_or_404, text_. rewrite Hu. cbn [bind].
  rewrite (inside_implies_check _ _ Hd Hin). cbn [negb].
  unfold serve_static_file, py_open. now rewrite Hz, Hfs.
Qed.

(* ================================================================== *)
(* reading the reply back off the wire                                 *)
(* ================================================================== *)
Fixpoint lines_bytes (ls : list bytes) : bytes :=
  match ls with [] => [] | l :: t => l ++ CRLF ++ lines_bytes t end.

Definition hdrline (kv : bytes * bytes) : bytes := build_http_header (fst kv) (snd kv).

Lemma header_lines_lines hs : header_lines hs = lines_bytes (map hdrline hs).
Proof. induction hs as [|[k v] t IH]; cbn [header_lines map lines_bytes]; [reflexivity|]. now rewrite IH. Qed.

Lemma mem_byte_app x a b : mem_byte x (a ++ b) = mem_byte x a || mem_byte x b.
Proof. induction a as [|y t IH]; cbn [app mem_byte]; [reflexivity|]. now rewrite IH, orb_assoc. Qed.

(* skipping a stretch that cannot start the separator *)
Lemma split_once_skip sep0 sep p r :
  mem_byte sep0 p = false ->
  split_once (sep0 :: sep) (p ++ r)
  = match split_once (sep0 :: sep) r with Some (a, c) => Some (p ++ a, c) | None => None end.
Proof.
  induction p as [|x t IH]; intros H; cbn [app].
  - destruct (split_once (sep0 :: sep) r) as [[a c]|]; reflexivity.
  - cbn [mem_byte] in H. apply orb_false_iff in H as [Hx Ht].
    cbn [split_once is_prefix]. rewrite Hx. cbn [andb]. rewrite (IH Ht).
    destruct (split_once (sep0 :: sep) r) as [[a c]|]; reflexivity.
Qed.

Definition clean_line (l : bytes) : Prop := l <> [] /\ mem_byte CR l = false.

Lemma split_once_here sep l :
  is_prefix sep l = true -> split_once sep l = Some ([], skipn (length sep) l).
Proof. intros H. destruct l; cbn [split_once]; now rewrite H. Qed.

Lemma split_once_step sep x t :
  is_prefix sep (x :: t) = false ->
  split_once sep (x :: t) = match split_once sep t with Some (a, c) => Some (x :: a, c) | None => None end.
Proof. intros H. cbn [split_once]. now rewrite H. Qed.

Lemma crlf2_not_at_crlf c r : (CR =? c) = false -> is_prefix [CR; LF; CR; LF] (CR :: LF :: c :: r) = false.
Proof. intros H. cbn [is_prefix]. now rewrite !N.eqb_refl, H. Qed.

Lemma crlf2_not_at_lf r : is_prefix [CR; LF; CR; LF] (LF :: r) = false.
Proof. reflexivity. Qed.

Lemma split_once_crlf2_lines ls body :
  ls <> [] -> Forall clean_line ls ->
  split_once CRLF2 (lines_bytes ls ++ CRLF ++ body) = Some (join CRLF ls, body).
Proof.
  change CRLF2 with [CR; LF; CR; LF]. change CRLF with [CR; LF].
  intros Hne HF. induction ls as [|l t IH]; [congruence|].
  inversion HF as [|? ? [Hl0 Hl] Ht]; subst.
  cbn [lines_bytes]. rewrite <- app_assoc. rewrite (split_once_skip _ _ _ _ Hl).
  destruct t as [|l' t'].
  - cbn [lines_bytes join app]. change CRLF with [CR; LF]. cbn [app].
    rewrite split_once_here by (cbn [is_prefix]; now rewrite !N.eqb_refl).
    cbn [length skipn]. now rewrite app_nil_r.
  - specialize (IH ltac:(discriminate) Ht).
    inversion Ht as [|? ? [Hl0' Hl'] _]; subst.
    destruct l' as [|c l'']; [congruence|].
    cbn [mem_byte] in Hl'. apply orb_false_iff in Hl' as [Hc _].
    rewrite join_cons2.
    cbn [lines_bytes] in *. change CRLF with [CR; LF] in *. cbn [app] in *.
    rewrite split_once_step by now apply crlf2_not_at_crlf.
    rewrite split_once_step by apply crlf2_not_at_lf.
    rewrite IH. reflexivity.
Qed.

Lemma split_once_crlf_line l rest :
  mem_byte CR l = false -> split_once CRLF (l ++ CRLF ++ rest) = Some (l, rest).
Proof.
  intros Hl. change CRLF with (CR :: [LF]). rewrite (split_once_skip _ _ _ _ Hl).
  unfold CR, LF. cbn [app split_once is_prefix]. rewrite !N.eqb_refl. cbn [andb skipn length].
  now rewrite app_nil_r.
Qed.

Lemma split_once_crlf_none l : mem_byte CR l = false -> split_once CRLF l = None.
Proof.
  intros Hl. change CRLF with (CR :: [LF]).
  rewrite <- (app_nil_r l), (split_once_skip _ _ _ _ Hl). reflexivity.
Qed.

Lemma splitn_join_crlf ls m :
  ls <> [] -> Forall clean_line ls -> (length ls <= S m)%nat -> splitn CRLF m (join CRLF ls) = ls.
Proof.
  revert m; induction ls as [|l t IH]; intros m Hne HF Hm; [congruence|].
  inversion HF as [|? ? [_ Hl] Ht]; subst.
  destruct t as [|l' t'].
  - cbn [join]. destruct m; cbn [splitn]; [reflexivity|]. now rewrite split_once_crlf_none.
  - rewrite join_cons2. destruct m as [|m]; [cbn [length] in Hm; lia|].
    cbn [splitn]. rewrite split_once_crlf_line by assumption.
    rewrite IH; [reflexivity|discriminate|assumption|cbn [length] in *; lia].
Qed.

Lemma join_crlf_length ls : (length ls <= S (length (join CRLF ls)))%nat.
Proof.
  induction ls as [|l t IH]; [cbn; lia|].
  destruct t as [|l' t']; [cbn; lia|].
  rewrite join_cons2, !app_length. change (length CRLF) with 2%nat.
  change (length (l :: l' :: t')) with (S (length (l' :: t'))). lia.
Qed.

(* a packet made of clean lines, an empty line and a body is read back as exactly those *)
Lemma read_reply_lines ls body :
  ls <> [] -> Forall clean_line ls ->
  read_reply (lines_bytes ls ++ CRLF ++ body) = Some (ls, body).
Proof.
  intros Hne HF. unfold read_reply. rewrite split_once_crlf2_lines by assumption.
  unfold split_all. rewrite splitn_join_crlf; try assumption; [reflexivity|].
  pose proof (join_crlf_length ls). lia.
Qed.

(* decimal numerals contain no CR *)
Lemma digit_char_not_cr d : (CR =? digit_char d) = false.
Proof. unfold digit_char, CR. destruct (d <? 10); apply N.eqb_neq; lia. Qed.

Lemma to_base_aux_clean fuel base n acc :
  mem_byte CR acc = false -> mem_byte CR (to_base_aux fuel base n acc) = false.
Proof.
  revert n acc; induction fuel as [|f IH]; intros n acc H; cbn [to_base_aux]; [assumption|].
  destruct (n <? base).
  - cbn [mem_byte]. now rewrite digit_char_not_cr.
  - apply IH. cbn [mem_byte]. now rewrite digit_char_not_cr.
Qed.
Lemma dec_of_N_clean n : mem_byte CR (dec_of_N n) = false.
Proof. apply to_base_aux_clean. reflexivity. Qed.

(* the two header sets _try_static_or_404 can produce, as they reach the wire *)
Definition content_length_value (body : bytes) : bytes :=
  if nonempty (Some body) then dec_of_N (len body) else bs "0".

Lemma content_length_value_dec body : content_length_value body = dec_of_N (len body).
Proof. destruct body; reflexivity. Qed.

Lemma packet_plain v body :
  build_http_response 200 (Some (bs "OK"))
    [(bs "Content-Type", v); (bs "Cache-Control", bs "max-age=86400")] (Some body) true false
  = lines_bytes [bs "HTTP/1.1 200 OK";
                 bs "Content-Type: " ++ v;
                 bs "Cache-Control: max-age=86400";
                 bs "Content-Length: " ++ content_length_value body;
                 bs "Connection: close"] ++ CRLF ++ body.
Proof.
  unfold build_http_response, build_http_pkt.
  assert (Hx : (if nonempty (Some body) then dec_of_N (len (body_or_empty (Some body))) else bs "0")
               = content_length_value body) by reflexivity.
  rewrite Hx. clear Hx. generalize (content_length_value body) as x. intros x.
  replace (existsb _ _) with false by (vm_compute; reflexivity). cbn [negb andb].
  replace (dict_set (bs "Connection") (bs "close")
             (dict_set (bs "Content-Length") x [(bs "Content-Type", v); (bs "Cache-Control", bs "max-age=86400")]))
    with [(bs "Content-Type", v); (bs "Cache-Control", bs "max-age=86400"); (bs "Content-Length", x);
          (bs "Connection", bs "close")] by (vm_compute; reflexivity).
  replace (join WHITESPACE ([HTTP_1_1; dec_of_N 200] ++ (if nonempty (Some (bs "OK")) then [body_or_empty (Some (bs "OK"))] else [])))
    with (bs "HTTP/1.1 200 OK") by (vm_compute; reflexivity).
  rewrite header_lines_lines. cbn [map lines_bytes]. unfold hdrline, build_http_header. cbn [fst snd].
  rewrite <- !app_assoc. destruct body; reflexivity.
Qed.

Lemma packet_gzip v body :
  build_http_response 200 (Some (bs "OK"))
    (dict_set (bs "Content-Encoding") (bs "gzip")
       [(bs "Content-Type", v); (bs "Cache-Control", bs "max-age=86400")]) (Some body) true false
  = lines_bytes [bs "HTTP/1.1 200 OK";
                 bs "Content-Type: " ++ v;
                 bs "Cache-Control: max-age=86400";
                 bs "Content-Encoding: gzip";
                 bs "Content-Length: " ++ content_length_value body;
                 bs "Connection: close"] ++ CRLF ++ body.
Proof.
  unfold build_http_response, build_http_pkt.
  assert (Hx : (if nonempty (Some body) then dec_of_N (len (body_or_empty (Some body))) else bs "0")
               = content_length_value body) by reflexivity.
  rewrite Hx. clear Hx. generalize (content_length_value body) as x. intros x.
  replace (dict_set (bs "Content-Encoding") (bs "gzip") [(bs "Content-Type", v); (bs "Cache-Control", bs "max-age=86400")])
    with [(bs "Content-Type", v); (bs "Cache-Control", bs "max-age=86400"); (bs "Content-Encoding", bs "gzip")]
    by (vm_compute; reflexivity).
  replace (existsb _ _) with false by (vm_compute; reflexivity). cbn [negb andb].
  replace (dict_set (bs "Connection") (bs "close")
             (dict_set (bs "Content-Length") x
                [(bs "Content-Type", v); (bs "Cache-Control", bs "max-age=86400"); (bs "Content-Encoding", bs "gzip")]))
    with [(bs "Content-Type", v); (bs "Cache-Control", bs "max-age=86400"); (bs "Content-Encoding", bs "gzip");
          (bs "Content-Length", x); (bs "Connection", bs "close")] by (vm_compute; reflexivity).
  replace (join WHITESPACE ([HTTP_1_1; dec_of_N 200] ++ (if nonempty (Some (bs "OK")) then [body_or_empty (Some (bs "OK"))] else [])))
    with (bs "HTTP/1.1 200 OK") by (vm_compute; reflexivity).
  rewrite header_lines_lines. cbn [map lines_bytes]. unfold hdrline, build_http_header. cbn [fst snd].
  rewrite <- !app_assoc. destruct body; reflexivity.
Qed.

Lemma clean_const_app c v : c <> [] -> mem_byte CR c = false -> mem_byte CR v = false -> clean_line (c ++ v).
Proof.
  intros Hc Hc' Hv. split; [destruct c; [congruence|discriminate]|]. now rewrite mem_byte_app, Hc', Hv.
Qed.
Lemma clean_const c : c <> [] -> mem_byte CR c = false -> clean_line c.
Proof. now split. Qed.

Lemma clean_lines_gzip v body :
  mem_byte CR v = false ->
  Forall clean_line [bs "HTTP/1.1 200 OK"; bs "Content-Type: " ++ v; bs "Cache-Control: max-age=86400";
                     bs "Content-Encoding: gzip"; bs "Content-Length: " ++ content_length_value body;
                     bs "Connection: close"].
Proof.
  intros Hv. repeat apply Forall_cons; try apply Forall_nil.
  - apply clean_const; [discriminate|reflexivity].
  - apply clean_const_app; [discriminate|reflexivity|assumption].
  - apply clean_const; [discriminate|reflexivity].
  - apply clean_const; [discriminate|reflexivity].
  - apply clean_const_app; [discriminate|reflexivity|].
    rewrite content_length_value_dec. apply dec_of_N_clean.
  - apply clean_const; [discriminate|reflexivity].
Qed.

Lemma clean_lines_plain v body :
  mem_byte CR v = false ->
  Forall clean_line [bs "HTTP/1.1 200 OK"; bs "Content-Type: " ++ v; bs "Cache-Control: max-age=86400";
                     bs "Content-Length: " ++ content_length_value body; bs "Connection: close"].
Proof.
  intros Hv. repeat apply Forall_cons; try apply Forall_nil.
  - apply clean_const; [discriminate|reflexivity].
  - apply clean_const_app; [discriminate|reflexivity|assumption].
  - apply clean_const; [discriminate|reflexivity].
  - apply clean_const_app; [discriminate|reflexivity|].
    rewrite content_length_value_dec. apply dec_of_N_clean.
  - apply clean_const; [discriminate|reflexivity].
Qed.

Section ReadBack.
  Variable dir : bytes.
  Variable mcl : Z.
  Variable agent : bytes.
  Variable fs : bytes -> option bytes.
  Variable guess_type : bytes -> option bytes.
  Variable gz gunz : bytes -> bytes.
  Hypothesis gunz_gz : forall x, gunz (gz x) = x.
  Hypothesis dir_abs : startswith dir [SLASH] = true.
  (* mimetypes never returns a type containing a carriage return *)
  Hypothesis guess_clean : forall p t, guess_type p = Some t -> mem_byte CR t = false.

  Lemma ctype_clean p :
    mem_byte CR (match guess_type p with Some t => t | None => bs "text/plain" end) = false.
  Proof. destruct (guess_type p) as [t|] eqn:E; [now apply (guess_clean p)|reflexivity]. Qed.

  (* What the client reads when a file is served: status line "HTTP/1.1 200 OK", and a body that,
     after undoing the content-encoding announced by the header lines, is the file, byte for byte;
     Content-Length announces exactly the body. *)
  Theorem served_reads_back path reply :
    try_static_or_404 dir mcl agent fs guess_type gz path = Ok reply ->
    reply <> NOT_FOUND_RESPONSE_PKT agent ->
    exists content hdrs body,
      inside dir (dir ++ before_q path)
      /\ fs (dir ++ before_q path) = Some content
      /\ read_reply reply = Some (bs "HTTP/1.1 200 OK" :: hdrs, body)
      /\ client_body gunz hdrs body = content
      /\ find_header (bs "Content-Length") hdrs = Some (dec_of_N (len body)).
  Proof.
    unfold try_static_or_404, text_. destruct (utf8_valid path); cbn [bind]; [|discriminate].
    destruct (confinement_check dir (before_q path)) eqn:Hc; cbn [negb].
    2:{ intros H Hn. inversion H. congruence. }
    unfold serve_static_file, py_open.
    destruct (mem_byte 0 (dir ++ before_q path)); [discriminate|].
    destruct (fs (dir ++ before_q path)) as [content|] eqn:Hfs.
    2:{ intros H Hn. inversion H. congruence. }
    intros H _. inversion H as [Hr]. clear H Hr.
    pose proof (check_implies_inside _ _ dir_abs Hc) as Hin.
    pose proof (ctype_clean (dir ++ before_q path)) as Hct.
    unfold okResponse, okResponse_args, static_headers.
    set (v := match guess_type (dir ++ before_q path) with Some t => t | None => bs "text/plain" end) in *.
    destruct (true && negb (is_nil content) && (mcl <? Z.of_N (len content))%Z) eqn:E.
    - apply andb_true_iff in E as [E _]. cbn [andb] in E. rewrite E. cbn [andb].
      rewrite packet_gzip. set (body := gz content).
      eexists content, _, body. split; [exact Hin|]. split; [reflexivity|].
      split; [apply read_reply_lines; [discriminate|]|split].
      + now apply clean_lines_gzip.
      + unfold client_body. cbn [find_header].
        replace (is_prefix (bs "Content-Encoding" ++ [COLON; SP]) (bs "Content-Type: " ++ v)) with false
          by (vm_compute; reflexivity).
        replace (is_prefix (bs "Content-Encoding" ++ [COLON; SP]) (bs "Cache-Control: max-age=86400")) with false
          by (vm_compute; reflexivity).
        replace (is_prefix (bs "Content-Encoding" ++ [COLON; SP]) (bs "Content-Encoding: gzip")) with true
          by (vm_compute; reflexivity).
        replace (option_eqb bytes_eqb (Some (skipn (length (bs "Content-Encoding") + 2) (bs "Content-Encoding: gzip")))
                   (Some (bs "gzip"))) with true by (vm_compute; reflexivity).
        apply gunz_gz.
      + cbn [find_header].
        replace (is_prefix (bs "Content-Length" ++ [COLON; SP]) (bs "Content-Type: " ++ v)) with false
          by (vm_compute; reflexivity).
        replace (is_prefix (bs "Content-Length" ++ [COLON; SP]) (bs "Cache-Control: max-age=86400")) with false
          by (vm_compute; reflexivity).
        replace (is_prefix (bs "Content-Length" ++ [COLON; SP]) (bs "Content-Encoding: gzip")) with false
          by (vm_compute; reflexivity).
        rewrite content_length_value_dec.
        replace (is_prefix (bs "Content-Length" ++ [COLON; SP]) (bs "Content-Length: " ++ dec_of_N (len body)))
          with true by (symmetry; apply (is_prefix_self_app (bs "Content-Length: "))).
        reflexivity.
    - rewrite packet_plain. set (body := content).
      eexists content, _, body. split; [exact Hin|]. split; [reflexivity|].
      split; [apply read_reply_lines; [discriminate|]|split].
      + now apply clean_lines_plain.
      + unfold client_body. cbn [find_header].
        replace (is_prefix (bs "Content-Encoding" ++ [COLON; SP]) (bs "Content-Type: " ++ v)) with false
          by (vm_compute; reflexivity).
        replace (is_prefix (bs "Content-Encoding" ++ [COLON; SP]) (bs "Cache-Control: max-age=86400")) with false
          by (vm_compute; reflexivity).
        rewrite content_length_value_dec.
        replace (is_prefix (bs "Content-Encoding" ++ [COLON; SP]) (bs "Content-Length: " ++ dec_of_N (len body)))
          with false by (vm_compute; reflexivity).
        replace (is_prefix (bs "Content-Encoding" ++ [COLON; SP]) (bs "Connection: close")) with false
          by (vm_compute; reflexivity).
        reflexivity.
      + cbn [find_header].
        replace (is_prefix (bs "Content-Length" ++ [COLON; SP]) (bs "Content-Type: " ++ v)) with false
          by (vm_compute; reflexivity).
        replace (is_prefix (bs "Content-Length" ++ [COLON; SP]) (bs "Cache-Control: max-age=86400")) with false
          by (vm_compute; reflexivity).
        rewrite content_length_value_dec.
        replace (is_prefix (bs "Content-Length" ++ [COLON; SP]) (bs "Content-Length: " ++ dec_of_N (len body)))
          with true by (symmetry; apply (is_prefix_self_app (bs "Content-Length: "))).
        reflexivity.
  Qed.
End ReadBack.

Theorem request_confined dir mcl agent fs guess_type gz gunz :
  (forall x, gunz (gz x) = x) ->
  startswith dir [SLASH] = true ->
  forall request_path reply,
    on_request_complete_static dir mcl agent fs guess_type gz request_path = Ok reply ->
    reply = NOT_FOUND_RESPONSE_PKT agent
    \/ exists p content headers body,
         p = before_q (if nonempty request_path then body_or_empty request_path else [SLASH])
         /\ inside dir (dir ++ p)
         /\ fs (dir ++ p) = Some content
         /\ reply = build_http_response 200 (Some (bs "OK")) headers (Some body) true false
         /\ undo_encoding gunz headers body = content.
Proof.
  intros Hgz Hd rp reply H. unfold on_request_complete_static in H.
  apply (confined dir mcl agent fs guess_type gz gunz Hgz Hd) in H.
  destruct H as [H | (content & headers & body & H1 & H2 & H3 & H4)]; [now left|right].
  eexists _, content, headers, body. split; [reflexivity|]. repeat split; assumption.
Qed.
