(* Net/Conversation.v — the CONVERSATION level of one client connection: every request the client
   sends on it (keep-alive or pipelined), how the request bytes are packed into segments, and which
   upstream connection / route answers each request.  Definitions only; lemmas are in
   ConversationFacts.v, the correspondence cases in ConversationCases.v, statements in Props/C04.v.

   Python (after proposed_fixes/C04-pipelined-remainder.diff)          Gallina
   ----------------------------------------------------------          -------
   HttpProtocolHandler.handle_data            (http/handler.py)        handle_data_try / handle_data
   HttpProtocolHandler._parse_first_request   (http/handler.py)        parse_first_request
   HttpProxyPlugin.on_request_complete        (http/proxy/server.py)   proxy_on_request_complete
   HttpProxyPlugin.connect_upstream                                    connect_upstream
   HttpProxyPlugin._queue_request_for_upstream                         rebuild_for_upstream (+ up_queue)
   HttpProxyPlugin.on_client_data (the while loop)                     pipeline_loop (proxy_round c)
   HttpProxyPlugin._on_client_data                                     proxy_round
   HttpProxyPlugin.read_from_descriptors (relay part)                  step (EUp / EUpEof)
   HttpWebServerPlugin.on_request_complete / _try_route (web.py)       web_on_request_complete / try_route
   HttpWebServerPlugin.on_client_data (the while loop)                 web_on_client_data
   ReverseProxy.handle_request                (http/server/reverse.py) reverse_handle_request
   TcpUpstreamConnectionHandler.read_from_descriptors                  step (EUp / EUpEof)
   HttpParser.parse / is_complete / buffer / build ...                 Http/Parser.v, Http/Builders.v (the REAL models)
   the block "pipeline_request = pipeline_request or HttpParser(); parse(raw); if complete: ...;
   remainder = pipeline_request.buffer" that server.py and web.py share        pipeline_round

   WHAT IS ABSTRACTED
   * the write side: a TcpConnection is the list of pieces queued on it, in order ([client_q],
     [up_queued]) and a flush (event EFlush) hands all of them to the socket; that flush delivers
     exactly these bytes in this order under every short-write pattern is C01
     (Net/ConnFacts.flush_conservation); what is still delivered while a connection is being torn
     down is C07 (here: the client gets everything queued, an upstream something between what it had
     at the last flush and everything queued).  Only the CURRENT upstream of the plugin is ever
     flushed or read: a replaced ReverseProxy.upstream keeps its unsent pieces for ever.
   * the bookkeeping response parser of HttpProxyPlugin.read_from_descriptors does not appear: with
     proposed_fixes/C01-guard-response-parse.diff its result cannot influence relaying.
   * user plugins: none (HttpProxyBasePlugin list empty); web-server plugins are either LOCAL
     (handle_request queues respond(request) for the client, every other hook is the inherited
     default) or the built-in ReverseProxy with static routes;  re.match enters as [re_match].
   * not modelled (the model stops with status Unmodelled, the check then reports a mismatch):
     websocket upgrade on the web server, the static file server (C13), https upstream routes,
     dynamic reverse-proxy routes, TLS interception, --enable-conn-pool, --enable-proxy-protocol.
   * connect() always succeeds (connection failures: C06/C12). *)
From PM Require Import Lib.Bytes Lib.PyStr Http.Url Http.Chunk Http.Parser Http.Builders.
From Coq Require Import ZArith.

(* ======================================================================================
   configuration
   ====================================================================================== *)

(* one HttpWebServerBasePlugin instance of the connection *)
Inductive wplugin :=
| WLocal (respond : parser -> list bytes)                  (* handle_request: client.queue(x) for x in respond(request) *)
| WReverse (rplugins : list (list (bytes * list bytes))).  (* ReverseProxy; per ReverseProxyBasePlugin its routes() = [(regex, [url, ...])] *)

Record cfg := mkCfg {
  via_value : bytes;                  (* b'1.1 ' + PROXY_AGENT_HEADER_VALUE *)
  disable_headers : list bytes;       (* flags.disable_headers *)
  ack_pkt : bytes;                    (* PROXY_TUNNEL_ESTABLISHED_RESPONSE_PKT *)
  bad_request_pkt : bytes;            (* BAD_REQUEST_RESPONSE_PKT *)
  not_found_pkt : bytes;              (* NOT_FOUND_RESPONSE_PKT *)
  has_proxy : bool;                   (* HttpProxyPlugin in flags.plugins[HttpProtocolHandlerPlugin] *)
  has_web : bool;                     (* HttpWebServerPlugin in flags.plugins[HttpProtocolHandlerPlugin] *)
  static_server : bool;               (* flags.enable_static_server *)
  rewrite_host : bool;                (* flags.rewrite_host_header *)
  re_match : bytes -> bytes -> bool;  (* re.compile(regex).match(text) is not None *)
  web_routes : list (bytes * nat);    (* HttpWebServerPlugin.routes[HTTP] in dict order: (regex, index into web_plugins) *)
  web_plugins : list wplugin }.

(* ======================================================================================
   state
   ====================================================================================== *)

(* a TcpServerConnection opened by this client connection; [conns] in connect order is the connect log *)
Record upconn := mkUp {
  up_host : bytes; up_port : Z;
  up_queued : list bytes;        (* every piece queued on it (upstream.queue), in order *)
  up_nsent : nat;                (* how many of them the socket has taken (GHOST: what the peer has received) *)
  up_closed : bool }.

Inductive pkind := PNone | PProxy | PWeb.

Inductive status :=
| Alive
| Closed                 (* handle_data returned True / a peer closed: torn down after the client buffer is flushed *)
| Raised (e : exn)       (* an exception escaped handle_events *)
| Unmodelled.            (* the run left the modelled part of the code *)

Record hstate := mkH {
  request : parser;                   (* HttpProtocolHandler.request (== plugin.request) *)
  plugin : pkind;                     (* HttpProtocolHandler.plugin *)
  upstream : option nat;              (* HttpProxyPlugin.upstream / ReverseProxy.upstream: index into conns *)
  pipeline_request : option parser;   (* plugin.pipeline_request *)
  route : option nat;                 (* HttpWebServerPlugin.route: index into web_plugins *)
  client_q : list bytes;              (* every piece queued for the client (self.work.queue), in order *)
  conns : list upconn;
  draws : list nat;                   (* future results of random.choice (index drawn, taken modulo the length) *)
  stat : status }.

Definition init (ds : list nat) : hstate :=
  mkH (new_parser REQUEST_PARSER) PNone None None None [] [] ds Alive.

Definition set_request (p : parser) (s : hstate) : hstate :=
  mkH p (plugin s) (upstream s) (pipeline_request s) (route s) (client_q s) (conns s) (draws s) (stat s).
Definition set_plugin (k : pkind) (s : hstate) : hstate :=
  mkH (request s) k (upstream s) (pipeline_request s) (route s) (client_q s) (conns s) (draws s) (stat s).
Definition set_upstream (u : option nat) (s : hstate) : hstate :=
  mkH (request s) (plugin s) u (pipeline_request s) (route s) (client_q s) (conns s) (draws s) (stat s).
Definition set_pipeline (p : option parser) (s : hstate) : hstate :=
  mkH (request s) (plugin s) (upstream s) p (route s) (client_q s) (conns s) (draws s) (stat s).
Definition set_route (r : option nat) (s : hstate) : hstate :=
  mkH (request s) (plugin s) (upstream s) (pipeline_request s) r (client_q s) (conns s) (draws s) (stat s).
Definition set_client_q (q : list bytes) (s : hstate) : hstate :=
  mkH (request s) (plugin s) (upstream s) (pipeline_request s) (route s) q (conns s) (draws s) (stat s).
Definition set_conns (l : list upconn) (s : hstate) : hstate :=
  mkH (request s) (plugin s) (upstream s) (pipeline_request s) (route s) (client_q s) l (draws s) (stat s).
Definition set_draws (d : list nat) (s : hstate) : hstate :=
  mkH (request s) (plugin s) (upstream s) (pipeline_request s) (route s) (client_q s) (conns s) d (stat s).
Definition set_status (x : status) (s : hstate) : hstate :=
  mkH (request s) (plugin s) (upstream s) (pipeline_request s) (route s) (client_q s) (conns s) (draws s) x.

(* self.client.queue(mv) *)
Definition client_queue (mv : bytes) (s : hstate) : hstate := set_client_q (client_q s ++ [mv]) s.
Definition client_queue_all (mvs : list bytes) (s : hstate) : hstate := set_client_q (client_q s ++ mvs) s.

Fixpoint upd_nth {A} (n : nat) (f : A -> A) (l : list A) : list A :=
  match l, n with
  | [], _ => []
  | x :: t, O => f x :: t
  | x :: t, S m => x :: upd_nth m f t
  end.

(* self.upstream.queue(mv) for the connection with index k *)
Definition up_add (b : bytes) (u : upconn) : upconn :=
  mkUp (up_host u) (up_port u) (up_queued u ++ [b]) (up_nsent u) (up_closed u).
(* write_to_descriptors until the buffer is empty *)
Definition up_flush (u : upconn) : upconn :=
  mkUp (up_host u) (up_port u) (up_queued u) (length (up_queued u)) (up_closed u).
Definition up_queue (k : nat) (b : bytes) (s : hstate) : hstate :=
  set_conns (upd_nth k (up_add b) (conns s)) s.

Definition conn_closed (k : nat) (s : hstate) : bool :=
  match nth_error (conns s) k with Some u => up_closed u | None => true end.

(* leaving the modelled part: sticky *)
Definition mark_unmodelled (s : hstate) : hstate := set_status Unmodelled s.

(* ======================================================================================
   HttpParser properties used here (parser.py)
   ====================================================================================== *)
Definition K_CONNECTION := bytes_of_string "Connection".
Definition K_UPGRADE := bytes_of_string "Upgrade".
Definition V_KEEP_ALIVE := bytes_of_string "keep-alive".
Definition V_WEBSOCKET := bytes_of_string "websocket".
Definition V_DERP := bytes_of_string "derp".
Definition PROXY_AUTHORIZATION := bytes_of_string "proxy-authorization".
Definition PROXY_CONNECTION := bytes_of_string "proxy-connection".
Definition K_VIA := bytes_of_string "Via".
Definition L_VIA := bytes_of_string "via".
Definition COMMA_SP := bytes_of_string ", ".

Definition version_is (p : parser) (v : bytes) : bool := option_eqb bytes_eqb (version p) (Some v).

(* is_http_1_1_keep_alive *)
Definition is_http_1_1_keep_alive (p : parser) : bool :=
  version_is p HTTP_1_1 &&
  (negb (has_header p K_CONNECTION) ||
   match header p K_CONNECTION with Ok v => bytes_eqb (lower v) V_KEEP_ALIVE | Err _ => false end).

(* is_connection_upgrade *)
Definition is_connection_upgrade (p : parser) : bool :=
  version_is p HTTP_1_1 && has_header p K_CONNECTION && has_header p K_UPGRADE.

(* is_websocket_upgrade *)
Definition is_websocket_upgrade (p : parser) : bool :=
  is_connection_upgrade p &&
  match header p K_UPGRADE with
  | Ok v => bytes_eqb (lower v) V_WEBSOCKET || bytes_eqb (lower v) V_DERP
  | Err _ => false
  end.

(* request.path = x *)
Definition set_path (p : parser) (x : option bytes) : parser :=
  {| ty := ty p; state := state p; host := host p; port := port p; path := x; method := method p;
     code := code p; reason := reason p; version := version p; total_size := total_size p;
     buffer := buffer p; headers := headers p; body := body p; chunk := chunk p; purl := purl p;
     is_chunked_encoded := is_chunked_encoded p; content_expected := content_expected p;
     is_https_tunnel := is_https_tunnel p |}.

(* parser.buffer = None *)
Definition clear_buffer (p : parser) : parser := set_buffer_size p None (total_size p).

Definition buffer_len (p : option parser) : nat :=
  match p with Some q => match buffer q with Some b => length b | None => O end | None => O end.

(* ======================================================================================
   the pipelining block shared by server.py and web.py
   ====================================================================================== *)

(*   if self.pipeline_request is None: self.pipeline_request = HttpParser(REQUEST_PARSER)
     self.pipeline_request.parse(raw)
     if self.pipeline_request.is_complete:
         <on_complete>                                   -> the parser to keep as pipeline_request, if any
         remainder = self.pipeline_request.buffer        (the fix: it used to be dropped)
         self.pipeline_request = None | kept with buffer = None
         -> remainder
     -> None                                                                                    *)
Definition pipeline_round (on_complete : hstate -> parser -> hstate * result (option parser))
    (s : hstate) (raw : bytes) : hstate * result (option bytes) :=
  let pr := match pipeline_request s with Some p => p | None => new_parser REQUEST_PARSER end in
  match parse pr raw with
  | Err e => (s, Err e)
  | Ok pr' =>
      if is_complete pr' then
        match on_complete s pr' with
        | (s1, Err e) => (s1, Err e)
        | (s1, Ok keep) =>
            (set_pipeline (match keep with Some k => Some (clear_buffer k) | None => None end) s1,
             Ok (buffer pr'))
        end
      else (set_pipeline (Some pr') s, Ok None)
  end.

(*   remainder = raw
     while remainder is not None: remainder = round(remainder)                                  *)
Fixpoint pipeline_loop (fuel : nat) (round : hstate -> bytes -> hstate * result (option bytes))
    (s : hstate) (raw : bytes) : hstate * result unit :=
  match fuel with
  | O => (s, Err OutOfFuel)
  | S f =>
      match round s raw with
      | (s1, Err e) => (s1, Err e)
      | (s1, Ok None) => (s1, Ok tt)
      | (s1, Ok (Some r)) => pipeline_loop f round s1 r
      end
  end.

(* every round that returns a remainder has consumed at least one byte of (carried buffer ++ raw) *)
Definition loop_fuel (s : hstate) (raw : bytes) : nat := S (buffer_len (pipeline_request s) + length raw).

(* ======================================================================================
   HttpProxyPlugin (forward proxy)
   ====================================================================================== *)

(* _queue_request_for_upstream: the request after del_headers/add_headers and request.build(...) *)
(* via = b'1.1 ' + agent; if request.has_header(b'via'): via = request.header(b'via') + b', ' + via *)
Definition via_for (c : cfg) (r : parser) : bytes :=
  if has_header r L_VIA then
    match header r L_VIA with Ok old => old ++ COMMA_SP ++ via_value c | Err _ => via_value c end
  else via_value c.

Definition rebuild_for_upstream (c : cfg) (tunnel : bool) (req : parser) : parser * result bytes :=
  let r1 := del_header (del_header req PROXY_AUTHORIZATION) PROXY_CONNECTION in
  let r2 := if tunnel then r1 else add_header r1 K_VIA (via_for c r1) in
  (r2, build [] r2 (disable_headers c) false None).

(* connect_upstream: `if host and port`, the port range check, TcpServerConnection(text_(host), port).connect() *)
Definition connect_upstream (s : hstate) : hstate * result unit :=
  match host (request s), port (request s) with
  | Some (hx :: ht), Some pt =>
      if (pt =? 0)%Z then (s, Err (HttpProtocolException 3)) else
      if negb ((0 <? pt)%Z && (pt <=? 65535)%Z) then (s, Err (HttpProtocolException 4)) else
      match text_ (hx :: ht) with
      | Err e => (s, Err e)
      | Ok h => (set_upstream (Some (length (conns s))) (set_conns (conns s ++ [mkUp h pt [] O false]) s), Ok tt)
      end
  | _, _ => (s, Err (HttpProtocolException 3))
  end.

(* on_request_complete *)
Definition proxy_on_request_complete (c : cfg) (s : hstate) : hstate * result bool :=
  match connect_upstream s with
  | (s1, Err e) => (s1, Err e)
  | (s1, Ok _) =>
      match upstream s1 with
      | Some k =>
          if is_https_tunnel (request s1) then (client_queue (ack_pkt c) s1, Ok false)
          else
            let '(rq, b) := rebuild_for_upstream c false (request s1) in
            match b with
            | Ok x => (up_queue k x (set_request rq s1), Ok false)
            | Err e => (set_request rq s1, Err e)
            end
      | None => (s1, Ok false)
      end
  end.

(* what _on_client_data does with a completed pipelined request *)
Definition proxy_forward (c : cfg) (k : nat) (s : hstate) (pr : parser) : hstate * result (option parser) :=
  let '(pr2, b) := rebuild_for_upstream c (is_https_tunnel (request s)) pr in
  match b with
  | Ok x => (up_queue k x s, Ok (if is_connection_upgrade pr2 then Some pr2 else None))
  | Err e => (s, Err e)
  end.

(* _on_client_data (no user plugins) *)
Definition proxy_round (c : cfg) (s : hstate) (raw : bytes) : hstate * result (option bytes) :=
  match upstream s with
  | None => (s, Ok None)
  | Some k =>
      if conn_closed k s then (s, Ok None) else
      if is_complete (request s) && negb (is_https_tunnel (request s)) then
        if match pipeline_request s with Some pr => is_complete pr && is_connection_upgrade pr | None => false end
        then (up_queue k raw s, Ok None)
        else pipeline_round (proxy_forward c k) s raw
      else (up_queue k raw s, Ok None)
  end.

(* ======================================================================================
   HttpWebServerPlugin and ReverseProxy
   ====================================================================================== *)

Fixpoint find_route {A} (rm : bytes -> bytes -> bool) (t : bytes) (routes : list (bytes * A)) : option A :=
  match routes with
  | [] => None
  | (re, x) :: rest => if rm re t then Some x else find_route rm t rest
  end.

(* _try_route: for route in self.routes[HTTP]: if route.match(text_(path)) ... break *)
Definition try_route (c : cfg) (pth : bytes) : result (option nat) :=
  match web_routes c with
  | [] => Ok None
  | _ => do t <- text_ pth; Ok (find_route (re_match c) t (web_routes c))
  end.

(* random.choice(seq) *)
Definition random_choice {A} (seq : list A) (s : hstate) : hstate * result A :=
  let '(d, rest) := match draws s with d :: r => (d, r) | [] => (O, []) end in
  match seq with
  | [] => (set_draws rest s, Err IndexError)
  | x :: _ => (set_draws rest s, Ok (nth (Nat.modulo d (length seq)) seq x))
  end.

(* the routes loop of ReverseProxy.handle_request: per plugin the first matching route sets
   self.choice (the `break` leaves the inner loop only) *)
Fixpoint reverse_routes (c : cfg) (t : bytes) (rplugins : list (list (bytes * list bytes)))
    (choice : option url) (s : hstate) : hstate * result (option url) :=
  match rplugins with
  | [] => (s, Ok choice)
  | rts :: rest =>
      match find_route (re_match c) t rts with
      | None => reverse_routes c t rest choice s
      | Some urls =>
          match random_choice urls s with
          | (s1, Err e) => (s1, Err e)
          | (s1, Ok raw) =>
              match from_bytes DEFAULT_ALLOWED_URL_SCHEMES raw with
              | Err e => (s1, Err e)
              | Ok u => reverse_routes c t rest (Some u) s1
              end
          end
      end
  end.

Definition any_route (rplugins : list (list (bytes * list bytes))) : bool :=
  existsb (fun r => match r with [] => false | _ => true end) rplugins.

Definition scheme_is (u : url) (x : bytes) : bool := option_eqb bytes_eqb (u_scheme u) (Some x).
Definition port_or (u : url) (d : Z) : Z :=
  match u_port u with Some p => if (p =? 0)%Z then d else p | None => d end.

(* ReverseProxy.handle_request(request): returns the request object as mutated (request.path) *)
Definition reverse_handle_request (c : cfg) (rplugins : list (list (bytes * list bytes)))
    (s : hstate) (rq : parser) : hstate * result parser :=
  match path rq with
  | None => (s, Err TypeError)                                    (* pattern.match(None) *)
  | Some pth =>
      match (if any_route rplugins then text_ pth else Ok []) with      (* text_(request.path) per route tried *)
      | Err e => (s, Err e)
      | Ok t =>
          match reverse_routes c t rplugins None s with
          | (s1, Err e) => (s1, Err e)
          | (s1, Ok None) => (s1, Ok rq)                          (* needs_upstream is False: nothing happens *)
          | (s1, Ok (Some u)) =>
              match u_hostname u with
              | Some (hx :: ht) =>
                  let pt := if scheme_is u HTTP_PROTO then port_or u 80%Z else port_or u 443%Z in
                  match text_ (hx :: ht) with
                  | Err e => (s1, Err e)
                  | Ok h =>
                      (* initialize_upstream REPLACES self.upstream; connect() *)
                      let k := length (conns s1) in
                      let s2 := set_upstream (Some k) (set_conns (conns s1 ++ [mkUp h pt [] O false]) s1) in
                      if scheme_is u HTTPS_PROTO then (mark_unmodelled s2, Err AssertionError) else
                      let rq' := set_path rq (u_remainder u) in
                      let hv := if rewrite_host c
                                then Some ((hx :: ht) ++ match u_port u with Some p => [COLON] ++ bytes_of_Z p | None => [] end)
                                else None in
                      match build [] rq' [] false hv with
                      | Ok x => (up_queue k x s2, Ok rq')
                      | Err e => (s2, Err e)
                      end
                  end
              | _ => (s1, Err AssertionError)                    (* assert self.choice and self.choice.hostname *)
              end
          end
      end
  end.

(* route.handle_request(request) for the route with index j *)
Definition web_handle_request (c : cfg) (j : nat) (s : hstate) (rq : parser) : hstate * result parser :=
  match nth_error (web_plugins c) j with
  | Some (WLocal respond) => (client_queue_all (respond rq) s, Ok rq)
  | Some (WReverse rplugins) => reverse_handle_request c rplugins s rq
  | None => (s, Err IndexError)
  end.

(* on_request_complete *)
Definition web_on_request_complete (c : cfg) (s : hstate) : hstate * result bool :=
  let rq := request s in
  if is_websocket_upgrade rq then (mark_unmodelled s, Ok true) else
  let pth := if truthy (path rq) then or_empty (path rq) else [SLASH] in
  match try_route c pth with
  | Err e => (s, Err e)
  | Ok (Some j) =>
      match web_handle_request c j (set_route (Some j) s) rq with
      | (s2, Err e) => (s2, Err e)
      | (s2, Ok rq') => (set_request rq' s2, Ok false)
      end
  | Ok None =>
      if static_server c then (mark_unmodelled s, Ok true)
      else (client_queue (not_found_pkt c) s, Ok true)
  end.

(* what on_client_data does with a completed pipelined request: the route of the FIRST request serves it *)
Definition web_dispatch (c : cfg) (j : nat) (s : hstate) (pr : parser) : hstate * result (option parser) :=
  match web_handle_request c j s pr with
  | (s1, Err e) => (s1, Err e)
  | (s1, Ok pr') =>
      if is_http_1_1_keep_alive pr' then (s1, Ok None)
      else (s1, Err (HttpProtocolException 5))     (* 'Pipelined request is not keep-alive, will tear down request...' *)
  end.

(* on_client_data (route.on_client_data is the inherited identity) *)
Definition web_on_client_data (c : cfg) (s : hstate) (raw : bytes) : hstate * result unit :=
  match route s with
  | Some j =>
      if is_complete (request s) && is_http_1_1_keep_alive (request s)
      then pipeline_loop (loop_fuel s raw) (pipeline_round (web_dispatch c j)) s raw
      else (s, Ok tt)
  | None => (s, Ok tt)
  end.

(* ======================================================================================
   HttpProtocolHandler
   ====================================================================================== *)

(* _parse_first_request *)
Definition parse_first_request (c : cfg) (s : hstate) (data : bytes) : hstate * result bool :=
  match parse (request s) data with
  | Err _ => (client_queue (bad_request_pkt c) s, Err (HttpProtocolException 1))
  | Ok rq =>
      let s1 := set_request rq s in
      if negb (is_complete rq) then (s1, Ok false) else
      match http_handler_protocol rq with
      | UNKNOWN_PROTO => (client_queue (bad_request_pkt c) s1, Ok true)
      | HTTP_PROXY =>
          if has_proxy c then proxy_on_request_complete c (set_plugin PProxy s1)
          else (client_queue (bad_request_pkt c) s1, Ok true)
      | WEB_SERVER =>
          if has_web c then web_on_request_complete c (set_plugin PWeb s1)
          else (client_queue (bad_request_pkt c) s1, Ok true)
      end
  end.

(* plugin.on_client_data(raw) *)
Definition plugin_on_client_data (c : cfg) (s : hstate) (raw : bytes) : hstate * result unit :=
  match plugin s with
  | PNone => (s, Ok tt)
  | PProxy => pipeline_loop (loop_fuel s raw) (proxy_round c) s raw
  | PWeb => web_on_client_data c s raw
  end.

(* the try block of handle_data *)
Definition handle_data_try (c : cfg) (s : hstate) (data : bytes) : hstate * result bool :=
  if negb (is_complete (request s)) then
    match parse_first_request c s data with
    | (s1, Ok false) =>
        (* the fix: bytes after the end of the first request go to the plugin, like later data *)
        match plugin s1, buffer (request s1) with
        | PNone, _ => (s1, Ok false)
        | _, Some (x :: t) =>
            if is_complete (request s1) then
              match plugin_on_client_data c (set_request (clear_buffer (request s1)) s1) (x :: t) with
              | (s2, Ok _) => (s2, Ok false)
              | (s2, Err e) => (s2, Err e)
              end
            else (s1, Ok false)
        | _, _ => (s1, Ok false)
        end
    | r => r
    end
  else
    match plugin_on_client_data c s data with
    | (s1, Ok _) => (s1, Ok false)
    | (s1, Err e) => (s1, Err e)
    end.

Definition close_conn (s : hstate) : hstate :=
  match stat s with Alive => set_status Closed s | _ => s end.
Definition raise_exn (e : exn) (s : hstate) : hstate :=
  match stat s with Alive => set_status (Raised e) s | _ => s end.

(* handle_data + what BaseTcpServerHandler.handle_readables / handle_events make of its result:
   True -> teardown once the client buffer is flushed; a plain HttpProtocolException has no response()
   -> True; any other exception escapes handle_events *)
Definition handle_data (c : cfg) (s : hstate) (data : bytes) : hstate :=
  match handle_data_try c s data with
  | (s1, Ok false) => s1
  | (s1, Ok true) => close_conn s1
  | (s1, Err (HttpProtocolException _)) => close_conn s1
  | (s1, Err e) => raise_exn e s1
  end.

(* ======================================================================================
   events: one readable descriptor per handle_events call
   ====================================================================================== *)
Inductive event :=
| EClient (seg : bytes)          (* the client socket is readable and recv() returns seg *)
| EClientEof
| EUp (k : nat) (raw : bytes)    (* the socket of connection k is readable and recv() returns raw *)
| EUpEof (k : nat)
| EFlush.                        (* writable descriptors are served until nothing is left to write: the client
                                    buffer and the buffer of the CURRENT upstream (the only one watched) *)

(* get_descriptors: only the CURRENT upstream of the plugin is watched *)
Definition registered (s : hstate) (k : nat) : bool :=
  match plugin s, upstream s with
  | PNone, _ => false
  | _, Some j => Nat.eqb j k && negb (conn_closed k s)
  | _, None => false
  end.

Definition step (c : cfg) (s : hstate) (ev : event) : hstate :=
  match stat s with
  | Alive =>
      match ev with
      | EClient [] => close_conn s
      | EClient seg => handle_data c s seg
      | EClientEof => close_conn s
      | EUp k raw =>
          if registered s k then
            match raw with [] => close_conn s | _ => client_queue raw s end      (* client.queue(raw) *)
          else s                                                                  (* never selected: stays unread *)
      | EUpEof k => if registered s k then close_conn s else s
      | EFlush =>
          match upstream s with
          | Some k => if registered s k then set_conns (upd_nth k up_flush (conns s)) s else s
          | None => s
          end
      end
  | _ => s
  end.

Definition run (c : cfg) (s : hstate) (evs : list event) : hstate := fold_left (step c) evs s.

(* ======================================================================================
   observables
   ====================================================================================== *)
Definition client_stream (s : hstate) : bytes := concat (client_q s).
Definition up_stream (u : upconn) : bytes := concat (firstn (up_nsent u) (up_queued u)).   (* received by the peer *)
Definition up_all (u : upconn) : bytes := concat (up_queued u).                              (* received + still buffered *)
Definition connect_log (s : hstate) : list (bytes * Z) := map (fun u => (up_host u, up_port u)) (conns s).
Definition status_code (s : hstate) : N :=
  match stat s with Alive => 0 | Closed => 1 | Raised e => 1000 + exn_code e | Unmodelled => 9999 end.
(* a partly received request is waiting in a parser *)
Definition pending_request (s : hstate) : bool :=
  match plugin s with
  | PNone => negb (is_complete (request s)) && negb (total_size (request s) =? 0)
  | _ => match pipeline_request s with Some p => negb (is_complete p) | None => false end
  end.

(* bytes the client has sent / upstream k has emitted in an event list *)
Fixpoint client_bytes (evs : list event) : bytes :=
  match evs with
  | [] => []
  | EClient seg :: t => seg ++ client_bytes t
  | _ :: t => client_bytes t
  end.
Fixpoint up_bytes (k : nat) (evs : list event) : bytes :=
  match evs with
  | [] => []
  | EUp j raw :: t => if Nat.eqb j k then raw ++ up_bytes k t else up_bytes k t
  | _ :: t => up_bytes k t
  end.
