(* Correspondence relation for TcpConnection alone: an op list (queue / flush with a scripted send
   outcome / close) and, per op, what the real object showed afterwards. *)
From PM Require Import Lib.Bytes Net.Conn.

Fixpoint list_eqb {A} (eqb : A -> A -> bool) (x y : list A) : bool :=
  match x, y with
  | [], [] => true
  | a :: x', b :: y' => eqb a b && list_eqb eqb x' y'
  | _, _ => false
  end.

Definition conn_obs_eqb (a b : conn_obs) : bool :=
  (o_ret a =? o_ret b) && list_eqb bytes_eqb (o_buffer a) (o_buffer b) && Bool.eqb (o_has a) (o_has b)
  && (o_nsent a =? o_nsent b) && Bool.eqb (o_closed a) (o_closed b).

(* ops, per-op observations of the implementation, final bytes at the fake socket *)
Inductive conn_case := CConn (ops : list conn_op) (expected : list conn_obs) (out : bytes).

Definition check_conn_case (c : conn_case) : bool :=
  match c with
  | CConn ops expected out =>
      let '(c', obs) := conn_run new_conn ops in
      list_eqb conn_obs_eqb obs expected && bytes_eqb (sent c') out
  end.
