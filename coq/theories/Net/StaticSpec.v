(* C13 — reference specifications, written independently of the code model in Static.v:
   (1) dot-segment resolution of an absolute path with a stack (what "the path it names, after
       resolving dot-segments" means), and "inside" as a prefix relation on NAME LISTS
       (so that /srv/static_evil is not inside /srv/static);
   (2) a symlink-free file system and the way the kernel walks a path string through it
       (what open(static_server_dir + path) denotes).  Definitions only. *)
From PM Require Import Lib.Bytes Lib.PyStr Net.Static.

(* ---------- (1) dot-segment resolution ---------- *)
Definition segments (p : bytes) : list bytes := split_byte SLASH p.

(* stack: innermost name first *)
Fixpoint resolve_stack (stack : list bytes) (segs : list bytes) : list bytes :=
  match segs with
  | [] => rev stack
  | s :: rest =>
      if is_nil s || is_dot s then resolve_stack stack rest            (* "//" and "/./" name nothing *)
      else if is_dotdot s then resolve_stack (tl stack) rest           (* parent; the parent of / is / *)
      else resolve_stack (s :: stack) rest
  end.

(* the list of names from / down to the object an absolute path string names *)
Definition resolve (p : bytes) : list bytes := resolve_stack [] (segments p).

(* a proper name: non-empty, no '/', neither "." nor ".." *)
Definition proper_name (s : bytes) : bool :=
  negb (is_nil s) && negb (mem_byte SLASH s) && negb (is_dot s) && negb (is_dotdot s).

Definition names_prefix (R T : list bytes) : Prop := exists rest, T = R ++ rest.
(* the object named by [full] lies in the directory named by [dir] or below it (or is it) *)
Definition inside (dir full : bytes) : Prop := names_prefix (resolve dir) (resolve full).

Fixpoint names_prefixb (R T : list bytes) : bool :=
  match R, T with
  | [], _ => true
  | r :: R', t :: T' => bytes_eqb r t && names_prefixb R' T'
  | _ :: _, [] => false
  end.

(* ---------- (2) symlink-free file system ---------- *)
Inductive entry := EFile (content : bytes) | EDir.

(* a file system: which object (if any) sits at a list of names below / .  No symbolic links,
   no mount tricks: the parent of the object at names ++ [n] is the object at names. *)
Definition fsmap := list bytes -> option entry.

Definition PATH_MAX : nat := 4096.

(* the kernel's path walk; cur = names of the current directory, innermost first *)
Fixpoint kwalk (look : fsmap) (cur : list bytes) (segs : list bytes) : option (list bytes) :=
  match segs with
  | [] => Some cur
  | s :: rest =>
      match look (rev cur) with
      | Some EDir =>
          if is_nil s || is_dot s then kwalk look cur rest
          else if is_dotdot s then kwalk look (tl cur) rest
          else match look (rev (s :: cur)) with
               | Some _ => kwalk look (s :: cur) rest
               | None => None                                          (* ENOENT *)
               end
      | _ => None                                                      (* ENOTDIR *)
      end
  end.

(* open(p, 'rb').read() for an absolute path string: Some content, or None for every OSError
   (ENOENT, ENOTDIR, EISDIR, ENAMETOOLONG).  Relative paths depend on the working directory,
   which is not modelled: None. *)
Definition kopen (look : fsmap) (p : bytes) : option bytes :=
  if Nat.leb PATH_MAX (length p) then None
  else if negb (startswith p [SLASH]) then None
  else match kwalk look [] (segments p) with
       | Some cur => match look (rev cur) with Some (EFile c) => Some c | _ => None end
       | None => None
       end.

(* finite file systems for the correspondence: association list names -> entry *)
Fixpoint names_eqb (x y : list bytes) : bool :=
  match x, y with
  | [], [] => true
  | a :: x', c :: y' => bytes_eqb a c && names_eqb x' y'
  | _, _ => false
  end.
Fixpoint table_look (t : list (list bytes * entry)) (names : list bytes) : option entry :=
  match t with
  | [] => None
  | (k, e) :: t' => if names_eqb k names then Some e else table_look t' names
  end.

(* ---------- (3) what the client peer reads ---------- *)
(* a client reading a response off the wire: the head ends at the first empty line and is cut into
   lines (status line first); everything after it is the body *)
Definition CRLF2 : bytes := CRLF ++ CRLF.
Definition read_reply (pkt : bytes) : option (list bytes * bytes) :=
  match split_once CRLF2 pkt with
  | Some (head, body) => Some (split_all CRLF head, body)
  | None => None
  end.
(* value of the first header line "name: value" *)
Fixpoint find_header (name : bytes) (lines : list bytes) : option bytes :=
  match lines with
  | [] => None
  | l :: t => if is_prefix (name ++ [COLON; SP]) l then Some (skipn (length name + 2) l)
              else find_header name t
  end.
(* the body after undoing the content-encoding the header lines advertise *)
Definition client_body (gunz : bytes -> bytes) (hdrs : list bytes) (body : bytes) : bytes :=
  if option_eqb bytes_eqb (find_header (bs "Content-Encoding") hdrs) (Some (bs "gzip"))
  then gunz body else body.
