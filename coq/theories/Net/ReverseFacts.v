(* C12 — lemmas about Net/Reverse.v *)
From PM Require Import Lib.Bytes Lib.BytesFacts Lib.PyStr Net.Reverse.
Open Scope N_scope.

(* ------------------------------------------------------------------ bytes_eqb, dicts *)
Lemma bytes_eqb_sym x y : bytes_eqb x y = bytes_eqb y x.
Proof.
  destruct (bytes_eqb x y) eqn:E.
  - apply bytes_eqb_eq in E. subst. symmetry. apply bytes_eqb_refl.
  - destruct (bytes_eqb y x) eqn:E'; [|reflexivity].
    apply bytes_eqb_eq in E'. subst. rewrite bytes_eqb_refl in E. discriminate.
Qed.

Lemma dict_set_fresh {V} (k : bytes) (v : V) (d : dict V) :
  existsb (bytes_eqb k) (map fst d) = false -> dict_set k v d = d ++ [(k, v)].
Proof.
  induction d as [|[k' v'] d IH]; cbn [dict_set map fst existsb app]; [reflexivity|].
  intros H. apply orb_false_iff in H as [H1 H2]. rewrite H1, (IH H2). reflexivity.
Qed.

Lemma dict_set_Forall {V} (P : bytes * V -> Prop) k v (d : dict V) :
  P (k, v) -> Forall P d -> Forall P (dict_set k v d).
Proof.
  intros Hk Hd. induction d as [|[k' v'] d IH]; cbn [dict_set].
  - constructor; [assumption|constructor].
  - inversion Hd as [|? ? Ha Hr]; subst. destruct (bytes_eqb k k').
    + constructor; assumption.
    + constructor; [assumption|apply IH; assumption].
Qed.

Lemma header_key_cases (hs : dict bytes) name :
  header_key hs name = name \/ In (header_key hs name) (map fst hs).
Proof.
  unfold header_key.
  destruct (find (fun kv => bytes_eqb (lower (fst kv)) (lower name)) hs) as [kv|] eqn:E; [right|left; reflexivity].
  apply find_some in E as [Hin _]. apply in_map. exact Hin.
Qed.

(* ------------------------------------------------------------------ build_headers is a map *)
Definition hv (host : option bytes) (e : bytes * (bytes * bytes)) : bytes :=
  match host with
  | None => h_value e
  | Some v => if bytes_eqb (lower (h_orig e)) (bs "host") then v else h_value e
  end.

Lemma build_headers_fold host (h : dict (bytes * bytes)) : forall acc,
  nodup_keys (map h_orig h) = true ->
  (forall e, In e h -> existsb (bytes_eqb (h_orig e)) (map fst acc) = false) ->
  fold_left (fun acc e =>
               if existsb (bytes_eqb (lower (fst e))) [] then acc
               else dict_set (fst (snd e))
                      (match host with
                       | None => snd (snd e)
                       | Some v => if bytes_eqb (lower (fst (snd e))) (bs "host") then v else snd (snd e)
                       end) acc) h acc
  = acc ++ map (fun e => (h_orig e, hv host e)) h.
Proof.
  induction h as [|e h IH]; intros acc Hnd Hfresh; cbn [fold_left map].
  - now rewrite app_nil_r.
  - cbn [existsb]. cbn [map nodup_keys] in Hnd. apply andb_true_iff in Hnd as [Hn1 Hn2].
    apply negb_true_iff in Hn1.
    rewrite dict_set_fresh by (apply (Hfresh e); now left).
    rewrite IH.
    + rewrite <- app_assoc. reflexivity.
    + exact Hn2.
    + intros e' He'. rewrite map_app, existsb_app. cbn [map fst existsb].
      rewrite (Hfresh e') by (now right). cbn [orb]. rewrite orb_false_r.
      fold (h_orig e).
      destruct (bytes_eqb (h_orig e') (h_orig e)) eqn:E; [|reflexivity].
      apply bytes_eqb_eq in E.
      assert (Hx : existsb (bytes_eqb (h_orig e)) (map h_orig h) = true).
      { apply existsb_exists. exists (h_orig e'). split; [now apply in_map|]. rewrite E. apply bytes_eqb_refl. }
      rewrite Hx in Hn1. discriminate.
Qed.

Lemma build_headers_map host h :
  nodup_keys (map h_orig h) = true ->
  build_headers [] host h = map (fun e => (h_orig e, hv host e)) h.
Proof.
  intros Hnd. unfold build_headers. rewrite (build_headers_fold host h []); [reflexivity|exact Hnd|].
  intros e _. reflexivity.
Qed.

Lemma hv_rewrite cfg u e : hv (host_arg cfg u) e = snd (rewrite_host cfg u e).
Proof.
  unfold hv, host_arg, rewrite_host, host_value. cbn [snd].
  destruct (rewrite_host_header cfg); cbn [andb]; reflexivity.
Qed.

Lemma build_headers_rewrite cfg u h :
  nodup_keys (map h_orig h) = true ->
  build_headers [] (host_arg cfg u) h = map (rewrite_host cfg u) h.
Proof.
  intros Hnd. rewrite build_headers_map by exact Hnd. apply map_ext. intros e.
  rewrite hv_rewrite. unfold rewrite_host. reflexivity.
Qed.

(* ------------------------------------------------------------------ splitting at a byte that does not occur before *)
Lemma forallb_app_true {A} (f : A -> bool) x y : forallb f (x ++ y) = true <-> forallb f x = true /\ forallb f y = true.
Proof. rewrite forallb_app. apply andb_true_iff. Qed.

Lemma split_once_no_byte c a b :
  no_byte c a = true -> split_once [c] (a ++ c :: b) = Some (a, b).
Proof.
  induction a as [|x a IH]; intros H.
  - cbn [app split_once is_prefix]. rewrite N.eqb_refl. reflexivity.
  - cbn [no_byte forallb] in H. apply andb_true_iff in H as [Hx Ha]. apply negb_true_iff in Hx.
    cbn [app split_once is_prefix]. rewrite N.eqb_sym, Hx. cbn [andb].
    fold (no_byte c a) in Ha. rewrite (IH Ha). reflexivity.
Qed.

Lemma split_once_crlf a b :
  no_crlf a = true -> split_once CRLF (a ++ CRLF ++ b) = Some (a, b).
Proof.
  unfold no_crlf. intros H. apply andb_true_iff in H as [H13 H10]. clear H10.
  induction a as [|x a IH].
  - reflexivity.
  - cbn [no_byte forallb] in H13. apply andb_true_iff in H13 as [Hx Ha]. apply negb_true_iff in Hx.
    cbn [app]. unfold CRLF at 1. cbn [split_once is_prefix]. rewrite N.eqb_sym, Hx. cbn [andb].
    fold CRLF. fold (no_byte 13 a) in Ha. rewrite (IH Ha). reflexivity.
Qed.

Lemma no_byte_app c x y : no_byte c (x ++ y) = no_byte c x && no_byte c y.
Proof. apply forallb_app. Qed.
Lemma no_crlf_app x y : no_crlf (x ++ y) = no_crlf x && no_crlf y.
Proof.
  unfold no_crlf. rewrite !no_byte_app.
  destruct (no_byte 13 x), (no_byte 13 y), (no_byte 10 x), (no_byte 10 y); reflexivity.
Qed.

(* ------------------------------------------------------------------ optional whitespace *)
Lemma drop_ows_hd l : hd_not_ows l = true -> drop_ows l = l.
Proof. destruct l as [|x t]; cbn; [reflexivity|]. intros H. apply negb_true_iff in H. now rewrite H. Qed.

Lemma strip_ows_sp v : wf_value v = true -> strip_ows (SP :: v) = v.
Proof.
  unfold wf_value. intros H. apply andb_true_iff in H as [H H3]. apply andb_true_iff in H as [_ H2].
  unfold strip_ows. cbn [drop_ows]. change (is_ows SP) with true. cbv iota.
  rewrite (drop_ows_hd v H2), (drop_ows_hd (rev v) H3). apply rev_involutive.
Qed.

Lemma hd_not_ows_app a b : truthy a = true -> hd_not_ows a = true -> hd_not_ows (a ++ b) = true.
Proof. destruct a; cbn; [discriminate|auto]. Qed.

(* ------------------------------------------------------------------ the reference parser inverts the packet builder *)
Lemma ref_header_line k v :
  wf_header (k, v) = true -> ref_header (build_http_header k v) = Some (k, v).
Proof.
  unfold wf_header, wf_name. cbn [fst snd]. intros H. apply andb_true_iff in H as [Hk Hv].
  apply andb_true_iff in Hk as [_ Hc].
  unfold ref_header, build_http_header. cbn [app].
  rewrite (split_once_no_byte COLON k (SP :: v) Hc). rewrite (strip_ows_sp v Hv). reflexivity.
Qed.

Lemma header_line_no_crlf k v : wf_header (k, v) = true -> no_crlf (build_http_header k v) = true.
Proof.
  unfold wf_header, wf_name, wf_value. cbn [fst snd]. intros H. apply andb_true_iff in H as [Hk Hv].
  apply andb_true_iff in Hk as [Hk _]. apply andb_true_iff in Hv as [Hv _]. apply andb_true_iff in Hv as [Hv _].
  unfold build_http_header. rewrite !no_crlf_app, Hk, Hv. reflexivity.
Qed.

Lemma header_line_nonempty k v : exists x t, build_http_header k v = x :: t.
Proof. unfold build_http_header. destruct k as [|x t]; cbn [app]; eauto. Qed.

Lemma render_headers_cons k v hs :
  render_headers ((k, v) :: hs) = build_http_header k v ++ CRLF ++ render_headers hs.
Proof. unfold render_headers. cbn [flat_map fst snd]. now rewrite <- app_assoc. Qed.

Lemma render_headers_length hs : (length hs <= length (render_headers hs))%nat.
Proof.
  induction hs as [|[k v] hs IH]; [cbn; lia|].
  rewrite render_headers_cons. destruct (header_line_nonempty k v) as (x & t & E). rewrite E.
  cbn [length app]. rewrite !app_length. cbn [length]. lia.
Qed.

Lemma ref_headers_render hs body : forall fuel,
  Forall (fun kv => wf_header kv = true) hs -> (length hs < fuel)%nat ->
  ref_headers fuel (render_headers hs ++ CRLF ++ body) = Some (hs, body).
Proof.
  induction hs as [|[k v] hs IH]; intros fuel Hwf Hf.
  - destruct fuel as [|f]; [lia|]. cbn [render_headers flat_map app ref_headers].
    change (CRLF ++ body) with ([] ++ CRLF ++ body). rewrite split_once_crlf by reflexivity. reflexivity.
  - destruct fuel as [|f]; [cbn in Hf; lia|]. inversion Hwf as [|? ? Hkv Hrest]; subst.
    rewrite render_headers_cons. rewrite <- !app_assoc.
    cbn [ref_headers]. rewrite split_once_crlf by (apply header_line_no_crlf; exact Hkv).
    destruct (header_line_nonempty k v) as (x & t & E). rewrite E. rewrite <- E.
    rewrite (ref_header_line k v Hkv).
    rewrite (IH f Hrest) by (cbn in Hf; lia). reflexivity.
Qed.

Lemma ref_parse_pkt m t v hs body :
  wf_token m = true -> wf_token t = true -> wf_version v = true ->
  Forall (fun kv => wf_header kv = true) hs ->
  ref_parse (build_http_pkt [m; t; v] hs body false) = Some (mkMsg m t v hs (opt_bytes body)).
Proof.
  unfold wf_token, wf_version. intros Hm Ht Hv Hhs.
  apply andb_true_iff in Hm as [Hm Hm3]. apply andb_true_iff in Hm as [_ Hm2].
  apply andb_true_iff in Ht as [Ht Ht3]. apply andb_true_iff in Ht as [_ Ht2].
  apply andb_true_iff in Hv as [_ Hv2].
  unfold build_http_pkt, ref_parse. cbn [join].
  assert (Hline : no_crlf (m ++ [SP] ++ t ++ [SP] ++ v) = true).
  { rewrite !no_crlf_app, Hm2, Ht2, Hv2. reflexivity. }
  rewrite split_once_crlf by exact Hline.
  cbn [app]. rewrite (split_once_no_byte SP m _ Hm3). rewrite (split_once_no_byte SP t _ Ht3).
  rewrite ref_headers_render.
  - reflexivity.
  - exact Hhs.
  - pose proof (render_headers_length hs). rewrite app_length. lia.
Qed.

(* ------------------------------------------------------------------ decimal numerals are header values *)
Definition all_digits (l : bytes) : bool := forallb is_digit l.

Lemma digit_char_digit d : d < 10 -> is_digit (digit_char d) = true.
Proof.
  intros H. unfold digit_char. destruct (d <? 10) eqn:E; [|apply N.ltb_ge in E; lia].
  unfold is_digit. apply andb_true_iff. split; apply N.leb_le; lia.
Qed.

Lemma to_base10_digits fuel : forall n acc,
  all_digits acc = true -> all_digits (to_base_aux fuel 10 n acc) = true.
Proof.
  induction fuel as [|f IH]; intros n acc Hacc; cbn [to_base_aux]; [exact Hacc|].
  destruct (n <? 10) eqn:E.
  - cbn [all_digits forallb]. apply N.ltb_lt in E. rewrite (digit_char_digit n E). exact Hacc.
  - apply IH. cbn [all_digits forallb]. rewrite digit_char_digit by (apply N.mod_lt; lia). exact Hacc.
Qed.

Lemma to_base_nonempty fuel : forall base n acc, acc <> [] -> to_base_aux fuel base n acc <> [].
Proof.
  induction fuel as [|f IH]; intros base n acc Hacc; cbn [to_base_aux]; [exact Hacc|].
  destruct (n <? base); [discriminate|]. apply IH. discriminate.
Qed.

Lemma dec_of_N_digits n : all_digits (dec_of_N n) = true /\ dec_of_N n <> [].
Proof.
  unfold dec_of_N, to_base. split.
  - apply to_base10_digits. reflexivity.
  - cbn [to_base_aux]. destruct (n <? 10); [discriminate|]. apply to_base_nonempty. discriminate.
Qed.

Lemma digit_facts x : is_digit x = true -> is_ows x = false /\ (x =? 13) = false /\ (x =? 10) = false /\ (x =? 58) = false.
Proof.
  unfold is_digit, is_ows. intros H. apply andb_true_iff in H as [H1 H2].
  apply N.leb_le in H1. apply N.leb_le in H2.
  repeat split; try (apply N.eqb_neq; lia).
  apply orb_false_iff; split; apply N.eqb_neq; lia.
Qed.

Lemma all_digits_no_byte c l : all_digits l = true -> (c = 13 \/ c = 10) -> no_byte c l = true.
Proof.
  intros H Hc. unfold all_digits in H. unfold no_byte. rewrite forallb_forall in *. intros x Hx.
  destruct (digit_facts x (H x Hx)) as (_ & H13 & H10 & _). destruct Hc; subst; apply negb_true_iff; assumption.
Qed.

Lemma all_digits_hd l : all_digits l = true -> hd_not_ows l = true.
Proof.
  destruct l as [|x t]; [reflexivity|]. cbn [all_digits forallb hd_not_ows]. intros H.
  apply andb_true_iff in H as [H _]. apply negb_true_iff. now destruct (digit_facts x H).
Qed.

Lemma all_digits_rev l : all_digits l = true -> all_digits (rev l) = true.
Proof.
  unfold all_digits. rewrite !forallb_forall. intros H x Hx. apply H. now apply in_rev.
Qed.

Lemma digits_wf_value l : all_digits l = true -> wf_value l = true.
Proof.
  intros H. unfold wf_value, no_crlf.
  rewrite (all_digits_no_byte 13 l H) by auto. rewrite (all_digits_no_byte 10 l H) by auto.
  rewrite (all_digits_hd l H). rewrite (all_digits_hd (rev l) (all_digits_rev l H)). reflexivity.
Qed.

Lemma dec_of_N_wf_value n : wf_value (dec_of_N n) = true.
Proof. apply digits_wf_value. apply dec_of_N_digits. Qed.

Lemma host_value_wf u : wf_url u = true -> wf_value (host_value u) = true.
Proof.
  unfold wf_url. intros H. apply andb_true_iff in H as [H _]. apply andb_true_iff in H as [H _].
  apply andb_true_iff in H as [H _]. apply andb_true_iff in H as [H Hv].
  apply andb_true_iff in H as [Ht _]. unfold host_value.
  destruct (u_port u) as [p|]; [|now rewrite app_nil_r].
  set (h := opt_bytes (u_hostname u)) in *.
  assert (Hth : truthy h = true) by (unfold h; destruct (u_hostname u); [exact Ht|discriminate]).
  destruct (dec_of_N_digits p) as [Hd Hne].
  unfold wf_value in *. apply andb_true_iff in Hv as [Hv Hv3]. apply andb_true_iff in Hv as [Hv1 Hv2].
  rewrite !no_crlf_app, Hv1. unfold no_crlf at 1. cbn [no_byte forallb]. cbn [N.eqb negb andb].
  unfold no_crlf. rewrite (all_digits_no_byte 13 _ Hd), (all_digits_no_byte 10 _ Hd) by auto.
  rewrite (hd_not_ows_app h _ Hth Hv2).
  assert (Hr : truthy (rev (dec_of_N p)) = true).
  { destruct (rev (dec_of_N p)) eqn:E; [|reflexivity].
    apply (f_equal (@rev N)) in E. rewrite rev_involutive in E. cbn in E. contradiction. }
  assert (Hlast : hd_not_ows (rev (h ++ [COLON] ++ dec_of_N p)) = true).
  { rewrite rev_app_distr. cbn [app rev].
    apply hd_not_ows_app.
    - destruct (rev (dec_of_N p)); [discriminate|reflexivity].
    - apply hd_not_ows_app; [exact Hr|]. apply all_digits_hd, all_digits_rev, Hd. }
  rewrite Hlast. reflexivity.
Qed.

(* ------------------------------------------------------------------ the rebuilt request re-parses to [forwarded] *)
Lemma wf_request_parts req : wf_request req = true ->
  wf_token (r_method req) = true /\ wf_version (r_version req) = true /\
  Forall (fun e => wf_header (h_orig e, h_value e) = true) (r_headers req) /\
  nodup_keys (map h_orig (r_headers req)) = true.
Proof.
  unfold wf_request. intros H. apply andb_true_iff in H as [H H4]. apply andb_true_iff in H as [H H3].
  apply andb_true_iff in H as [H1 H2]. repeat split; try assumption.
  apply Forall_forall. rewrite forallb_forall in H3. exact H3.
Qed.

Lemma rewrite_host_wf cfg u hs :
  wf_url u = true ->
  Forall (fun e => wf_header (h_orig e, h_value e) = true) hs ->
  Forall (fun kv => wf_header kv = true) (map (rewrite_host cfg u) hs).
Proof.
  intros Hu H. induction H as [|e hs He _ IH]; cbn [map]; constructor; [|exact IH].
  unfold wf_header in *. cbn [fst snd] in *. apply andb_true_iff in He as [Hn Hv].
  unfold rewrite_host. cbn [fst snd]. rewrite Hn. cbn [andb].
  destruct (rewrite_host_header cfg && bytes_eqb (lower (h_orig e)) (bs "host")); [|exact Hv].
  apply host_value_wf, Hu.
Qed.

Lemma fix_content_length_wf body hs :
  Forall (fun kv => wf_header kv = true) hs ->
  Forall (fun kv => wf_header kv = true) (fix_content_length body hs).
Proof.
  intros H. unfold fix_content_length.
  destruct (opt_truthy body && negb (has_key_ci (bs "transfer-encoding") hs)); [|exact H].
  apply dict_set_Forall; [|exact H].
  unfold wf_header. cbn [fst snd]. rewrite dec_of_N_wf_value, andb_true_r.
  destruct (header_key_cases hs (bs "Content-Length")) as [E|Hin].
  - rewrite E. vm_compute. reflexivity.
  - apply in_map_iff in Hin as ((k & v) & Ek & Hin). cbn [fst] in Ek. rewrite <- Ek.
    rewrite Forall_forall in H. specialize (H _ Hin). unfold wf_header in H. cbn [fst snd] in H.
    now apply andb_true_iff in H as [H _].
Qed.

Lemma wf_token_truthy l : wf_token l = true -> truthy l = true.
Proof. unfold wf_token. intros H. apply andb_true_iff in H as [H _]. now apply andb_true_iff in H as [H _]. Qed.
Lemma wf_version_truthy l : wf_version l = true -> truthy l = true.
Proof. unfold wf_version. intros H. now apply andb_true_iff in H as [H _]. Qed.

Lemma build_forwarded cfg u req :
  wf_request req = true -> wf_url u = true -> disable_headers cfg = [] ->
  exists wire,
    build (chunk_size cfg) (disable_headers cfg) (set_path req (u_remainder u)) (host_arg cfg u) = Ok wire /\
    ref_parse wire = Some (forwarded cfg u req).
Proof.
  intros Hreq Hu Hd. destruct (wf_request_parts req Hreq) as (Hm & Hv & Hhs & Hnd).
  unfold build. cbn [set_path r_method r_version r_path r_headers].
  rewrite (wf_token_truthy _ Hm), (wf_version_truthy _ Hv). cbn [andb].
  eexists. split; [reflexivity|].
  unfold build_http_request. rewrite Hd, (build_headers_rewrite cfg u _ Hnd).
  assert (Hb : get_body_or_chunks (chunk_size cfg) (set_path req (u_remainder u))
               = get_body_or_chunks (chunk_size cfg) req) by reflexivity.
  rewrite Hb. unfold forwarded.
  apply ref_parse_pkt.
  - exact Hm.
  - unfold wf_url in Hu. apply andb_true_iff in Hu as [Hu _]. apply andb_true_iff in Hu as [Hu _].
    now apply andb_true_iff in Hu as [_ Hu].
  - exact Hv.
  - apply fix_content_length_wf, rewrite_host_wf; assumption.
Qed.

(* when the client's Content-Length is spelled canonically nothing at all changes in the header list *)
Lemma dict_set_same {V} (d : dict V) : forall k v,
  find (fun kv => bytes_eqb k (fst kv)) d = Some (k, v) -> dict_set k v d = d.
Proof.
  induction d as [|[k' v'] d IH]; intros k v; cbn [find dict_set fst]; [discriminate|].
  destruct (bytes_eqb k k') eqn:E.
  - intros H. inversion H; subst. reflexivity.
  - intros H. rewrite (IH _ _ H). reflexivity.
Qed.

(* ------------------------------------------------------------------ upstream port, as documented *)
Lemma upstream_port_spec u :
  upstream_port u =
  match u_port u with
  | Some p => if p =? 0 then (if scheme_is u HTTP_PROTO then 80 else 443) else p
  | None => if scheme_is u HTTP_PROTO then 80 else 443
  end.
Proof. unfold upstream_port, port_or. destruct (scheme_is u HTTP_PROTO), (u_port u) as [p|]; try reflexivity; destruct (p =? 0); reflexivity. Qed.

(* ------------------------------------------------------------------ random.choice *)
Lemma random_choice_in {A} (l : list A) d u : random_choice l d = Ok u -> In u l.
Proof.
  unfold random_choice. destruct (nth_error l (d mod length l)%nat) eqn:E; [|discriminate].
  intros H. inversion H; subst. eapply nth_error_In; eassumption.
Qed.

Lemma random_choice_total {A} (l : list A) d : l <> [] -> exists u, random_choice l d = Ok u.
Proof.
  intros Hl. unfold random_choice.
  destruct (nth_error l (d mod length l)%nat) eqn:E; [eauto|].
  apply nth_error_None in E. destruct l; [contradiction|].
  pose proof (Nat.mod_upper_bound d (length (a :: l))). cbn [length] in *. lia.
Qed.

(* every configured upstream of a route is reachable by some draw *)
Lemma random_choice_onto {A} (l : list A) u : In u l -> exists d, random_choice l d = Ok u.
Proof.
  intros Hin. apply In_nth_error in Hin as [n Hn]. exists n. unfold random_choice.
  assert (n < length l)%nat by (apply nth_error_Some; congruence).
  rewrite Nat.mod_small by assumption. now rewrite Hn.
Qed.

Lemma url_str_ok u : wf_url u = true -> url_str u = Ok tt.
Proof.
  unfold wf_url. intros H. apply andb_true_iff in H as [H H6]. apply andb_true_iff in H as [H H5].
  apply andb_true_iff in H as [H _]. apply andb_true_iff in H as [H _]. apply andb_true_iff in H as [_ H2].
  unfold url_str, text_. rewrite H2, H5, H6.
  destruct (opt_truthy (u_scheme u)), (opt_truthy (u_hostname u)), (opt_truthy (u_remainder u)); reflexivity.
Qed.

(* ------------------------------------------------------------------ routing *)
Section RoutingFacts.
  Variable pattern : Type.
  Variable re_match : pattern -> bytes -> bool.

  Lemma text_valid p : utf8_valid p = true -> text_ p = Ok p.
  Proof. intros H. unfold text_. now rewrite H. Qed.

  Lemma match_path_ok pat req p :
    r_path req = Some p -> utf8_valid p = true -> match_path re_match pat req = Ok (re_match pat p).
  Proof. intros Hp Hu. unfold match_path. rewrite Hp, (text_valid p Hu). reflexivity. Qed.

  Lemma routes_loop_first rts : forall req p rs st needs,
    r_path req = Some p -> utf8_valid p = true ->
    routes_loop re_match rts req rs st needs =
    match first_match re_match p rts with
    | Some r => fire r req rs st needs
    | None => (st, rs, Ok needs)
    end.
  Proof.
    induction rts as [|r rts IH]; intros req p rs st needs Hp Hu; [reflexivity|].
    cbn [routes_loop first_match find]. rewrite (match_path_ok _ req p Hp Hu).
    destruct (re_match (route_pat r) p); [reflexivity|]. apply IH; assumption.
  Qed.

  Lemma plugins_loop_fired ps : forall req p rs st needs,
    r_path req = Some p -> utf8_valid p = true ->
    plugins_loop re_match ps req rs st needs = fire_all (fired re_match p ps) req rs st needs.
  Proof.
    induction ps as [|pl ps IH]; intros req p rs st needs Hp Hu; [reflexivity|].
    cbn [plugins_loop]. rewrite (routes_loop_first _ req p rs st needs Hp Hu).
    unfold fired. cbn [flat_map]. fold (fired re_match p ps).
    destruct (first_match re_match p (p_routes pl)) as [r|].
    - cbn [app fire_all]. destruct (fire r req rs st needs) as [[st' rs'] [n'|e]]; [|reflexivity].
      apply IH; assumption.
    - cbn [app]. apply IH; assumption.
  Qed.

  (* which route wins inside one table: the first one, in table order, whose pattern matches *)
  Lemma first_match_spec p rts r :
    first_match re_match p rts = Some r ->
    exists pre post, rts = pre ++ r :: post /\ re_match (route_pat r) p = true /\
                     forall r', In r' pre -> re_match (route_pat r') p = false.
  Proof.
    induction rts as [|x rts IH]; cbn [first_match find]; [discriminate|].
    destruct (re_match (route_pat x) p) eqn:E.
    - intros H. inversion H; subst. exists [], rts. repeat split; [exact E|intros ? []].
    - intros H. destruct (IH H) as (pre & post & E1 & E2 & E3). exists (x :: pre), post.
      subst. repeat split; [exact E2|]. intros r' [<-|Hin]; [exact E|now apply E3].
  Qed.

  Lemma first_match_none p rts :
    first_match re_match p rts = None -> forall r, In r rts -> re_match (route_pat r) p = false.
  Proof. intros H r Hr. exact (find_none _ _ H r Hr). Qed.

  Lemma first_match_routes p ps pl r :
    In pl ps -> first_match re_match p (p_routes pl) = Some r ->
    existsb (fun pat => re_match pat p) (routes ps) = true.
  Proof.
    intros Hpl Hr. apply find_some in Hr as [Hin Hm]. apply existsb_exists.
    exists (route_pat r). split; [|exact Hm]. unfold routes. apply in_flat_map.
    exists pl. split; [exact Hpl|]. now apply in_map.
  Qed.

  Lemma routes_none_fired p ps :
    existsb (fun pat => re_match pat p) (routes ps) = false -> fired re_match p ps = [].
  Proof.
    intros H. unfold fired. induction ps as [|pl ps IH]; [reflexivity|]. cbn [flat_map].
    destruct (first_match re_match p (p_routes pl)) as [r|] eqn:E.
    - rewrite (first_match_routes p (pl :: ps) pl r (or_introl eq_refl) E) in H. discriminate.
    - cbn [app]. apply IH. unfold routes in *. cbn [flat_map] in H. rewrite existsb_app in H.
      now apply orb_false_iff in H as [_ H].
  Qed.

  (* ---------------------------------------------------------------- connect + forward *)
  Lemma caf_ok cfg req st u :
    choice st = Some u -> wf_url u = true -> wf_request req = true -> disable_headers cfg = [] ->
    exists h wire st',
      u_hostname u = Some h /\
      connect_and_forward cfg ConnOk (Ok tt) req st = (st', Ok tt) /\
      connect_log st' = connect_log st ++ [(h, upstream_port u)] /\
      wrap_log st' = wrap_log st ++ (if scheme_is u HTTPS_PROTO then [h] else []) /\
      upstream_ st' = Some (mkUp (h, upstream_port u) [wire] false true) /\
      client_queue st' = client_queue st /\
      ref_parse wire = Some (forwarded cfg u req).
  Proof.
    intros Hc Hu Hreq Hd.
    destruct (build_forwarded cfg u req Hreq Hu Hd) as (wire & Hb & Hp).
    pose proof Hu as Hu'. unfold wf_url in Hu'. apply andb_true_iff in Hu' as [Hu' _].
    apply andb_true_iff in Hu' as [Hu' _]. apply andb_true_iff in Hu' as [Hu' _].
    apply andb_true_iff in Hu' as [Hu' _]. apply andb_true_iff in Hu' as [Ht Hutf].
    destruct (u_hostname u) as [h|] eqn:Eh; [|discriminate]. cbn [opt_bytes opt_truthy] in *.
    exists h, wire. unfold connect_and_forward. rewrite Hc, Eh. cbn [opt_truthy opt_bytes]. rewrite Ht. cbn [negb].
    rewrite (text_valid h Hutf).
    destruct (scheme_is u HTTPS_PROTO); rewrite Hb; eexists; (split; [reflexivity|]); cbn;
      rewrite ?app_nil_r; repeat split; try reflexivity; exact Hp.
  Qed.

  (* ---------------------------------------------------------------- the property, one plugin *)
  Theorem routes_single cfg pl req p rs r u :
    r_path req = Some p -> truthy p = true -> utf8_valid p = true ->
    before_routing pl req = Some req ->
    first_match re_match p (p_routes pl) = Some r ->
    selects r req (hd O rs) u ->
    wf_url u = true -> wf_request req = true -> disable_headers cfg = [] ->
    exists h wire st',
      u_hostname u = Some h /\
      on_request_complete re_match cfg [pl] ConnOk (Ok tt) req rs init_state = (st', draws_after r rs, Ok false) /\
      connect_log st' = [(h, upstream_port u)] /\
      wrap_log st' = (if scheme_is u HTTPS_PROTO then [h] else []) /\
      upstream_ st' = Some (mkUp (h, upstream_port u) [wire] false true) /\
      client_queue st' = [] /\
      ref_parse wire = Some (forwarded cfg u req).
  Proof.
    intros Hp Htp Hutf Hbr Hfm Hsel Hu Hreq Hd.
    set (st1 := with_choice (set_route init_state) (Some u)).
    destruct (caf_ok cfg req st1 u eq_refl Hu Hreq Hd) as (h & wire & st' & Eh & Ecaf & E1 & E2 & E3 & E4 & E5).
    exists h, wire, st'. split; [exact Eh|].
    split.
    - unfold on_request_complete. rewrite Hp. unfold or_slash. cbn [opt_truthy]. rewrite Htp.
      unfold try_route. rewrite (text_valid p Hutf).
      rewrite (first_match_routes p [pl] pl r (or_introl eq_refl) Hfm).
      unfold handle_request. cbn [before_routing_all]. rewrite Hbr.
      rewrite (plugins_loop_fired [pl] req p rs _ false Hp Hutf).
      unfold fired. cbn [flat_map]. rewrite Hfm. cbn [app fire_all].
      destruct r as [pat urls|pat h0]; cbn [selects] in Hsel; cbn [fire draws_after].
      + rewrite Hsel. fold st1. rewrite Ecaf.
        assert (Hrs : route_set st' = true).
        { revert Ecaf. unfold connect_and_forward. cbn [choice st1 with_choice]. rewrite Eh. cbn [opt_truthy opt_bytes].
          destruct (truthy h); cbn [negb]; [|intros H; inversion H; subst; reflexivity].
          destruct (text_ h); [|intros H; inversion H; subst; reflexivity].
          destruct (scheme_is u HTTPS_PROTO);
            destruct (build _ _ _ _); intros H; inversion H; subst; reflexivity. }
        rewrite Hrs. reflexivity.
      + rewrite Hsel, (url_str_ok u Hu). fold st1. rewrite Ecaf.
        assert (Hrs : route_set st' = true).
        { revert Ecaf. unfold connect_and_forward. cbn [choice st1 with_choice]. rewrite Eh. cbn [opt_truthy opt_bytes].
          destruct (truthy h); cbn [negb]; [|intros H; inversion H; subst; reflexivity].
          destruct (text_ h); [|intros H; inversion H; subst; reflexivity].
          destruct (scheme_is u HTTPS_PROTO);
            destruct (build _ _ _ _); intros H; inversion H; subst; reflexivity. }
        rewrite Hrs. reflexivity.
    - rewrite E1, E2, E4. cbn. repeat split; assumption.
  Qed.
End RoutingFacts.

(* ------------------------------------------------------------------ no route, literal answers, several plugins *)
Section RoutingFacts2.
  Variable pattern : Type.
  Variable re_match : pattern -> bytes -> bool.

  Theorem no_route cfg (ps : list (plugin pattern)) co wo req rs :
    utf8_valid (or_slash (r_path req)) = true ->
    existsb (fun pat => re_match pat (or_slash (r_path req))) (routes ps) = false ->
    on_request_complete re_match cfg ps co wo req rs init_state
    = (client_queue_add init_state (NOT_FOUND_RESPONSE_PKT (server_agent cfg)), rs, Ok true).
  Proof.
    intros Hu Hn. unfold on_request_complete, try_route. rewrite (text_valid _ Hu), Hn. reflexivity.
  Qed.

  (* whatever the request (even one whose path does not decode) and whatever the connect outcome:
     without a matching route nothing is connected and no upstream object exists *)
  Theorem no_connect_without_route cfg (ps : list (plugin pattern)) co wo req rs :
    (forall t, text_ (or_slash (r_path req)) = Ok t -> existsb (fun pat => re_match pat t) (routes ps) = false) ->
    let st' := fst (fst (on_request_complete re_match cfg ps co wo req rs init_state)) in
    connect_log st' = [] /\ upstream_ st' = None /\ wrap_log st' = [].
  Proof.
    intros Hn. unfold on_request_complete, try_route.
    destruct (text_ (or_slash (r_path req))) as [t|e] eqn:E.
    - rewrite (Hn t eq_refl). cbn. auto.
    - cbn. auto.
  Qed.

  Lemma not_found_bytes agent :
    NOT_FOUND_RESPONSE_PKT agent =
    bs "HTTP/1.1 404 NOT FOUND" ++ CRLF ++ bs "Server: " ++ agent ++ CRLF ++ bs "Content-Length: 0" ++ CRLF
    ++ bs "Connection: close" ++ CRLF ++ CRLF.
  Proof. cbv -[app]. repeat rewrite <- app_assoc. cbn [app]. reflexivity. Qed.

  Theorem literal_single cfg (pl : plugin pattern) co wo req p rs pat h b :
    r_path req = Some p -> truthy p = true -> utf8_valid p = true ->
    before_routing pl req = Some req ->
    first_match re_match p (p_routes pl) = Some (Dynamic pat h) ->
    h req = Ok (DBytes b) ->
    on_request_complete re_match cfg [pl] co wo req rs init_state
    = (client_queue_add (set_route init_state) b, rs, Ok false).
  Proof.
    intros Hp Htp Hutf Hbr Hfm Hh.
    unfold on_request_complete. rewrite Hp. unfold or_slash. cbn [opt_truthy]. rewrite Htp.
    unfold try_route. rewrite (text_valid p Hutf).
    rewrite (first_match_routes _ re_match p [pl] pl _ (or_introl eq_refl) Hfm).
    unfold handle_request. cbn [before_routing_all]. rewrite Hbr.
    rewrite (plugins_loop_fired _ re_match [pl] req p rs _ false Hp Hutf).
    unfold fired. cbn [flat_map]. rewrite Hfm. cbn [app fire_all fire]. rewrite Hh. reflexivity.
  Qed.

  (* effect of the routing loops on everything but choice / client queue *)
  Definition no_conn (frs : list (route pattern)) (req : request) : Prop :=
    forall pat h a, In (Dynamic pat h) frs -> h req <> Ok (DConn a).

  Lemma fire_all_inv frs : forall req rs st needs st' rs' needs',
    no_conn frs req ->
    fire_all frs req rs st needs = (st', rs', Ok needs') ->
    connect_log st' = connect_log st /\ wrap_log st' = wrap_log st /\ upstream_ st' = upstream_ st /\
    route_set st' = route_set st /\
    (needs' = true -> (needs = true /\ choice st' = choice st) \/
                      exists r u, In r frs /\ offers r req u /\ choice st' = Some u) /\
    (needs' = false -> needs = false /\ choice st' = choice st).
  Proof.
    induction frs as [|r frs IH]; intros req rs st needs st' rs' needs' Hnc H.
    - cbn [fire_all] in H. inversion H; subst. do 4 (split; [reflexivity|]). split; auto.
    - cbn [fire_all] in H.
      assert (Hnc' : no_conn frs req) by (intros pat h a Hin; apply (Hnc pat h a); now right).
      destruct r as [pat urls|pat h]; cbn [fire] in H.
      + destruct (random_choice urls (hd O rs)) as [u|e] eqn:Erc; [|discriminate].
        destruct (IH _ _ _ _ _ _ _ Hnc' H) as (E1 & E2 & E3 & E4 & E5 & E6).
        cbn [with_choice connect_log wrap_log upstream_ route_set choice] in *.
        do 4 (split; [assumption|]). split.
        * intros Hn. right. destruct (E5 Hn) as [[_ Ec]|(r & u' & Hin & Hof & Ec)].
          -- exists (Static pat urls), u. split; [now left|]. split; [exact (random_choice_in _ _ _ Erc)|exact Ec].
          -- exists r, u'. split; [now right|]. split; assumption.
        * intros Hn. destruct (E6 Hn) as [Hx _]. discriminate.
      + destruct (h req) as [[u|b|a]|e] eqn:Eh; [| | |discriminate].
        * destruct (url_str u); [|discriminate].
          destruct (IH _ _ _ _ _ _ _ Hnc' H) as (E1 & E2 & E3 & E4 & E5 & E6).
          cbn [with_choice connect_log wrap_log upstream_ route_set choice] in *.
          do 4 (split; [assumption|]). split.
          -- intros Hn. right. destruct (E5 Hn) as [[_ Ec]|(r & u' & Hin & Hof & Ec)].
             ++ exists (Dynamic pat h), u. split; [now left|]. split; [exact Eh|exact Ec].
             ++ exists r, u'. split; [now right|]. split; assumption.
          -- intros Hn. destruct (E6 Hn) as [Hx _]. discriminate.
        * destruct (IH _ _ _ _ _ _ _ Hnc' H) as (E1 & E2 & E3 & E4 & E5 & E6).
          cbn [client_queue_add connect_log wrap_log upstream_ route_set choice] in *.
          do 4 (split; [assumption|]). split; [|exact E6].
          intros Hn. destruct (E5 Hn) as [[Hx Ec]|(r & u' & Hin & Hof & Ec)]; [left; auto|].
          right. exists r, u'. split; [now right|]. split; assumption.
        * exfalso. apply (Hnc pat h a); [now left|exact Eh].
  Qed.

  Lemma before_routing_default (ps : list (plugin pattern)) req :
    (forall pl, In pl ps -> before_routing pl req = Some req) -> before_routing_all ps req = Ok req.
  Proof.
    induction ps as [|pl ps IH]; intros H; [reflexivity|]. cbn [before_routing_all].
    rewrite (H pl (or_introl eq_refl)). apply IH. intros pl' Hin. apply H. now right.
  Qed.

  (* the property for any number of plugins: whenever a request that matches some route is handled
     without an exception, either only literal answers were produced and nothing was connected, or
     exactly one connection was made, to host:port of an upstream offered by one of the routes that
     fired, and that upstream was sent the client's request under the documented rewriting *)
  Theorem routes_sound cfg (ps : list (plugin pattern)) req p rs st' rs' td :
    r_path req = Some p -> truthy p = true -> utf8_valid p = true ->
    (forall pl, In pl ps -> before_routing pl req = Some req) ->
    no_conn (fired re_match p ps) req ->
    (forall r u, In r (fired re_match p ps) -> offers r req u -> wf_url u = true) ->
    wf_request req = true -> disable_headers cfg = [] ->
    existsb (fun pat => re_match pat p) (routes ps) = true ->
    on_request_complete re_match cfg ps ConnOk (Ok tt) req rs init_state = (st', rs', Ok td) ->
    td = false /\
    ((connect_log st' = [] /\ wrap_log st' = [] /\ upstream_ st' = None) \/
     exists r u h wire,
       In r (fired re_match p ps) /\ offers r req u /\ u_hostname u = Some h /\
       connect_log st' = [(h, upstream_port u)] /\
       wrap_log st' = (if scheme_is u HTTPS_PROTO then [h] else []) /\
       upstream_ st' = Some (mkUp (h, upstream_port u) [wire] false true) /\
       ref_parse wire = Some (forwarded cfg u req)).
  Proof.
    intros Hp Htp Hutf Hbr Hnc Hwf Hreq Hd Hex H.
    unfold on_request_complete in H. rewrite Hp in H. unfold or_slash in H. cbn [opt_truthy] in H. rewrite Htp in H.
    unfold try_route in H. rewrite (text_valid p Hutf), Hex in H.
    unfold handle_request in H. rewrite (before_routing_default ps req Hbr) in H.
    rewrite (plugins_loop_fired _ re_match ps req p rs _ false Hp Hutf) in H.
    destruct (fire_all (fired re_match p ps) req rs (set_route init_state) false) as [[st1 rs1] [needs|e]] eqn:Efa;
      [|discriminate].
    destruct (fire_all_inv _ _ _ _ _ _ _ _ Hnc Efa) as (E1 & E2 & E3 & E4 & E5 & E6).
    cbn [set_route init_state connect_log wrap_log upstream_ route_set choice] in *.
    destruct needs.
    - destruct (E5 eq_refl) as [[Hx _]|(r & u & Hin & Hof & Ec)]; [discriminate|].
      destruct (caf_ok cfg req st1 u Ec (Hwf r u Hin Hof) Hreq Hd) as (h & wire & st2 & Eh & Ecaf & F1 & F2 & F3 & F4 & F5).
      rewrite Ecaf in H.
      assert (Hrs : route_set st2 = true).
      { revert Ecaf. unfold connect_and_forward. rewrite Ec, Eh. cbn [opt_truthy opt_bytes].
        destruct (truthy h); cbn [negb]; [|intros X; inversion X; subst; exact E4].
        destruct (text_ h); [|intros X; inversion X; subst; exact E4].
        destruct (scheme_is u HTTPS_PROTO);
          destruct (build _ _ _ _); intros X; inversion X; subst; cbn; exact E4. }
      rewrite Hrs in H. inversion H; subst. split; [reflexivity|]. right.
      exists r, u, h, wire. rewrite F1, F2, E1, E2. cbn [app]. repeat split; assumption.
    - rewrite E4 in H. inversion H; subst. split; [reflexivity|]. left. auto.
  Qed.
End RoutingFacts2.

(* ------------------------------------------------------------------ the upstream's answer is relayed as received *)
Theorem response_relayed : forall segs st, upstream_ st <> None ->
  exists st', read_all (map RData segs) st = (st', Ok false) /\
              client_queue st' = client_queue st ++ segs /\
              connect_log st' = connect_log st /\ upstream_ st' = upstream_ st.
Proof.
  induction segs as [|s segs IH]; intros st Hu.
  - exists st. cbn. rewrite app_nil_r. auto.
  - cbn [map read_all]. unfold read_from_descriptors.
    destruct (upstream_ st) as [up|] eqn:E; [|contradiction]. cbn [negb].
    destruct (IH (client_queue_add st s)) as (st' & R & Q & L & U).
    { cbn. rewrite E. discriminate. }
    exists st'. rewrite R. split; [reflexivity|].
    split; [rewrite Q; cbn; rewrite <- app_assoc; reflexivity|].
    split; [rewrite L; reflexivity|]. rewrite U. cbn. exact E.
Qed.

(* ... so the client is queued the same byte stream however the upstream's answer was segmented *)
Corollary response_segmentation_independent : forall segs1 segs2 st st1 st2 r1 r2,
  upstream_ st <> None -> concat segs1 = concat segs2 ->
  read_all (map RData segs1) st = (st1, r1) -> read_all (map RData segs2) st = (st2, r2) ->
  concat (client_queue st1) = concat (client_queue st) ++ concat segs1 /\
  concat (client_queue st2) = concat (client_queue st1).
Proof.
  intros segs1 segs2 st st1 st2 r1 r2 Hu Hc H1 H2.
  destruct (response_relayed segs1 st Hu) as (s1 & R1 & Q1 & _).
  destruct (response_relayed segs2 st Hu) as (s2 & R2 & Q2 & _).
  rewrite R1 in H1. rewrite R2 in H2. inversion H1; inversion H2; subst.
  rewrite Q1, Q2, !concat_app, Hc. auto.
Qed.

(* ------------------------------------------------------------------ headers are left exactly as they were when
   the client's framing header is canonical (or there is no body to frame) *)
Lemma fix_content_length_canonical body hs k :
  find (fun kv => bytes_eqb (lower (fst kv)) (lower (bs "Content-Length"))) hs = Some (k, dec_of_N (len (opt_bytes body))) ->
  find (fun kv => bytes_eqb k (fst kv)) hs = Some (k, dec_of_N (len (opt_bytes body))) ->
  fix_content_length body hs = hs.
Proof.
  intros H1 H2. unfold fix_content_length.
  destruct (opt_truthy body && negb (has_key_ci (bs "transfer-encoding") hs)); [|reflexivity].
  unfold header_key. rewrite H1. cbn [fst]. apply dict_set_same. exact H2.
Qed.

Lemma fix_content_length_no_body hs : fix_content_length None hs = hs.
Proof. reflexivity. Qed.
